"""C15 — the observe mini-language means what its grammar and tables say."""
import json
import os
import random
import re
import sys
import time

from vlib import coqrun
from vlib.ctx import proof_gate
from vlib.term import C, Nat, Raw, coq as to_coq

sys.path.insert(0, os.path.join(coqrun.VERIF, "tools", "drivers"))
import c15_enc as enc  # noqa: E402

HEADER = ("From Coq Require Import ZArith List.\n"
          "From TV Require Import Common.Harness C15.Model C15.Law C15.Corr.")
CASE_T = "C15.Corr.case"
PROPS = ["C15/Props.v"]
DRIVER = "c15_driver.py"
KEY = {1: "reject/bracketed-anytrait", 2: "accept/outside-documented-language", 3: "compile-error/duplicate-branch",
       4: "meaning/paths-or-notify", 5: "compile-error/distinct-paths", 6: "reject/documented-string",
       7: "spelling/acceptance-differs", 8: "spelling/graphs-differ", 9: "spelling/python-eq-false",
       10: "spelling/hash-differs", 11: "exception/not-ValueError", 12: "equality/different-patterns-compare-equal",
       13: "cache/answer-changes-between-calls", 14: "entry-points/parse-and-compile_str-disagree",
       15: "removal/registered-by-one-spelling-not-removable-by-the-other",
       16: "hooks/handler-fires-for-other-traits-than-documented",
       17: "hooks/observe-raises-or-not-unlike-documented",
       18: "compile-error/repeated-alternative-without-connector",
       19: "compile-error/repeated-alternative-not-after-a-connector"}
_W = re.compile(r"\w")


# ----------------------------------------------------------------------------- terms
def text_term(s):
    return [(ord(ch), bool(_W.fullmatch(ch))) for ch in s] if s else Raw("(@nil (Z * bool))")


def node_term(n):
    k = n[0]
    if k == "N":
        return C("NNamed", list(n[1]), bool(n[2]), bool(n[3]))
    if k == "F":
        return C("NFilt", bool(n[1]), C("FAny") if n[2] == "any" else C("FMeta", list(n[2][1])))
    if k in ("D", "L", "S"):
        return C({"D": "NDict", "L": "NList", "S": "NSet"}[k], bool(n[1]), bool(n[2]))
    # an observer the model does not know: a named observer with an impossible (empty) name -> always a mismatch
    return C("NNamed", Raw("(@nil Z)"), False, False)


def graph_term(g):
    return C("G", node_term(g[0]), [graph_term(c) for c in g[1]])


def outcome_term(o):
    k = o["o"]
    if k == "rej":
        return C("Rejected")
    if k == "cerr":
        return C("CompileError")
    if k == "graphs":
        return C("Graphs", [graph_term(g) for g in o["g"]])
    return C("Crashed")


def expr_term(e):
    if e[0] == "single":
        return C("ESingle", node_term(e[1]))
    return C("ESeries" if e[0] == "series" else "EPar", expr_term(e[1]), expr_term(e[2]))


def to_term(case, ob):
    if case["kind"] == "hook":
        return C("Hook", text_term(case["s"]), bool(ob["registered"]), [int(x) for x in ob["fired"]] or Raw("(@nil Z)"))
    if case["kind"] == "expr":
        return C("ExprC", expr_term(case["e"]), outcome_term(ob))
    if case["kind"] == "single":
        return C("Single", text_term(case["s"]), outcome_term(ob), bool(ob.get("stable", True)),
                 bool(ob.get("agree", True)))
    return C("Pair", bool(case.get("same", True)), text_term(case["s1"]), text_term(case["s2"]), outcome_term(ob["o1"]), outcome_term(ob["o2"]),
             bool(ob["pyeq"]), bool(ob["hasheq"]), bool(ob.get("removal", True)))


# ----------------------------------------------------------------------------- generators
NAMES = ["a", "b", "c", "items", "item", "itemsx", "Items", "_", "_x1", "aé", "A_9", "name", "i", "x" * 12,
         "éx"[::-1], "b2", "a١", "a中", "n²", "items1", "itemsé", "_items", "Items_", "größe", "x²", "t_α", "Ünï", "anytrait", "trait", "metadata", "notify", "anytrait_", "star"]
EXTRA = list("ab_19AZz+*.:,[] \t\n\r\f") + ["items", "\x0b", "-", "(", ")", "é", "€", "١", "ß", "\u00a0", "\u0301", "#",
                                              "'", "中", "ñ", "²", "ª", "\u2028", "\x1c", "\x85", "\u200b", "‿", "\\", "\x00"]


def npaths(t):
    k = t[0]
    if k == "items":
        return 4
    if k == "series":
        return npaths(t[1]) * npaths(t[3])
    if k == "par":
        return npaths(t[1]) + npaths(t[2])
    return 1


def gen_tree(rnd, depth, terminal, doc_valid=True):
    """Random tree (see gen_tree1) denoting at most 48 paths: "items" is a four-way alternative, so a series of
    k of them denotes 4^k paths and the compiled graphs (and the cost of hashing them) grow accordingly."""
    while True:
        t = gen_tree1(rnd, depth, terminal, doc_valid)
        if npaths(t) <= 48:
            return t


def gen_tree1(rnd, depth, terminal, doc_valid=True):
    """Random tree of the documented language (star only where `terminal`); with doc_valid=False a star may
    be put anywhere."""
    r = rnd.random()
    if depth <= 0 or r < 0.30:
        k = rnd.random()
        if k < 0.12 and (terminal or not doc_valid):
            return ("any",)
        if k < 0.30:
            return ("items",)
        if k < 0.45:
            return ("meta", rnd.choice(NAMES))
        return ("trait", rnd.choice([n for n in NAMES if n != "items"]))
    if r < 0.70:
        return ("series", gen_tree1(rnd, depth - 1, False, doc_valid), rnd.choice(".:"),
                gen_tree1(rnd, depth - 1, terminal, doc_valid))
    return ("par", gen_tree1(rnd, depth - 1, terminal, doc_valid), gen_tree1(rnd, depth - 1, terminal, doc_valid))


def has_any(t):
    return t[0] == "any" or (t[0] == "series" and (has_any(t[1]) or has_any(t[3]))) or \
        (t[0] == "par" and (has_any(t[1]) or has_any(t[2])))


def render(rnd, t, ws=0.0, extra=0.0, star_in_br=True):
    """Token list of a spelling of t.  Brackets where the grammar needs them, optional redundant brackets
    (never around a part containing '*' unless star_in_br) and optional whitespace between tokens."""
    def wrap(toks, sub):
        return ["["] + toks + ["]"]

    def go(t, ctx):
        k = t[0]
        if k == "trait":
            toks = [t[1]]
        elif k == "items":
            toks = ["items"]
        elif k == "meta":
            toks = ["+", t[1]]
        elif k == "any":
            toks = ["*"]
        elif k == "series":
            toks = go(t[1], "serL") + [t[2]] + go(t[3], "serR")
        else:
            toks = go(t[1], "parL") + [","] + go(t[2], "parR")
        need = (k == "series" and ctx == "serR") or (k == "par" and ctx in ("serL", "serR", "parR"))
        if need or (extra and rnd.random() < extra and (star_in_br or not has_any(t))):
            toks = wrap(toks, t)
        return toks

    toks = go(t, "top")
    out = []
    for i, tk in enumerate(toks):
        if ws and rnd.random() < ws:
            out.append(rnd.choice([" ", "  ", "\t", "\n", " \r\n", "\f"]))
        out.append(tk)
    if ws and rnd.random() < ws:
        out.append(" ")
    # adjacent words must stay separated (cannot happen here: words are always separated by a symbol)
    return "".join(out)


def rotate(rnd, t):
    """Regroup series / parallel associations (parts containing '*' are left alone): same pattern."""
    k = t[0]
    if k == "series":
        l, c, r = rotate(rnd, t[1]), t[2], rotate(rnd, t[3])
        if l[0] == "series" and rnd.random() < 0.5 and not has_any(r):
            return ("series", l[1], l[2], ("series", l[3], c, r))          # (x.y).z -> x.[y.z]
        if r[0] == "series" and rnd.random() < 0.5:
            return ("series", ("series", l, c, r[1]), r[2], r[3])          # x.[y.z] -> (x.y).z
        return ("series", l, c, r)
    if k == "par":
        l, r = rotate(rnd, t[1]), rotate(rnd, t[2])
        if l[0] == "par" and rnd.random() < 0.5 and not has_any(r):
            return ("par", l[1], ("par", l[2], r))
        if r[0] == "par" and rnd.random() < 0.5:
            return ("par", ("par", l, r[1]), r[2])
        return ("par", l, r)
    return t


def perturb(rnd, t):
    """Change one leaf or one connector, or add / drop a parallel branch somewhere (the result denotes other paths,
    or - rarely - the same)."""
    k = t[0]
    r0 = rnd.random()
    if r0 < 0.2 and k != "any":
        return ("par", t, ("trait", "extra"))                    # a superset of the branches
    if r0 < 0.3 and k == "par":
        return t[1] if rnd.random() < 0.5 else t[2]              # a subset
    if r0 < 0.4 and k == "series" and not has_any(t[3]):
        return ("series", t[1], t[2], ("par", t[3], ("trait", "extra")))
    if r0 < 0.45 and k in ("trait", "items", "meta"):
        return ("series", t, ".", ("trait", "extra"))            # a longer path
    if k == "series":
        c = rnd.random()
        if c < 0.3:
            return ("series", t[1], ":" if t[2] == "." else ".", t[3])
        if c < 0.65:
            return ("series", perturb(rnd, t[1]), t[2], t[3])
        return ("series", t[1], t[2], perturb(rnd, t[3]))
    if k == "par":
        if rnd.random() < 0.5:
            return ("par", perturb(rnd, t[1]), t[2])
        return ("par", t[1], perturb(rnd, t[2]))
    if k == "trait":
        return ("trait", t[1] + "q")
    if k == "meta":
        return ("meta", t[1] + "q")
    if k == "items":
        return ("trait", "item")
    return ("trait", "anyq")


def star_inside_brackets(s):
    d = 0
    for ch in s:
        d += (ch == "[") - (ch == "]")
        if ch == "*" and d > 0:
            return True
    return False


def mutate(rnd, s):
    s = list(s)
    for _ in range(rnd.choice([1, 1, 2])):
        k = rnd.random()
        pos = rnd.randint(0, len(s))
        if k < 0.35 and s:
            del s[min(pos, len(s) - 1)]
        elif k < 0.75:
            s.insert(pos, rnd.choice(EXTRA))
        elif s:
            s[min(pos, len(s) - 1)] = rnd.choice(EXTRA)
    return "".join(s)


def corpus():
    """Triggers of the listed findings, the manual's examples, and minimised past failures: on every run."""
    texts = ["[a.*, b.c]", "[a:*,b]", "[*]", "a.[b,b]", "a:[items , items]", "a.[b.c,b.c]",           # findings
             "*", "name.*", "*.name", "[a, *].name", "b.*", "a.b.c", "a:b:c", "a, b", "items", "+items", "+ a",
             "container.items.value", "container:items:*", "[a,b].c", "a.[b,c]", "foo.[bar,baz]", "foo:[bar,baz]",
             "foo.+updated", "itemsa", "items a", "a b", "a1.b_2", "1a", "a.é", "aé.b", "anytrait", "a:anytrait", "[anytrait,b]:c", "anytrait.b", "+anytrait", "trait.metadata:notify", "\n", "\t ", " \r\n ",
             "größe", "x²", "t_α", "a.größe:x²", "+t_α", "[größe,x²].t_α", "", " ", "a..b", "a.",
             ".a", "[a", "a]", "[]", "a,,b", "+", "+*", "+[a]", "a.[b.c,b:c]", "[a,a].b", "a,a", "[[[[a]]]]", "a\x0bb",
             "a.[b,c].d", "a:[b,c:[d,e.f]].g",
             # branches after a connector that begin alike and differ further down or in length (distinct patterns)
             "a.[b.c,b.d]", "a:[b:c,b:d]", "a.[b.c,b]", "a.[b,b.c]", "a.[b.c.d,b.c.e]", "x.[items.p,items.q]", "a.[+m.c,+m.d]",
             "a.[b.c,b:c]", "a.[b.[c,d],b.e]", "a.[b.c,b.d].e", "r:[a.[b.c,b.d],a.[b.c,b.e]]", "a.[items,items.x].n", "*,a", "a,*", "*,*", "a.*,b:*", "a.*.b", "a.[*]", "[a,b.*]"]
    cs = [dict(kind="single", s=s) for s in texts]
    pairs = [("a.b.c", "a.[b.c]"), ("a:b.c", "a:[b.c]"), ("a,b,c", "a,[b,c]"), ("a.b", " a\t.\nb "), ("a", "[[a]]"),
             ("a.[b,c]:d", "[a].[[b],c]:[d]"), ("a.items:b", "a . items : b"), ("a.b.*", "[a.b].*"),
             ("x.+m,y", "[x.+ m],[y]")]
    cs += [dict(kind="pair", s1=a, s2=b) for a, b in pairs]
    # every whitespace character of the lexer, in leading, trailing and every inner token-boundary position
    for toks in (["a"], ["items"], ["name"], ["a", ".", "b"], ["a", ":", "items"], ["+", "m"], ["*"], ["a", ".", "*"],
                 ["[", "a", "]"], ["a", ",", "b"], ["[", "a", ",", "b", "]", ".", "c"]):
        base = "".join(toks)
        for ws in (" ", "\t", "\n", "\r", "\f", "\r\n", "\n\n"):
            for pos in range(len(toks) + 1):
                cs.append(dict(kind="pair", s1=base, s2="".join(toks[:pos]) + ws + "".join(toks[pos:])))
    diff = [("a.b", "a.c"), ("a.b", "a:b"), ("a.[b,c]", "a.[b,d]"), ("a.items", "a.item"), ("a.+m", "a.+n"), ("a.*", "a.b"),
            ("a.b.c", "a.b.d"), ("a,b", "a,c"), ("x.[a.b,c]", "x.[a:b,c]"),
            # one pattern's branches are a subset of the other's, in both orders and at several depths
            ("a.b", "a.[b,c]"), ("a.[b,c]", "a.b"), ("a.b", "a.b.c"), ("a.b.c", "a.b"), ("a", "a.b"), ("a.b", "a"),
            ("a.[b,c]", "a.[b,c,d]"), ("a.[b,c,d]", "a.[c,d]"), ("x.a.b", "x.a.[b,c]"), ("x.a.[b.c,d]", "x.a.[b.c]"),
            ("a:items", "a:items.b"), ("a.+m", "a.[+m,b]"), ("a.[b,*]", "a.*"), ("größe.x²", "größe.[x²,t_α]")]
    cs += [dict(kind="pair", same=False, s1=a, s2=b) for a, b in diff]
    return cs + expr_corpus() + hook_corpus()


def enum_trees(depth):
    """All trees of nesting depth <= depth over the leaves a, b, items, +a, * (star at any position)."""
    leaves = [("trait", "a"), ("trait", "b"), ("items",), ("meta", "a"), ("any",)]
    cur = list(leaves)
    for _ in range(depth):
        nxt = list(leaves)
        nxt += [("series", l, c, r) for l in cur for c in ".:" for r in cur]
        nxt += [("par", l, r) for l in cur for r in cur]
        cur = nxt
    return cur


def derivation_cases(rnd, ctx, quick):
    """Every derivation shape up to depth 1 (quick: plus a sample of depth 2; thorough: all 19 280 of depth 2),
    spelled with the brackets the grammar needs."""
    ts = enum_trees(1)
    d2 = enum_trees(2)[len(enum_trees(0)):]
    ts = ts + (rnd.sample(d2, 500) if quick else d2)
    ts = [t for t in ts if npaths(t) <= 48]
    ctx.count("gen:enumerated-derivations", len(ts))
    return [dict(kind="single", s=render(rnd, t)) for t in ts]


def gen_node(rnd):
    k = rnd.random()
    w = [ord(ch) for ch in rnd.choice(NAMES)]
    n, o = rnd.random() < 0.5, rnd.random() < 0.5
    if k < 0.45:
        return ["N", w, n, o]
    if k < 0.55:
        return ["F", n, "any"]
    if k < 0.70:
        return ["F", n, ["meta", w]]
    return [rnd.choice("DLS"), n, o]


def gen_expr(rnd, depth):
    r = rnd.random()
    if depth <= 0 or r < 0.3:
        return ["single", gen_node(rnd)]
    if r < 0.7:
        return ["series", gen_expr(rnd, depth - 1), gen_expr(rnd, depth - 1)]
    return ["par", gen_expr(rnd, depth - 1), gen_expr(rnd, depth - 1)]


def expr_npaths(e):
    if e[0] == "single":
        return 1
    a, b = expr_npaths(e[1]), expr_npaths(e[2])
    return a * b if e[0] == "series" else a + b


def expr_corpus():
    a, b = ["single", ["N", [97], True, False]], ["single", ["N", [98], True, False]]
    li = ["single", ["L", True, False]]
    es = [a, ["series", a, b], ["par", a, b], ["series", a, ["par", b, b]], ["series", ["par", a, a], b],
          ["series", ["series", a, li], ["series", li, b]], ["series", a, ["par", ["series", b, a], ["series", b, a]]]]
    return [dict(kind="expr", e=e, style=st) for e in es for st in (0, 1, 2)]


def hook_corpus():
    """End-to-end: which traits of the probe objects a text hooks (metadata values True, False, 0, "", (), None, absent)."""
    els = ["+tag", "+other", "+nothing", "*", "t_true", "t_false", "t_none", "t_absent", "[+tag,t_absent]", "[+tag,+other]",
           "t_zero,*", "items"]
    texts = list(els) + ["child"] + ["child%s%s" % (c, e) for c in ".:" for e in els if e != "t_zero,*"]
    texts += ["+tag,+other", "t_true,child:+tag", "+tag,child.+tag", " + tag ", "child : + tag", "child.[+tag , t_none]",
              "child:[t_absent,+other]", "*,child:*", "t_other,+other",
              # further shapes decided by the model's walk (Model.hook_graph); texts that put a pattern below a trait
              # holding a number are left out: changing that number makes the maintainer hook an int (C08's domain)
              "child.child", "child.nope", "nope", "nope.t_true", "child.items", "child:t_true,child.t_false",
              "[child:t_true,child.t_false]", "child.[+tag,+other,t_none]", "[child].[t_zero]", "child:[t_true,+tag],child.*",
              # "items" at run time: list, dict, set, a HasTraits object without a trait named items, errors on containers
              "kids", "kids.items", "kids:items", "kids.items.t_zero", "kids:items:+tag", "kids.items:*", "table.items",
              "table:items.+other", "table.items:t_none", "group.items", "group:items:t_true", "group.items.+tag",
              "[kids,table,group].items", "[kids,table,group]:items:+tag", "child.items", "child.items.t_true",
              "kids.t_true", "kids.+tag", "kids.*", "table.nope", "group:*", "kids.items.items", "kids.items.nope",
              "[child,kids].items", "items.t_true", "kids . items . [t_true , +other]", "[kids.items,child].t_empty"]
    return [dict(kind="hook", s=t) for t in texts]


def gen_cases(rnd, ctx, n):
    cs = []
    for _ in range(n):
        r = rnd.random()
        if r < 0.10:
            while True:
                e = gen_expr(rnd, rnd.randint(0, 4))
                if expr_npaths(e) <= 48:
                    break
            cs.append(dict(kind="expr", e=e, style=rnd.randint(0, 2)))
            ctx.count("gen:expression-api")
            continue
        r = (r - 0.10) / 0.90
        if r < 0.30:
            t = gen_tree(rnd, rnd.randint(1, 5), True)
            cs.append(dict(kind="single", s=render(rnd, t, ws=rnd.choice([0, 0, 0.3]), extra=rnd.choice([0, 0.2]))))
            ctx.count("gen:documented-language")
        elif r < 0.40:
            t = gen_tree(rnd, rnd.randint(1, 4), True, doc_valid=False)
            cs.append(dict(kind="single", s=render(rnd, t, ws=rnd.choice([0, 0.2]))))
            ctx.count("gen:star-anywhere")
        elif r < 0.62:
            t = gen_tree(rnd, rnd.randint(1, 4), True)
            cs.append(dict(kind="single", s=mutate(rnd, render(rnd, t, ws=rnd.choice([0, 0.2]), extra=0.1))))
            ctx.count("gen:mutated")
        elif r < 0.72:
            cs.append(dict(kind="single", s="".join(rnd.choice(EXTRA) for _ in range(rnd.randint(1, 18)))))
            ctx.count("gen:random-characters")
        elif r < 0.80:
            cs.append(dict(kind="single", s="".join(rnd.choice(enc.ALPHABET) for _ in range(rnd.randint(7, 16)))))
            ctx.count("gen:random-symbols")
        elif r < 0.83:
            # a group after a connector whose branches share their first element(s) and differ further down
            head = gen_tree(rnd, rnd.randint(0, 1), False)
            tails = [gen_tree(rnd, rnd.randint(0, 2), True) for _ in range(rnd.randint(2, 3))]
            branches = [("series", head, rnd.choice(".:") if rnd.random() < 0.3 else ".", tl) for tl in tails]
            if rnd.random() < 0.3:
                branches.append(head)
            grp = branches[0]
            for b in branches[1:]:
                grp = ("par", grp, b)
            t = ("series", gen_tree(rnd, 0, False), rnd.choice(".:"), grp)
            if npaths(t) <= 48:
                cs.append(dict(kind="single", s=render(rnd, t, ws=rnd.choice([0, 0.2]))))
                ctx.count("gen:common-head-branches")
        elif r < 0.86:
            # two different patterns: one leaf or connector of the tree changed
            t = gen_tree(rnd, rnd.randint(1, 4), True)
            cs.append(dict(kind="pair", same=False, s1=render(rnd, t), s2=render(rnd, perturb(rnd, t))))
            ctx.count("gen:two-different-patterns")
        else:
            # both spellings must stay inside the parser's language: no '*' inside (needed) brackets (F10)
            while True:
                t = gen_tree(rnd, rnd.randint(1, 5), True)
                s1 = render(rnd, t, star_in_br=False)
                s2 = render(rnd, rotate(rnd, t), ws=rnd.choice([0, 0.4]), extra=rnd.choice([0, 0.3, 0.6]),
                            star_in_br=False)
                if not star_inside_brackets(s1) and not star_inside_brackets(s2):
                    break
            cs.append(dict(kind="pair", s1=s1, s2=s2))
            ctx.count("gen:two-spellings")
    return cs


# ----------------------------------------------------------------------------- embedded cases
def describe(case, ob, code):
    which = 2 if 20 < code < 40 else 1
    clause = code - 20 if 20 < code < 40 else code
    if case["kind"] == "hook":
        return "text %r registered on the probe objects: %s (fired for %r; 32*object + index, 1000 + code = reported for a replaced object; objects 0 root, 1 child, " \
               "2 kids list, 3-4 its items, 5 table dict, 6 its value, 7 group set, 8 its item; index 0-7 t_true t_false t_zero " \
               "t_empty t_tuple t_none t_absent t_other, 8 child, 9 the container itself, 10 kids, 11 table, 12 group, 13 trait_added, " \
               "14 trait_modified, 16 zz_new)" % (
                   case["s"], KEY.get(clause, clause), ob.get("fired"))
    if case["kind"] == "expr":
        return "expression %s built through the API (style %d): %s (compile_expr: %s)" % (
            json.dumps(case["e"]), case.get("style", 0), KEY.get(clause, clause), json.dumps(ob)[:300])
    if case["kind"] == "single":
        txt, o = case["s"], ob
    else:
        txt, o = (case["s1"], ob["o1"]) if which == 1 else (case["s2"], ob["o2"])
    if clause in (7, 8, 9, 10, 12, 15):
        return "texts %r and %r (%s): %s (outcomes %s / %s, python == %s, hashes equal %s)" % (
            case["s1"], case["s2"], "two spellings of one expression" if case.get("same", True) else "different patterns",
            KEY[clause], ob["o1"]["o"], ob["o2"]["o"], ob["pyeq"], ob["hasheq"])
    return "text %r: %s (implementation: %s)" % (txt, KEY.get(clause, clause), json.dumps(o)[:300])


def evaluate(ctx, cases, tag):
    rc, obs, err = ctx.run_driver(DRIVER, dict(mode="cases", cases=cases))
    if rc != 0 or obs is None or len(obs) != len(cases):
        return None, None, None, None, "driver failed rc=%s: %s" % (rc, err[-1500:])
    terms = [to_term(c, o) for c, o in zip(cases, obs)]
    try:
        corr, law, fuel = coqrun.eval_cases(ctx.scratch, tag, HEADER, CASE_T, terms,
                                            ["corr_codes", "law_codes", "fuel_codes"], shard=1200)
    except coqrun.CoqError as e:
        return obs, None, None, None, "%s\n%s" % (e, e.log)
    return obs, corr, law, fuel, None


def shrink(ctx, case, clause):
    """Delete characters while the same law clause keeps failing (single texts only)."""
    if case["kind"] != "single":
        return case, None
    best, best_ob = case, None
    for rnd_ in range(25):
        s = best["s"]
        if len(s) <= 1:
            break
        cands = [dict(kind="single", s=s[:i] + s[i + 1:]) for i in range(len(s))]
        obs, corr, law, fuel, err = evaluate(ctx, cands, "shrink%d" % rnd_)
        if err:
            break
        hit = next((i for i, code in law if code == clause), None)
        if hit is None:
            break
        best, best_ob = cands[hit], obs[hit]
    return best, best_ob


def run_cases(ctx, cases, tag, relation):
    obs, corr, law, fuel, err = evaluate(ctx, cases, tag)
    if err:
        ctx.obligation("correspondence " + relation, False, err[-800:])
        ctx.fail("harness/" + tag, "correspondence %s could not be evaluated: %s" % (relation, err[-400:]),
                 dict(relation=relation, error=err[-2000:]), no_input=True)
        return -1
    for c, o in zip(cases, obs):
        if c["kind"] == "hook":
            ctx.case_seen("h:" + c["s"], bool(o["registered"]))
            ctx.count("hook:" + ("registered" if o["registered"] else "not-registered:" + o.get("exc", "")))
        elif c["kind"] == "expr":
            ctx.case_seen("e:%d:%s" % (c.get("style", 0), json.dumps(c["e"])), True)
            ctx.count("outcome-expr:" + o["o"])
        elif c["kind"] == "single":
            ctx.case_seen("s:" + c["s"], o["o"] != "rej")
            ctx.count("outcome:" + o["o"])
        else:
            ctx.case_seen("p:" + c["s1"] + "|" + c["s2"], o["o1"]["o"] != "rej")
            ctx.count("outcome-pair:" + o["o1"]["o"])
            if o.get("removal_checked"):
                ctx.count("pair:registered-by-one-spelling-and-removed-by-the-other")
    ctx.cov["traces_validated_against_impl"] += len(cases)
    law_idx = set()
    seen = set()
    for i, code in sorted(law):
        law_idx.add(i)
        clause = code - 20 if 20 < code < 40 else code
        key = KEY.get(clause, "clause%d" % clause)
        if clause == 3:
            # the listed finding is the uniqueness check of ObserverGraph.__init__; any other refusal gets its own key
            o = obs[i] if cases[i]["kind"] != "pair" else (obs[i]["o2"] if 20 < code < 40 else obs[i]["o1"])
            if o.get("msg") == "other":
                key = "compile-error/repeated-alternative-after-connector/other-message"
        if key in seen:
            continue
        seen.add(key)
        known = any(e.get("status") == "known" and e.get("key") == key for e in ctx.known)
        case, ob, cd = cases[i], obs[i], code
        if not known and not ctx.replay:
            c2, o2 = shrink(ctx, case, code)
            if o2 is not None:
                case, ob = c2, o2
        ctx.fail(key, describe(case, ob, cd),
                 dict(kind="law-failure-on-implementation", clause=clause, case=case, impl_obs=ob))
    bad = sorted(set(i for i, _ in corr) - law_idx)
    ctx.obligation("correspondence " + relation, not corr,
                   "%d of %d cases disagree" % (len(set(i for i, _ in corr)), len(cases)) if corr else
                   "model = implementation on %d cases" % len(cases))
    if bad:
        i = bad[0]
        ctx.fail("corr/compile_str", "model and implementation disagree on %d texts, e.g. %r; the law holds on the "
                 "implementation's observation there, so the property is no longer shown" % (
                     len(bad), cases[i].get("s", cases[i].get("s1", cases[i].get("e")))),
                 dict(kind="correspondence-broken", relation=relation, case=cases[i], impl_obs=obs[i]), no_input=True)
    if fuel:
        i = fuel[0][0]
        ctx.fail("model/fuel", "the model's parser answer depends on its fuel for %r" % (cases[i],),
                 dict(kind="model-defect", case=cases[i]), no_input=True)
    ctx.obligation("parser fuel sufficient on all embedded cases (answer unchanged with twice the fuel)", not fuel)
    return len(law) + len(corr)


# ----------------------------------------------------------------------------- grids
def grid_shards(L, lo, hi, per=20):
    """Shards covering indices [lo, hi) of length L in blocks of 1000 (+ one short block)."""
    out, i = [], lo
    while i < hi:
        nb = min(per, (hi - i) // 1000)
        if nb == 0:
            out.append(dict(L=L, start=i, bs=hi - i, nb=1))
            break
        out.append(dict(L=L, start=i, bs=1000, nb=nb))
        i += nb * 1000
    return out


def run_grid(ctx, shards, tag, per_file=1):
    """Driver digests per block; Coq recomputes them from the model over the same enumeration and evaluates
    the law on every string.  Blocks whose digests differ are re-run as embedded cases."""
    rc, res, err = ctx.run_driver(DRIVER, dict(mode="grid", shards=shards, procs=12), timeout=1500)
    if rc != 0 or res is None or len(res) != len(shards):
        ctx.obligation("correspondence grid " + tag, False, err[-800:])
        ctx.fail("harness/grid-" + tag, "grid driver failed rc=%s: %s" % (rc, err[-400:]), dict(error=err[-2000:]),
                 no_input=True)
        return
    files = []
    for k in range(0, len(shards), per_file):
        body = [HEADER, "Import ListNotations.", "Open Scope Z_scope.", "Set Printing Width 1000000.",
                "Set Printing Depth 1000000."]
        for sh, r in zip(shards[k:k + per_file], res[k:k + per_file]):
            body.append("Eval vm_compute in (diff_blocks 0 (grid_digests %d%%nat %d (Z.to_nat %d) (Z.to_nat %d)) %s)." % (
                sh["L"], sh["start"], sh["bs"], sh["nb"], to_coq(list(r["digests"]))))
            body.append("Eval vm_compute in (grid_law %d%%nat %d (Z.to_nat %d))." % (
                sh["L"], sh["start"], sh["bs"] * sh["nb"]))
        files.append(("grid_%s_%03d.v" % (tag, k), "\n".join(body) + "\n", k))

    import concurrent.futures

    def one(f):
        return f, coqrun.run_script(ctx.scratch, f[0], f[1], timeout=1200)

    bad_blocks, lawfail, n_strings, broken = [], [], 0, None
    with concurrent.futures.ThreadPoolExecutor(max_workers=14) as ex:
        for (name, _text, k), (rc2, out, err2, _secs) in ex.map(one, files):
            lists = coqrun.parse_pair_lists(out) if rc2 == 0 else []
            group = shards[k:k + per_file]
            if rc2 != 0 or len(lists) != 2 * len(group):
                broken = (name, (out + err2)[-1500:])
                continue
            for j, sh in enumerate(group):
                for b, _ in lists[2 * j]:
                    bad_blocks.append((sh, b))
                lawfail += [(sh["L"], i, code) for i, code in lists[2 * j + 1]]
    if broken:
        ctx.obligation("correspondence grid " + tag, False, broken[1][-600:])
        ctx.fail("harness/grid-" + tag, "grid file %s does not evaluate: %s" % (broken[0], broken[1][-300:]),
                 dict(error=broken[1]), no_input=True)
        return
    for sh, r in zip(shards, res):
        n = sh["bs"] * sh["nb"]
        n_strings += n
        ctx.cov["evaluations"] += n - len(r["accepted"]) - len(r["cerr"])
        for i in r["accepted"] + r["cerr"]:
            ctx.case_seen("g:%d:%d" % (sh["L"], i), True)
        ctx.count("grid:length-%d" % sh["L"], n)
        ctx.count("grid-outcome:graphs", len(r["accepted"]))
        ctx.count("grid-outcome:cerr", len(r["cerr"]))
        ctx.count("grid-outcome:crash", len(r["other"]))
    ctx.cov["traces_validated_against_impl"] += n_strings
    ctx.obligation("correspondence grid %s (block digests of compile_str over %d strings)" % (tag, n_strings),
                   not bad_blocks, "%d blocks differ" % len(bad_blocks) if bad_blocks else "all block digests equal")
    badset = set()
    redo = []
    for sh, b in bad_blocks[:6]:
        lo = sh["start"] + b * sh["bs"]
        badset.add((sh["L"], lo, lo + sh["bs"]))
        redo += [dict(kind="single", s=enc.grid_string(sh["L"], i)) for i in range(lo, lo + sh["bs"])]
    if redo:
        found = run_cases(ctx, redo, "gridredo_" + tag, "C15.Corr.corr_codes on the blocks whose digests differ")
        if found == 0:
            ctx.fail("corr/grid-digest", "block digests differ (%s) but the embedded re-run found no difference" % tag,
                     dict(blocks=[(sh, b) for sh, b in bad_blocks[:6]]), no_input=True)
    seen = set()
    for L, i, code in sorted(lawfail):
        if any(L == bl and lo <= i < hi for bl, lo, hi in badset):
            continue
        ctx.count("grid-law:" + KEY.get(code, str(code)))
        key = KEY.get(code, "clause%d" % code)
        if key in seen:
            continue
        seen.add(key)
        s = enc.grid_string(L, i)
        ctx.fail(key, "text %r: %s (the implementation's outcome equals the model's: block digests agree)" % (s, key),
                 dict(kind="law-failure-on-implementation", clause=code, case=dict(kind="single", s=s)))


def windows(rnd, L, n):
    top = enc.BASE ** L
    return [dict(L=L, start=rnd.randrange(0, top - 1000), bs=1000, nb=1) for _ in range(n)]


# ----------------------------------------------------------------------------- the grammar that was transcribed
# What C15/Law.v (D_elem / D_ser / D_par at doc = false) and C15/Model.v (lexer) transcribe.  Read from the tree under
# test on every run, fail-closed: (a) the rule and terminal tables serialised inside _generated_parser.py, (b) the
# rules of _dsl_grammar.lark with comments removed.  The LALR action table itself stays a black box.
def _r(origin, expansion, expand1):
    return [origin, [[n, "Terminal" if n.isupper() else "NonTerminal", f] for n, f in expansion], expand1, None, False]


_E, _S, _A = ("element", False), ("series", False), ("anytrait", False)
EXPECTED_TABLES = {
    "terminals": [["WS", "PatternRE", "(?:[ \t\x0c\r\n])+", [], 0], ["NAME", "PatternRE", "[a-zA-Z_]\\w*", [], 0],
                  ["ITEMS", "PatternStr", "items", [], 0], ["PLUS", "PatternStr", "+", [], 0],
                  ["STAR", "PatternStr", "*", [], 0], ["DOT", "PatternStr", ".", [], 0], ["COLON", "PatternStr", ":", [], 0],
                  ["LSQB", "PatternStr", "[", [], 0], ["RSQB", "PatternStr", "]", [], 0], ["COMMA", "PatternStr", ",", [], 0]],
    "rules": [
        _r("trait", [("NAME", False)], False),                                   # De_trait (and De_items' counterpart)
        _r("items", [("ITEMS", True)], False),                                   # De_items
        _r("metadata", [("PLUS", True), ("NAME", False)], False),                # De_meta
        _r("anytrait", [("STAR", True)], False),                                 # De_any
        _r("notify", [("DOT", True)], False), _r("quiet", [("COLON", True)], False),          # TC CDot / TC CColon
        _r("element", [("trait", False)], True), _r("element", [("items", False)], True),
        _r("element", [("metadata", False)], True),
        _r("element", [("LSQB", True), ("parallel", False), ("RSQB", True)], True),           # De_br (doc = false)
        _r("series", [_S, ("notify", False), _E], True), _r("series", [_S, ("quiet", False), _E], True),   # Ds_cons
        _r("series", [_E], True),                                                               # Ds_one
        _r("parallel", [("parallel", False), ("COMMA", True), _S], True), _r("parallel", [_S], True),      # Dp_cons / Dp_one
        _r("series_terminal", [_S, ("notify", False), _E], True), _r("series_terminal", [_S, ("notify", False), _A], True),
        _r("series_terminal", [_S, ("quiet", False), _E], True), _r("series_terminal", [_S, ("quiet", False), _A], True),
        _r("series_terminal", [_E], True), _r("series_terminal", [_A], True),                   # D_ser _ true
        _r("parallel_terminal", [("parallel_terminal", False), ("COMMA", True), ("series_terminal", False)], True),
        _r("parallel_terminal", [("series_terminal", False)], True),                            # D_par _ true
        _r("start", [("parallel_terminal", False)], True)],
    "ignore": ["WS"], "lexer_type": "contextual", "g_regex_flags": 0, "start": ["start"], "parser_type": "lalr",
    "options": {"keep_all_tokens": False, "maybe_placeholders": False, "regex": False, "lexer": "contextual",
                "parser": "lalr", "start": ["start"], "postlex": None, "transformer": None, "tree_class": None,
                "priority": "normal"},
    "n_rules_memo": 24,
}
EXPECTED_LARK = [
    'trait: NAME', 'items: "items"', 'metadata: "+" NAME', 'anytrait: "*"', 'notify: "."', 'quiet: ":"',
    '?element: trait | items | metadata | "[" parallel "]"', '?series: (series (notify | quiet))? element',
    '?parallel: (parallel ",")? series', '?series_terminal : (series (notify | quiet))? (element | anytrait)',
    '?parallel_terminal : (parallel_terminal ",")? series_terminal', '?start: parallel_terminal',
    'NAME: /[a-zA-Z_]\\w*/', '%import common.WS', '%ignore WS']


def check_grammar(ctx):
    from vlib import build_impl
    rc, tabs, err = ctx.run_driver(DRIVER, dict(mode="grammar"))
    diff = None
    if rc != 0 or tabs is None:
        diff = "cannot read the tables of _generated_parser.py: " + err[-300:]
    else:
        for k in EXPECTED_TABLES:
            if tabs.get(k) != EXPECTED_TABLES[k]:
                if k in ("rules", "terminals"):
                    bad = [x for x in tabs.get(k, []) if x not in EXPECTED_TABLES[k]] + \
                          [x for x in EXPECTED_TABLES[k] if x not in tabs.get(k, [])]
                    diff = "%s differ: %s" % (k, json.dumps(bad)[:400])
                else:
                    diff = "%s = %r, transcribed as %r" % (k, tabs.get(k), EXPECTED_TABLES[k])
                break
    ctx.obligation("transcription: the 24 rules / 10 terminals / lexer options serialised in _generated_parser.py are "
                   "the ones Law.v and Model.v transcribe", diff is None, diff or "equal")
    if diff:
        ctx.fail("grammar/tables-in-generated-parser-changed", "the grammar inside _generated_parser.py is no longer the "
                 "one the Coq development transcribes (%s): the theorems speak about another grammar" % diff,
                 dict(kind="transcription-broken", diff=diff), no_input=True)
    path = os.path.join(build_impl.REPO, "traits", "observation", "_dsl_grammar.lark")
    try:
        lines = [" ".join(ln.split("//")[0].split()) for ln in open(path, encoding="utf-8")]
        lines = [ln for ln in lines if ln]
    except OSError as e:
        lines = ["unreadable: %s" % e]
    same = lines == EXPECTED_LARK
    ctx.obligation("transcription: rules of _dsl_grammar.lark (comments removed) are the ones Law.v transcribes", same,
                   "equal" if same else "differs: " + json.dumps([x for x in lines if x not in EXPECTED_LARK] +
                                                                  [x for x in EXPECTED_LARK if x not in lines])[:400])
    if not same:
        ctx.fail("grammar/lark-source-changed", "_dsl_grammar.lark is no longer the grammar transcribed in C15/Law.v",
                 dict(kind="transcription-broken", lines=lines), no_input=True)


# ----------------------------------------------------------------------------- entry
def run(ctx):
    ok, log = ctx.proofs(PROPS)
    ctx.cov["trusted_base"] += [
        "tools/drivers/c15_driver.py (observer objects -> node terms, parse/compile_str outcome classes), "
        "tools/drivers/c15_enc.py (grid enumeration, outcome encoding, 63-bit digest; mirrored in C15/Corr.v) and "
        "tools/props/c15.py (generators, text -> (code point, \\w?) pairs)",
        "modelled, not verified: traits/observation/_generated_parser.py (Lark LALR tables and contextual lexer) - a "
        "black box tied by the exhaustive/random correspondence; Python's re \\w on non-ASCII characters is an input "
        "(sampled); a digest collision (63 bit) could hide a disagreement inside a grid block",
        "Uint63 primitive integers are used by C15/Corr.v for the grid digests only (no theorem depends on them)",
    ]
    ctx.cov["rule"] = ("exhaustive strings over the 13-symbol alphabet {a b items + * . : , [ ] space e-acute 1} (quick: all "
                       "lengths <= 5 and random windows of lengths 6-8; thorough: all lengths <= 6 and more windows), "
                       "compared through block digests of the full compile_str outcome (reject / compile error / graphs "
                       "with every node field), the law evaluated on every string; plus embedded cases: corpus, random "
                       "derivations of the documented language rendered with random whitespace and redundant brackets, "
                       "star-anywhere trees, mutated renderings, random character strings (incl. digits, upper case, "
                       "non-ASCII word and non-word characters, all whitespace kinds), every derivation shape to depth 1 (thorough: 2), "
                       "two-spelling pairs, different-pattern pairs, expressions built through the Python API (then, |, join, "
                       "chaining methods; compile_expr), stability of the answer across calls / observe use / cache drops; "
                       "non-trivial = "
                       "the text is accepted by parse; distinct = distinct texts")
    rnd = random.Random(ctx.seed)
    if ctx.replay:
        rep = json.load(open(ctx.replay))["replay"]
        if "case" in rep:
            run_cases(ctx, [rep["case"]], "replay", "C15.Corr.corr_codes (replay)")
        proof_gate(ctx, ok, log, PROPS)
        return
    quick = ctx.tier == "quick"
    # embedded cases first (corpus includes the triggers of the listed findings)
    t0 = time.time()
    cases = corpus() + derivation_cases(rnd, ctx, quick) + gen_cases(rnd, ctx, 900 if quick else 12000)
    for c in cases[:2] + cases[-2:]:
        ctx.sample(c)
    run_cases(ctx, cases, "cases", "C15.Corr.corr_codes (Model.compile_str = parse/compile_str on every text)")
    # exhaustive grids: lengths <= 5 always; thorough: length 6 in seed-shuffled batches while the time budget lasts
    shards = []
    for L in range(0, 6):
        shards += grid_shards(L, 0, enc.BASE ** L)
    t1 = time.time()
    run_grid(ctx, shards, "exhaustive_le_5", per_file=1 if quick else 4)
    top, done6, all6 = 5, 0, 0
    if not quick:
        s6 = grid_shards(6, 0, enc.BASE ** 6)
        all6 = len(s6)
        rnd.shuffle(s6)
        k = 0
        while k < len(s6) and time.time() - ctx.t0 < 400 and not ctx.violations:
            run_grid(ctx, s6[k:k + 64], "exhaustive_6_%03d" % (k // 64), per_file=4)
            k += 64
        done6 = min(k, len(s6))
        top = 6 if done6 == all6 else 5
        if done6 < all6:
            ctx.notes.append("machine slow: %d of %d shards (20 000 strings each, seed-shuffled) of length 6 evaluated "
                             "within the time budget" % (done6, all6))
    t2 = time.time()
    win = []
    budget_left = (80 if quick else 690) - (time.time() - ctx.t0)
    for L, n in ((6, 20), (7, 15), (8, 5)) if quick else ((7, 500), (8, 200), (9, 100)):
        win += windows(rnd, L, n if budget_left > (25 if quick else 240) else max(2, n // 10))
    if budget_left <= (25 if quick else 240):
        ctx.notes.append("machine slow (%.0f s used before the random windows): number of windows cut to a tenth" % (
            time.time() - ctx.t0))
    run_grid(ctx, win, "windows", per_file=8 if quick else 40)
    ctx.cov["timing_s"] = dict(embedded_cases=round(t1 - t0, 1), exhaustive_grid=round(t2 - t1, 1),
                               windows=round(time.time() - t2, 1))
    check_grammar(ctx)      # last, so that concrete failing texts are reported before the transcription mismatch
    ctx.cov["exhaustive"] = True
    ctx.cov["exhaustive_bound"] = "all strings of length <= %d over the 13-symbol alphabet (%d strings)%s" % (
        top, sum(enc.BASE ** L for L in range(top + 1)),
        "" if quick or done6 == all6 else " + %d of %d shards of length 6" % (done6, all6))
    proof_gate(ctx, ok, log, PROPS)
