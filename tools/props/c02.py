"""C02 — change handlers fire exactly once per real change, with truthful old/new."""
import json
import random

from vlib import hist
from vlib.ctx import proof_gate
from vlib.term import C, Nat, Raw, Some, coq, opt

HEADER = "From Coq Require Import ZArith List.\nFrom TV Require Import Common.Harness C02.Model C02.Law C02.Dyn C02.Corr."
CASE_T = "C02.Corr.case"
PROPS = ["C02/Props.v"]
DRIVER = "c02_driver.py"
CLAUSE = {2: "called-without-change", 3: "called-for-rejected-or-read", 4: "change-not-notified",
          5: "assignment-undone", 6: "old-new-untruthful", 7: "mechanisms-disagree"}
NPOOL, REJ, ALIAS = 25, 9, 10
ARRAYS = [20, 21, 22, 23, 24]      # numpy arrays: two equal one-element ones, another one-element one, two equal two-element ones
DRANGE_OK, DRANGE_REJ, DRANGE_DEFAULT = [12, 16, 17, 18], 19, 17     # dynamic Range(0..10, value=5): ints in / out of range
POOL_NAMES = ["Eq(1)#a", "Eq(1)#b", "Eq(2)", "nan#a", "nan#b", "EqRaises", "None", "[1]#a", "[1]#b", "rejected", "converted-to-Eq(1)#a",
              "Incoherent", "0", "0.0", "ArrayLike(no truth value)", "BadRepr(str/repr raise)", "3", "5", "7", "99",
              "array([2.5])#a", "array([2.5])#b", "array([3.5])", "array([1.,2.])#a", "array([1.,2.])#b"]
MECH = {"any": "StaticAny", "changed": "StaticChanged", "fired": "StaticFired", "otc": "Otc", "otcany": "OtcAny",
        "obs": "Observe", "dotc": "Otc", "dobs": "Observe", "otcm": "Otc", "obsm": "Observe"}
ONCE = ("otc_once", "otcany_once", "obs_once")      # handlers that unregister themselves while being notified
MECH.update({"otc_once": "Otc", "otcany_once": "OtcAny", "obs_once": "Observe"})
OBJ_LEVEL = ("otcany", "otcany_once")
MECH["dobsx"] = "Observe"
MECH.update({"dotcp": "Otc", "dobsp": "Observe"})     # decorated with post_init=True
MECH.update({"otcx": "Otc", "obsx": "Observe"})       # registered through an owner's List with an extended name
STATIC_ID = {"any": 0, "changed": 1, "fired": 2, "dotc": 3, "dobs": 4, "dobsx": 5, "dotcp": 6, "dobsp": 7}
STATICS = ("any", "changed", "fired", "dotc", "dobs", "dobsx", "dotcp", "dobsp")      # dobsx: @observe("x") def _x_changed (excludes "changed")
CMP = {"T": C("CTrue"), "F": C("CFalse"), "R": C("CRaise")}


# ---------------------------------------------------------------- terms
def handlers_of(case):
    """Notifier-list order: class-level static wrappers (anytrait, _x_changed, _x_fired — has_traits.py l.626-631),
    then the dynamic ones on the trait in registration order, then the object-level ones (call_notifiers l.2296-2305)."""
    hs = [(STATIC_ID[s], s) for s in STATICS if s in case["statics"]]      # decorated handlers are hooked up in __init__
    hs += [(10 + i, m) for i, m in enumerate(case["dyn"]) if m not in OBJ_LEVEL]
    hs += [(10 + i, m) for i, m in enumerate(case["dyn"]) if m in OBJ_LEVEL]      # the object's notifier list comes last
    return hs


def reacts_term(case):
    """handler id -> reaction while being notified: self-unregistering kinds, then the explicit case["reacts"]."""
    rs = [(Nat(i), C("RKill", Nat(i))) for i, m in handlers_of(case) if m in ONCE]
    rs += [(Nat(op[2]), C("RKill", Nat(op[2]))) for op in case["ops"] if op[0] == "Register" and op[1] in ONCE]
    for r in case.get("reacts", []):
        if r[1] == "kill":
            rs.append((Nat(r[0]), C("RKill", Nat(r[2]))))
        else:
            rs.append((Nat(r[0]), C("RSpawn", C("mkHandler", Nat(r[3]), C(MECH[r[2]]), r[3] in case["raises"]))))
    return rs


def oldv(o):
    if o == "U":
        return C("OUndefined")
    if o == "I":
        return C("OUninitialized")
    return C("OVal", Nat(o))


def call_t(c):
    return (Nat(c[0]), oldv(c[1]), Nat(c[2]))


def outcome_t(o):
    return C(o) if o in ("Ok", "TraitError", "AttributeError") else C("AttributeError")


def to_term(case, ob):
    kind = C("TEvent") if case["kind"] == "event" else C("TNormal", C({"none": "MNone", "identity": "MIdentity",
                                                                        "equality": "MEquality"}[case["mode"]]))
    hs = [C("mkHandler", Nat(i), C(MECH[m]), i in case["raises"]) for i, m in handlers_of(case)]
    cfg = C("mkConfig", Raw("pool_eq"), Raw("pool_ne"),
            Raw({"any": "pool_validate_any", "drange": "pool_validate_drange", "array": "pool_validate_array"}.get(
                case.get("variant"), "pool_validate")),
            Nat(case["default"]), kind, hs,
            bool(case.get("orig")) and case["kind"] == "normal",
            reacts_term(case),
            {"fresh-eq": Some(Raw("fresh_eq_tbls")), "fresh-ne": Some(Raw("fresh_ne_tbls")), "array": Some(Raw("fresh_arr_tbls"))}.get(
                case.get("variant") if case["kind"] == "normal" else "", None))
    h = []
    for op, st in zip(case["ops"], ob["steps"]):
        if op[0] == "Register":
            o = C("DRegister", C("mkHandler", Nat(op[2]), C(MECH[op[1]]), op[2] in case["raises"]))
        elif op[0] == "Unregister":
            o = C("DUnregister", Nat(op[1]))
        elif op[0] == "Notify":
            o = C("DNotify", bool(op[1]))
        elif op[0] == "SetMode":
            o = C("DSetMode", C({"none": "MNone", "identity": "MIdentity", "equality": "MEquality"}[op[1]]))
        else:
            o = C("DOp", C(op[0], Nat(op[1])) if op[0] in ("Assign", "QuietAssign") else C(op[0]))      # Other: payload dropped
        out = st["out"]
        if case["kind"] == "event" and op[0] == "Read" and out.startswith("Other"):
            out = "Ok"          # anything but AttributeError is wrong for an Event read; Ok triggers clause 1
        sink = st["sink"]
        if case.get("sinkmode") == "default":
            # default exception handlers: routing is not observable; take it as the calls of the raising handlers
            sink = [c for c in st["calls"] if c[0] in case["raises"]]
        h.append((o, C("mkObs", outcome_t(out), opt(None if st["slot"] is None else Nat(st["slot"])),
                       [call_t(c) for c in st["calls"]], [call_t(c) for c in sink])))
    return (cfg, h)


# ---------------------------------------------------------------- keys
def key_fn(case, ob, step, clause):
    op = case["ops"][step]
    key = "%s/%s/%s" % (CLAUSE.get(clause, clause), case["kind"] if case["kind"] == "event" else case["mode"], op[0])
    if case.get("orig") and case["kind"] == "normal" and clause == 2 and op[0] == "Assign":
        # shape of F22 (repaired in /repo by 3fe28c1; the key stays so that its reversal is named): a trait that stores the original object, the stored object assigned again, handlers called with
        # old is new
        st = ob["steps"][step]
        if st["calls"] and all(c[1] == c[2] == st["slot"] for c in st["calls"]):
            key += "/stores-original-value/identical-object-again"
    if case.get("orig") and case["kind"] == "normal" and clause == 4 and op[0] == "Assign":
        # second shape of F22: the VALIDATED value is the stored object (or the not yet materialised default), the
        # assigned (and then stored) object is another
        prev = ob["steps"][step - 1]["slot"] if step > 0 else None
        if prev is None:
            prev = case["default"]
        if op[1] == ALIAS and prev == 0 and not ob["steps"][step]["calls"]:
            key += "/stores-original-value/validated-value-is-the-stored-object"
    return key


def describe(case, ob, step, clause):
    op = case["ops"][step]
    return ("trait x (%s, mode %s, default %s%s%s%s), handlers %r raising %r: clause %s fails at step %d (%s%s): observed %r; "
            "history so far %r" % (case["kind"], case["mode"], POOL_NAMES[case["default"]],
                                   ", stores the original value" if case.get("orig") else "",
                                   ", variant " + case["variant"] if case.get("variant") else "",
                                   ", definition " + case["build"] if case.get("build") else "", handlers_of(case), case["raises"],
                                   CLAUSE.get(clause, clause), step, op[0], " " + POOL_NAMES[op[1]] if (len(op) > 1 and op[0] in ("Assign", "QuietAssign")) else "",
                                   ob["steps"][step], case["ops"][:step + 1]))


def nontrivial(case, ob):
    sig = json.dumps([case["kind"], case["mode"], case["default"], case["statics"], case["dyn"], case["raises"], case["ops"],
                      bool(case.get("orig")), case.get("variant", ""), case.get("sinkmode", ""), case.get("reacts", []), case.get("build", ""), bool(case.get("subclass")), case.get("raise_kind", "")])
    nt = any(s["calls"] or s["out"] != "Ok" for s in ob["steps"])
    return sig, nt


# ---------------------------------------------------------------- generator
def gen_case(rnd, ctx, maxlen):
    kind = "event" if rnd.random() < 0.2 else "normal"
    mode = rnd.choice(["none", "identity", "equality", "equality"])
    default = rnd.choice([6, 6, 0, 3])
    statics = [s for s in ("any", "changed", "fired") if rnd.random() < 0.5] + [s for s in ("dotc", "dobs") if rnd.random() < 0.25]
    if rnd.random() < 0.15:
        statics = [s for s in statics if s != "changed"] + ["dobsx"]
    statics += [s for s in ("dotcp", "dobsp") if rnd.random() < 0.15]
    dyn = [rnd.choice(["otc", "obs", "otc", "obs", "otcany", "otcm", "obsm"]) for _ in range(rnd.choice([0, 1, 2, 2, 3, 4]))]
    if rnd.random() < 0.15:
        statics = [s for s in statics if s == "dobs"][:0]      # object-level handlers only: the trait has no notifier list
        dyn = ["otcany"] * rnd.randint(1, 3)
    if not statics and not dyn and rnd.random() < 0.8:
        dyn = ["otc", "obs"]
    if (statics or dyn) and rnd.random() < 0.3:
        # self-unregistering handlers somewhere in the registration order (only next to handlers that stay)
        for _ in range(rnd.randint(1, 2)):
            once = "otcany_once" if all(m == "otcany" for m in dyn) and not statics else rnd.choice(ONCE)
            dyn.insert(rnd.randrange(len(dyn) + 1), once)
    ids = [STATIC_ID[s] for s in statics] + [10 + i for i in range(len(dyn))]
    raises = sorted(rnd.sample(ids, min(len(ids), rnd.choice([0, 0, 1, 1, 2]))))
    ops = []
    cur = None
    removable = [10 + i for i, m in enumerate(dyn) if m not in ONCE]     # registered, never self-unregistering
    reacts = []
    fun_kind = {10 + i: m for i, m in enumerate(dyn) if m in ("otc", "obs", "otcany")}    # possible victims / actors
    next_id = 30
    churn = rnd.random() < 0.4          # handlers registered / removed in the middle of this history
    switching = rnd.random() < 0.25     # _trait_change_notify(False) / (True) in the middle of this history
    remode = rnd.random() < 0.25        # ctrait.comparison_mode set in the middle of this history
    off = False
    groups = [[0, 1, 10], [3, 4], [7, 8], [12, 13], [5], [11], [2], [6], [9], [14]]
    orig = kind == "normal" and rnd.random() < 0.2
    for _ in range(rnd.randint(1, maxlen)):
        if remode and rnd.random() < 0.1:
            ops.append(["SetMode", rnd.choice(["none", "identity", "equality"])])
            ctx.count("op:SetMode")
            continue
        if rnd.random() < 0.06:
            ops.append(["Other", rnd.choice(["e", "y"])])
            ctx.count("op:Other")
            continue
        if switching and rnd.random() < 0.12:
            off = not off
            ops.append(["Notify", 0 if off else 1])
            ctx.count("op:Notify:" + ("off" if off else "on"))
            continue
        if churn and rnd.random() < 0.18:
            if removable and rnd.random() < 0.45:
                ops.append(["Unregister", removable.pop(rnd.randrange(len(removable)))])
                ctx.count("op:Unregister")
            else:
                k = rnd.choice(["otc", "obs", "otcany", "otcm", "obsm", "otc_once", "obs_once", "otcany_once"])
                ops.append(["Register", k, next_id])
                ctx.count("op:Register:" + k)
                if k not in ONCE:
                    removable.append(next_id)
                if k in ("otc", "obs", "otcany"):
                    fun_kind[next_id] = k
                if rnd.random() < 0.15:
                    raises = sorted(set(raises) | {next_id})
                next_id += 1
            continue
        r = rnd.random()
        if r < 0.12:
            ops.append(["Read"])
            ctx.count("op:Read")
            continue
        if r < 0.17:
            ops.append(["Delete"])
            ctx.count("op:Delete")
            cur = None
            continue
        if r < 0.27:
            ops.append(["Retrait"])
            ctx.count("op:Retrait")
            continue
        if r < 0.33:
            v = REJ if rnd.random() < 0.4 else rnd.randrange(NPOOL)
            ops.append(["QuietAssign", v])
            ctx.count("op:QuietAssign:" + ("rejected" if v == REJ else "accepted"))
            if v != REJ:
                cur = v
            continue
        if r < 0.45 and cur is not None:
            v = cur                                         # the identical object again
        elif r < 0.6 and cur is not None:
            g = next((g for g in groups if cur in g), [cur])
            v = rnd.choice(g)                               # equal-but-not-identical partner / alias
        elif r < 0.67:
            v = REJ
        else:
            v = rnd.randrange(NPOOL)
        ops.append(["Assign", v])
        ctx.count("op:Assign:" + POOL_NAMES[v])
        if v != REJ:
            cur = 0 if (v == ALIAS and not orig) else v
    if churn and fun_kind and rnd.random() < 0.6:
        # handlers that (un)register OTHER handlers while they are being notified
        for _ in range(rnd.randint(1, 2)):
            actor = rnd.choice(sorted(fun_kind))
            if rnd.random() < 0.5 and len(fun_kind) > 1:
                victim = rnd.choice([i for i in sorted(fun_kind) if i != actor])
                reacts.append([actor, "kill", victim])
                ctx.count("reaction:removes-another-handler")
            else:
                reacts.append([actor, "spawn", rnd.choice(["otc", "obs", "otcany"]), next_id])
                next_id += 1
                ctx.count("reaction:registers-a-handler")
    ctx.count("kind:" + (kind if kind == "event" else mode))
    ctx.count("handlers:%d" % len(ids))
    ctx.count("raising:%d" % len(raises))
    for s in statics:
        ctx.count("mechanism:static-" + s)
    for m in dyn:
        ctx.count("mechanism:" + m)
    ctx.count("history-length:%02d" % len(ops))
    ctx.count("stores-original-value:%d" % int(orig))
    variant = ""
    if not orig:
        r = rnd.random()
        variant = "any" if r < 0.15 else "ddef" if (r < 0.25 and kind == "normal") else \
            rnd.choice(["fresh-eq", "fresh-ne"]) if (r < 0.45 and kind == "normal") else ""
    if variant in ("ddef", "fresh-eq", "fresh-ne"):
        # add_trait cannot re-create a class-level `_x_default` wiring: the re-added definition would have another default
        ops = [op for op in ops if op[0] != "Retrait"] or [["Read"]]
    ctx.count("trait-variant:" + (variant or "validating-trait-type"))
    build = ""
    if variant == "" and rnd.random() < 0.3:
        build = rnd.choice(["shared", "derived-none", "derived-identity", "derived-equality"])
        if kind == "event" and build != "shared":
            build = "shared"
    ctx.count("definition:" + (build or "trait-type-instance"))
    subclass = rnd.random() < 0.35       # the instance under test belongs to a SUBCLASS of the class that defines the handlers
    raise_kind = "TraitError" if rnd.random() < 0.4 else "HandlerError"
    ctx.count("instance-of:" + ("subclass" if subclass else "defining-class"))
    ctx.count("handlers-raise:" + raise_kind)
    sinkmode = "default" if rnd.random() < 0.25 else "recording"
    ctx.count("exception-handler:" + sinkmode)
    ctx.count("self-unregistering-handlers:%d" % (sum(1 for m in dyn if m in ONCE) +
                                                  sum(1 for op in ops if op[0] == "Register" and op[1] in ONCE)))
    case = dict(kind=kind, mode=mode, default=default, statics=statics, dyn=dyn, raises=raises, ops=ops, orig=orig,
                variant=variant, sinkmode=sinkmode, reacts=reacts, build=build, subclass=subclass, raise_kind=raise_kind)
    r = rnd.random()
    if r < 0.1:
        case = as_drange(case)
        ctx.count("trait-variant:drange (Range with dynamic bounds)")
    elif r < 0.17:
        case = as_array(case)
        ctx.count("trait-variant:array (numpy Array, identity mode)")
    elif r < 0.3 and kind == "normal" and variant in ("", "any"):
        case = with_extended_handler(rnd, case)
        ctx.count("mechanism:" + case["dyn"][-1])
    return case


TRAIT_LEVEL = {"otc": "otcany", "obs": "otcany", "otcm": "otcany", "obsm": "otcany", "otc_once": "otcany_once",
               "obs_once": "otcany_once"}
REORDER = ["reassign-reversed", "reassign-same-order", "sort-in-place", "reverse-in-place"]


def as_drange(case):
    """The same history on a Range trait with dynamic bounds (0..10, value=5): a property-like trait; ints only, no del /
    add_trait / comparison mode."""
    c = dict(case, kind="normal", mode="equality", default=DRANGE_DEFAULT, orig=False, build="", variant="drange")
    safe = DRANGE_OK + [DRANGE_REJ]
    ops = []
    for op in case["ops"]:
        if op[0] in ("Assign", "QuietAssign"):
            ops.append([op[0], safe[op[1] % len(safe)]])
        elif op[0] in ("Delete", "Retrait", "SetMode"):
            ops.append(["Read"])
        else:
            ops.append(op)
    c["ops"] = ops
    return c


def as_array(case):
    """The same history on a numpy Array trait: identity comparison mode, default copied afresh per instance, only arrays
    (None is rejected); no add_trait / comparison-mode change."""
    c = dict(case, kind="normal", mode="identity", default=6, orig=False, build="", variant="array")
    safe = ARRAYS + [6]
    ops = []
    for op in case["ops"]:
        if op[0] in ("Assign", "QuietAssign"):
            ops.append([op[0], safe[op[1] % len(safe)]])
        elif op[0] in ("Retrait", "SetMode"):
            ops.append(["Read"])
        else:
            ops.append(op)
    c["ops"] = ops
    return c


def with_extended_handler(rnd, case):
    """One more handler, registered THROUGH an owner object that holds the object under test in a List: the legacy
    extended name 'members.x' or the observe expression 'members:items:x'; the owner's list is re-assigned / re-ordered
    with the same objects in the middle.  It is the last trait-level handler (re-hooking moves it to the end of the list)."""
    c = dict(case)
    c["dyn"] = list(case["dyn"]) + [rnd.choice(["otcx", "otcx", "obsx"])]
    ops = []
    for op in case["ops"]:
        if op[0] == "Register" and op[1] in TRAIT_LEVEL:
            op = ["Register", TRAIT_LEVEL[op[1]], op[2]]
        elif op[0] == "Retrait":
            op = ["Read"]
        ops.append(op)
        if rnd.random() < 0.2:
            ops.append(["Other", rnd.choice(REORDER)])
    c["ops"] = ops
    c["reacts"] = [[r[0], r[1], TRAIT_LEVEL.get(r[2], r[2]), r[3]] if r[1] == "spawn" else r for r in case.get("reacts", [])]
    return c


def corpus():
    cs = []
    allops = [["Read"]] + [["Assign", v] for v in (0, 1, 0, 0, 10, 3, 3, 4, 5, 5, 9, 11, 2, 11, 11, 7, 8, 7, 12, 13, 6, 6, 9, 14, 14,
                                                 2, 14)] + [
        ["Read"], ["Delete"], ["Delete"], ["Assign", 2], ["Delete"], ["Read"], ["Assign", 6], ["Delete"]]
    for kind, mode in (("normal", "none"), ("normal", "identity"), ("normal", "equality"), ("event", "equality")):
        for raises in ([], [1, 11], [0, 2, 10]):
            cs.append(dict(kind=kind, mode=mode, default=6, statics=["any", "changed", "fired"], dyn=["otc", "obs"],
                           raises=raises, ops=allops))
            cs.append(dict(kind=kind, mode=mode, default=0, statics=["changed"], dyn=["otcany", "obs", "otc", "otcany"],
                           raises=[r + 1 for r in raises if r >= 10], ops=allops))
            cs.append(dict(kind=kind, mode=mode, default=6, statics=["fired", "dotc", "dobs"], dyn=["obsm", "otcm"],
                           raises=[3 + (r % 2) for r in raises[:1]] + [r for r in raises if r == 10], ops=allops))
        cs.append(dict(kind=kind, mode=mode, default=0, statics=[], dyn=["obs", "otc", "obs"], raises=[10],
                       ops=[["Assign", 1], ["Assign", 0], ["Read"]]))
        cs.append(dict(kind=kind, mode=mode, default=3, statics=["changed"], dyn=[], raises=[],
                       ops=[["Assign", 3], ["Assign", 4], ["Assign", 3]]))
    for kind, mode in (("normal", "none"), ("normal", "identity"), ("normal", "equality"), ("event", "equality")):
        for variant in ("any", "ddef"):
            cs.append(dict(kind=kind, mode=mode, default=0, statics=["any", "changed"], dyn=["obs", "otc"], raises=[10],
                           variant=variant, ops=allops))
    retrait = [["Assign", 0], ["Retrait"], ["Assign", 2], ["Assign", 2], ["Retrait"], ["Retrait"], ["Assign", 1], ["Read"],
               ["Delete"], ["Retrait"], ["Assign", 3], ["Assign", 9]]
    quiet = [["Assign", 0], ["QuietAssign", 2], ["Assign", 0], ["QuietAssign", 9], ["Assign", 2], ["Read"], ["QuietAssign", 2],
             ["Assign", 1], ["Delete"], ["QuietAssign", 9], ["Assign", 3]]
    for kind, mode in (("normal", "none"), ("normal", "identity"), ("normal", "equality"), ("event", "equality")):
        # quiet sets (accepted and rejected) between ordinary assignments
        cs.append(dict(kind=kind, mode=mode, default=6, statics=["changed"], dyn=["obs", "otc", "otcany"], raises=[], ops=quiet))
        # add_trait over the existing trait (before and after dynamic handlers exist; first operation too)
        cs.append(dict(kind=kind, mode=mode, default=6, statics=["any", "changed", "fired", "dotc", "dobs"],
                       dyn=["obs", "otc", "otcany", "otcm"], raises=[1], ops=retrait))
        cs.append(dict(kind=kind, mode=mode, default=0, statics=["any", "changed"], dyn=[], raises=[],
                       ops=[["Retrait"], ["Assign", 2], ["Retrait"], ["Assign", 1]]))
        # several bound-method handlers whose owners are equal but distinct objects
        cs.append(dict(kind=kind, mode=mode, default=6, statics=[], dyn=["otcm", "otcm", "obsm", "obsm", "otcm"], raises=[11],
                       ops=[["Assign", 0], ["Assign", 2], ["Retrait"], ["Assign", 0]]))
        # the library's default exception handlers, values whose str()/repr() raise, every mechanism raising in turn
        for r in ([0], [1], [2], [10], [11], [12], [3, 4]):
            cs.append(dict(kind=kind, mode=mode, default=6, statics=["any", "changed", "fired", "dotc", "dobs"],
                           dyn=["otc", "obs", "otcany"], raises=r, sinkmode="default",
                           ops=[["Assign", 15], ["Assign", 0], ["Assign", 15], ["Assign", 15], ["Assign", 2]]))
        # self-unregistering handlers in front of handlers that stay: object-level list only / trait-level list / both
        for statics, dyn in (([], ["otcany_once", "otcany", "otcany_once", "otcany"]),
                             ([], ["otc_once", "otc", "obs_once", "obs"]),
                             (["changed"], ["otcany_once", "otc_once", "obs_once", "otcany", "otc", "obs"])):
            cs.append(dict(kind=kind, mode=mode, default=6, statics=statics, dyn=dyn, raises=[],
                           ops=[["Assign", 0], ["Assign", 2], ["Assign", 0]]))
    churn = [["Assign", 0], ["Register", "otc", 30], ["Assign", 2], ["Register", "obs_once", 31], ["Register", "otcany", 32],
             ["Assign", 0], ["Assign", 2], ["Unregister", 30], ["Assign", 0], ["Register", "otcany_once", 33], ["Unregister", 10],
             ["Assign", 2], ["Unregister", 32], ["Unregister", 11], ["Assign", 0], ["Delete"], ["Assign", 2], ["Read"],
             ["Register", "obsm", 34], ["Assign", 0], ["Register", "otc_once", 35], ["QuietAssign", 2], ["Assign", 0], ["Assign", 2]]
    offon = [["Assign", 0], ["Notify", 0], ["Assign", 2], ["Read"], ["Delete"], ["Read"], ["Assign", 0], ["Register", "otc", 30],
             ["Assign", 9], ["Notify", 1], ["Assign", 2], ["Notify", 0], ["QuietAssign", 9], ["Assign", 0], ["Notify", 0],
             ["Delete"], ["Delete"], ["Notify", 1], ["Delete"], ["Assign", 2], ["Notify", 0], ["QuietAssign", 0], ["Assign", 3]]
    for kind, mode in (("normal", "none"), ("normal", "identity"), ("normal", "equality"), ("event", "equality")):
        # notification switched off and on in the middle (also ended by a quiet trait_set, accepted and rejected)
        cs.append(dict(kind=kind, mode=mode, default=6, statics=["changed"], dyn=["obs", "otcany", "otc_once"], raises=[], ops=offon))
        # handlers registered and removed in the middle; everything removed, then `del` with empty notifier lists
        cs.append(dict(kind=kind, mode=mode, default=6, statics=[], dyn=["otc", "obs"], raises=[31], ops=churn))
        cs.append(dict(kind=kind, mode=mode, default=6, statics=["changed"], dyn=["otc", "obs"], raises=[10, 33], ops=churn))
        # during dispatch: 10 removes the LATER handler 11 (still served), 12 removes the EARLIER 10, 11 registers 40 and 41,
        # the object-level 13 removes 12; 40 removes itself
        cs.append(dict(kind=kind, mode=mode, default=6, statics=["changed"], dyn=["otc", "obs", "otc", "otcany"], raises=[11],
                       reacts=[[10, "kill", 11], [12, "kill", 10], [11, "spawn", "obs", 40], [11, "spawn", "otcany", 41],
                               [13, "kill", 12], [40, "kill", 40]],
                       ops=[["Assign", 0], ["Assign", 2], ["Assign", 0], ["Register", "obs", 11], ["Assign", 2], ["Assign", 0]]))
    modes = [["Assign", 0], ["Assign", 0], ["Assign", 1], ["SetMode", "none"], ["Assign", 1], ["Assign", 0], ["SetMode", "equality"],
             ["Assign", 1], ["Assign", 2], ["SetMode", "identity"], ["Assign", 2], ["Assign", 1], ["Assign", 0], ["SetMode", "none"],
             ["Assign", 0], ["Retrait"], ["Assign", 0], ["Assign", 1], ["SetMode", "identity"], ["Delete"], ["Assign", 6]]
    for kind, mode in (("normal", "none"), ("normal", "identity"), ("normal", "equality"), ("event", "equality")):
        # the comparison mode is changed in the middle (every transition between the three modes); add_trait resets it
        cs.append(dict(kind=kind, mode=mode, default=6, statics=["any", "changed"], dyn=["otc", "obs", "otcany"], raises=[],
                       ops=modes))
        cs.append(dict(kind=kind, mode=mode, default=6, statics=["changed"], dyn=["obs"], raises=[], orig=True, ops=modes))
    rep = [["Assign", 0], ["Assign", 0], ["Assign", 1], ["Assign", 6], ["Assign", 6], ["Assign", 2], ["Other", "y"], ["Assign", 2],
           ["Other", "e"], ["Assign", 0], ["Assign", 1]]
    for mode in ("none", "identity", "equality"):
        # definitions derived from a CTrait that is in ANOTHER comparison mode; one CTrait object shared by two attributes
        # and two classes with static handlers
        for build in ("derived-none", "derived-identity", "derived-equality", "shared"):
            for orig in (False, True):
                cs.append(dict(kind="normal", mode=mode, default=6, statics=["any", "changed", "fired"], dyn=["otc", "obs"],
                               raises=[], orig=orig, build=build, ops=rep))
        # another trait of another kind notified FIRST through the class's single anytrait wrapper
        cs.append(dict(kind="normal", mode=mode, default=0, statics=["any", "changed"], dyn=["otcany"], raises=[],
                       ops=[["Other", "e"], ["Assign", 1], ["Assign", 0], ["Other", "y"], ["Assign", 1], ["Assign", 2], ["Assign", 2]]))
    cs.append(dict(kind="event", mode="equality", default=6, statics=["any", "changed", "fired"], dyn=["otc", "obs"], raises=[],
                   build="shared", ops=rep))
    for kind, mode in (("normal", "none"), ("normal", "identity"), ("normal", "equality"), ("event", "equality")):
        for sub in (False, True):
            # a static handler migrated to observe without renaming it, on the defining class and on a subclass; inherited
            # static / decorated handlers
            cs.append(dict(kind=kind, mode=mode, default=6, statics=["any", "fired", "dotc", "dobs", "dobsx"], dyn=["otc", "obs"],
                           raises=[], subclass=sub, ops=[["Assign", 0], ["Assign", 2], ["Assign", 2], ["Read"], ["Assign", 1]]))
            cs.append(dict(kind=kind, mode=mode, default=6, statics=["any", "changed", "fired"], dyn=["obs"], raises=[2],
                           subclass=sub, raise_kind="TraitError", ops=[["Assign", 0], ["Assign", 2], ["Assign", 1]]))
        # handlers that raise TraitError (what assigning an invalid value inside a handler gives), each mechanism in turn, under
        # the recording and under the default exception policy
        for r in ([0], [1], [10], [11], [12]):
            for sm in ("recording", "default"):
                cs.append(dict(kind=kind, mode=mode, default=6, statics=["any", "changed", "fired"], dyn=["otc", "obs", "otcany"],
                               raises=r, raise_kind="TraitError", sinkmode=sm, ops=[["Assign", 0], ["Assign", 2], ["Assign", 0]]))
    afresh = [["Assign", 0], ["Delete"], ["Read"], ["Assign", 2], ["Delete"], ["Delete"], ["Read"], ["Assign", 7], ["Assign", 8],
              ["Delete"], ["Assign", 6], ["QuietAssign", 2], ["Delete"], ["Read"]]
    for mode in ("none", "identity", "equality"):
        # defaults produced afresh each time (all equal like [] / all different), `del` and the read right after it
        for variant in ("fresh-eq", "fresh-ne"):
            cs.append(dict(kind="normal", mode=mode, default=6, statics=["changed"], dyn=["obs", "otc", "otcany"], raises=[],
                           variant=variant, ops=afresh))
            cs.append(dict(kind="normal", mode=mode, default=6, statics=[], dyn=["obs"], raises=[], variant=variant,
                           ops=[["Delete"], ["Assign", 0], ["Delete"], ["Read"]]))
    for mode in ("none", "identity", "equality"):
        # a handler registered through an owner's List (legacy extended name / observe expression); the list is re-assigned and
        # re-ordered with the same objects, the handlers must go on being served
        for ext in ("otcx", "obsx"):
            cs.append(dict(kind="normal", mode=mode, default=6, statics=["changed"], dyn=["obs", "otc", "otcany", ext], raises=[],
                           ops=[["Assign", 0], ["Other", "reassign-reversed"], ["Assign", 2], ["Other", "sort-in-place"], ["Assign", 0],
                                ["Other", "reverse-in-place"], ["Assign", 1], ["Assign", 2], ["Other", "reassign-same-order"],
                                ["Assign", 0], ["Delete"], ["Assign", 2]]))
    # Range with dynamic bounds: first assignment of the value it already has (before any read), repeats, rejected, quiet
    for statics, dyn in ((["any", "changed", "fired"], ["otc", "obs"]), (["dobsx"], ["otcany", "obsm"])):
        for ops in ([["Assign", 17], ["Assign", 17], ["Assign", 18], ["Assign", 18], ["Assign", 19], ["Assign", 12], ["Read"],
                     ["QuietAssign", 16], ["Assign", 16], ["Assign", 17], ["Other", "y"], ["Assign", 17]],
                    [["Read"], ["Assign", 17], ["Assign", 16]], [["QuietAssign", 17], ["Assign", 17], ["Assign", 18]]):
            cs.append(dict(kind="normal", mode="equality", default=DRANGE_DEFAULT, statics=statics, dyn=dyn, raises=[],
                           variant="drange", ops=ops))
    # decorated handlers with post_init=True (hooked up after construction), alone and next to the other decorated ones
    for kind, mode in (("normal", "none"), ("normal", "identity"), ("normal", "equality"), ("event", "equality")):
        for statics in (["dotcp", "dobsp"], ["changed", "dotc", "dobs", "dotcp", "dobsp"], ["dotcp"]):
            cs.append(dict(kind=kind, mode=mode, default=6, statics=statics, dyn=["obs", "otc"], raises=[], subclass=(len(statics) == 1),
                           ops=[["Assign", 0], ["Assign", 2], ["Assign", 2], ["Read"], ["Assign", 1]]))
    # numpy Array trait: a different array object that compares equal (one element: unambiguous truth value) is a change
    for statics, dyn in ((["any", "changed", "fired"], ["otc", "obs"]), (["dobs"], ["otcany", "obsm"])):
        cs.append(dict(kind="normal", mode="identity", default=6, statics=statics, dyn=dyn, raises=[], variant="array",
                       ops=[["Assign", 20], ["Assign", 21], ["Assign", 21], ["Assign", 22], ["Assign", 23], ["Assign", 24], ["Assign", 6],
                            ["Delete"], ["Assign", 20], ["Read"], ["QuietAssign", 21], ["Assign", 20]]))
    # comparisons that have no truth value / raise, with an observe handler registered BEFORE the legacy ones
    cs.append(dict(kind="normal", mode="equality", default=6, statics=[], dyn=["obs", "otc", "otcany", "obs"], raises=[],
                   ops=[["Assign", 2], ["Assign", 14], ["Assign", 2], ["Assign", 5], ["Assign", 14], ["Assign", 14], ["Assign", 5]]))
    # traits that store the ORIGINAL value (Expression / AdaptsTo style): trigger of F22 (repaired) so that a reversal is detected
    for mode in ("none", "identity", "equality"):
        cs.append(dict(kind="normal", mode=mode, default=6, statics=["changed"], dyn=["obs", "otc"], raises=[], orig=True,
                       ops=[["Assign", 10], ["Assign", 10], ["Assign", 0], ["Assign", 10], ["Assign", 1], ["Assign", 1], ["Read"],
                            ["Assign", 9], ["Assign", 14], ["Assign", 14]]))
    return cs


def exhaustive(length):
    """Every history of `length` assignments over the whole pool (every ordered tuple of values), for every trait kind /
    comparison mode / storage variant, with handlers of all mechanisms attached (one of them raising)."""
    import itertools
    cs = []
    for kind, mode, orig in (("normal", "none", False), ("normal", "identity", False), ("normal", "equality", False),
                             ("normal", "identity", True), ("normal", "equality", True), ("event", "equality", False)):
        for vs in itertools.product(range(16), repeat=length):       # the 16 general values (the extra ints serve the Range variant)
            cs.append(dict(kind=kind, mode=mode, default=6, statics=["any", "changed", "fired", "dotc", "dobs"],
                           dyn=["obs", "otc", "otcany"], raises=[2], orig=orig, ops=[["Assign", v] for v in vs]))
    return cs


# ---------------------------------------------------------------- the prototyped-trait scenario (Proto.v)
PROTO_POOL = [2, 6, 9, 16, 17, 18]        # pairwise unequal values: only identity matters for a delegate trait
PROTO_HEADER = ("From Coq Require Import ZArith List.\nFrom TV Require Import Common.Harness C02.Model C02.Law C02.Proto.\n"
                "Definition corr_codes := C02.Proto.pcorr_codes.\nDefinition law_codes := C02.Proto.plaw_codes.")
PROTO_CLAUSE = {2: "called-without-change", 3: "called-while-unlinked-or-read", 4: "change-not-notified", 5: "value-read-afterwards",
                6: "old-new-untruthful"}


def proto_handlers(case):
    hs = [(STATIC_ID[s], s) for s in ("any", "changed") if s in case["statics"]]
    hs += [(10 + i, m) for i, m in enumerate(case["dyn"]) if m not in OBJ_LEVEL]
    hs += [(10 + i, m) for i, m in enumerate(case["dyn"]) if m in OBJ_LEVEL]
    return hs


def proto_term(case, ob):
    hs = [C("mkHandler", Nat(i), C(MECH[m]), False) for i, m in proto_handlers(case)]
    h = []
    for op, st in zip(case["ops"], ob["steps"]):
        o = {"Assign": lambda: C("PAssign", Nat(op[1])), "Proto": lambda: C("PProto", Nat(op[1])),
             "Delete": lambda: C("PDelete"), "Read": lambda: C("PRead")}[op[0]]()
        read = st["read"] if st["out"] == "Ok" else 998
        h.append((o, C("mkPObs", opt(None if st["slot"] is None else Nat(st["slot"])), Nat(read), [call_t(c) for c in st["calls"]])))
    return (hs, Nat(6), h)


def proto_cases(rnd, ctx, n, maxlen):
    cs = [dict(scenario="proto", statics=["any", "changed"], dyn=["otc", "obs", "otcany", "otcm"], raises=[],
               ops=[["Read"], ["Proto", 2], ["Assign", 16], ["Assign", 16], ["Proto", 17], ["Read"], ["Proto", 17], ["Delete"],
                    ["Proto", 18], ["Assign", 18], ["Proto", 9], ["Delete"], ["Delete"], ["Proto", 6], ["Assign", 2], ["Proto", 2],
                    ["Delete"]]),
          dict(scenario="proto", statics=[], dyn=["obs"], raises=[], ops=[["Assign", 16], ["Proto", 17], ["Proto", 18], ["Delete"]])]
    for _ in range(n):
        statics = [s for s in ("any", "changed") if rnd.random() < 0.5]
        dyn = [rnd.choice(["otc", "obs", "otcany", "otcm", "obsm"]) for _ in range(rnd.randint(0 if statics else 1, 3))]
        ops = []
        for _ in range(rnd.randint(1, maxlen)):
            r = rnd.random()
            ops.append(["Read"] if r < 0.1 else ["Delete"] if r < 0.3 else
                       ["Proto", rnd.choice(PROTO_POOL)] if r < 0.65 else ["Assign", rnd.choice(PROTO_POOL)])
        cs.append(dict(scenario="proto", statics=statics, dyn=dyn, raises=[], ops=ops))
    ctx.count("scenario:prototyped-trait histories", len(cs))
    return cs


def run_proto(ctx, rnd):
    cases = proto_cases(rnd, ctx, 150 if ctx.tier == "quick" else 3000, 10 if ctx.tier == "quick" else 30)
    return hist.run(ctx, DRIVER, cases, proto_term, PROTO_HEADER, "C02.Proto.pcase",
                    lambda c, ob, st, cl: "prototyped/%s/%s" % (PROTO_CLAUSE.get(cl, cl), c["ops"][st][0]),
                    lambda c, ob, st, cl: ("x = PrototypedFrom('style', prefix='caption'), handlers %r: clause %s fails at step %d (%r): "
                                           "observed %r; history so far %r" % (proto_handlers(c), PROTO_CLAUSE.get(cl, cl), st,
                                                                               c["ops"][st], ob["steps"][st], c["ops"][:st + 1])),
                    lambda c, ob: (json.dumps(c, sort_keys=True), any(s["calls"] for s in ob["steps"])),
                    relation="C02.Proto.pcorr_codes (Proto.pstep = implementation on every operation)", tag="proto") and \
        sum(len(c["ops"]) for c in cases)


def run(ctx):
    ok, log = ctx.proofs(PROPS)
    ctx.cov["trusted_base"] += [
        "tools/drivers/c02_driver.py (value pool, recording handlers, exception sinks, identity -> atom mapping) and "
        "tools/props/c02.py (generator, term writer)",
        "modelled, not verified: Python's == / != on the pool (measured on the interpreter and handed to the model as "
        "three-valued tables), dict storage of the instance, the order of the notifier list (static wrappers, then "
        "registration order); dispatch='ui'/'new', the veto flag, _trait_change_notify(False), Property traits "
        "(trait_property_changed) and `del` are outside the model",
    ]
    ctx.cov["rule"] = ("one case = trait kind (normal with comparison mode none/identity/equality, or Event) x default value x "
                       "handler mix (static _anytrait_changed/_x_changed/_x_fired, @on_trait_change / @observe decorated methods, 0-4 on_trait_change(name)/on_trait_change()/observe handlers (functions and bound methods) in "
                       "any registration order, 0-2 of them raising) x history of assignments (identical object again, "
                       "equal-but-not-identical partner, NaN, raising ==, incoherent ==/!=, None, unhashable list, 0/0.0, "
                       "rejected value, converted value) reads (first read of the default included), `del`, quiet sets and add_trait over the existing trait; evaluation = one "
                       "operation; non-trivial = some step calls a handler or is refused")
    rnd = random.Random(ctx.seed)
    n, maxlen = (1200, 12) if ctx.tier == "quick" else (15000, 40)
    if ctx.replay and json.load(open(ctx.replay))["replay"]["case"].get("scenario") == "proto":
        case = json.load(open(ctx.replay))["replay"]["case"]
        hist.run(ctx, DRIVER, [case], proto_term, PROTO_HEADER, "C02.Proto.pcase",
                 lambda c, ob, st, cl: "prototyped/%s/%s" % (PROTO_CLAUSE.get(cl, cl), c["ops"][st][0]),
                 lambda c, ob, st, cl: "prototyped trait: clause %s fails at step %d: %r" % (PROTO_CLAUSE.get(cl, cl), st, ob["steps"][st]),
                 lambda c, ob: (json.dumps(c, sort_keys=True), True), relation="C02.Proto.pcorr_codes", tag="proto")
        proof_gate(ctx, ok, log, PROPS)
        return
    if ctx.replay:
        cases = [json.load(open(ctx.replay))["replay"]["case"]]
    else:
        grid = exhaustive(2 if ctx.tier == "quick" else 3)       # all ordered pairs (quick) / triples (thorough) of pool values
        ctx.count("grid:all value %s x 6 trait configurations (exhaustive)" % ("pairs" if ctx.tier == "quick" else "triples"),
                  len(grid))
        ctx.cov["exhaustive"] = True
        cases = corpus() + grid + [gen_case(rnd, ctx, maxlen) for _ in range(n)]
    for c in cases[:1] + cases[-3:]:
        ctx.sample(c)
    # == / != on the value pool and the trait's validation table, measured once on the interpreter (pure CPython and
    # the driver's own classes) and shared by all cases of the run as definitions of the generated files
    rc, tb, err = ctx.run_driver(DRIVER, [], args=["--tables"])
    if rc != 0 or not tb:
        raise RuntimeError("c02 driver --tables failed: %s" % err)
    header = HEADER + "\nImport ListNotations.\n" + "\n".join([
        "Definition pool_eq : list (list cmp) := %s." % coq([[CMP[x] for x in row] for row in tb["eq"]]),
        "Definition pool_ne : list (list cmp) := %s." % coq([[CMP[x] for x in row] for row in tb["ne"]]),
        "Definition pool_validate : list (option val) := %s." % coq(
            [opt(None if v is None else Nat(v)) for v in tb["validate"]]),
        "Definition pool_validate_any : list (option val) := %s." % coq([Some(Nat(i)) for i in range(len(tb["validate"]))]),
        "Definition pool_validate_drange : list (option val) := %s." % coq(
            [Some(Nat(i)) if i in DRANGE_OK else None for i in range(len(tb["validate"]))]),
        "Definition pool_validate_array : list (option val) := %s." % coq(
            [Some(Nat(i)) if i in ARRAYS else None for i in range(len(tb["validate"]))])] + [
        "Definition %s : fresh_tbl * fresh_tbl := %s." % (nm, coq(tuple(
            C("mkFresh", [CMP[x] for x in tb["fresh"][k][w]["row"]], [CMP[x] for x in tb["fresh"][k][w]["col"]],
              CMP[tb["fresh"][k][w]["other"]], CMP[tb["fresh"][k][w]["self"]]) for w in ("eq", "ne"))))
        for nm, k in (("fresh_eq_tbls", "fresh-eq"), ("fresh_ne_tbls", "fresh-ne"), ("fresh_arr_tbls", "fresh-array"))])
    ctx.cov["pool_tables"] = tb
    # pre-flight: if the implementation kills the driver process (abort / segfault) find the history that does it and
    # report it as a failing input (the assignment does not complete, no handler is called), then go on without it
    probe = cases[:len(corpus())] if not ctx.replay else list(cases)     # the corpus comes first and holds every configuration
    for _ in range(3):
        rc, out, err = ctx.run_driver(DRIVER, probe)
        if rc == 0 and out is not None:
            break
        lo, hi = 0, len(probe)            # invariant: probe[:lo] runs, probe[:hi] does not
        while hi - lo > 1:
            mid = (lo + hi) // 2
            r2, o2, _ = ctx.run_driver(DRIVER, probe[:mid])
            if r2 == 0 and o2 is not None:
                lo = mid
            else:
                hi = mid
        bad = probe[lo]
        r3, o3, e3 = ctx.run_driver(DRIVER, [bad])
        if r3 == 0 and o3 is not None:
            break                          # not reproducible on its own: leave it to hist.run's harness report
        ctx.fail("crash/%s/%s" % (bad["kind"] if bad["kind"] == "event" else bad["mode"], bad.get("build") or "plain"),
                 "the implementation kills the interpreter (driver exit status %s) on this history: trait x (%s, mode %s, "
                 "definition %s), handlers %r, operations %r; stderr: %s" % (
                     r3, bad["kind"], bad["mode"], bad.get("build") or "trait type instance", handlers_of(bad), bad["ops"],
                     (e3 or "")[-300:].replace("\n", " | ")),
                 dict(kind="implementation-crash", case=bad, driver_rc=r3, stderr=(e3 or "")[-1500:]))
        same = lambda c: (c.get("build") == bad.get("build") and c["mode"] == bad["mode"] and c["kind"] == bad["kind"])  # noqa: E731
        cases = [c for c in cases if not same(c)]
        probe = [c for c in probe if not same(c)]
    k = hist.run(ctx, DRIVER, cases, to_term, header, CASE_T, key_fn, describe, nontrivial,
                 relation="C02.Corr.corr_codes (Model.step = implementation on every operation)")
    kp = run_proto(ctx, rnd) if not ctx.replay else 0
    ctx.cov["evaluations"] = (sum(len(c["ops"]) for c in cases) if k else 0) + (kp or 0)
    proof_gate(ctx, ok, log, PROPS)
