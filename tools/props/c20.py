"""C20 — synchronised traits converge and stop when unsynchronised (HasTraits.sync_trait)."""
import json
import random

from vlib import hist
from vlib.ctx import proof_gate
from vlib.term import C, Nat, Some, opt

HEADER = ("From Coq Require Import ZArith List.\n"
          "From TV Require Import Common.Harness C20.ListSem C20.Model C20.Law C20.Corr.")
CASE_T = "C20.Corr.case"
PROPS = ["C20/Props.v"]
CLAUSE = {1: "mutual-differs", 2: "one-way-target-differs", 3: "delta-lost", 4: "inert-violated",
          5: "outcome", 6: "logged-exception", 7: "doubled-notification", 8: "origin-value"}
SCALARS, LISTS, ANY = (0, 1), (2, 3), 4


# ---------------------------------------------------------------- terms
def val(v):
    return C("VL", list(v)) if isinstance(v, list) else C("VS", v)


def sl_term(t):
    return (opt(t[0]), opt(t[1]), opt(t[2]))


def mut_term(m):
    k = m[0]
    if k == "Append":
        return C("MAppend", m[1])
    if k == "Insert":
        return C("MInsert", m[1], m[2])
    if k == "SetI":
        return C("MSetI", m[1], m[2])
    if k == "DelI":
        return C("MDelI", m[1])
    if k == "SetS":
        return C("MSetS", sl_term(m[1]), list(m[2]))
    if k == "DelS":
        return C("MDelS", sl_term(m[1]))
    if k == "Extend":
        return C("MExtend", list(m[1]))
    if k == "Iadd":
        return C("MIadd", list(m[1]))
    if k == "Imul":
        return C("MImul", m[1])
    if k == "Pop":
        return C("MPop", opt(m[1]))
    if k == "Remove":
        return C("MRemove", m[1])
    if k == "Clear":
        return C("MClear")
    if k == "Sort":
        return C("MSort", bool(m[1]))
    if k == "Reverse":
        return C("MReverse")
    raise ValueError(m)


def op_term(op):
    k = op[0]
    if k == "Assign":
        return C("Assign", Nat(op[1]), Nat(op[2]), val(op[3]))
    if k == "Mut":
        return C("Mut", Nat(op[1]), Nat(op[2]), mut_term(op[3]))
    if k in ("Sync", "Unsync"):
        return C(k, Nat(op[1]), Nat(op[2]), Nat(op[3]), Nat(op[4]), bool(op[5]))
    if k == "Collect":
        return C("Collect", Nat(op[1]))
    raise ValueError(op)


def obs_term(ob):
    out = C("Done") if ob["out"] == "Done" else C("Raised", C(ob["out"]))
    return C("mkObs", out, [[val(v) for v in vs] for vs in ob["vals"]], [list(c) for c in ob["cnt"]], ob["logged"])


def to_term(case, obs):
    return ([[val(v) for v in vs] for vs in case["init"]],
            [(op_term(op), obs_term(ob)) for op, ob in zip(case["ops"], obs)])


# ---------------------------------------------------------------- link bookkeeping (keys, steering; never an oracle)
def edges_after(E, op):
    E = list(E)
    k = op[0]
    if k == "Sync":
        for e in [((op[1], op[2]), (op[3], op[4]))] + ([((op[3], op[4]), (op[1], op[2]))] if op[5] else []):
            if e not in E:
                E.append(e)
    elif k == "Unsync":
        for e in [((op[1], op[2]), (op[3], op[4]))] + ([((op[3], op[4]), (op[1], op[2]))] if op[5] else []):
            if e in E:
                E.remove(e)
    elif k == "Collect":
        E = [e for e in E if e[0][0] != op[1] and e[1][0] != op[1]]
    return E


def topology(E, origin):
    """'cyclic' if, among the traits reachable from the operated trait, some trait is reachable along two
    different link paths (the undirected link graph of the reachable part is not a tree)."""
    seen, todo = {origin}, [origin]
    while todo:
        x = todo.pop()
        for a, b in E:
            if a == x and b not in seen:
                seen.add(b)
                todo.append(b)
    und = {frozenset((a, b)) for a, b in E if a in seen and b in seen and a != b}
    return "cyclic" if len(und) >= len(seen) else "tree"


def hook_state(ops):
    """Which list traits have the items handler attached, replayed from the operations as sync_trait does it
    (attached only when the FIRST partner is registered and only if both sides are lists; detached only when the LAST
    partner is removed and that pair is list-list).  Used for finding keys and to steer the generator, never an oracle."""
    dic, att = {}, {}

    def sync1(X, Y):
        d = dic.setdefault(X, [])
        if Y in d:
            return True
        both = X[1] in LISTS and Y[1] in LISTS
        if not d and both:
            att[X] = True
        d.append(Y)
        same_kind = Y[1] == ANY or ((X[1] in LISTS) == (Y[1] in LISTS))
        return same_kind          # False: the initial setattr raises TraitError, a mutual link stops here

    def unsync1(X, Y):
        d = dic.get(X, [])
        if Y in d:
            d.remove(Y)
            if not d and X[1] in LISTS and Y[1] in LISTS:
                att[X] = False

    for op in ops:
        k = op[0]
        if k in ("Sync", "Unsync"):
            X, Y = (op[1], op[2]), (op[3], op[4])
            if k == "Sync":
                if sync1(X, Y) and op[5]:
                    sync1(Y, X)
            else:
                unsync1(X, Y)
                if op[5]:
                    unsync1(Y, X)
        elif k == "Collect":
            for X in list(dic):
                if X[0] == op[1]:
                    del dic[X]
                else:
                    dic[X] = [Y for Y in dic[X] if Y[0] != op[1]]
    return dic, att


def items_hook_missing(case, step):
    """The operated list trait, or a list trait its mutation reaches, has a list partner but no items handler:
    its first partner was a non-list trait (finding: is_list is decided once, at the first registration)."""
    op = case["ops"][step]
    if op[0] != "Mut":
        return False
    dic, att = hook_state(case["ops"][:step])
    seen, todo = {(op[1], op[2])}, [(op[1], op[2])]
    while todo:
        X = todo.pop()
        for Y in dic.get(X, []):
            if X[1] in LISTS and Y[1] in LISTS and not att.get(X):
                return True
            if Y not in seen:
                seen.add(Y)
                todo.append(Y)
    return False


def topo_at(case, step):
    E = []
    for op in case["ops"][:step + 1]:
        E = edges_after(E, op)
    op = case["ops"][step]
    if op[0] in ("Assign", "Mut", "Sync"):
        return topology(E, (op[1], op[2]))
    return "none"


def key_fn(case, obs, step, clause):
    op = case["ops"][step]
    return "%s/%s/%s%s" % (CLAUSE.get(clause, clause), op[0], topo_at(case, step),
                           "+items-hook-missing" if items_hook_missing(case, step) else "")


def describe(case, obs, step, clause):
    return "sync_trait: clause %s fails at step %d op %r (links %s): observed %r" % (
        CLAUSE.get(clause, clause), step, case["ops"][step], topo_at(case, step), obs[step])


def nontrivial(case, obs):
    sig = json.dumps([case["init"], case["ops"]])
    # some step propagated: a trait other than the operated one was notified
    nt = False
    for op, ob in zip(case["ops"], obs):
        tot = sum(sum(c) for c in ob["cnt"])
        if tot >= 2 or ob["out"] != "Done" or op[0] in ("Unsync", "Collect"):
            nt = True
    return sig, nt


# ---------------------------------------------------------------- generator
def gen_slice(rnd, n):
    def bound():
        r = rnd.random()
        if r < 0.25:
            return None
        if r < 0.9:
            return rnd.randint(-n - 2, n + 2)
        return rnd.choice([-100, 100])
    r = rnd.random()
    step = None if r < 0.35 else 1 if r < 0.45 else rnd.choice([2, 2, 3, -1, -1, -2, -3, 5, 0])
    return [bound(), bound(), step]


def slice_len(n, s):
    try:
        return len(range(*slice(*s).indices(n)))
    except ValueError:
        return 0


def gen_mut(rnd, n):
    """n: a guess of the current length (steers indices to the boundaries)."""
    k = rnd.choice(["Append", "Append", "Insert", "SetI", "DelI", "SetS", "SetS", "SetS", "DelS", "DelS", "Extend",
                    "Iadd", "Imul", "Pop", "Remove", "Clear", "Sort", "Reverse"])
    idx = lambda: rnd.randint(-n - 2, n + 1)  # noqa: E731
    item = lambda: rnd.randint(0, 9)  # noqa: E731
    items = lambda m=None: [item() for _ in range(rnd.randint(0, 3) if m is None else m)]  # noqa: E731
    if k == "Append":
        return [k, item()]
    if k == "Insert":
        return [k, idx(), item()]
    if k == "SetI":
        return [k, idx(), item()]
    if k == "DelI":
        return [k, idx()]
    if k == "SetS":
        s = gen_slice(rnd, n)
        if s[2] not in (None, 1) and rnd.random() < 0.85:
            return [k, s, items(slice_len(n, s))]      # extended slice: matching size (mostly)
        return [k, s, items()]
    if k == "DelS":
        return [k, gen_slice(rnd, n)]
    if k in ("Extend", "Iadd"):
        return [k, items()]
    if k == "Imul":
        return [k, rnd.choice([-1, 0, 1, 2, 2, 3])]
    if k == "Pop":
        return [k, None if rnd.random() < 0.4 else idx()]
    if k == "Remove":
        return [k, item()]
    if k == "Sort":
        return [k, rnd.random() < 0.4]
    return [k]


def gen_case(rnd, ctx, maxlen, allow_cyclic):
    nobj = rnd.choice([2, 3, 3])
    init = [[rnd.randint(0, 3), rnd.randint(0, 3), [rnd.randint(0, 9) for _ in range(rnd.randint(0, 5))],
             [rnd.randint(0, 9) for _ in range(rnd.randint(0, 4))]] for _ in range(nobj)]
    alive = list(range(nobj))
    E = []
    lens = {(o, n): len(init[o][n]) for o in range(nobj) for n in LISTS}   # guesses only
    kind = rnd.choice(["list", "list", "scalar", "both"])
    ops = []
    pending = None
    # object variants of the driver (the property does not distinguish them): one object in about eight has its
    # list trait `items` DELEGATED to a private model object, one in about twelve rejects values for s1 with a
    # ValueError subclass instead of TraitError
    variant = ["plain"] * nobj
    rv = rnd.random()
    if rv < 0.12:
        variant[rnd.randrange(nobj)] = "deleg"
        kind = "list"
        ctx.count("variant:delegated-list")
    elif rv < 0.20:
        variant[rnd.randrange(nobj)] = "valerr"
        kind = rnd.choice(["list", "both"])
        ctx.count("variant:rejects-with-ValueError")
    valerr = [q for q in range(nobj) if variant[q] == "valerr"]

    def names():
        k = kind if kind != "both" else rnd.choice(["list", "scalar"])
        return LISTS if k == "list" else SCALARS

    def pick_link():
        ns = names()
        o = rnd.choice(alive)
        p = rnd.choice([q for q in alive if q != o] or alive) if rnd.random() < 0.9 else o
        n = ns[0] if rnd.random() < 0.7 else ns[1]
        m = n if (rnd.random() < 0.6 and p != o) else rnd.choice(ns)
        return o, n, p, m

    for i in range(rnd.randint(2, maxlen)):
        r = rnd.random()
        if len(alive) < 1:
            break
        if pending is not None:
            # a second, ordinary partner of a source that already has a rejecting / Any partner
            o, n = pending
            pending = None
            p = rnd.choice([q for q in alive if q != o] or alive)
            op = ["Sync", o, n, p, n, rnd.random() < 0.4]
            if not allow_cyclic and topology(edges_after(E, op), (o, n)) != "tree":
                continue
        elif valerr and valerr[0] in alive and len(alive) > 1 and r < 0.14 and not any(
                op[0] == "Sync" and op[3] == valerr[0] and op[4] == 1 and op[2] in LISTS for op in ops):
            # a list source with the ValueError-rejecting integer trait as (one-way) partner, then an ordinary partner
            p = valerr[0]
            o = rnd.choice([q for q in alive if q != p])
            n = rnd.choice(LISTS)
            op = ["Sync", o, n, p, 1, False]
            ctx.count("link:one-way:rejecting-partner:ValueError")
            pending = (o, n)
        elif r < 0.04 and len(alive) > 1:
            # an odd partner, one-way: the unobserved Any trait (takes everything) or a trait of the other kind
            # (a narrower type: rejects every value of the source; sync_trait itself raises TraitError)
            o = rnd.choice(alive)
            p = rnd.choice([q for q in alive if q != o])
            n = rnd.choice(SCALARS + LISTS)
            att = hook_state(ops)[1]
            if rnd.random() < 0.5 and not att.get((o, n)):
                # (an Any partner of a list trait whose items handler is attached holds the SAME list object and
                #  makes one mutation recurse to the recursion limit on the unchanged tree - reported separately, not
                #  generated: the result depends on the interpreter's recursion limit)
                m = ANY
                ctx.count("link:one-way:to-Any")
            else:
                m = rnd.choice(LISTS if n in SCALARS else SCALARS)
                ctx.count("link:one-way:rejecting-partner")
            op = ["Sync", o, n, p, m, False]
            if rnd.random() < 0.75:
                pending = (o, n)
        elif (i == 0 and r < 0.85) or r < 0.17:
            for _ in range(8):
                o, n, p, m = pick_link()
                op = ["Sync", o, n, p, m, rnd.random() < 0.65]
                if allow_cyclic or topology(edges_after(E, op), (o, n)) == "tree":
                    break
            else:
                continue
        elif r < 0.25 and E:
            if rnd.random() < 0.75:
                (o, n), (p, m) = rnd.choice(E)
            else:
                o, n, p, m = pick_link()
            op = ["Unsync", o, n, p, m, rnd.random() < 0.7]
        elif r < 0.30 and len(alive) > 1:
            op = ["Collect", rnd.choice(alive)]
        else:
            # operate preferably on a linked trait
            linked = [x for e in E for x in e if x[0] in alive and x[1] != ANY]
            if linked and rnd.random() < 0.85:
                o, n = rnd.choice(linked)
            else:
                o, n = rnd.choice(alive), rnd.choice(names())
            if n in SCALARS:
                op = ["Assign", o, n, rnd.randint(0, 4)]
            elif rnd.random() < 0.2:
                src = [init[o][n]] + [list(init[q][k]) for q in range(nobj) for k in LISTS]
                op = ["Assign", o, n, rnd.choice(src) if rnd.random() < 0.4 else
                      [rnd.randint(0, 9) for _ in range(rnd.randint(0, 5))]]
                lens[(o, n)] = len(op[3])
            else:
                op = ["Mut", o, n, gen_mut(rnd, lens.get((o, n), 3))]
                ctx.count("mutator:" + op[3][0] + (":extended" if op[3][0] in ("SetS", "DelS")
                                                    and op[3][1][2] not in (None, 1) else ""))
                lens[(o, n)] = max(0, lens.get((o, n), 3) + {"Append": 1, "Insert": 1, "DelI": -1, "Pop": -1,
                                                             "Remove": -1}.get(op[3][0], 0))
        ops.append(op)
        ctx.count("op:" + op[0])
        E = edges_after(E, op)
        if op[0] == "Collect":
            alive.remove(op[1])
        if op[0] == "Sync":
            if op[4] != ANY and (op[2] in SCALARS) == (op[4] in SCALARS):
                ctx.count("link:" + ("mutual" if op[5] else "one-way") + (":alias" if op[2] != op[4] else "")
                          + (":self" if op[1] == op[3] else ""))
            for (a, b) in [((op[1], op[2]), (op[3], op[4]))]:
                if a in lens and b in lens:
                    lens[b] = lens[a]
    ctx.count("history-length:%02d" % len(ops))
    ctx.count("objects:%d" % nobj)
    return dict(init=init, ops=ops, variant=variant) if variant != ["plain"] * nobj else dict(init=init, ops=ops)


def corpus():
    """Minimised past failures and the triggers of listed findings: run first, on every run."""
    L = [1, 2, 3, 4, 5, 6]
    base = [[0, 0, list(L), []], [1, 1, [], [7]], [2, 2, [9], []]]
    cs = []
    # F11 (repaired): extended-slice assignment / deletion must reach the partner
    cs.append(dict(init=base, ops=[["Sync", 0, 2, 1, 2, True], ["Mut", 0, 2, ["SetS", [None, None, 2], [10, 30, 50]]],
                                   ["Mut", 1, 2, ["DelS", [None, None, 2]]], ["Mut", 0, 2, ["SetS", [None, None, -2], [7, 8]]],
                                   ["Mut", 1, 2, ["DelS", [4, 0, -2]]], ["Mut", 0, 2, ["Sort", False]], ["Mut", 1, 2, ["Reverse"]]]))
    # F12 (repaired): items handler after the partner was collected must stay silent
    cs.append(dict(init=base, ops=[["Sync", 0, 2, 1, 2, True], ["Collect", 1], ["Mut", 0, 2, ["Append", 7]],
                                   ["Assign", 0, 2, [1]], ["Mut", 0, 2, ["Pop", None]]]))
    cs.append(dict(init=base, ops=[["Sync", 0, 2, 1, 3, False], ["Sync", 0, 0, 1, 1, True], ["Collect", 1],
                                   ["Mut", 0, 2, ["Extend", [7, 8]]], ["Assign", 0, 0, 5],
                                   ["Sync", 0, 2, 2, 2, True], ["Mut", 2, 2, ["Insert", 0, 4]]]))
    # removal: mutual, one direction only, one-way
    cs.append(dict(init=base, ops=[["Sync", 0, 2, 1, 2, True], ["Unsync", 0, 2, 1, 2, True], ["Mut", 0, 2, ["Append", 7]],
                                   ["Mut", 1, 2, ["Append", 8]], ["Assign", 0, 2, [3]],
                                   ["Sync", 0, 0, 1, 0, True], ["Unsync", 0, 0, 1, 0, False], ["Assign", 0, 0, 9],
                                   ["Assign", 1, 0, 7]]))
    # one-way with unequal lists: deltas, reverse direction inert
    cs.append(dict(init=base, ops=[["Sync", 0, 2, 1, 2, False], ["Mut", 1, 2, ["Clear"]], ["Mut", 0, 2, ["Append", 7]],
                                   ["Mut", 0, 2, ["SetS", [1, 5, 2], [0, 0]]], ["Mut", 0, 2, ["DelS", [None, None, 3]]],
                                   ["Assign", 0, 2, [4, 4]], ["Assign", 1, 2, [5]], ["Assign", 0, 2, [4, 4]]]))
    # star with three objects, alias, self link
    cs.append(dict(init=base, ops=[["Sync", 0, 2, 1, 3, True], ["Sync", 0, 2, 2, 2, True], ["Mut", 1, 3, ["Append", 5]],
                                   ["Mut", 2, 2, ["Imul", 2]], ["Sync", 1, 0, 1, 1, True], ["Assign", 1, 0, 8],
                                   ["Assign", 1, 1, 3]]))
    # fourth wave: a DELEGATED list attribute (DelegatesTo a List) is a list trait for sync_trait, on either side
    cs.append(dict(init=base, variant=["deleg", "plain", "plain"],
                   ops=[["Sync", 0, 2, 1, 2, True], ["Assign", 0, 2, [1, 2, 3]], ["Mut", 0, 2, ["Append", 4]],
                        ["Mut", 1, 2, ["Insert", 0, 0]], ["Mut", 1, 2, ["DelS", [1, 3, None]]], ["Sync", 2, 2, 0, 2, True],
                        ["Mut", 2, 2, ["Append", 6]], ["Mut", 0, 2, ["Pop", None]], ["Unsync", 0, 2, 1, 2, True],
                        ["Mut", 0, 2, ["Append", 99]], ["Mut", 1, 2, ["Append", 8]]]))
    # fourth wave: a partner whose trait rejects the value with an exception that is not TraitError is skipped too
    cs.append(dict(init=base, variant=["plain", "valerr", "plain"],
                   ops=[["Sync", 0, 2, 1, 1, False], ["Sync", 0, 2, 2, 2, True], ["Assign", 0, 2, [5]],
                        ["Mut", 0, 2, ["Append", 6]], ["Mut", 2, 2, ["Append", 7]], ["Assign", 2, 2, [1]],
                        ["Assign", 1, 1, 3], ["Assign", 0, 2, [2, 2]]]))
    # a partner that rejects the value (list trait offered an int and vice versa) must not stop the others
    cs.append(dict(init=base, ops=[["Sync", 0, 0, 1, 2, False], ["Sync", 0, 0, 2, 0, False], ["Assign", 0, 0, 5],
                                   ["Sync", 0, 2, 2, 1, False], ["Sync", 0, 2, 1, 3, True], ["Assign", 0, 2, [4, 4]],
                                   ["Mut", 0, 2, ["Append", 6]], ["Mut", 1, 3, ["Pop", None]]]))
    # a List trait linked to a non-list (Any) partner: only whole values are forwarded, items are not
    cs.append(dict(init=base, ops=[["Sync", 0, 2, 1, 4, False], ["Mut", 0, 2, ["Append", 7]], ["Mut", 0, 2, ["SetI", 0, 9]],
                                   ["Assign", 0, 2, [1]], ["Mut", 0, 2, ["Extend", [2, 3]]], ["Sync", 0, 0, 1, 4, False],
                                   ["Assign", 0, 0, 8], ["Unsync", 0, 2, 1, 4, True], ["Mut", 0, 2, ["Pop", None]]]))
    # new finding: a trait reachable along two link paths receives the delta twice
    cs.append(dict(init=base, ops=[["Sync", 0, 2, 1, 2, True], ["Sync", 0, 2, 2, 2, True], ["Sync", 1, 2, 2, 2, True],
                                   ["Mut", 0, 2, ["Append", 5]], ["Assign", 0, 2, [7]], ["Mut", 2, 2, ["Pop", None]]]))
    cs.append(dict(init=base, ops=[["Sync", 0, 2, 1, 2, True], ["Sync", 2, 2, 0, 2, False], ["Sync", 2, 2, 1, 2, False],
                                   ["Assign", 2, 2, [1, 2, 3, 4, 5, 6]], ["Mut", 2, 2, ["Append", 5]]]))
    return cs


def run(ctx):
    # the re-check of Props.v (40 s of Print Assumptions) runs beside the correspondence
    import threading
    box = {}
    th = threading.Thread(target=lambda: box.update(r=ctx.proofs(PROPS)))
    th.start()
    ctx.cov["trusted_base"] += [
        "tools/drivers/c20_driver.py (object pool, recording handlers on <trait> and <trait>_items, exception "
        "handler recording what the notification machinery swallows, gc.collect for partner death) and "
        "tools/props/c20.py (generator)",
        "modelled, not verified: built-in list / slice semantics and TraitList event normalisation "
        "(C20/ListSem.v, validated against the implementation on every generated mutation, on both sides of a link); "
        "weakref callback timing (CPython reference counting + gc.collect)",
    ]
    ctx.cov["rule"] = ("random histories over a pool of 2-3 objects with two Int and two List(Int) traits each: "
                       "sync_trait (mutual / one-way, alias, self link, star / chain / cyclic link graphs, partners of a narrower type that "
                       "reject the value, an unobserved Any partner), removal "
                       "(both or one direction, of absent links too), gc of a partner, assignments and all 14 TraitList "
                       "mutators incl. extended and negative-step slices on either side; a case is non-trivial if some "
                       "step propagated to another trait, raised, removed a link or collected an object; distinct = "
                       "distinct (initial values, operation list)")
    rnd = random.Random(ctx.seed)
    n, maxlen = (800, 12) if ctx.tier == "quick" else (12000, 24)
    if ctx.replay:
        cases = [json.load(open(ctx.replay))["replay"]["case"]]
    else:
        cases = corpus() + [gen_case(rnd, ctx, maxlen, allow_cyclic=(i % 5 == 0)) for i in range(n)]
    for c in cases[:2] + cases[-2:]:
        ctx.sample(c)
    hist.run(ctx, "c20_driver.py", cases, to_term, HEADER, CASE_T, key_fn, describe, nontrivial,
             relation="C20.Corr.corr_codes (Model.step = sync_trait machinery on every step)", shard=100)
    th.join()
    ok, log = box.get("r", (False, "proof re-check did not finish"))
    ctx.obl.sort(key=lambda o: not o[0].startswith("theorem "))      # stable: theorems (file order) first
    proof_gate(ctx, ok, log, PROPS)
