"""C05 — TraitList refines list; change events are faithful normalised deltas.

Also the shared list machinery of C04 (generator, term writer, grids)."""
import json
import os
import random

from vlib import coqrun, hist
from vlib.ctx import proof_gate
from vlib.term import C, Raw, opt

import tr_pyfun

HEADER = ("From Coq Require Import ZArith List.\n"
          "From TV Require Import Common.PySlice Common.PyList Common.Harness "
          "C05.Normalize C05.Model C05.Law C05.Corr.")
CASE_T = "C05.Corr.case"
PROPS = ["C05/Props.v"]
DRIVER = "c05_driver.py"
CLAUSE = {1: "outcome-class", 2: "contents", 3: "failing-op-effect", 4: "several-events", 5: "missing-event",
          6: "replay-law", 7: "index-normal-form", 8: "removed-not-selected", 9: "return-value",
          10: "copy-shares-notifiers-or-state", 11: "copy-contents", 20: "reaction-presence"}
CLAUSE.update({20 + k: "reaction-" + v for k, v in list(CLAUSE.items()) if k < 10})
REACT_T = "C05.Corr.rcase"
COPY_T = "C05.Corr.ccase"
COPYK = {"copy": "CopyCopy", "deep": "CopyDeep", "pickle": "CopyPickle"}
M61 = 2305843009213693951


# ---------------------------------------------------------------- terms
def outcome(o):
    return C("Ok", Raw("tt")) if o == "Ok" else C("Raise", C(o))


def sl_term(t):
    return (opt(t[0]), opt(t[1]), opt(t[2]))


def op_term(op, prev=None):
    """prev: the contents before the operation (the argument when the receiver itself is passed, marker "self")"""
    k = op[0]
    if k == "SetInt":
        return C(k, op[1], op[2])
    if k == "ImulQ":
        return C(k, op[1], op[2])
    if k == "SetSlice":
        return C(k, sl_term(op[1]), list(prev if op[-1] == "self" else op[2]))
    if k == "DelInt":
        return C(k, op[1])
    if k == "DelSlice":
        return C(k, sl_term(op[1]))
    if k in ("Append", "Remove", "Imul"):
        return C(k, op[1])
    if k in ("Extend", "Iadd"):
        return C(k, list(prev if op[-1] == "self" else op[1]))
    if k in ("Insert", "InsertX"):
        return C(k, op[1], op[2])
    if k in ("PopX", "ImulX"):
        return C(k, op[1])
    if k == "SetSliceN":
        return C(k, sl_term(op[1]))
    if k in ("ExtendN", "SortPos"):
        return C(k)
    if k == "Pop":
        return C(k, opt(op[1]))
    if k == "Sort":
        return C(k, op[2] if len(op) > 2 else 0, bool(op[1]))
    if k in ("Reverse", "Clear"):
        return C(k)
    raise ValueError(op)


def _copy_shape(op):
    return "Copy/" + op[1]


def idx_term(i):
    return C("I", i[1]) if i[0] == "I" else C("S3", i[1], i[2], i[3])


def obs_term(ob):
    return C("mkObs", outcome(ob["out"]), list(ob["after"]),
             [(idx_term(e[0]), list(e[1]), list(e[2])) for e in ob["events"]], opt(ob["ret"]))


def target_term(case):
    if case["target"] == "plain":
        return C("TPlain")
    return C("TObj", case.get("minlen", 0), opt(case.get("maxlen")))


def to_term(case, obs):
    h, prev = [], list(case["init"])
    for op, ob in zip(case["ops"], obs):
        h.append((op_term(op, prev), obs_term(ob)))
        prev = list(ob["after"])
    return (target_term(case), C(case["vk"]), list(case["init"]), h)


def op_shape(op):
    k = op[0]
    if k == "Copy":
        return "Copy/" + op[1]
    if k in ("SetSlice", "DelSlice"):
        c = op[1][2]
        return k + ("/step1" if c in (None, 1) else "/step0" if c == 0 else "/ext+" if c > 0 else "/ext-")
    return k


def tgt_name(case):
    ch = case.get("channel", "notifier")
    return case["target"] + ("" if ch == "notifier" else "-" + ch) + ("-falsy-owner" if case.get("falsy") else "")


XOPS = ("InsertX", "PopX", "ImulX")      # the integer argument is an object with __index__ only (finding F26)


def key_fn(case, obs, step, clause):
    op = case["ops"][step]
    if op[0] in XOPS:
        return "%s/%s/index-object" % (CLAUSE.get(clause, clause), op[0])
    return "%s/%s/%s" % (CLAUSE.get(clause, clause), op_shape(op), tgt_name(case))


def describe(case, obs, step, clause):
    return "TraitList (%s, validator %s): clause %s fails at step %d op %r: observed %r" % (
        tgt_name(case), case["vk"], CLAUSE.get(clause, clause), step, case["ops"][step], obs[step])


def nontrivial(case, obs):
    sig = repr((case["vk"], tgt_name(case), case.get("minlen"), case.get("maxlen"), case["init"], case["ops"]))
    nt = any(o["events"] or o["out"] != "Ok" for o in obs)
    return sig, nt


# ---------------------------------------------------------------- generator
def _v(vk, a):
    """generation hint only: the validated atom or None"""
    if vk == "VAll":
        return a
    if vk == "VInc":
        return a + 1 if 0 <= a < 90 else None
    if 0 <= a < 100:
        return a
    if vk == "VCInt" and 100 <= a < 200:
        return a - 100
    if vk == "VCInt" and 300 <= a % 1000 < 400 and (a < 400 or a >= 1000):
        return a % 1000 - 300
    return None


def vinit(rnd, vk):
    """a valid stored atom for the initial contents"""
    return rnd.randint(1, 10) if vk == "VInc" else rnd.randint(0, 9)


def hint_apply(vk, cur, op):
    """approximate effect on a plain list (steers indices / sizes; never an oracle)"""
    k = op[0]
    try:
        if k == "SetInt":
            v = _v(vk, op[2])
            if v is not None:
                cur[op[1]] = v
        elif k == "SetSlice":
            vs = [_v(vk, a) for a in (cur if op[-1] == "self" else op[2])]
            if None not in vs:
                cur[slice(*op[1])] = vs
        elif k == "DelInt":
            del cur[op[1]]
        elif k == "DelSlice":
            del cur[slice(*op[1])]
        elif k == "Append":
            v = _v(vk, op[1])
            if v is not None:
                cur.append(v)
        elif k in ("Extend", "Iadd"):
            vs = [_v(vk, a) for a in (cur if op[-1] == "self" else op[1])]
            if None not in vs:
                cur.extend(vs)
        elif k == "Imul":
            if abs(op[1]) < 2 ** 62:
                cur *= op[1]
        elif k == "ImulQ":
            pass
        elif k == "Insert":
            v = _v(vk, op[2])
            if v is not None:
                cur.insert(op[1], v)
        elif k == "Pop":
            cur.pop(-1 if op[1] is None else op[1])
        elif k == "Remove":
            cur.remove(op[1])
        elif k == "Reverse":
            cur.reverse()
        elif k == "Sort":
            m = op[2] if len(op) > 2 else 0
            cur.sort(key=(lambda x: x % m) if m else None, reverse=bool(op[1]))
        elif k == "Clear":
            del cur[:]
    except Exception:  # noqa
        pass


WORD = [2 ** 63, -2 ** 63 - 1, 2 ** 100, -2 ** 100, 2 ** 63 - 1, -2 ** 63, 2 ** 64]     # around / beyond Py_ssize_t


def gen_index(rnd, n, huge=2 ** 62, word=False):
    r = rnd.random()
    if word and r < 0.08:
        return rnd.choice(WORD)      # list.insert / list.pop: OverflowError beyond a machine word, list untouched
    if r < 0.55:
        return rnd.randint(-n - 2, n + 1)
    if r < 0.8:
        return rnd.choice([0, -1, n, -n, n - 1, -n - 1, n + 1, 1, -2])
    if r < 0.88:
        return rnd.choice([huge, -huge, 10 ** 6, -10 ** 6])
    return rnd.randint(-12, 12)


def gen_slice(rnd, n):
    def part():
        return None if rnd.random() < 0.2 else gen_index(rnd, n, huge=10 ** 30)
    step = rnd.choice([None, None, 1, 1, 2, 2, 3, -1, -1, -2, -2, -3, 4, -4, 7, -7, n, -n, n + 1,
                       10 ** 20, -10 ** 20, 0])
    if step == 0 and rnd.random() < 0.7:
        step = rnd.choice([2, -2])
    return [part(), part(), step]


def gen_items(rnd, vk, n, cur):
    """n raw items: mostly valid, sometimes convertible, sometimes one invalid at a chosen ordinal"""
    pool = list(range(0, 10))
    r = rnd.random()
    items = [rnd.choice(pool) for _ in range(n)]
    if n and r < 0.25:
        for j in range(n):
            if rnd.random() < 0.5:
                items[j] = 100 + rnd.randint(0, 9)       # the string "d": CInt converts, Int rejects
    if n and 0.25 <= r < 0.45:
        items[rnd.randrange(n)] = rnd.choice([200, 201, 200, 105, 202])      # 202: traits.api.Undefined
    if n and cur and 0.45 <= r < 0.6:
        items[rnd.randrange(n)] = rnd.choice(cur)         # an item already present
    if n and vk == "VAll" and 0.68 <= r < 0.74:
        items[rnd.randrange(n)] = 1000 * rnd.choice([1, 2, 3]) + 500     # a NaN object: not equal to itself, found by identity
    if n and 0.6 <= r < 0.68:
        # the float d.0: equal to the int d, another value; sometimes as the j-th distinct float object d.0
        items[rnd.randrange(n)] = 300 + rnd.randint(0, 9) + 1000 * rnd.choice([0, 0, 1, 2, 3])
    return items


KINDS = ["SetInt", "SetInt", "SetSlice", "SetSlice", "SetSlice", "SetSlice", "DelInt", "DelSlice", "DelSlice",
         "DelSlice", "Append", "Extend", "Iadd", "Imul", "Insert", "Insert", "Pop", "Pop", "Remove", "Reverse",
         "Sort", "Clear"]


def key_kind(rnd, i):
    """the integer key of l[i] = v / del l[i] as an int (no marker), an __index__-only object, a numpy integer"""
    r = rnd.random()
    if abs(i) > 10 ** 6 or r >= 0.3:
        return []
    return ["idx"] if r < 0.18 else ["numpy"]


def arg_kind(rnd):
    """how the iterable argument is passed: a list (no marker), an ownerless trait list, a generator, a tuple"""
    r = rnd.random()
    return ["loose"] if r < 0.12 else ["gen"] if r < 0.24 else ["tuple"] if r < 0.3 else []


def gen_op(rnd, vk, cur, allow_self=False):
    n = len(cur)
    k = rnd.choice(KINDS)
    if k in ("SetSlice", "Extend") and rnd.random() < 0.06:
        # a falsy value that is not iterable where an iterable is required: TypeError, nothing changes
        bad = rnd.choice(["none", "zero", "false"])
        return ["SetSliceN", gen_slice(rnd, n), bad] if k == "SetSlice" else ["ExtendN", bad]
    if k in ("Insert", "Pop", "Imul") and rnd.random() < 0.08:
        # the integer argument as an object with __index__ only: the code raises TypeError (finding F26)
        i = rnd.randint(-n - 1, n + 1) if rnd.random() < 0.85 else rnd.choice(WORD)
        return ["InsertX", i, gen_items(rnd, vk, 1, cur)[0]] if k == "Insert" else ["PopX", i] if k == "Pop" \
            else ["ImulX", rnd.choice([-1, 0, 1, 2])]
    if allow_self and k in ("SetSlice", "Extend", "Iadd") and rnd.random() < 0.12:
        # aliased argument: the receiver itself (the model takes the snapshot before the mutation)
        return [k, gen_slice(rnd, n), None, "self"] if k == "SetSlice" else [k, None, "self"]
    if k == "SetInt":
        i = gen_index(rnd, n, huge=10 ** 30)
        return [k, i, gen_items(rnd, vk, 1, cur)[0]] + key_kind(rnd, i)
    if k == "SetSlice":
        s = gen_slice(rnd, n)
        cnt = len(range(*slice(*s).indices(n))) if s[2] != 0 else rnd.randint(0, 2)
        m = cnt if rnd.random() < 0.7 else rnd.randint(0, 4)
        return [k, s, gen_items(rnd, vk, m, cur)] + arg_kind(rnd)
    if k == "DelInt":
        i = gen_index(rnd, n, huge=10 ** 30)
        return [k, i] + key_kind(rnd, i)
    if k == "DelSlice":
        return [k, gen_slice(rnd, n)]
    if k == "Append":
        return [k, gen_items(rnd, vk, 1, cur)[0]]
    if k in ("Extend", "Iadd"):
        return [k, gen_items(rnd, vk, rnd.choice([0, 1, 1, 2, 3, 5]), cur)] + arg_kind(rnd)
    if k == "Imul":
        r = rnd.random()
        if r < 0.3:        # a number that is not an integer type: TypeError, nothing changes
            return ["ImulQ", rnd.choice([-3, -1, 0, 1, 2, 3, 4, 5, 8]), rnd.choice([1, 2, 4]),
                    rnd.choice(["float", "float", "fraction", "decimal"])]
        if r < 0.36:
            return [k, rnd.choice([2 ** 100, -2 ** 100, 2 ** 63, -2 ** 63 - 1])]      # OverflowError, list untouched
        if r < 0.4:
            return [k, rnd.choice([0, 1]), "bool"]
        m = rnd.choice([-1, 0, 1, 2, 2, 3])
        m = m if n * m <= 40 else rnd.choice([0, 1])
        return [k, m, "numpy"] if r < 0.5 else [k, m]
    if k == "Insert":
        return [k, gen_index(rnd, n, word=True), gen_items(rnd, vk, 1, cur)[0]]
    if k == "Pop":
        return [k, None if rnd.random() < 0.3 else gen_index(rnd, n, word=True)]
    if k == "Remove":
        r = rnd.random()
        if cur and r < 0.5:
            return [k, rnd.choice(cur)]
        if cur and r < 0.62:
            x = rnd.choice(cur)                              # an equal value of another type (1 vs 1.0)
            return [k, 300 + x if 0 <= x < 100 else x - 300 if 300 <= x < 400 else x]
        if cur and r < 0.75 and vk == "VCInt":
            x = rnd.choice(cur)
            return [k, 100 + x if 0 <= x < 100 else x]     # the string form of a present int: must not match
        return [k, rnd.choice([0, 3, 9, 11, 105, 200])]
    if k == "Sort":
        if rnd.random() < 0.12:     # key / reverse given positionally: TypeError, as for the built-in list
            return ["SortPos", rnd.choice(["none-true", "len", "none"])]
        return [k, rnd.random() < 0.4, rnd.choice([0, 0, 2, 3, 5])]
    return [k]


def gen_case(rnd, ctx, maxops, maxinit, target=None, bounds=None):
    vk = rnd.choice(["VAll", "VInt", "VCInt", "VCInt", "VInc"])
    target = target or rnd.choice(["plain", "plain", "obj"])
    n0 = rnd.choice([0, 1, 2, 3, 4, 5, 6, rnd.randint(0, maxinit)])
    valid = list(range(1, 11)) if vk == "VInc" else list(range(0, 10)) + ([101, 103, 200] if vk == "VAll" else [])
    mirror = vk == "VAll" and rnd.random() < 0.15
    case = dict(vk=vk, target=target)
    if target == "obj":
        case["channel"] = rnd.choice(["notifier", "notifier", "observe", "items"])
        if rnd.random() < 0.3:
            case["falsy"] = rnd.choice(["len", "bool"])     # the owner object is falsy during the history
    if bounds is not None:
        case["minlen"], case["maxlen"] = bounds
        lo, hi = bounds[0], (bounds[1] if bounds[1] is not None else max(bounds[0], n0))
        n0 = min(max(n0, lo), hi)
    init = [rnd.choice(valid) for _ in range(n0)]
    if mirror and bounds is None:
        # equal but distinct items in mirrored positions (the int d and the float d.0): reversing such a list
        # changes it although the result compares == to the original
        half = [rnd.randint(0, 9) for _ in range(rnd.randint(1, 3))]
        if rnd.random() < 0.5:
            init = half + [rnd.randint(0, 9)] * rnd.randint(0, 1) + [300 + x for x in reversed(half)]
        else:       # distinct objects of the same type and value: only their identity tells them apart
            init = [1300 + x for x in half] + [2300 + x for x in reversed(half)]
    cur = list(init)
    ops = []
    for _ in range(rnd.randint(1, maxops)):
        op = gen_op(rnd, vk, cur, allow_self=True)
        ops.append(op)
        ctx.count("op:" + op_shape(op) + ("/self" if op[-1] == "self" else ""))
        hint_apply(vk, cur, op)
        if len(cur) > 60:
            break
    case.update(init=init, ops=ops)
    ctx.count("validator:" + vk)
    ctx.count("target:" + tgt_name(case))
    ctx.count("history-length:%02d" % len(ops))
    return case


def corpus():
    """Fixed cases run first on every run: the documented corner cases of the normalisation and
    shapes that past versions of this check or its mutation tests needed."""
    cs = []
    for tgt, ch in (("plain", "notifier"), ("obj", "notifier"), ("obj", "observe"), ("obj", "items")):
        cs.append(dict(vk="VCInt", target=tgt, channel=ch, init=[1, 2, 3, 4, 5], ops=[
            ["SetSlice", [None, None, -2], [7, 108, 9]], ["DelSlice", [None, None, -2]],
            ["SetSlice", [3, 1, None], [6]], ["SetSlice", [1, None, 10], [5]], ["DelSlice", [5, 0, -3]],
            ["SetSlice", [0, 0, None], []], ["Sort", False], ["Sort", False], ["Sort", True, 3], ["Sort", False, 2], ["Reverse"],
            ["SetInt", -1, 104], ["SetInt", 7, 200], ["SetInt", 7, 1], ["Pop", -9], ["Pop", None],
            ["SetSliceN", [1, 3, None], "none"], ["SetSliceN", [None, None, None], "zero"], ["ExtendN", "false"],
            ["SortPos", "none-true"], ["SortPos", "len"], ["Append", 202], ["SetInt", 0, 202],
            ["Insert", 2 ** 63, 3], ["Insert", -2 ** 100, 3], ["Insert", 2 ** 100, 200], ["Pop", 2 ** 63], ["Pop", -2 ** 100],
            ["Imul", 2 ** 100], ["Imul", -2 ** 63 - 1], ["Insert", 2 ** 63 - 1, 3], ["Insert", -2 ** 63, 4],
            ["SetInt", 2 ** 100, 3], ["DelInt", -2 ** 100], ["DelSlice", [2 ** 100, None, None]],
            ["Insert", -100, 3], ["Insert", 100, 103], ["InsertX", 0, 3], ["PopX", 0], ["ImulX", 2], ["ImulX", 0], ["PopX", 99], ["Imul", 2], ["Imul", 0], ["Imul", 3], ["Clear"], ["Clear"],
            ["Remove", 3], ["Append", 3], ["Remove", 103], ["Remove", 3],
            ["Extend", [1, 2]], ["Extend", None, "self"], ["Iadd", None, "self"], ["SetSlice", [1, 2, None], None, "self"],
            ["SetSlice", [None, None, -1], None, "self"], ["ImulQ", 1, 2, "float"], ["ImulQ", -1, 1, "float"],
            ["ImulQ", 1, 2, "fraction"], ["ImulQ", 1, 4, "decimal"], ["ImulQ", 5, 2, "float"], ["Imul", 1, "bool"],
            ["Imul", 2, "numpy"], ["Imul", 0, "bool"]]))
        cs.append(dict(vk="VAll", target=tgt, channel=ch, init=[1301, 1302, 2302, 2301], ops=[
            ["Reverse"], ["Sort", False, 0], ["Sort", True, 0], ["SetSlice", [None, None, -1], [3301, 2301]], ["Remove", 1],
            ["Remove", 301], ["Append", 1301], ["Reverse"], ["SetInt", 0, 1201], ["Append", 2201], ["Reverse"], ["Pop", 0]]))
        cs.append(dict(vk="VAll", target=tgt, channel=ch, init=[1500, 1, 2500, 1], ops=[
            ["Remove", 3500], ["Remove", 2500], ["Remove", 1500], ["Append", 1500], ["Extend", [2500, 1500]], ["Reverse"],
            ["Remove", 1500], ["Sort", False, 0], ["Remove", 2500], ["Remove", 2500]]))
        cs.append(dict(vk="VCInt", target=tgt, channel=ch, init=[1, 2], ops=[
            ["Append", 1303], ["Extend", [2303, 3304]], ["SetInt", 0, 1201], ["Remove", 1303]]))
        cs.append(dict(vk="VAll", target=tgt, channel=ch, init=[1, 2, 302, 301], ops=[
            ["Reverse"], ["Reverse"], ["Sort", False, 0], ["Reverse"], ["SetInt", 0, 7, "idx"], ["SetInt", -1, 8, "numpy"],
            ["DelInt", 1, "idx"], ["DelInt", -1, "numpy"], ["SetInt", 9, 1, "idx"], ["DelInt", -9, "idx"],
            ["SetInt", 0, 200, "idx"], ["Reverse"]]))
        cs.append(dict(vk="VCInt", target=tgt, channel=ch, falsy="len" if tgt == "obj" else None, init=[1, 2, 3], ops=[
            ["SetInt", 0, 105, "idx"], ["SetInt", 1, 200, "numpy"], ["DelInt", 0, "numpy"], ["Append", 200], ["Append", 104],
            ["Extend", [1, 200]], ["SetSlice", [None, None, 2], [7, 200]], ["Insert", 0, 201]]))
        if tgt == "plain":      # no validator at all (the default _validate_everything)
            cs.append(dict(vk="VAll", target="plain", channel="notifier", init=[1, 2, 3], ops=[
                ["Extend", None, "self"], ["Iadd", None, "self"], ["SetSlice", [1, 2, None], None, "self"],
                ["SetSlice", [None, None, 2], None, "self"], ["ImulQ", 1, 2, "float"], ["ImulQ", 0, 1, "float"],
                ["ImulQ", -1, 2, "fraction"], ["ImulQ", 3, 4, "decimal"], ["Imul", 0, "bool"], ["Extend", None, "self"]]))
        cs.append(dict(vk="VInt", target=tgt, channel=ch, init=[0, 1, 2, 3, 4, 5, 6, 7], ops=[
            ["SetSlice", [None, None, 3], [9, 9]], ["SetSlice", [None, None, 3], [9, 9, 200]],
            ["SetSlice", [None, None, 3], [9, 200]],
            ["SetSlice", [None, None, 3], [9, 8, 7]], ["SetSlice", [-1, None, -3], [1, 2, 3]],
            ["SetSlice", [None, None, 0], []], ["DelSlice", [None, None, 0]], ["SetSlice", [None, None, 0], [200]],
            ["DelSlice", [6, None, -5]], ["DelSlice", [10 ** 30, -10 ** 30, -10 ** 20]],
            ["SetSlice", [2, 2, 1], [4, 5]], ["DelSlice", [1, 4, 1]], ["DelInt", -1], ["DelInt", 50],
            ["Extend", []], ["Iadd", [1, 200]], ["Extend", [1, 2]], ["SetSlice", [1, 3, None], [5, 105]]]))
    return cs


# ---------------------------------------------------------------- grids (same enumeration as C05/Corr.v)
def oz(lo, hi):
    return [None] + list(range(lo, hi + 1))


STEPS = [None, 1, 2, 3, 4, -1, -2, -3, -4, 0]
VALUES = [[], [90], [90, 91], [90, 91, 92], [90, 91, 92, 93], [90, 91, 92, 93, 94], [190], [90, 200], [190, 91]]


def slices(b):
    return [[a, e, c] for a in oz(-b, b) for e in oz(-b, b) for c in STEPS]


def grid_ops(b):
    ops = []
    for i in range(-b, b + 1):
        ops += [["DelInt", i], ["SetInt", i, 99], ["SetInt", i, 199], ["SetInt", i, 200], ["Insert", i, 99],
                ["Insert", i, 200], ["Pop", i], ["Imul", i], ["Remove", 10 + i], ["InsertX", i, 99], ["PopX", i],
                ["ImulX", i]]
    ops += [["Pop", None], ["Append", 5], ["Append", 105], ["Append", 200], ["Extend", [5, 6]], ["Extend", []],
            ["Extend", [5, 200]], ["Iadd", [5, 106]], ["Iadd", []], ["Insert", 2 ** 100, 99], ["Insert", -2 ** 100, 200],
            ["Insert", 2 ** 63 - 1, 99], ["Insert", -2 ** 63, 99], ["Insert", 2 ** 63, 99], ["Pop", 2 ** 100],
            ["Pop", -2 ** 63 - 1], ["Imul", 2 ** 100], ["Imul", -2 ** 100], ["InsertX", 2 ** 63, 99], ["PopX", -2 ** 63 - 1],
            ["SortPos", "none-true"], ["ExtendN", "none"],
            ["SetSliceN", [None, None, None], "none"], ["SetSliceN", [1, 3, None], "zero"],
            ["SetSliceN", [None, None, 2], "false"], ["SetSliceN", [None, None, 0], "none"], ["ImulQ", 1, 2, "float"], ["ImulQ", 5, 2, "float"],
            ["ImulQ", 2, 1, "float"], ["ImulQ", -1, 2, "float"], ["Clear"], ["Reverse"], ["Sort", False, 0],
            ["Sort", True, 0], ["Sort", False, 3], ["Sort", True, 3], ["Sort", True, 2]]
    for s in slices(b):
        ops.append(["DelSlice", s])
        ops += [["SetSlice", s, v] for v in VALUES]
    return ops


def grid_init(n):
    return [10 + ((i * 3) % 7) for i in range(n)]


def parse_zlists(out):
    """all `= [...] : list Z` answers of a coqc output"""
    import re
    res = []
    for m in re.finditer(r"=\s*(\[.*?\]|nil)\s*:\s*list Z", out, re.S):
        res.append([int(x) for x in re.findall(r"-?\d+", m.group(1).replace("%Z", ""))])
    return res


def run_grid(ctx, configs, b, bs, relation, header=HEADER, digest_fn="grid_digests", hist_kw=None, mk_case=None,
             driver=None):
    """configs: list of dict(target, vk, n, minlen, maxlen).  Digests of blocks of `bs` single-operation cases are
    computed by the model inside Coq and by the driver on the implementation; differing blocks are re-run as
    embedded cases (correspondence + law) to locate the failing input."""
    import concurrent.futures
    ops = grid_ops(b)
    hist_kw = hist_kw or {}

    def tterm(cf):
        return coqrun.to_coq(target_term(cf))

    def coq_side(k):
        cf = configs[k]
        text = "\n".join([header, "Import ListNotations.", "Open Scope Z_scope.",
                          "Set Printing Width 1000000.", "Set Printing Depth 1000000.",
                          "Eval vm_compute in (%s %s %s %d %d %d%%nat)." % (
                              digest_fn, tterm(cf), cf["vk"], cf["n"], b, bs)]) + "\n"
        rc, out, err, secs = coqrun.run_script(ctx.scratch, "grid_%s_%03d.v" % (digest_fn, k), text, timeout=900)
        if rc != 0:
            return None, (out + err)[-2000:]
        ls = parse_zlists(out)
        return (ls[0] if len(ls) == 1 else None), out[-2000:]

    def impl_side(k):
        cf = configs[k]
        rc, out, err = ctx.run_driver(DRIVER, dict(mode="grid", target=cf["target"], vk=cf["vk"],
                                                   init=grid_init(cf["n"]), ops=ops, bs=bs,
                                                   minlen=cf.get("minlen", 0), maxlen=cf.get("maxlen")))
        return (out if rc == 0 else None), err

    with concurrent.futures.ThreadPoolExecutor(max_workers=14) as ex:
        fc = [ex.submit(coq_side, k) for k in range(len(configs))]
        fi = [ex.submit(impl_side, k) for k in range(len(configs))]
        coq_res = [f.result() for f in fc]
        impl_res = [f.result() for f in fi]
    total, bad_cases = 0, []
    for k, cf in enumerate(configs):
        cd, clog = coq_res[k]
        idg, ilog = impl_res[k]
        nblocks = (len(ops) + bs - 1) // bs
        if cd is None or idg is None or len(cd) != nblocks or len(idg) != nblocks:
            ctx.obligation("correspondence " + relation, False, "grid could not be evaluated")
            ctx.fail("harness/grid", "grid %r could not be evaluated: %s" % (cf, (clog if cd is None else ilog)[-600:]),
                     dict(relation=relation, config=cf, coq=clog[-1500:], driver=str(ilog)[-1500:]), no_input=True)
            return 0
        total += len(ops)
        ctx.count("grid:%s/%s/len%d" % (cf["target"], cf["vk"], cf["n"]), len(ops))
        for j in range(nblocks):
            if cd[j] != idg[j]:
                for op in ops[j * bs:(j + 1) * bs]:
                    c = dict(target=cf["target"], vk=cf["vk"], init=grid_init(cf["n"]), ops=[op])
                    if cf["target"] == "obj":
                        c["minlen"], c["maxlen"] = cf.get("minlen", 0), cf.get("maxlen")
                    bad_cases.append(mk_case(c) if mk_case else c)
    ctx.cov["evaluations"] += total
    ctx.cov["traces_validated_against_impl"] += total
    ctx.cov["grid_single_operation_cases"] = ctx.cov.get("grid_single_operation_cases", 0) + total
    if bad_cases:
        hist.run(ctx, driver or DRIVER, bad_cases[:6000], relation=relation + " (blocks whose digests differ)",
                 tag="gridbad", **hist_kw)
        if ctx.obl and ctx.obl[-1][0].startswith("correspondence " + relation) and ctx.obl[-1][1]:
            # the embedded re-run of the differing blocks shows no disagreement at all
            ctx.fail("harness/grid-enumeration", "grid digests differ but no embedded case disagrees",
                     dict(relation=relation), no_input=True)
    else:
        ctx.obligation("correspondence " + relation, True,
                       "model = implementation on %d single-operation cases (block digests)" % total)
    return total


def run_indices(ctx, lens, b, bs):
    """PySlice.indices against slice(...).indices(n) of the interpreter on the grid."""
    sls = [s for s in slices(b) if s[2] != 0]
    text = "\n".join([HEADER, "Import ListNotations.", "Open Scope Z_scope.", "Set Printing Width 1000000.",
                      "Set Printing Depth 1000000."] +
                     ["Eval vm_compute in (indices_digests %d %d %d%%nat)." % (n, b, bs) for n in lens]) + "\n"
    rc, out, err, secs = coqrun.run_script(ctx.scratch, "indices_grid.v", text, timeout=600)
    cd = parse_zlists(out) if rc == 0 else None
    good = cd is not None and len(cd) == len(lens)
    if good:
        for n, d in zip(lens, cd):
            rc2, idg, ierr = ctx.run_driver(DRIVER, dict(mode="indices", n=n, slices=sls, bs=bs))
            if rc2 != 0 or idg != d:
                good = False
    ctx.obligation("correspondence PySlice.indices = slice.indices (interpreter)", good,
                   "%d slices x lengths %r" % (len(sls), list(lens)))
    if not good:
        ctx.fail("corr/pyslice-indices", "Common/PySlice.indices disagrees with slice.indices of the interpreter "
                 "(the model of CPython is wrong, not traits)", dict(lens=list(lens), b=b, log=(out + err)[-1500:]),
                 no_input=True)
    ctx.cov["evaluations"] += len(sls) * len(lens)


# ---------------------------------------------------------------- translator T1
GEN_ROOT = "GenC05"

STAGE1 = """From Coq Require Import ZArith List Bool.
From TV Require Import Common.PySlice Common.PyList.
Require TV.C05.Normalize.
Require GenC05.NormalizeGen.
Lemma gen_same_int : forall len i,
  GenC05.NormalizeGen.normalize_int len i = TV.C05.Normalize.normalize_int len i.
Proof. intros. reflexivity. Qed.
Lemma gen_same : forall len sl,
  GenC05.NormalizeGen.normalize_gen len sl = TV.C05.Normalize.normalize_gen len sl.
Proof.
  intros len sl. unfold GenC05.NormalizeGen.normalize_gen, TV.C05.Normalize.normalize_gen.
  destruct (indices len sl) as [[a b] c]. reflexivity.
Qed.
"""
STAGE1R = """From Coq Require Import ZArith List Bool.
From TV Require Import Common.PySlice Common.PyList.
Require TV.C05.Normalize.
Require GenC05.NormalizeGen.
Lemma gen_same_removed : forall (A : Type) (l : list A) k d,
  GenC05.NormalizeGen.removed_items l k d = TV.C05.Normalize.removed_items l k d.
Proof. intros A l [i|sl] d; reflexivity. Qed.
"""
STAGE3 = """From Coq Require Import ZArith List Bool.
From TV Require Import Common.PySlice Common.PyList Common.Harness C05.Normalize C05.Model C05.Law C05.Corr.
Require GenC05.NormalizeGen.
Import ListNotations.
Open Scope Z_scope.
Set Printing Width 1000000.
Definition bad := flat_map (fun n => map (fun sl => (n, sl))
   (filter (fun sl => negb (slice_step sl =? 0) && negb (norm_spec_b GenC05.NormalizeGen.normalize_gen n sl)) (slices 7)))
   [0; 1; 2; 3; 4; 5; 6].
Definition enc (o : option Z) : Z := match o with None => 1000000 | Some x => x end.
Eval vm_compute in (flat_map (fun p => let '(n, (a, b, c)) := p in [n; enc a; enc b; enc c]) (firstn 8 bad)).
"""


def t1_obligation(ctx):
    """Regenerate the translated functions from the current source and re-check the obligation.
    The compilations happen here (may run in a worker thread); everything that reports through ctx is
    returned as a list of deferred actions to be executed by the caller after the correspondence runs."""
    acts = []

    def later(f, *a, **k):
        acts.append((f, a, k))
    gen = os.path.join(ctx.scratch, "gen")
    os.makedirs(gen, exist_ok=True)
    xq = [(gen, GEN_ROOT)]
    src = os.path.join(tr_pyfun.build_impl.REPO, tr_pyfun.REL)
    name = "T1 normalize_gen_spec holds of _normalize_slice_or_index as translated from the current source"

    def broken_now(key, what, extra):
        ctx.obligation(name, False, what[:300])
        if any(not v[2] for v in ctx.violations):
            return          # a concrete failing input has already been reported by this run
        ctx.fail(key, what, dict(kind="translated-obligation-broken", source=src, **extra), no_input=True)

    def broken(key, what, extra):
        later(broken_now, key, what, extra)

    try:
        text = tr_pyfun.translate(src)
    except (tr_pyfun.Unsupported, SyntaxError, OSError, AssertionError, IndexError, AttributeError) as e:
        broken("t1/translator", "translator T1 cannot read _normalize_slice_or_index/_removed_items any more: %s" % e,
               dict(error=str(e)))
        return acts
    path = os.path.join(gen, "NormalizeGen.v")
    open(path, "w").write(text)
    rc, out, err, _ = coqrun.coqc(path, outdir=gen, extra_q=xq)
    if rc != 0:
        broken("t1/generated-ill-typed", "the translated definitions do not type-check: %s" % (out + err)[-400:],
               dict(generated=text, log=(out + err)[-1500:]))
        return acts
    ctx.cov["translated_from_source"] = dict(file=tr_pyfun.REL, functions=["_normalize_slice_or_index", "_removed_items"])
    rc_r, out_r, err_r, _ = coqrun.run_script(gen, "Stage1R.v", STAGE1R, extra_q=xq)
    rc1, out1, err1, _ = coqrun.run_script(gen, "Stage1.v", STAGE1, extra_q=xq)
    if rc1 == 0 and rc_r == 0:
        later(ctx.obligation, name, True, "stage 1: generated definitions = committed reference C05/Normalize.v "
                                   "(reflexivity); theorems of C05/Props.v are about the current source text")
        return acts
    stage2 = False
    if rc_r == 0:
        proof = open(os.path.join(coqrun.COQDIR, "C05", "NormProof.v")).read()
        proof = proof.replace("(*GEN-IMPORT*)", "Require Import GenC05.NormalizeGen.")
        rc2, out2, err2, _ = coqrun.run_script(gen, "Stage2.v", proof, extra_q=xq, timeout=600)
        stage2 = rc2 == 0
    # the model (C05/Normalize.v) no longer is the source text: search a witness either way
    rc3, out3, err3, _ = coqrun.run_script(gen, "Stage3.v", STAGE3, extra_q=xq, timeout=600)
    wit = []
    if rc3 == 0:
        ls = parse_zlists(out3)
        flat = ls[0] if ls else []
        for j in range(0, len(flat), 4):
            n, a, b_, c = flat[j:j + 4]
            wit.append((n, [None if x == 1000000 else x for x in (a, b_, c)]))
    cases = []
    for n, s in wit:
        init = list(range(10, 10 + n))
        cnt = len(range(*slice(*s).indices(n)))
        for tgt in ("plain",):
            cases.append(dict(vk="VAll", target=tgt, init=init, ops=[["DelSlice", s]]))
            cases.append(dict(vk="VAll", target=tgt, init=init, ops=[["SetSlice", s, list(range(90, 90 + cnt))]]))
    if cases:
        later(hist.run, ctx, DRIVER, cases, to_term, HEADER, CASE_T, key_fn, describe, nontrivial,
              relation="T1 witnesses replayed on a real TraitList", tag="t1wit", do_shrink=False)
    if stage2 and not wit:
        later(ctx.obligation, name, True, "stage 2: generated definition differs from the reference but the committed proof "
                                   "of normalize_gen_spec replays against it")
        broken("t1/reference-outdated", "the source of _normalize_slice_or_index changed: normalize_gen_spec still "
               "holds of the translated text, but the model C05/Normalize.v is no longer that text "
               "(regenerate it and re-run)", dict(generated=text))
        return acts
    broken("t1/normalize_gen_spec", "the function translated from the current source no longer satisfies "
           "normalize_gen_spec / differs from the reference (witness slices %r)" % (wit[:3],),
           dict(generated=text, witnesses=wit, stage1=(out1 + err1)[-800:], stage1_removed=(out_r + err_r)[-800:]))
    return acts


# ---------------------------------------------------------------- copies
def copy_term(case, obs):
    first = obs[0]
    ob = C("Ok", list(first["after"])) if first["out"] == "Ok" else C("Raise", C(first["out"]))
    h, prev = [], list(first["after"])
    for op, o in zip(case["ops"][1:], obs[1:]):
        h.append((op_term(op, prev), obs_term(o)))
        prev = list(o["after"])
    return (target_term(case), C(case["vk"]), C(COPYK[case["ops"][0][1]]), list(case["init"]), ob, bool(first.get("fresh")), h)


def gen_copy_case(rnd, ctx, maxops):
    """a TraitList (any validator) copied by copy / deepcopy / pickle, or a List-trait TraitListObject copied by deepcopy /
    pickle; the history continues on the copy"""
    target = rnd.choice(["plain", "plain", "obj"])
    base = gen_case(rnd, ctx, maxops, 6, target=target,
                    bounds=rnd.choice([(0, None), (0, 3), (1, 4), (2, None)]) if target == "obj" else None)
    base.pop("channel", None)
    base.pop("falsy", None)
    kind = rnd.choice(["copy", "deep", "pickle"]) if target == "plain" else rnd.choice(["deep", "pickle"])
    # an ownerless trait list cannot itself be deep-copied again (no trait): no "loose" arguments after the copy
    base["ops"] = [["Copy", kind]] + [o[:-1] if o[-1] == "loose" else o for o in base["ops"]]
    ctx.count("copy:%s/%s" % (target, kind))
    return base


COPY_HEADER = HEADER + "\nDefinition corr_codes := corr_copy.\nDefinition law_codes := law_copy."


# ---------------------------------------------------------------- re-entrant notifiers
def react_term(case, obs):
    h, prev = [], list(case["init"])
    for op, o in zip(case["ops"], obs):
        r = o.get("react")
        h.append((op_term(op, prev), obs_term(o), opt(obs_term(r) if r else None)))
        prev = list((r or o)["after"])
    return (target_term(case), C(case["vk"]), case["react"], list(case["init"]), h)


def gen_react_case(rnd, ctx, maxops):
    target = rnd.choice(["plain", "plain", "obj"])
    base = gen_case(rnd, ctx, maxops, 6, target=target)
    base.pop("channel", None)
    base.pop("falsy", None)
    base["react"] = rnd.choice([0, 1, 2, 3, 4])
    ctx.count("react:%s/K%d" % (target, base["react"]))
    return base


REACT_HEADER = HEADER + "\nDefinition corr_codes := corr_react.\nDefinition law_codes := law_react."


# ---------------------------------------------------------------- run
def hist_args():
    return dict(to_term=to_term, header=HEADER, case_type=CASE_T, key_fn=key_fn, describe=describe,
                nontrivial=nontrivial)


def start_proofs(ctx, props):
    """Re-check the Props file(s) in a worker thread while the correspondence runs; returns join() -> (ok, log)."""
    import glob
    import threading

    def stale():
        """some .vo of this property (or of the list libraries) is missing or older than its source"""
        for d in ("C04", "C05", "Common"):
            for v in glob.glob(os.path.join(coqrun.COQDIR, d, "*.v")):
                vo = v + "o"
                if not os.path.exists(vo) or os.path.getmtime(vo) < os.path.getmtime(v):
                    return True
        return False
    if stale():     # otherwise do not queue behind somebody else's build: ctx.proofs (worker thread) builds under the lock anyway
        coqrun.ensure_built(targets=[f[:-2] + ".vo" for f in props] + [os.path.dirname(props[0]) + "/Corr.vo"])
    res = {}

    def work():
        try:
            res["r"] = ctx.proofs(props)
        except Exception as e:  # noqa
            res["r"] = (False, "proof check crashed: %r" % (e,))
    th = threading.Thread(target=work)
    th.start()

    def join():
        th.join()
        return res["r"]
    return join


def run(ctx):
    join_proofs = start_proofs(ctx, PROPS)
    t1 = {}
    if not ctx.replay:
        import threading
        ctx.build_impl()
        t1_thread = threading.Thread(target=lambda: t1.update(acts=t1_obligation(ctx)))
        t1_thread.start()
    ctx.cov["trusted_base"] += [
        "tools/drivers/c05_driver.py (atom <-> Python value mapping, recording notifier, canonical encoding) and "
        "tools/props/c05.py (generator, grid enumeration)",
        "tools/tr_pyfun.py (translator T1, fail-closed; its output is compared with the committed reference "
        "coq/C05/Normalize.v by reflexivity on every run)",
        "modelled, not verified: the built-in list and slice.indices (Common/PyList.v, Common/PySlice.v), tied "
        "differentially (every TraitList method delegates to the real list; PySlice.indices is compared with the "
        "interpreter on the grid); validators are inputs (VAll/VInt/VCInt tables mirror the driver's callables)",
    ]
    ctx.cov["rule"] = ("(a) random operation histories over all 14 TraitList mutators (int and slice subscripts with "
                       "None/negative/oversized/huge start, stop, step incl. step 0), validators accept-all / rejecting / "
                       "coercing, stand-alone TraitList and List-trait TraitListObject; (b) single-operation grid generated "
                       "inside Coq and compared by block digests; a case is non-trivial if some step notifies or raises; "
                       "distinct = distinct (validator, target, initial contents, operation list)")
    rnd = random.Random(ctx.seed)
    if ctx.replay:
        rep = json.load(open(ctx.replay))["replay"]
        cases = [rep["case"]] if "case" in rep else []
    else:
        n, maxops, maxinit = (500, 10, 8) if ctx.tier == "quick" else (20000, 30, 30)
        cases = corpus() + [gen_case(rnd, ctx, maxops, maxinit) for _ in range(n)]
    for c in cases[:2] + cases[-2:]:
        ctx.sample(c)
    if cases:
        hist.run(ctx, DRIVER, cases, relation="C05.Corr.corr_codes (Model.tl_step / tlo_step = TraitList on every step)",
                 **hist_args())
    if not ctx.replay:
        ccases = [dict(vk=vk, target="plain", init=[1, 2, 3], ops=[["Copy", k], ["Append", 105], ["Append", 200],
                                                                    ["SetSlice", [None, None, -1], [7, 8, 9]], ["Clear"]])
                  for vk in ("VInt", "VCInt", "VInc", "VAll") for k in ("copy", "deep", "pickle")]
        ccases += [dict(vk="VInt", target="obj", minlen=1, maxlen=4, init=[1, 2, 3],
                        ops=[["Copy", k], ["Append", 200], ["Append", 5], ["Append", 6], ["Clear"], ["Pop", None]])
                   for k in ("deep", "pickle")]
        ccases += [gen_copy_case(rnd, ctx, 8) for _ in range(120 if ctx.tier == "quick" else 3000)]
        hist.run(ctx, DRIVER, ccases, copy_term, COPY_HEADER, COPY_T, key_fn, describe, nontrivial,
                 relation="C05.Corr.corr_copy (copy / deepcopy / pickle, then the history on the copy)", tag="copies",
                 do_shrink=False)
        rcases = [dict(vk=vk, target=tgt, react=2, init=[1, 2], ops=[
            ["Append", 3], ["Append", 104], ["Extend", [5, 6]], ["Insert", 0, 7], ["SetInt", 0, 8], ["Pop", None],
            ["Append", 200], ["Reverse"], ["Clear"], ["Append", 1], ["Extend", [2, 3, 4]]])
            for vk in ("VAll", "VCInt") for tgt in ("plain", "obj")]
        rcases += [gen_react_case(rnd, ctx, 8) for _ in range(100 if ctx.tier == "quick" else 3000)]
        hist.run(ctx, DRIVER, rcases, react_term, REACT_HEADER, REACT_T, key_fn, describe, nontrivial,
                 relation="C05.Corr.corr_react (a notifier that pops from the list it is notified about)", tag="react",
                 do_shrink=False)
        if ctx.tier == "quick":
            # a slice of the grid: index bound 3, lengths 0..4, one validator per length drawn from the seed
            cfgs = [dict(target=rnd.choice(["plain", "obj"]), vk=rnd.choice(["VAll", "VInt", "VCInt"]), n=n)
                    for n in sorted(rnd.sample(range(0, 6), 2))]
            total = run_grid(ctx, cfgs, 3, 250, "C05 single-operation grid (quick slice)", hist_kw=hist_args())
            run_indices(ctx, range(0, 4), 3, 500)
        else:
            cfgs = [dict(target=t, vk=vk, n=n) for n in range(0, 6)
                    for (t, vk) in (("plain", "VAll"), ("plain", "VInt"), ("plain", "VCInt"), ("obj", "VCInt"),
                                    ("obj", "VInt"))]
            total = run_grid(ctx, cfgs, 8, 500, "C05 exhaustive single-operation grid", hist_kw=hist_args())
            run_indices(ctx, range(0, 8), 8, 1000)
            ctx.cov["exhaustive"] = True
            ctx.cov["exhaustive_bound"] = ("single operations: lengths 0-5, int indices -8..8, slices start/stop in "
                                     "{None,-8..8}, step in {None,+-1..+-4,0}, 9 replacement lists, 5 target/validator "
                                     "configurations: %d cases" % total)
        t1_thread.join()
        for f, a, k in t1.get("acts", []):
            f(*a, **k)
        if "acts" not in t1:
            ctx.fail("t1/crash", "the T1 obligation could not be evaluated", dict(), no_input=True)
    ok, log = join_proofs()
    proof_gate(ctx, ok, log, PROPS)
