"""C19 — a failing user callback never leaves an object half-updated."""
import json
import random

from vlib import hist
from vlib.ctx import proof_gate
from vlib.term import C, Nat, Some, opt

HEADER = "From Coq Require Import ZArith List.\nFrom TV Require Import Common.Harness C19.Model C19.Law C19.Corr."
CASE_T = "C19.Corr.case"
PROPS = ["C19/Props.v"]
CLAUSE = {1: "failed-op-had-effect", 2: "exception-class-changed", 3: "deciding-fault-swallowed",
          4: "handler-fault-not-contained", 5: "differs-from-twin", 6: "fault-free-differs-from-twin",
          7: "registrations-differ-from-twin", 8: "unmodelled-values-differ-from-twin"}
CORR = {1: "outcome", 2: "state", 3: "handler-log", 4: "fired", 5: "twin-state", 6: "registrations"}
EXNS = ["TraitError", "ValueError", "AttributeError", "RuntimeError"]
OPAQUE = ["SetW", "SetPW", "SwapDeep", "SetX2", "SetRG", "SetBR", "SetEq"]      # operations outside the Gallina model (law only)


def st_term(s):
    return C("mkSt", s["x"], (s["t"][0], s["t"][1]), list(s["l"]), [(k, v) for k, v in s["d"]], list(s["s"]),
             opt(s["f"]), opt(s["m"]), s["p"], opt(s["c"]), s["ad"], opt(s["y"]), s["ad2"],
             Nat(s["oreg"]), list(s["zz"]), s["ade"], opt(s["pv"]), s["dpv"], opt(s["ch"]), bool(s["chreg"]), s["u"])


def obs_term(o):
    out = C("Ok") if o["out"] == "Ok" else C("Raise", C(o["out"]))
    return C("mkObs", out, st_term(o["st"]), [(Nat(j), a, b) for j, a, b in o["log"]], o["reg"], o["aux"])


def plan_term(p):
    if not p:
        return C("NoFault")
    return C("FaultCall" if p[0] == "call" else "FaultHandler", Nat(p[1]), C(p[2]))


def _in_call_order(raw, echo):
    """`raw` (distinct values to be validated) in the order the implementation's validator saw them; values it never
    reached (the run stopped earlier) follow in any order: they cannot influence the result."""
    seen = [v for v in echo if v in raw]
    out = []
    for v in seen:
        if v not in out:
            out.append(v)
    return out + [v for v in raw if v not in out]


def op_term(op, echo, before):
    k = op[0]
    if k in ("SetX", "LAppend", "SAdd", "SetP", "SetY", "SetXQ", "SetPV", "SetDPV", "SetCV", "SetU"):
        return C(k, op[1])
    if k in ("DelPV", "RegDot", "UnregDot", "ReadCh"):
        return C(k)
    if k in OPAQUE:
        return C("Opaque", Nat(OPAQUE.index(k)))
    if k in ("ObsAdd", "ObsRemove", "AddZ"):
        return C(k)
    if k == "SetZ":
        return C(k, Nat(op[1] or 0), op[2])
    if k == "SetAdE":
        return C(k, Nat(op[1]), op[2])
    if k in ("SetT", "DSetItem", "DSetDefault"):
        return C(k, op[1], op[2])
    if k in ("LAssign", "LExtend", "LIadd", "SUpdate"):
        return C(k, list(op[1]))
    if k == "SUpdate2":            # update(it1, it2): every item of every iterable is validated before the set changes
        return C("SUpdate", list(op[1]) + list(op[2]))
    if k == "SAssign":
        return C(k, _in_call_order(list(dict.fromkeys(op[1])), echo))
    if k in ("SIxor", "SSymDiff"):
        raw = list(dict.fromkeys(op[1]))
        present = [v for v in raw if v in before["s"]]
        if k == "SSymDiff":        # a list argument: the set built from it is what the method iterates
            pass
        return C(k, _in_call_order([v for v in raw if v not in present], echo) + present)
    if k == "LInsert":
        return C(k, Nat(op[1]), op[2])
    if k == "LSetSlice":
        return C(k, Nat(op[1]), Nat(op[2]), list(op[3]))
    if k in ("DAssign", "DUpdate"):
        return C(k, [(a, b) for a, b in op[1]])
    if k in ("ReadF", "ReadM", "ReadP", "ReadC", "ReadY"):
        return C(k)
    if k == "SetAd":
        return C(k, Nat(op[1]), op[2])
    if k == "SetAd2":
        return C(k, None if op[1] is None else Some(Nat(op[1])), op[2])
    raise ValueError(op)


def to_term(case, obs):
    h = []
    before = obs["init"]
    for (op, plan), st in zip(case["ops"], obs["steps"]):
        h.append((op_term(op, st["echo"], before), plan_term(plan), bool(st["fired"]), obs_term(st["A"]),
                  obs_term(st["T"])))
        before = st["A"]["st"]
    return (st_term(obs["init"]), obs["reg0"], (Nat(obs["fc"][0]), Nat(obs["fc"][1])), h)


def _plan_tag(plan):
    return "nofault" if not plan else plan[0]


def key_fn(case, obs, step, clause):
    op, plan = case["ops"][step]
    return "%s/%s/%s" % (CLAUSE.get(clause, clause), op[0], _plan_tag(plan))


def describe(case, obs, step, clause):
    op, plan = case["ops"][step]
    st = obs["steps"][step] if isinstance(obs, dict) else obs
    return "clause %s fails at step %d: op %r with plan %r: faulted object %r, twin %r" % (
        CLAUSE.get(clause, clause), step, op, plan, st.get("A"), st.get("T"))


def nontrivial(case, obs):
    sig = repr(case["ops"])
    nt = any(st["fired"] for st in obs["steps"])
    return sig, nt


def ncalls(op):
    k = op[0]
    if k in ("SetX", "LAppend", "LInsert", "SAdd", "ReadF", "ReadM", "ReadP", "SetP", "ReadC", "SetXQ", "SetPV", "SetDPV",
             "RegDot", "ReadCh", "SetCV", "SetU"):
        return 1
    if k == "UnregDot":
        return 0
    if k == "DelPV":
        return 0
    if k == "SUpdate2":
        return len(op[1]) + len(op[2])
    if k == "SetAdE":
        return op[1]
    if k in ("SetW", "SetPW", "SwapDeep", "SetX2", "SetBR", "SetEq"):
        return 0
    if k == "SetRG":
        return 1
    if k in ("ObsRemove", "ObsAdd"):
        return 40          # the user filter is called about twice per trait of the object
    if k in ("AddZ", "SetZ"):
        return 0
    if k == "SetY":
        return 3
    if k == "ReadY":
        return 2
    if k in ("SIxor", "SSymDiff"):
        return len(op[1])
    if k == "SetAd2":
        return op[1] or 0
    if k in ("SetT", "DSetItem", "DSetDefault"):
        return 2
    if k in ("LAssign", "LExtend", "LIadd", "SAssign", "SUpdate"):
        return len(op[1])
    if k == "LSetSlice":
        return len(op[3])
    if k in ("DAssign", "DUpdate"):
        return 2 * len(op[1])
    if k == "SetAd":
        return op[1]
    return 1


def gen_op(rnd):
    def item():
        r = rnd.random()
        return rnd.randint(0, 9) if r < 0.9 else 100 + rnd.randint(0, 3)      # ~10 % values V rejects

    def items(lo=0, hi=4):
        return [item() for _ in range(rnd.randint(lo, hi))]

    k = rnd.choice(["SetX", "SetX", "SetT", "LAssign", "LAppend", "LExtend", "LExtend", "LIadd", "LInsert", "LSetSlice",
                    "DAssign", "DSetItem", "DUpdate", "DUpdate", "DSetDefault", "SAssign", "SAdd", "SUpdate", "SUpdate",
                    "ReadF", "ReadM", "ReadP", "SetP", "ReadC", "ReadC", "SetAd", "SetAd", "SIxor", "SIxor", "SSymDiff",
                    "SetY", "SetY", "ReadY", "SetAd2", "SetAd2", "SetXQ", "SetXQ", "ObsRemove", "ObsAdd", "AddZ", "AddZ",
                    "SetZ", "SetZ", "SUpdate2", "SUpdate2", "SetAdE", "SetAdE", "SetW", "SetW", "SetPW",
                    "SetPV", "SetPV", "SetDPV", "SetDPV", "DelPV", "RegDot", "RegDot", "UnregDot", "ReadCh", "SetCV",
                    "SetCV", "SetU", "SetU", "SwapDeep", "SetX2", "SetX2", "SetRG", "SetBR", "SetEq"])
    if k in ("SetX2", "SetRG", "SetBR"):
        return [k, rnd.randint(0, 9)]
    if k in ("SetX", "LAppend", "SAdd", "SetY", "SetXQ", "SetPV", "SetDPV", "SetU"):
        return [k, item()]
    if k == "SetCV":
        return [k, rnd.randint(0, 9)]
    if k == "SetZ":
        return [k, rnd.randint(0, 3), rnd.randint(0, 9)]
    if k == "SUpdate2":
        return [k, items(0, 3), items(0, 3)]
    if k == "SetAdE":
        return [k, rnd.randint(0, 1), rnd.randint(0, 9)]
    if k == "SetW":
        return [k, rnd.randint(0, 9)]
    if k == "SetPW":
        return [k, rnd.randint(0, 1), rnd.randint(0, 9)]
    if k in ("SIxor", "SSymDiff"):
        return [k, sorted(set(items(0, 5)))]
    if k == "SetAd2":
        return [k, rnd.choice([0, 1, 2, 2, None]), rnd.randint(0, 9)]
    if k == "SetP":
        return [k, rnd.randint(0, 9)]
    if k in ("SetT", "DSetItem", "DSetDefault"):
        return [k, item(), item()]
    if k in ("LAssign", "LExtend", "LIadd", "SUpdate"):
        return [k, items()]
    if k == "SAssign":
        return [k, sorted(set(items()))]
    if k == "LInsert":
        return [k, rnd.randint(0, 6), item()]
    if k == "LSetSlice":
        i = rnd.randint(0, 5)
        return [k, i, rnd.randint(0, 6), items(0, 3)]
    if k == "DAssign":
        ks = sorted(set(items()))
        return [k, [[a, item()] for a in ks]]
    if k == "DUpdate":
        return [k, [[item(), item()] for _ in range(rnd.randint(0, 3))]]
    if k == "SetAd":
        return [k, rnd.randint(0, 2), rnd.randint(0, 9)]
    return [k]


def _call_exns(op):
    """Exception classes injected into the deciding callbacks of `op`.  A TraitError raised by the first alternative
    of a Union is by definition a rejection (the next alternative is tried), not a fault: for SetU of a value the
    second alternative accepts (string atoms) it is not injected."""
    if op[0] == "SetU" and op[1] >= 100:
        return [e for e in EXNS if e != "TraitError"]
    return EXNS


def gen_plan(rnd, op):
    if op[0] in ("AddZ", "SetZ"):
        # the user filter runs inside the trait_added notification there (handler context, exceptions contained):
        # only handler faults are injected into these operations
        return None if rnd.random() < 0.7 else ["handler", 6, rnd.choice(EXNS)]
    if op[0] in ("SetW", "SetPW"):
        # the partner's validator runs inside the sync handler, which contains its exceptions by design
        return None if rnd.random() < 0.5 else ["handler", 8, rnd.choice(EXNS)]
    if op[0] == "SetX2":
        return None if rnd.random() < 0.4 else ["handler", 13, rnd.choice(EXNS)]
    if op[0] == "SetBR":
        return None if rnd.random() < 0.4 else ["handler", 14, rnd.choice(EXNS)]
    if op[0] == "SetEq":
        return None if rnd.random() < 0.4 else ["handler", 15, rnd.choice(EXNS)]
    if op[0] == "SwapDeep":
        # the default method of the new link object runs inside the re-hook (a change handler of `child`)
        return None if rnd.random() < 0.4 else ["handler", 11, rnd.choice(EXNS)]
    r = rnd.random()
    if r < 0.35:
        return None
    if r < 0.8:
        n = ncalls(op)
        return ["call", rnd.randint(0, max(n, 1)) if rnd.random() < 0.85 else rnd.randint(0, n + 2),
                rnd.choice(_call_exns(op))]
    return ["handler", rnd.randint(0, 10), rnd.choice(EXNS)]


def gen_case(rnd, ctx, maxlen):
    ops = []
    for _ in range(rnd.randint(1, maxlen)):
        op = gen_op(rnd)
        plan = gen_plan(rnd, op)
        ops.append([op, plan])
        ctx.count("op:" + op[0])
        ctx.count("plan:" + _plan_tag(plan) + ("/" + plan[2] if plan else ""))
    ctx.count("history-length:%02d" % len(ops))
    return dict(ops=ops)


TEMPLATES = [["SetX", 5], ["SetX", 1], ["SetX", 101], ["SetT", 3, 4], ["SetT", 3, 100], ["LAssign", [3, 4, 5]],
             ["LAppend", 9], ["LExtend", [4, 5, 6]], ["LExtend", [4, 100, 6]], ["LIadd", [7, 8]], ["LInsert", 1, 9],
             ["LSetSlice", 0, 1, [7, 8, 9]], ["LSetSlice", 1, 1, []], ["DAssign", [[1, 2], [3, 4]]], ["DSetItem", 5, 6],
             ["DUpdate", [[1, 2], [3, 4], [1, 5]]], ["DSetDefault", 7, 8], ["DSetDefault", 1, 8],
             ["SAssign", [1, 2, 3]], ["SAdd", 4], ["SUpdate", [1, 2, 3]], ["ReadF"], ["ReadM"], ["ReadP"], ["SetP", 4],
             ["ReadC"], ["SetAd", 0, 3], ["SetAd", 1, 3], ["SetAd", 2, 3],
             ["SIxor", [1, 2, 3]], ["SIxor", [1, 5, 100]], ["SSymDiff", [1, 4, 6]], ["SetY", 5], ["SetY", 43], ["SetY", 100],
             ["ReadY"], ["SetAd2", 0, 3], ["SetAd2", 1, 3], ["SetAd2", 2, 3], ["SetAd2", None, 3],
             ["SetXQ", 5], ["SetXQ", 100], ["ObsRemove"], ["ObsAdd"], ["SUpdate2", [4, 5], [6, 7]],
             ["SUpdate2", [4], [100, 5]], ["SetAdE", 1, 3], ["SetAdE", 0, 3], ["SetW", 5], ["SetPW", 1, 6],
             ["SetPV", 5], ["SetPV", 101], ["SetDPV", 6], ["SetDPV", 102], ["DelPV"],
             ["RegDot"], ["ReadCh"], ["SetCV", 3], ["SetU", 5], ["SetU", 103], ["UnregDot"], ["SwapDeep"],
             ["SetX2", 4], ["SetRG", 5], ["SetBR", 3], ["SetEq"]]
FOLLOW = [["SetX", 6], ["LExtend", [1, 2]], ["DUpdate", [[2, 2]]], ["SUpdate", [5]], ["ReadF"], ["ReadM"], ["ReadC"],
          ["SetP", 8], ["SetAd", 2, 4], ["SIxor", [1, 8]], ["SetY", 7], ["SetAd2", 1, 5], ["AddZ"], ["SetZ", 0, 4],
          ["SetX", 3], ["SetW", 7], ["SetPW", 0, 2], ["SetW", 4], ["SetDPV", 4], ["SetPV", 6], ["SetDPV", 8], ["DelPV"],
          ["SetDPV", 2], ["SetCV", 4], ["RegDot"], ["SetCV", 6], ["UnregDot"], ["SetCV", 7], ["SetU", 8], ["SetU", 102], ["SetX2", 6], ["SetRG", 8], ["SetBR", 2], ["SetEq"]]


HANDLERS_OF = {"SetX": [0, 1, 2, 7, 3], "LAppend": [3, 4, 0], "LExtend": [3, 4], "LIadd": [3, 4], "LInsert": [3, 4],
               "LSetSlice": [3, 4], "LAssign": [3, 4], "SetY": [5, 0], "SetXQ": [0, 2], "SetW": [8, 0], "SetPW": [8],
               "SetPV": [9, 0], "SetDPV": [9, 0], "SetCV": [10, 0], "SwapDeep": [11],
               "SetX2": [13], "SetBR": [14], "SetEq": [15]}


def systematic():
    """Every operation template x every callback ordinal (one beyond the last included) x every exception class,
    and every handler x every exception class, each followed by the follow-up operations without fault."""
    cs = []
    for tpl in TEMPLATES:
        n = ncalls(tpl)
        ks = range(n + 1) if n <= 8 else [0, 1, 2, 9, 19, 30, 36, 37, 38, 39, n]
        for k in ks:
            for e in _call_exns(tpl):
                cs.append(dict(ops=[[tpl, ["call", k, e]]] + [[f, None] for f in FOLLOW]))
        for j in HANDLERS_OF.get(tpl[0], [0]):       # the handlers this operation can reach (+ one it cannot, as control)
            for e in EXNS:
                cs.append(dict(ops=[[tpl, ["handler", j, e]]] + [[f, None] for f in FOLLOW]))
    return cs


hist.DRIVER_JOBS["c19_driver.py"] = 6      # every case builds its own two objects: the cases are independent


def run(ctx):
    ok, log = ctx.proofs(PROPS)
    ctx.cov["trusted_base"] += [
        "tools/drivers/c19_driver.py (instrumented callbacks: every deciding user callback ticks a counter and raises at "
        "the planned ordinal; snapshot function; twin rule) and tools/props/c19.py (generator, systematic enumeration)",
        "modelled, not verified: CPython list/dict/set, the adaptation search (only the order of factory calls along the "
        "found chain matters here; C17 models the search); callbacks are Section variables of the model",
    ]
    ctx.cov["rule"] = ("systematic part: every operation template (40: scalar/tuple assignment, list/dict/set mutators and "
                       "whole-container assignment, factory and _name_default defaults, property getter/setter, cached "
                       "property, adapter chains of length 0-2) x every deciding-callback ordinal k (incl. one beyond the "
                       "last) x 4 exception classes, and x 5 change handlers x 4 classes, each followed by 11 fault-free "
                       "follow-up operations compared with the twin; random part: histories with a fault plan on ~65% of "
                       "the steps. A case is non-trivial if at least one injected fault fired; distinct = distinct "
                       "(operation, plan) lists")
    rnd = random.Random(ctx.seed)
    n, maxlen = (600, 8) if ctx.tier == "quick" else (24000, 14)
    if ctx.replay:
        cases = [json.load(open(ctx.replay))["replay"]["case"]]
    else:
        sysc = systematic()
        cases = sysc + [gen_case(rnd, ctx, maxlen) for _ in range(n)]
        ctx.count("systematic-cases", len(sysc))
    for c in cases[:2] + cases[-2:]:
        ctx.sample(c)
    hist.run(ctx, "c19_driver.py", cases, to_term, HEADER, CASE_T, key_fn, describe, nontrivial,
             relation="C19.Corr.corr_codes (Model.step under the same fault plan = instrumented HasTraits object, twin included)",
             shard=120, first_step_only=True)
    proof_gate(ctx, ok, log, PROPS)
