"""C18 — the compiled core is memory-safe and reference-neutral.  PROOF (PARTIAL):

 proved      T3: the dispatch-table obligations regenerated from ctraits.c on every run
             (assigned_in_table, guards_in_bounds, getstate_setstate_roundtrip, ctrait_roundtrip);
             the reference-count ledger of the attribute paths (C18/Props.v), tied to the build by
             sys.getrefcount deltas compared inside Coq.
 found by    crashes / sanitiser reports of generated API programs (error-path stream, handlers that
 running     re-enter, gc at random points, trait definition objects pickled in a subprocess); quick tier
             on the gcc build, thorough tier on the clang ASan+UBSan build.  Never proved absent.
"""
import json
import os
import random

from vlib import coqrun, hist_given, tr_ctables
from vlib.ctx import proof_gate
from vlib.term import C, Some, opt

HEADER = "From Coq Require Import ZArith List.\nFrom TV Require Import Common.Harness C18.Model C18.Law C18.Corr."
CASE_T = "C18.Corr.case"
PROPS = ["C18/Props.v"]
CLAUSE = {1: "refcount-not-neutral", 2: "crash"}
DRIVER = "c18_driver.py"
A_NONE = -3


# ----------------------------------------------------------------------------------------------
# T3: tables of ctraits.c -> Gallina, obligations compiled in the scratch directory
# ----------------------------------------------------------------------------------------------
def t3(ctx, qname="T3"):
    """Returns (ok, data or None).  Registers the obligations; does not report failures (caller does,
    after the run-time search for a concrete failing input)."""
    names = ["assigned_in_table", "guards_in_bounds", "getstate_setstate_roundtrip", "ctrait_roundtrip"]
    try:
        d = tr_ctables.extract()
    except tr_ctables.TranslatorError as e:
        for n in names:
            ctx.obligation("T3 " + n, False, "translator: %s" % e)
        return False, None, "translator cannot read ctraits.c: %s" % e
    xq = [(ctx.scratch, qname)]
    rc, out, err, _ = coqrun.run_script(ctx.scratch, "CTablesGen.v", tr_ctables.gallina(d), extra_q=xq, timeout=300)
    if rc != 0:
        for n in names:
            ctx.obligation("T3 " + n, False, "generated tables do not compile")
        return False, d, "generated tables do not compile: " + (out + err)[-800:]
    rc, out, err, _ = coqrun.run_script(ctx.scratch, "CTablesObl.v",
                                        tr_ctables.OBLIGATIONS % dict(gen=qname + ".CTablesGen"), extra_q=xq,
                                        timeout=300)
    if rc == 0:
        blocks = coqrun._split_assumption_blocks(out)
        for n, b in zip(names, blocks + ["?"] * 4):
            ctx.obligation("T3 " + n + " (regenerated from ctraits.c this run)", True, b)
            ctx.assumptions.append("T3.%s: %s" % (n, " ".join(b.split())))
        ctx.cov["t3"] = dict(tables={k: len(v) for k, v in d["tables"].items()}, sites=len(d["sites"]),
                             source=d["path"])
        return True, d, ""
    # counter-example search on the generated data
    rc2, out2, err2, _ = coqrun.run_script(ctx.scratch, "CTablesSearch.v",
                                           tr_ctables.SEARCH % dict(gen=qname + ".CTablesGen"), extra_q=xq,
                                           timeout=300)
    off = coqrun.parse_pair_lists(out2)[0] if rc2 == 0 and coqrun.parse_pair_lists(out2) else []
    inv = {v: k for k, v in d["ids"].items()}
    txt = []
    for f, x in off:
        fld = tr_ctables.FIELDS[f] if 0 <= f < 5 else "layout"
        txt.append("%s:%s" % (fld, inv.get(x, {-1: "index-guard-out-of-bounds", -2: "restore-table/NULL/layout",
                                               -3: "tuple-layouts-differ"}.get(x, x))))
    for n in names:
        ctx.obligation("T3 " + n, False, "tables_ok gen = false; offenders: " + ", ".join(txt))
    d["offenders"] = txt
    return False, d, "tables_ok is false on the tables of the current ctraits.c; offenders (field:function a site " \
                     "assigns but the table __getstate__ searches lacks): " + ", ".join(txt)


# ----------------------------------------------------------------------------------------------
# ledger stream
# ----------------------------------------------------------------------------------------------
def vres_term(r):
    if r == "same":
        return C("VSame")
    if r == "reject":
        return C("VReject")
    if r == "raise":
        return C("VRaise")
    return C("VConv", r[1])


def tcfg_term(t):
    dfl = C("DObj") if t["dflt"][0] == "obj" else \
        C("DConst", t["dflt"][1]) if t["dflt"][0] == "const" else C("DCall", opt(t["dflt"][1]))
    return C("Build_tcfg", C({"event": "KEvent", "prop": "KProp"}.get(t["kind"], "KTrait")), bool(t["hv"]),
             [(a, vres_term(r)) for a, r in t["vld"]], bool(t["orig"]), dfl,
             C({"none": "PNone", "ok": "POk", "raise": "PRaise"}[t["post"]]), bool(t["cmpnone"]),
             [bool(h) for h in t["handlers"]])


def outcome(o):
    if o == "Ok":
        return C("Ok")
    if o == "Crashed":
        return C("Crashed")
    return C("Raise", C(o))


def op_term(op):
    if op[0] == "set":
        return C("SetA", op[1], op[2])
    if op[0] == "val":
        return C("ValA", op[1], op[2])
    return C({"get": "GetA", "def": "DefA"}.get(op[0], "DelA"), op[1])


def to_term(case, obs):
    P = case["pool"]
    pool = list(range(P + 1))
    cfg = C("Build_cfg", P, bool(case["reraise"]), False, [(i, tcfg_term(t)) for i, t in enumerate(case["traits"])])
    h = []
    for op, ob in zip(case["ops"], obs):
        h.append((op_term(op), C("Build_obs", outcome(ob["out"]), [(n, a) for n, a in ob["dict"]], ob["calls"],
                                 [(a, k) for a, k in zip(pool, ob["delta"])])))
    return (cfg, pool, C("nil"), h)


def key_fn(case, obs, step, clause):
    op = case["ops"][step]
    t = case["traits"][op[1]]
    return "%s/%s-%s/%s" % (CLAUSE.get(clause, clause), op[0], t["kind"], obs[step]["out"])


def describe(case, obs, step, clause):
    op = case["ops"][step]
    return "ctraits attribute path: clause %s fails at step %d op %r on trait %r: observed %r" % (
        CLAUSE.get(clause, clause), step, op, case["traits"][op[1]], obs[step])


def nontrivial(case, obs):
    sig = json.dumps([case["reraise"], case["traits"], case["ops"]], sort_keys=True)
    nt = any(o["out"] != "Ok" or any(o["delta"]) for o in obs)
    return sig, nt


def gen_trait(rnd, ctx, P):
    x = rnd.random()
    kind = "event" if x < 0.12 else "prop" if x < 0.30 else "trait"
    hv = rnd.random() < 0.8
    vld = []
    if hv:
        for a in range(P + 1):
            x = rnd.random()
            if x < 0.15:
                vld.append([a, "reject"])
            elif x < 0.27:
                vld.append([a, "raise"])
            elif x < 0.45:
                vld.append([a, ["conv", rnd.randrange(P)]])
    if rnd.random() < 0.55:
        dflt = ["const", rnd.choice([A_NONE] + list(range(P)))]
    else:
        dflt = ["call", rnd.choice([None] + list(range(P)) + list(range(P)))]
    if kind == "trait" and rnd.random() < 0.12:
        # a container trait: default = new container object (call_class); every pool value is rejected
        hv, vld, dflt = True, [[a, "reject"] for a in range(P + 1)], ["obj"]
        t = dict(kind=kind, hv=True, vld=vld, orig=False, dflt=dflt, post="none", cmpnone=False,
                 handlers=[rnd.random() < 0.35 for _ in range(rnd.choice([0, 0, 1, 2]))])
        ctx.count("trait:container-default/handlers=%d" % len(t["handlers"]))
        return t
    t = dict(kind=kind, hv=hv, vld=vld, orig=rnd.random() < 0.2, dflt=dflt,
             post=rnd.choice(["none", "none", "ok", "raise"]), cmpnone=rnd.random() < 0.25,
             handlers=[] if kind == "prop" else [rnd.random() < 0.35 for _ in range(rnd.choice([0, 0, 1, 2, 3]))])
    ctx.count("trait:%s/validate=%s/post=%s/default=%s%s/handlers=%d%s" % (
        kind, "yes" if hv else "NULL", t["post"], dflt[0], "-raises" if dflt == ["call", None] else "",
        len(t["handlers"]), "/some-raise" if any(t["handlers"]) else ""))
    return t


def gen_case(rnd, ctx, maxlen):
    P = 4
    traits = [gen_trait(rnd, ctx, P) for _ in range(rnd.randint(1, 3))]
    ops = []
    for _ in range(rnd.randint(1, maxlen)):
        n = rnd.randrange(len(traits))
        k = rnd.choice(["set", "set", "set", "set", "get", "get", "del", "val", "def"])
        if k in ("val", "def") and traits[n]["kind"] != "trait":
            k = "get"
        if k in ("set", "val"):
            v = P if rnd.random() < 0.08 else rnd.randrange(P)
            ops.append([k, n, v])
        else:
            ops.append([k, n])
        ctx.count("op:" + k)
    reraise = rnd.random() < 0.5
    ctx.count("handler-exceptions:" + ("propagate" if reraise else "swallowed"))
    return dict(pool=P, reraise=reraise, traits=traits, ops=ops)


def corpus():
    """Every failure exit of setattr_trait / getattr_trait / default_value_for on purpose."""
    base = dict(kind="trait", hv=True, vld=[[1, "reject"], [2, "raise"], [3, ["conv", 0]]], orig=False,
                dflt=["const", A_NONE], post="none", cmpnone=False, handlers=[])
    cs = []
    allops = [["set", 0, 0], ["set", 0, 1], ["set", 0, 2], ["set", 0, 3], ["get", 0], ["del", 0], ["get", 0],
              ["set", 0, 4], ["set", 0, 0], ["del", 0], ["del", 0], ["set", 0, 3],
              ["val", 0, 0], ["val", 0, 1], ["val", 0, 2], ["val", 0, 3], ["def", 0]]
    for post in ("none", "ok", "raise"):
        for dflt in (["const", A_NONE], ["const", 2], ["call", 3], ["call", None]):
            for handlers in ([], [False], [True, False]):
                for orig in (False, True):
                    for reraise in (False, True):
                        t = dict(base, post=post, dflt=dflt, handlers=handlers, orig=orig)
                        cs.append(dict(pool=4, reraise=reraise, traits=[t], ops=allops))
    cs.append(dict(pool=4, reraise=True, traits=[dict(base, kind="event", handlers=[False, True])],
                   ops=[["set", 0, 0], ["set", 0, 1], ["set", 0, 3], ["get", 0], ["del", 0]]))
    # a dynamic default rejected / raising in the validator, with and without the original-value flag
    # (default_value_for 1885-1899: the failure path must release the default object)
    for orig in (False, True):
        for d in (1, 2, 3):
            for post in ("none", "ok"):
                for handlers in ([], [False]):
                    cs.append(dict(pool=4, reraise=False,
                                   traits=[dict(base, orig=orig, dflt=["call", d], post=post, handlers=handlers)],
                                   ops=[["get", 0], ["def", 0], ["set", 0, 0], ["get", 0], ["del", 0], ["def", 0],
                                        ["set", 0, 3], ["del", 0], ["get", 0]]))
    # container traits: default value = a new container object built by call_class, with and without handlers
    for handlers in ([], [False], [True, False]):
        for reraise in (False, True):
            cs.append(dict(pool=4, reraise=reraise,
                           traits=[dict(base, vld=[[a, "reject"] for a in range(5)], dflt=["obj"], handlers=handlers)],
                           ops=[["get", 0], ["get", 0], ["set", 0, 1], ["del", 0], ["get", 0], ["del", 0], ["del", 0],
                                ["def", 0], ["val", 0, 2], ["set", 0, 4]]))
    # property traits: plain and validated (setattr_validate_property), setter storing / dropping / raising,
    # getter raising
    for hv in (False, True):
        for post in ("ok", "none", "raise"):
            for dflt in (["const", A_NONE], ["call", None]):
                cs.append(dict(pool=4, reraise=False, traits=[dict(base, kind="prop", hv=hv, post=post, dflt=dflt)],
                               ops=[["get", 0], ["set", 0, 0], ["get", 0], ["set", 0, 1], ["set", 0, 2], ["set", 0, 3],
                                    ["get", 0], ["del", 0], ["set", 0, 4], ["set", 0, 0], ["get", 0]]))
    return cs


def crash_case_report(ctx, cases, stage, rc, err, prog_path, sanitize):
    """The driver process died: which case / step was running (progress file)."""
    ci, si = None, None
    try:
        txt = open(prog_path).read().split()
        ci, si = int(txt[0]), int(txt[1])
    except Exception:
        pass
    case = cases[ci] if ci is not None and ci < len(cases) else None
    rep = dict(kind="crash", stage=stage, returncode=rc, sanitized=bool(sanitize), step=si, case=case,
               stderr_tail=err[-3000:])
    key = "crash/%s" % stage
    ctx.fail(key, "the interpreter died (rc=%s%s) while executing %s case %s step %s: %s" % (
        rc, ", sanitised build" if sanitize else "", stage, ci, si, err[-300:].replace("\n", " | ")), rep)
    return ci


def ledger_stream(ctx, cases, sanitize=False, tag="ledger"):
    prog = os.path.join(ctx.scratch, "progress_%s.txt" % tag)
    rc, obs, err = ctx.run_driver(DRIVER, dict(cases=cases, progress=prog), sanitize=sanitize)
    if rc != 0 or obs is None or len(obs) != len(cases):
        if rc == 124 or (rc == 1 and "Traceback" in err and "Sanitizer" not in err):
            ctx.obligation("ledger stream executed", False, err[-600:])
            ctx.fail("harness/" + tag, "driver failed (rc=%s): %s" % (rc, err[-400:]), dict(error=err[-2000:]),
                     no_input=True)
            return
        ctx.obligation("no crash in the %s stream%s" % (tag, " (ASan+UBSan)" if sanitize else ""), False, err[-600:])
        ci = crash_case_report(ctx, cases, tag, rc, err, prog, sanitize)
        if ci and not tag.endswith("_pre"):
            ledger_stream(ctx, cases[:ci], sanitize=sanitize, tag=tag + "_pre")
        return
    ctx.obligation("no crash in the %s stream%s" % (tag, " (ASan+UBSan)" if sanitize else ""), True,
                   "%d histories ran to completion" % len(cases))
    bad = [(i, o) for i, c in enumerate(obs) for o in c if o.get("extra")]
    if bad:
        ctx.notes.append("unexpected instance-dict keys in ledger stream: %r" % bad[:3])
    hist_given.run_given(ctx, DRIVER, cases, obs, to_term, HEADER, CASE_T, key_fn, describe, nontrivial,
                   relation="C18.Corr.corr_codes (ledger model = getrefcount deltas, dict, outcome, handler calls"
                            "%s)" % (", ASan+UBSan build" if sanitize else ""), tag=tag)



# ----------------------------------------------------------------------------------------------
# trait definition objects round-tripped in a subprocess (shared with C14)
# ----------------------------------------------------------------------------------------------
CT_DRIVER = "c14_ctrait_driver.py"
CT_CLAUSE = {1: "crash", 2: "index-out-of-table", 3: "copy-pickles-differently", 4: "behaviour-differs",
             5: "index-not-first-occurrence", 6: "reference-leak"}
# (the 'restate' probe of the driver — __setstate__ by hand on an already initialised trait — is outside the
#  property's quantifier and not part of the law; see design.d/C18.md "noted")


def _mode_class(m):
    return "pickle" if m.startswith("pickle") else m


def ctrait_stream(ctx, d, have_gen, sanitize=False, specs=None, modes=None, qname="T3"):
    """Every kind of trait definition object x {getstate/setstate, pickle 0-5, deepcopy, clone}.
    Returns number of (spec, mode) pairs evaluated."""
    pos = [0, 1, 2, 4, 11]
    if d is not None:
        pos = [next(i for i, e in enumerate(d["get_layout"]) if e == ("idx", f)) for f in tr_ctables.FIELDS]
    prog = os.path.join(ctx.scratch, "ct_progress%s.txt" % ("_asan" if sanitize else ""))
    rc, obs, err = ctx.run_driver(CT_DRIVER, dict(positions=pos, progress=prog, specs=specs, modes=modes),
                                  sanitize=sanitize, timeout=900)
    results = []
    if rc == 0 and obs is not None:
        results = obs
    elif rc == 1 and "Traceback" in err and "Sanitizer" not in err and "SystemError" not in err:
        ctx.fail("harness/ctrait", "ctrait driver failed: " + err[-400:], dict(error=err[-2000:]), no_input=True)
        return 0
    else:
        # the subprocess died: localise by running every spec on its own
        try:
            first = open(prog).read().split()[:2]
        except Exception:
            first = ["?", "?"]
        ctx.notes.append("ctrait subprocess died (rc=%s) at %s; re-running spec by spec" % (rc, first))
        import subprocess  # noqa
        names = specs if specs is not None else _all_specs()
        for sp in names:
            rc1, o1, e1 = ctx.run_driver(CT_DRIVER, dict(positions=pos, progress=prog, specs=[sp], modes=modes),
                                         sanitize=sanitize, timeout=300)
            if rc1 == 0 and o1 is not None:
                results += o1
            elif rc1 == 1 and "Traceback" in e1 and "Sanitizer" not in e1 and "SystemError" not in e1:
                ctx.fail("harness/ctrait", "ctrait driver failed on %s: %s" % (sp, e1[-400:]), dict(error=e1[-2000:]),
                         no_input=True)
            else:
                try:
                    at = open(prog).read().split()[:2]
                except Exception:
                    at = [sp, "?"]
                results.append(dict(spec=sp, mode=at[1] if len(at) > 1 else "?", idx=[], idx2=[], same=False,
                                    diff="", crashed=True, rc=rc1, stderr=e1[-1500:]))
    evaluated = [r for r in results if not r.get("unpicklable")]
    ctx.count("ctrait:unpicklable-by-CPython-rules(skipped)", sum(1 for r in results if r.get("unpicklable")))
    for r in evaluated:
        ctx.count("ctrait-mode:" + _mode_class(r["mode"]))
        ctx.case_seen("ctrait/%s/%s" % (r["spec"], r["mode"]), True)
    ctx.cov["traces_validated_against_impl"] += len(evaluated)
    label = "trait definition objects round-trip (subprocess%s)" % (", ASan+UBSan" if sanitize else "")
    if have_gen:
        terms = [(list(r["idx"]), list(r["idx2"]), bool(r["same"]), bool(r.get("crashed")), bool(r.get("rc_ok", True)))
                 for r in evaluated]
        hdr = ("From Coq Require Import ZArith List.\nFrom TV Require Import Common.Harness Common.CTables.\n"
               "Require Import %s.CTablesGen." % qname)
        try:
            corr, law = coqrun.eval_cases(ctx.scratch, "ctrait" + ("_asan" if sanitize else ""), hdr,
                                          "CTables.ctrait_case", terms,
                                          ["CTables.ctrait_corr_codes gen", "CTables.ctrait_law_codes gen"],
                                          extra_q=[(ctx.scratch, qname)])
        except coqrun.CoqError as e:
            ctx.obligation(label, False, str(e))
            ctx.fail("harness/ctrait", "ctrait cases could not be evaluated: %s" % e.log[-400:], dict(error=e.log[-2000:]),
                     no_input=True)
            return 0
    else:
        law, corr = [], []
        for i, r in enumerate(evaluated):
            if r.get("crashed"):
                law.append((i, 1))
            else:
                if r["idx"] != r["idx2"]:
                    law.append((i, 3))
                if not r["same"]:
                    law.append((i, 4))
                if not r.get("rc_ok", True):
                    law.append((i, 6))
    by_clause = {}
    statuses = []
    for i, code in law:
        by_clause.setdefault((code, _mode_class(evaluated[i]["mode"])), []).append(evaluated[i])
    for code, _mc in sorted(by_clause):
        rs = sorted(by_clause[(code, _mc)], key=lambda r: (r["spec"], r["mode"]))
        r = rs[0]
        key = "ctrait/%s/%s/%s" % (CT_CLAUSE.get(code, code), r["spec"], _mode_class(r["mode"]))
        statuses.append(ctx.fail(key, "trait definition object %s through %s: %s (indices %r -> %r; %s%s); %d (definition, mode) pairs "
                 "affected: %s" % (
                     r["spec"], r["mode"], CT_CLAUSE.get(code, code), r["idx"], r["idx2"], r.get("diff", ""),
                     (" rc=%s %s" % (r.get("rc"), r.get("stderr", "")[-300:].replace("\n", " | ")))
                     if r.get("crashed") else "", len(rs), ", ".join(sorted({x["spec"] for x in rs}))[:400]),
                 dict(kind="ctrait", spec=r["spec"], mode=r["mode"], sanitized=bool(sanitize), impl_obs=r,
                      all_affected=sorted({x["spec"] + "/" + x["mode"] for x in rs}))))
    unknown = [s for s in statuses if s != "known"]
    ctx.obligation(label, not unknown and not corr, "%d (definition, copy mode) pairs; %d law failures (%d clauses "
                   "listed as known findings), %d model disagreements" % (
                       len(evaluated), len(law), len(statuses) - len(unknown), len(corr)))
    if corr and not law:
        i, code = corr[0]
        r = evaluated[i]
        ctx.fail("corr/ctrait/%s" % CT_CLAUSE.get(code, code),
                 "func_index model (first occurrence) disagrees with __getstate__ of %s: %r" % (r["spec"], r["idx"]),
                 dict(kind="ctrait", spec=r["spec"], mode=r["mode"], impl_obs=r), no_input=True)
    return len(evaluated)


ALL_SPECS = None   # filled lazily from the driver's catalogue (only needed after a crash)


def _all_specs():
    import re
    src = open(os.path.join(coqrun.VERIF, "tools", "drivers", CT_DRIVER)).read()
    body = src[src.index("SPECS = {"):src.index("LATTICE")]
    return sorted(set(re.findall(r'"([A-Za-z0-9]+)":\s*(?:lambda|None)', body)))


# ----------------------------------------------------------------------------------------------
# crash stream: generated API programs
# ----------------------------------------------------------------------------------------------
CRASH_DRIVER = "c18_crash_driver.py"


def crash_stream(ctx, programs, sanitize=False, tag="api"):
    """programs: [{"index", "seed", "n"}].  A dead interpreter is the observation `crashed at op k`."""
    label = "no crash / sanitiser report in %d generated API programs (%s build)" % (
        len(programs), "clang ASan+UBSan" if sanitize else "gcc")
    todo = list(programs)
    total_ops, crashes, raised = 0, 0, {}
    round_ = 0
    while todo and crashes < 3:
        round_ += 1
        log = os.path.join(ctx.scratch, "crash_%s_%d%s.log" % (tag, round_, "_asan" if sanitize else ""))
        rc, out, err = ctx.run_driver(CRASH_DRIVER, dict(programs=todo, log=log), sanitize=sanitize, timeout=1500)
        if rc == 0 and out is not None:
            for o in out:
                total_ops += o["ops"]
                for k, v in o["raised"].items():
                    raised[k] = raised.get(k, 0) + v
            todo = []
            break
        if rc == 124:
            ctx.fail("harness/crash-stream", "crash-stream driver timeout", dict(error=err[-1000:]), no_input=True)
            break
        lines = open(log).read().splitlines() if os.path.exists(log) else []
        pidx = [i for i, l in enumerate(lines) if l.startswith("P ")]
        if not pidx or (rc == 1 and "Traceback" in err and "Sanitizer" not in err and not lines[-1].startswith("O ")):
            ctx.fail("harness/crash-stream", "crash-stream driver failed rc=%s: %s" % (rc, err[-400:]),
                     dict(error=err[-2000:]), no_input=True)
            break
        last = lines[pidx[-1]].split()
        index, seed = int(last[1]), int(last[2])
        ops = lines[pidx[-1] + 1:]
        k = len(ops) - 1
        optext = ops[-1] if ops else "?"
        opkind = optext.split()[2] if len(optext.split()) > 2 else "?"
        crashes += 1
        pr = next(p for p in todo if p["index"] == index)
        ctx.fail("crash/api-program/%s" % opkind,
                 "the interpreter died (rc=%s, %s build) at op %d of the generated program seed=%d: %s :: %s" % (
                     rc, "sanitised" if sanitize else "gcc", k, seed, optext, err[-400:].replace("\n", " | ")),
                 dict(kind="crash-program", program=pr, crashed_at_op=k, ops=ops, returncode=rc,
                      sanitized=bool(sanitize), stderr_tail=err[-3000:]))
        todo = [p for p in todo if p["index"] > index]
    ctx.obligation(label, crashes == 0 and not todo, "%d operations executed; exceptions raised: %s" % (
        total_ops, ", ".join("%s=%d" % kv for kv in sorted(raised.items()))))
    ctx.count("api-program-ops%s" % ("(asan)" if sanitize else ""), total_ops)
    for k, v in raised.items():
        ctx.count("api-program-raised:" + k, v)
    ctx.cov["evaluations"] += len(programs) - len(todo)
    return crashes



def finalizer_stream(ctx, sanitize=False):
    _finalizer_run(ctx, sanitize, None)
    # its own subprocess: a listed finding that kills the interpreter must not hide the other scenarios
    _finalizer_run(ctx, sanitize, "delegate-replaced")
    _finalizer_run(ctx, sanitize, "trait-removed")
    _finalizer_run(ctx, sanitize, "trait-removed-default")
    _finalizer_run(ctx, sanitize, "trait-removed-tpc")


def _finalizer_run(ctx, sanitize, only):
    """gc.collect() (and touching / resurrecting the owner) from finalisers that run INSIDE the teardown of HasTraits
    objects, containers, trait definitions and handlers; own subprocess, PYTHONMALLOC=debug (a use of freed memory is
    fatal, not silent)."""
    log = os.path.join(ctx.scratch, "finalizers%s%s.log" % ("_" + only if only else "", "_asan" if sanitize else ""))
    old = os.environ.get("PYTHONMALLOC")
    if not sanitize:
        os.environ["PYTHONMALLOC"] = "debug"
    try:
        rc, out, err = ctx.run_driver(CRASH_DRIVER, dict(finalizers=True, log=log, only=only), sanitize=sanitize,
                                      timeout=600)
    finally:
        if old is None:
            os.environ.pop("PYTHONMALLOC", None)
        else:
            os.environ["PYTHONMALLOC"] = old
    label = "no crash when finalisers / re-entrant hooks collect garbage, touch the owner or replace values in use%s (%s)" % (
        " [%s]" % only if only else "", "clang ASan+UBSan" if sanitize else "gcc build, PYTHONMALLOC=debug")
    lines = [l[2:] for l in (open(log).read().splitlines() if os.path.exists(log) else []) if l.startswith("F ")]
    if rc == 0 and out is not None:
        ctx.obligation(label, True, "%d scenarios" % (len(lines) - 1))
        ctx.cov["evaluations"] += len(lines)
        return
    if rc == 124 or (rc == 1 and "Traceback" in err and "Sanitizer" not in err and "Fatal Python error" not in err
                     and "Debug memory block" not in err):
        ctx.obligation(label, False, err[-600:])
        ctx.fail("harness/finalizers", "finaliser driver failed rc=%s: %s" % (rc, err[-400:]), dict(error=err[-2000:]),
                 no_input=True)
        return
    at = lines[-1] if lines else "?"
    known = any(e.get("status") == "known" and e.get("key") == "crash/finalizer/%s" % at for e in ctx.known)
    ctx.obligation(label, known, ("listed known finding; " if known else "") + err[-600:])
    ctx.fail("crash/finalizer/%s" % at,
             "the interpreter died (rc=%s%s) in finaliser scenario '%s' (a finaliser runs gc.collect() / touches its owner "
             "while a HasTraits object, container, trait or handler is being torn down): %s" % (
                 rc, ", sanitised build" if sanitize else ", PYTHONMALLOC=debug", at, err[-400:].replace("\n", " | ")),
             dict(kind="finalizer", scenario=at, scenarios_run=lines, sanitized=bool(sanitize), returncode=rc,
                  stderr_tail=err[-3000:]))


# ----------------------------------------------------------------------------------------------
# native stream: C fast validators / containers / delegates with fresh (mortal) objects
# ----------------------------------------------------------------------------------------------
NATIVE_DRIVER = "c18_native_driver.py"
NATIVE_HEADER = "From Coq Require Import ZArith List.\nFrom TV Require Import Common.Harness C18.Model C18.Law."


def _P(rnd):
    return ["p", rnd.randrange(4)]


def _tuple2(rnd, mode):
    """(object, number): mode coerce (int -> float at index 1), keep (already float), reject (bad item at index 1)"""
    second = {"coerce": ["n", rnd.choice([3, 7, 0])], "keep": ["n", 1.5], "reject": ["s", rnd.randrange(2)],
              "big": ["b", rnd.randrange(2)]}[mode]
    return ["t", [_P(rnd), second]]


def gen_native_op(rnd):
    mode = rnd.choice(["coerce", "coerce", "keep", "reject", "big"])
    x = rnd.random()
    T = [
        lambda: ["set", "a", rnd.choice([_P(rnd), ["s", rnd.randrange(2)], ["b", rnd.randrange(2)], _tuple2(rnd, "keep")])],
        lambda: ["set", "tup", _tuple2(rnd, mode)],
        lambda: ["set", "tup4", ["t", [_P(rnd), _P(rnd), {"reject": ["s", 0]}.get(mode, ["n", rnd.choice([2, 2.5])]),
                                      rnd.choice([_P(rnd), ["s", 1]])]]],
        lambda: ["set", "tint", ["t", [rnd.choice([["n", 3], ["b", 0], ["s", 0]]), _P(rnd)]]],
        lambda: ["set", "ttup", ["t", [_tuple2(rnd, mode), _P(rnd)]]],
        lambda: ["set", "eith", rnd.choice([_tuple2(rnd, mode), ["leaf", _P(rnd)], ["n", None], _P(rnd)])],
        lambda: ["set", "uni", rnd.choice([_tuple2(rnd, mode), ["s", rnd.randrange(2)], ["n", None], _P(rnd)])],
        lambda: ["set", "inst", rnd.choice([["leaf", _P(rnd)], _P(rnd), ["n", None]])],
        lambda: ["set", "typ", rnd.choice([["cls"], _P(rnd)])],
        lambda: ["set", "call", rnd.choice([["fn"], _P(rnd), ["n", None]])],
        lambda: ["set", "lst", ["l", [_P(rnd) for _ in range(rnd.randint(0, 3))]]],
        lambda: ["append", "lst", rnd.choice([_P(rnd), ["s", 0], ["b", 1]])],
        lambda: ["setitem", "lst", _P(rnd)],
        lambda: ["clear", "lst"],
        lambda: ["set", "ltup", ["l", [_tuple2(rnd, rnd.choice(["coerce", "keep"])) for _ in range(rnd.randint(0, 2))] +
                                 ([_tuple2(rnd, "reject")] if mode == "reject" else [])]],
        lambda: ["append", "ltup", _tuple2(rnd, mode)],
        lambda: ["set", "dct", ["d", [[_P(rnd), rnd.choice([_P(rnd), ["s", 0]])] for _ in range(rnd.randint(0, 2))]]],
        lambda: ["setitem", "dct", _P(rnd), 0],
        lambda: ["clear", "dct"],
        lambda: ["set", "st", ["set", [_P(rnd) for _ in range(rnd.randint(0, 3))]]],
        lambda: ["add", "st", rnd.choice([_P(rnd), ["b", 0]])],
        lambda: ["set", "i", rnd.choice([["b", rnd.randrange(2)], ["n", 5], _P(rnd), ["idx", rnd.randrange(2)]])],
        lambda: ["set", rnd.choice(["i", "eis", "tint"]) if False else "eis", rnd.choice([["idx", rnd.randrange(2)], ["b", 0], ["s", 0]])],
        lambda: ["validate", rnd.choice(["i", "eis"]), ["idx", rnd.randrange(2)]],
        lambda: ["set", "tint", ["t", [["idx", rnd.randrange(2)], _P(rnd)]]],
        lambda: ["set", "f", rnd.choice([["b", rnd.randrange(2)], ["n", 5], ["s", 0]])],
        lambda: ["set", "rng", rnd.choice([["b", rnd.randrange(2)], ["n", 0.5], _P(rnd)])],
        lambda: ["set", "s", rnd.choice([["s", rnd.randrange(2)], _P(rnd)])],
        lambda: ["set", "ev", _P(rnd)],
        lambda: ["set", "evt", _tuple2(rnd, mode)],
        lambda: ["set", "ro", _P(rnd)],
        lambda: ["set", "expr", rnd.choice([["s", rnd.randrange(2)], _P(rnd)])],
        lambda: ["set", "prop", _tuple2(rnd, mode)],
        lambda: ["get", "prop"],
        lambda: ["leafset", rnd.choice(["value", "other", "pre_pw", "same"]), rnd.choice([_P(rnd), ["s", 1], ["b", 1]])],
        lambda: ["get", "d_pfx"], lambda: ["get", "d_pfx"], lambda: ["get", "pw"], lambda: ["get", "pw"],
        lambda: ["get", "d_set"], lambda: ["set", "d_set", _P(rnd)],
        lambda: ["get", "same"], lambda: ["set", "same", _P(rnd)],
        lambda: ["prime", None, rnd.choice([_P(rnd), ["s", rnd.randrange(2)], ["b", 0]])],
        lambda: ["get", "xdef"], lambda: ["default", "xdef"], lambda: ["del", "xdef"],
        lambda: ["set", "xdef", rnd.choice([["s", 0], _P(rnd)])],
        lambda: ["validate", rnd.choice(["tup", "evt", "eith", "uni", "ttup"]), _tuple2(rnd, mode)],
        lambda: ["validate", "tup4", ["t", [_P(rnd), _P(rnd), ["n", 3], _P(rnd)]]],
        lambda: ["set", "ci", rnd.choice([["digits", rnd.randrange(3)], ["b", 0], _P(rnd), ["n", 2.5]])],
        lambda: ["set", "cf", rnd.choice([["digits", rnd.randrange(3)], ["b", 1], _P(rnd)])],
        lambda: ["set", "cs", rnd.choice([["b", 0], ["s", 1], _P(rnd), ["n", 1.5]])],
        lambda: ["set", "mp", rnd.choice([["mapkey", 0], ["mapkey", 1], ["s", 0], _P(rnd)])],
        lambda: ["get", "mp"], lambda: ["del", "mp"],
        lambda: ["set", "enum", rnd.choice([["enum", 0], ["enum", 1], ["enum", 2], _P(rnd)])],
        lambda: ["set", "pl", rnd.choice([["pfx", 0], ["pfx", 1], ["pfx", 2], _P(rnd)])],
        lambda: ["set", "lb", ["l", [_tuple2(rnd, "coerce") for _ in range(rnd.randint(0, 3))]]],
        lambda: ["append", "lb", _tuple2(rnd, mode)],
        lambda: ["set", rnd.choice(["er2", "ers", "era"]), rnd.choice([["fl", rnd.randrange(4)], ["fl", rnd.randrange(4)],
                                                                       ["b", 0], ["n", 7], ["s", 0], _P(rnd)])],
        lambda: ["validate", rnd.choice(["er2", "ers", "era"]), ["fl", rnd.randrange(4)]],
        lambda: ["ctdefault", rnd.choice(["dfl", "dfll", "a", "tup", "i", "lst"])], lambda: ["ctdefault", "dfl"],
        lambda: ["get", rnd.choice(["dfl", "dfll"])], lambda: ["del", rnd.choice(["dfl", "dfll"])],
        lambda: ["basetrait", "cyc"], lambda: ["basetrait", "cyc"],
        lambda: ["vtrait", "cyc", _P(rnd)], lambda: ["basetrait", rnd.choice(["d_pfx", "same", "a", "tup"])],
        lambda: ["vkeep", "tup", _tuple2(rnd, mode)], lambda: ["vkeep", "tup", _tuple2(rnd, mode)],
        lambda: ["vkeep", "tup4", ["t", [_P(rnd), rnd.choice([_P(rnd), ["b", 0]]),
                                         rnd.choice([["n", 3], ["n", 2.5], ["s", 0], ["b", 1]]), rnd.choice([_P(rnd), ["s", 1]])]]],
        lambda: ["vkeep", "tint", ["t", [rnd.choice([["n", 3], ["b", 0], ["s", 0]]), _P(rnd)]]],
        lambda: ["default", rnd.choice(["a", "lst", "dct", "st", "leaf", "tup"])],
        lambda: ["get", rnd.choice(["a", "tup", "tup4", "eith", "inst", "lst", "ltup", "dct", "st", "ro", "expr", "ev"])],
        lambda: ["del", rnd.choice(["a", "tup", "tup4", "eith", "inst", "lst", "dct", "i", "s", "prop", "d_set"])],
        lambda: ["gc"],
    ]
    return rnd.choice(T)()


def native_corpus():
    P0, P1, P2 = ["p", 0], ["p", 1], ["p", 2]
    return [dict(ops=[
        ["set", "tup", ["t", [P0, ["n", 3]]]], ["get", "tup"], ["set", "tup", ["t", [P1, ["s", 0]]]],
        ["set", "tup4", ["t", [P0, P1, ["n", 2], P2]]], ["set", "tup4", ["t", [P0, P1, ["s", 0], P2]]],
        ["set", "ttup", ["t", [["t", [P0, ["n", 3]]], P1]]], ["validate", "tup", ["t", [P2, ["n", 4]]]],
        ["set", "eith", ["t", [P0, ["n", 3]]]], ["set", "ltup", ["l", [["t", [P0, ["n", 1]]], ["t", [P1, ["n", 2]]]]]],
        ["set", "evt", ["t", [P0, ["n", 3]]]], ["set", "prop", ["t", [P0, ["n", 3]]]], ["get", "prop"],
        ["leafset", "value", P0], ["get", "d_pfx"], ["get", "d_pfx"], ["get", "d_pfx"], ["get", "d_pfx"],
        ["leafset", "pre_pw", P1], ["get", "pw"], ["get", "pw"],
        ["prime", None, P2], ["get", "xdef"], ["default", "xdef"], ["set", "xdef", ["s", 0]], ["del", "xdef"],
        ["get", "xdef"], ["prime", None, ["s", 1]], ["get", "xdef"],
        ["set", "i", ["b", 0]], ["set", "f", ["b", 1]], ["set", "rng", ["b", 0]], ["set", "s", ["s", 0]],
        ["set", "dct", ["d", [[P0, P1], [["b", 0], ["s", 1]]]]], ["setitem", "dct", P2, 0], ["clear", "dct"],
        ["set", "st", ["set", [P0, P1]]], ["add", "st", P2], ["set", "ro", P0], ["set", "ro", P1],
        ["set", "inst", ["leaf", P0]], ["set", "inst", P0], ["del", "tup"], ["del", "tup4"], ["gc"],
        ["ctdefault", "dfl"], ["ctdefault", "dfl"], ["ctdefault", "dfll"], ["get", "dfl"], ["ctdefault", "dfl"], ["del", "dfl"],
        ["get", "dfll"], ["ctdefault", "dfll"], ["ctdefault", "tup"],
        ["set", "i", ["idx", 0]], ["set", "i", ["idx", 1]], ["set", "eis", ["idx", 0]], ["validate", "i", ["idx", 1]],
        ["set", "tint", ["t", [["idx", 0], P1]]], ["del", "i"], ["set", "i", ["n", 3]],
        ["set", "er2", ["fl", 0]], ["set", "er2", ["fl", 1]], ["set", "er2", ["fl", 2]], ["set", "er2", ["fl", 3]],
        ["set", "ers", ["fl", 0]], ["set", "ers", ["fl", 2]], ["set", "era", ["fl", 0]], ["set", "era", ["fl", 3]],
        ["validate", "er2", ["fl", 0]], ["validate", "era", ["fl", 0]], ["set", "ers", ["b", 0]],
        ["basetrait", "cyc"], ["basetrait", "cyc"], ["basetrait", "cyc"], ["vtrait", "cyc", P0],
        ["basetrait", "cyc"], ["basetrait", "d_pfx"],
        ["vkeep", "tup", ["t", [P0, ["n", 3]]]], ["vkeep", "tup", ["t", [P0, ["n", 1.5]]]], ["vkeep", "tup", ["t", [P0, ["s", 0]]]],
        ["vkeep", "tup4", ["t", [P0, P1, ["n", 2], P2]]], ["vkeep", "tup4", ["t", [P0, P0, ["s", 0], P2]]],
        ["vkeep", "tup4", ["t", [P0, P1, ["n", 2.5], P0]]], ["vkeep", "tint", ["t", [["b", 0], P1]]]])]


def native_stream(ctx, cases, sanitize=False, tag="native"):
    prog = os.path.join(ctx.scratch, "progress_%s.txt" % tag)
    label = "native stream: reference neutrality of the C validators / containers / delegates with fresh objects%s" % (
        " (ASan+UBSan)" if sanitize else "")
    rc, obs, err = ctx.run_driver(NATIVE_DRIVER, dict(cases=cases, progress=prog), sanitize=sanitize)
    if rc != 0 or obs is None or len(obs) != len(cases):
        if rc == 124 or (rc == 1 and "Traceback" in err and "Sanitizer" not in err):
            ctx.obligation(label, False, err[-600:])
            ctx.fail("harness/" + tag, "native driver failed (rc=%s): %s" % (rc, err[-400:]), dict(error=err[-2000:]),
                     no_input=True)
            return
        ctx.obligation(label + " — no crash", False, err[-600:])
        ci = crash_case_report(ctx, cases, tag, rc, err, prog, sanitize)
        if obs is None or len(obs) != len(cases):
            if ci and not tag.endswith("_pre"):
                # what the histories before the crashing one show (usually the miscount that leads to the crash)
                native_stream(ctx, cases[:ci], sanitize=sanitize, tag=tag + "_pre")
            return
        # the process died after it had delivered its observations (at interpreter exit): evaluate them as well
    terms = [[(False, [(a, d, hb, ha) for a, d, hb, ha in st["rows"]]) for st in ob] for ob in obs]
    try:
        (law,) = coqrun.eval_cases(ctx.scratch, tag, NATIVE_HEADER, "list C18.Law.nstep", terms,
                                   ["C18.Law.native_law_codes"], shard=400)
    except coqrun.CoqError as e:
        ctx.obligation(label, False, str(e))
        ctx.fail("harness/" + tag, "native cases could not be evaluated: %s" % e.log[-400:], dict(error=e.log[-2000:]),
                 no_input=True)
        return
    # the Tuple validation loop against its Gallina model (C18/Tuple.v): items as observed, result kept alive
    tcs, tsrc = [], []
    for ci, (c, ob) in enumerate(zip(cases, obs)):
        for si, st in enumerate(ob):
            t = st.get("tuple")
            if t is None:
                continue
            items = [(b, C("IConv", w) if r == "conv" else C("ISame" if r == "same" else "IFail")) for b, r, w in t["items"]]
            deltas = [(row[0], row[1]) for row in st["rows"]] + [(100, t["tv_delta"])]
            tcs.append((100, items, t["kind"], deltas))
            tsrc.append((ci, si))
    if tcs:
        try:
            tcorr, tlaw = coqrun.eval_cases(ctx.scratch, tag + "_tuple", NATIVE_HEADER.replace("C18.Law.", "C18.Law C18.Tuple."),
                                            "C18.Tuple.tcase", tcs,
                                            ["C18.Tuple.tuple_corr_codes", "C18.Tuple.tuple_law_codes"], shard=1500)
        except coqrun.CoqError as e:
            tcorr, tlaw = None, None
            ctx.fail("harness/" + tag + "-tuple", "tuple cases could not be evaluated: %s" % e.log[-400:],
                     dict(error=e.log[-2000:]), no_input=True)
        if tcorr is not None:
            for i, code in tlaw[:1]:
                ci, si = tsrc[i]
                ctx.fail("native-tuple-validation-not-neutral/%s" % cases[ci]["ops"][si][1],
                         "validate_trait_tuple_check: the result does not own exactly the references it holds: op %r, "
                         "observed %r" % (cases[ci]["ops"][si], obs[ci][si]),
                         dict(kind="native", case=dict(ops=cases[ci]["ops"][:si + 1]), step=si, clause=1,
                              sanitized=bool(sanitize), impl_obs=obs[ci][:si + 1]))
            ctx.obligation("correspondence C18.Tuple.tuple_corr_codes (ttc_loop ledger = getrefcount deltas of kept "
                           "validation results%s)" % (", ASan+UBSan" if sanitize else ""), not tcorr,
                           "%d tuple validations; %d disagree" % (len(tcs), len(tcorr)))
            if tcorr and not tlaw:
                i, code = tcorr[0]
                ci, si = tsrc[i]
                ctx.fail("corr/C18.Tuple/field%d" % code, "tuple-validation model and implementation disagree (field %d) on "
                         "op %r: %r" % (code, cases[ci]["ops"][si], obs[ci][si].get("tuple")),
                         dict(kind="native", case=dict(ops=cases[ci]["ops"][:si + 1]), step=si, impl_obs=obs[ci][:si + 1]),
                         no_input=True)
            ctx.count("native-tuple-validations", len(tcs))
    nsteps = 0
    for c, ob in zip(cases, obs):
        nsteps += len(ob)
        ctx.case_seen(json.dumps(c["ops"]), any(any(r[1] for r in st["rows"]) or st["out"] != "Ok" for st in ob))
        for op, st in zip(c["ops"], ob):
            ctx.count("native-op:%s%s" % (op[0], "/" + op[1] if len(op) > 1 and isinstance(op[1], str) else ""))
    ctx.cov["traces_validated_against_impl"] += len(cases)
    seen = {}
    for i, code in law:
        step, clause = code // 100, code % 100
        op = cases[i]["ops"][step]
        key = "native-%s/%s-%s/%s" % (CLAUSE.get(clause, clause), op[0], op[1] if len(op) > 1 and op[1] else "",
                                      obs[i][step]["out"])
        if key in seen:
            continue
        seen[key] = 1
        bad = [r for r in obs[i][step]["rows"] if r[1] != r[3] - r[2]]
        # shortest failing prefix is the history itself up to the step
        rep_case = dict(ops=cases[i]["ops"][:step + 1])
        ctx.fail(key, "native path: clause %s fails at step %d op %r (outcome %s): (object, refcount delta, held before, "
                 "held after) = %r; objects 0-3 instances, 4-5 run-time strings, 6-7 big ints, 8-9 delegate prefix strings, "
                 "10-11 Map keys, 12-13 Map values, 14-15 Enum members, 16-19 fresh floats, 20.. the class-level CTrait of `cyc`, then the default object of `dfl` and the item of the default list of `dfll`"
                 % (CLAUSE.get(clause, clause), step, op, obs[i][step]["out"], bad),
                 dict(kind="native", case=rep_case, step=step, clause=clause, sanitized=bool(sanitize),
                      impl_obs=obs[i][:step + 1]))
    ctx.obligation(label, not law, "%d histories, %d operations; %d failing steps" % (len(cases), nsteps, len(law)))

# ----------------------------------------------------------------------------------------------
# definition stream: trait definitions built by traits' own constructors, exercised through the C core
# ----------------------------------------------------------------------------------------------
FUZZ_DRIVER = "c18_fuzz_driver.py"
FUZZ_FAMILIES = ["library-a", "library-b", "library-c", "library-d"]      # four workers, disjoint seeds


def descriptor_stream(ctx, sanitize=False):
    """Random trait definitions built by the constructors of traits.api (what TraitType.as_ctrait can produce; NOT
    hand-built descriptors for the low-level CTrait constructors, which are outside the property's quantifier) are
    exercised in subprocesses.  A FIXED corpus (seeds do not depend on --seed).  After a crash the worker is re-run
    without definitions of the crashing handler class, so that every crashing class is reported once."""
    import concurrent.futures
    base_seeds, n = ((1,), 600) if ctx.tier == "quick" else ((1, 2, 3, 4), 1500)
    ctx.build_impl(sanitize)            # build once, before the worker threads need it

    def one_family(fam):
        seeds = [10 * s + FUZZ_FAMILIES.index(fam) for s in base_seeds]
        prog = os.path.join(ctx.scratch, "fuzz_%s%s.txt" % (fam, "_asan" if sanitize else ""))
        skip, crashes, tried, accepted, harness = [], [], 0, 0, None
        for _round in range(8):
            crashed = False
            for seed in seeds:
                rc, out, err = ctx.run_driver(FUZZ_DRIVER, dict(family=fam, seed=seed, n=n, progress=prog, skip=skip),
                                              sanitize=sanitize, timeout=600)
                if rc == 0 and out is not None:
                    tried += out["tried"]
                    accepted += out["accepted"]
                    continue
                if rc == 124 or (rc == 1 and "Traceback" in err and "Sanitizer" not in err):
                    harness = "descriptor driver failed rc=%s: %s" % (rc, err[-400:])
                    return crashes, tried, accepted, harness
                try:
                    lines = open(prog).read().split("\n")
                    head, desc = lines[0], lines[1]
                except Exception:
                    head, desc = "?", "?"
                head_v = head
                crashes.append(dict(fam=fam, head=head, desc=desc, rc=rc, err=err, seed=seed, skip=list(skip)))
                skip.append(head_v)
                crashed = True
                break
            if not crashed:
                break
        return crashes, tried, accepted, harness

    with concurrent.futures.ThreadPoolExecutor(max_workers=4) as ex:
        results = list(ex.map(one_family, FUZZ_FAMILIES))
    crashes, tried, accepted = [], 0, 0
    for fam, (cr, t, a, harness) in zip(FUZZ_FAMILIES, results):
        tried += t
        accepted += a
        if harness:
            ctx.fail("harness/descriptor-stream", harness, dict(error=harness), no_input=True)
            return
        for c in cr:
            crashes.append((c["fam"], c["head"], c["desc"]))
            ctx.fail("crash/definition/%s" % c["head"],
                     "the interpreter died (rc=%s%s) exercising a trait definition built by traits' own constructors "
                     "(%s): %s :: %s" % (c["rc"], ", sanitised build" if sanitize else "", c["fam"], c["desc"][:300],
                                              c["err"][-300:].replace("\n", " | ")),
                     dict(kind="descriptor", family=c["fam"], seed=c["seed"], n=n, skip=c["skip"], descriptor=c["desc"],
                          sanitized=bool(sanitize), returncode=c["rc"], stderr_tail=c["err"][-2000:]))
    unknown = [c for c in crashes if not any(e.get("status") == "known" and e.get("key") == "crash/definition/%s" % c[1]
                                             for e in ctx.known)]
    ctx.obligation("no crash exercising trait definitions built by traits' own constructors (%s build)" % (
        "clang ASan+UBSan" if sanitize else "gcc"), not unknown,
        "%d definitions drawn, %d built and exercised; crashing handler classes: %s" % (
            tried, accepted, ", ".join("%s/%s" % (c[0], c[1]) for c in crashes) or "none"))
    ctx.count("definition-drawn%s" % ("(asan)" if sanitize else ""), tried)
    ctx.count("definition-exercised%s" % ("(asan)" if sanitize else ""), accepted)
    ctx.cov["evaluations"] += tried


def _timed(ctx, name, f, *a, **k):
    import time
    t0 = time.time()
    r = f(*a, **k)
    ctx.cov.setdefault("stream_seconds", {})[name] = round(time.time() - t0, 1)
    return r


def run(ctx):
    import time
    _t0 = time.time()
    ok, log = ctx.proofs(PROPS)
    ctx.cov.setdefault("stream_seconds", {})["proofs"] = round(time.time() - _t0, 1)
    ctx.cov["level_detail"] = ("proof (partial): table indices and the reference-count ledger are theorems; "
                               "out-of-bounds / use-after-free / undefined behaviour elsewhere in ctraits.c is "
                               "searched for by running generated programs (sanitised build in the thorough tier), "
                               "never proved absent")
    ctx.cov["trusted_base"] += [
        "tools/vlib/tr_ctables.py (T3, regular expressions over the comment-stripped C text, fail-closed) and "
        "coq/Common/CTables.v (function pointers as integers; func_index without end test = None when it runs off)",
        "tools/drivers/c18_driver.py (sys.getrefcount around each operation after gc.collect(); pool objects are "
        "mortal instances; names are immortal on CPython 3.12 and not measured), c18_crash_driver.py",
        "modelled, not verified: CPython's dict/tuple/call reference discipline (PyDict_SetItem takes one reference "
        "and drops the replaced value; PyTuple_Pack / Py_DECREF(args) cancel); all of ctraits.c outside the modelled "
        "functions (list in C18/Model.v) and outside T3 is only exercised, not modelled",
    ]
    ctx.cov["rule"] = ("ledger stream: random attribute histories (set/get/del) over 1-3 traits whose validator "
                       "(NULL / accept / convert / reject / raise per value), default (constant / _name_default "
                       "returning / raising), post_setattr (none / ok / raise), comparison mode, original-value flag "
                       "and 0-3 handlers (raising or not, exceptions propagated or swallowed) are drawn per case, plus "
                       "a corpus crossing every failure exit; a case is non-trivial if a step raises or changes a "
                       "reference count; distinct = distinct (configuration, history)")
    rnd = random.Random(ctx.seed)
    if ctx.replay:
        rep_file = json.load(open(ctx.replay))
        rep = rep_file["replay"]
        if rep.get("kind") == "finalizer":
            finalizer_stream(ctx, sanitize=bool(rep.get("sanitized")))
        elif rep.get("kind") == "native":
            native_stream(ctx, [rep["case"]], sanitize=bool(rep.get("sanitized")), tag="replay")
        elif rep.get("kind") == "descriptor":
            rc, out, err = ctx.run_driver(FUZZ_DRIVER, dict(family=rep["family"], seed=rep["seed"], n=rep["n"],
                                                            skip=rep["skip"],
                                                            progress=os.path.join(ctx.scratch, "fuzz_replay.txt")),
                                          sanitize=bool(rep.get("sanitized")))
            if rc != 0:
                ctx.fail(rep_file.get("key") or "crash/definition/replay",
                         "replay: the interpreter died again (rc=%s) on descriptor %s" % (rc, rep["descriptor"]), rep)
        elif rep.get("kind") == "crash-program":
            crash_stream(ctx, [rep["program"]], sanitize=bool(rep.get("sanitized")), tag="replay")
        elif rep.get("kind") == "ctrait":
            t3_ok, t3_data, _ = t3(ctx)
            ctrait_stream(ctx, t3_data, t3_data is not None and os.path.exists(os.path.join(ctx.scratch, "CTablesGen.vo")),
                          sanitize=bool(rep.get("sanitized")), specs=[rep["spec"]], modes=[rep["mode"]])
        elif rep.get("case") is not None:
            ledger_stream(ctx, [rep["case"]], sanitize=bool(rep.get("sanitized")), tag="replay")
        proof_gate(ctx, ok, log, PROPS)
        return
    # --- T3 -------------------------------------------------------------------------------
    t3_ok, t3_data, t3_msg = _timed(ctx, "t3", t3, ctx)
    # --- ledger ---------------------------------------------------------------------------
    n, maxlen = (500, 10) if ctx.tier == "quick" else (8000, 25)
    cases = corpus() + [gen_case(rnd, ctx, maxlen) for _ in range(n)]
    for c in cases[:1] + cases[-2:]:
        ctx.sample(c)
    _timed(ctx, "ledger", ledger_stream, ctx, cases)
    # --- trait definition objects in a subprocess (F9 trigger: validated Property traits) --------
    have_gen = t3_data is not None and os.path.exists(os.path.join(ctx.scratch, "CTablesGen.vo"))
    _timed(ctx, "ctrait", ctrait_stream, ctx, t3_data, have_gen)
    # --- crash stream -----------------------------------------------------------------------
    npr, nops = (24, 120) if ctx.tier == "quick" else (160, 250)
    programs = [dict(index=i, seed=rnd.randrange(1 << 30), n=nops) for i in range(npr)]
    _timed(ctx, "crash", crash_stream, ctx, programs)
    _timed(ctx, "finalizers", finalizer_stream, ctx)
    _timed(ctx, "descriptor", descriptor_stream, ctx)
    nn, nlen = (80, 25) if ctx.tier == "quick" else (1500, 40)
    ncases = native_corpus() + [dict(ops=[gen_native_op(rnd) for _ in range(rnd.randint(5, nlen))]) for _ in range(nn)]
    _timed(ctx, "native", native_stream, ctx, ncases)
    if ctx.tier == "thorough":
        # the same streams on the clang ASan+UBSan build: a report or a dead process is a violation
        ctx.build_impl(sanitize=True)
        crash_stream(ctx, programs, sanitize=True)
        finalizer_stream(ctx, sanitize=True)
        descriptor_stream(ctx, sanitize=True)
        native_stream(ctx, ncases[:300], sanitize=True, tag="native_asan")
        ctrait_stream(ctx, t3_data, have_gen, sanitize=True)
        ledger_stream(ctx, cases[:len(corpus())] + cases[-2000:], sanitize=True, tag="ledger_asan")
    if not t3_ok:
        if not any(not v[2] for v in ctx.violations):
            ctx.fail("T3/tables", t3_msg, dict(kind="generated-obligation-broken", detail=t3_msg,
                                               offenders=(t3_data or {}).get("offenders")), no_input=True)
    proof_gate(ctx, ok, log, PROPS)
