"""C09 — observe registration is counted, reversible, failure-atomic and weak."""
import json
import random

from vlib import hist
from vlib.ctx import proof_gate
from vlib.term import Raw

HEADER = ("From Coq Require Import ZArith List.\n"
          "From TV Require Import Common.Harness C09.Model C09.Law C09.Corr.")
CASE_T = "C09.Corr.case"
PROPS = ["C09/Props.v"]
CLAUSE = {1: "failed-op-changed-hooks", 2: "not-restored-after-balanced-removal", 3: "call-count",
          4: "extra-unregister-did-not-raise", 5: "weakref-still-alive", 6: "change-raised", 8: "handler-left-attached-after-its-removals", 9: "removal-of-live-registration-raised",
          7: "pool-kept-alive"}
CORR = {1: "outcome-class", 2: "handler-calls", 3: "notifier-lists"}

FNUM = {"value": 2, "f": 3, "g": 4, "kids": 5, "m": 6, "s": 7, "w": 8, "nonexist": 9, "value2": 10, "items": 11,
        "extra": 13, "cp": 14}
F_OBJ = 12
TRAITS = {"N": ["value", "value2", "f", "g", "kids", "m", "s", "w", "cp"], "P": ["value2", "f", "kids", "w"]}
TRAITS["E"] = TRAITS["N"]
for _c in ("D1", "D2", "D3"):      # classes whose only class-level registration is @observe(<DECL>)
    TRAITS[_c] = ["value", "f", "kids"]
DECL = {"D1": "f:value", "D2": "f.value", "D3": "kids.items.value"}      # class E: N with value-based __eq__/__hash__ (all E objects of a case are equal)
CK = {"list": "CList", "dict": "CDict", "set": "CSet"}
MK = {"N": "MNamed", "L": "(MItems CList)", "D": "(MItems CDict)", "S": "(MItems CSet)", "T": "MTA"}
EXN = {"ValueError": "ValueError", "NotifierNotFound": "NotifierNotFound", "RuntimeError": "RuntimeError"}


# ---------------------------------------------------------------- Gallina text
def b(x):
    return "true" if x else "false"


def lst(xs):
    return "[" + "; ".join(xs) + "]"


def g_term(t):
    kind, a, notify, optional, ch = t
    if kind == "N":
        node = "(NNamed %d %s %s)" % (a, b(notify), b(optional))
    elif kind == "I":
        node = "(NItems %s %s %s)" % (CK[a], b(notify), b(optional))
    else:
        raise ValueError("graph node outside the modelled observers: %r" % (t,))
    return "(G %s %s)" % (node, lst(g_term(c) for c in ch))


class GTable:
    """graphs of one case, written once; operations and maintainers refer to them by index"""

    def __init__(self):
        self.idx = {}
        self.terms = []

    def ref(self, g):
        k = json.dumps(g)
        if k not in self.idx:
            self.idx[k] = len(self.terms)
            self.terms.append(g_term(g))
        return self.idx[k]


def notif_term(n, gt):
    if n[0] == "U":
        _, hid, tid, dsp, rc = n
        if min(hid, tid, dsp, rc) < 0:
            return "(RForeign 99)"
        return "(RUser (ky %d %d %d) %d)" % (hid, tid, dsp, rc)
    if n[0] == "M":
        _, mk, g, hid, tid, dsp = n
        if min(hid, tid, dsp) < 0 or mk not in MK or '"?"' in json.dumps(g):
            return "(RForeign 98)"
        return "(RMaint %s %d (ky %d %d %d))" % (MK[mk], gt.ref(g), hid, tid, dsp)
    return "(RForeign %d)" % n[1]


def snap_term(s, gt):
    return lst("(se %d %d %s)" % (o, f, lst(notif_term(n, gt) for n in ns)) for o, f, ns in s)


def op_graphs(op, ob):
    return ob["graphs"] if op[5] is not None else op[4]


def op_term(op, ob, gt):
    k = op[0]
    if k in ("Reg", "Unreg"):
        return "(%s %d %d %d %s)" % ("RRegister" if k == "Reg" else "RUnregister", op[1], op[2], op[3],
                                      lst(str(gt.ref(g)) for g in op_graphs(op, ob)))
    if k == "Copy":
        # the registration made by __setstate__ for the new object, on the heap in which that object already has the
        # (shared) children of the original
        return "(RRegister %d %d 0 %s)" % (op[2], op[3], lst(str(gt.ref(g)) for g in ob["graphs"]))
    if k == "ReadCp":
        # reading a cached property must change nothing: the model's no-op step (add_trait of an existing trait)
        return "(RAddTrait %d 10 [])" % op[1]
    if k == "Change":
        return "(RChange %d %d)" % (op[1], op[2])
    if k == "CollectOwner":
        return "(RCollectOwner %d)" % op[1]
    if k == "CollectObj":
        return "(RCollectObj %d)" % op[1]
    if k == "AddTrait":
        return "(RAddTrait %d 13 %s)" % (op[1], lst([] if op[2] is None else [str(op[2])]))
    if k == "SetLink":
        return "(RSetLink %d %d %s)" % (op[1], FNUM[op[2]], lst([] if op[3] is None else [str(op[3])]))
    if k == "Mut":
        m = ob["mut"]
        c = 5 + 3 * op[1] + {"kids": 0, "m": 1, "s": 2}[op[2]]
        if m is None:
            raise ValueError("container mutation not executed: %r" % (op,))
        return "(RSetItems %d %s %s %s %s)" % (c, lst(str(x) for x in m["items"]), lst(str(x) for x in m["removed"]),
                                               lst(str(x) for x in m["added"]), b(m["fired"]))
    raise ValueError(op)


def heap_term(case, obs):
    ds = []
    for i, d in enumerate(case["objs"]):
        names = TRAITS[d["cls"]]
        links = []
        if "copy_of" in d:
            d = dict(case["objs"][d["copy_of"]])
        for nm in ("f", "g"):
            if nm in names and d.get(nm) is not None:
                links.append("(lk %d [%d])" % (FNUM[nm], d[nm]))
        links.append("(lk %d [%d])" % (FNUM["kids"], 5 + 3 * i))
        if "m" in names:
            links.append("(lk %d [%d])" % (FNUM["m"], 5 + 3 * i + 1))
            links.append("(lk %d [%d])" % (FNUM["s"], 5 + 3 * i + 2))
        if d.get("w") in ("plain", "pylist"):
            links.append("(lk %d [%d])" % (FNUM["w"], 20 + i))
        for nm in ("value", "value2"):
            if nm in names:
                links.append("(lk %d [%d])" % (FNUM[nm], 25))      # an int object: not observable further
        ds.append("(od %d KObj %s %s [])" % (i, lst(str(x) for x in [1] + [FNUM[n] for n in names]), lst(links)))
        for c, ck in ((0, "CList"), (1, "CDict"), (2, "CSet")):
            oid = 5 + 3 * i + c
            if str(oid) in obs["items"]:
                ds.append("(od %d (KCont %s) [] [] %s)" % (oid, ck, lst(str(x) for x in obs["items"][str(oid)])))
    return lst(ds)


def univ_term(case):
    us = []
    for i, d in enumerate(case["objs"]):
        for nm in TRAITS[d["cls"]]:
            us.append("(ov %d %d)" % (i, FNUM[nm]))
        us.append("(ov %d 1)" % i)
        us.append("(ov %d 13)" % i)
        us.append("(ov %d %d)" % (i, F_OBJ))
        us.append("(ov %d 0)" % (5 + 3 * i))
        if d["cls"] in ("N", "E"):
            us.append("(ov %d 0)" % (5 + 3 * i + 1))
            us.append("(ov %d 0)" % (5 + 3 * i + 2))
    return lst(us)


def to_term(case, obs):
    gt = GTable()
    hs = []
    for op, ob in zip(case["ops"], obs["hist"]):
        d = ob["snap"]       # the driver reports only the lists that changed in this step
        out = "None" if ob["out"] == "Ok" else "(Some %s)" % EXN.get(ob["out"], "OtherError")
        dead = "None" if ob["dead"] is None else "(Some %s)" % b(ob["dead"])
        hs.append("(hs %s (mkRI %s %s %s %s))" % (op_term(op, ob, gt), out, lst(str(c) for c in ob["calls"]),
                                             snap_term(d, gt), dead))
    init = snap_term(obs["init"], gt)
    return Raw("(mkCase %s %s %s %s %s %s)%%nat" % (heap_term(case, obs), univ_term(case), lst(gt.terms), init,
                                                  lst(hs), b(obs["pool_collected"])))


# ---------------------------------------------------------------- reporting
def shape(op):
    if op[0] in ("Reg", "Unreg"):
        if op[5] is not None:
            return "%s(%s)" % (op[0], op[5])
        return "%s(%dgraphs)" % (op[0], len(op[4]))
    return op[0]


def key_fn(case, obs, step, clause):
    if clause == 7 or step >= len(case["ops"]):
        return "%s/case" % CLAUSE.get(clause, clause)
    op = case["ops"][step]
    return "%s/%s/%s" % (CLAUSE.get(clause, clause), op[0], obs["hist"][step]["out"])


def describe(case, obs, step, clause):
    if clause == 7 or step >= len(case["ops"]):
        return "pool objects still alive after del + gc.collect() with registrations outstanding: %r" % (case["ops"],)
    return "observe registration: clause %s fails at step %d op %r: outcome %s calls %r; history %r" % (
        CLAUSE.get(clause, clause), step, case["ops"][step], obs["hist"][step]["out"], obs["hist"][step]["calls"],
        case["ops"][:step + 1])


def nontrivial(case, obs):
    sig = json.dumps([case["objs"], case["handlers"], case["ops"]], sort_keys=True)
    nt = any(o["out"] != "Ok" or o["calls"] for o in obs["hist"])
    return sig, nt


# ---------------------------------------------------------------- generator
def N_(f, notify=True, optional=False, ch=()):
    return ["N", FNUM[f], int(notify), int(optional), list(ch)]


def I_(kind, notify=True, optional=False, ch=()):
    return ["I", kind, int(notify), int(optional), list(ch)]


def items_dsl(ch, notify=True):
    """what the mini-language word `items` compiles to"""
    return [N_("items", notify, True, ch), I_("list", notify, True, ch), I_("dict", notify, True, ch),
            I_("set", notify, True, ch)]


def gen_graph(rnd, depth, bad):
    """A random graph over the link fields; `bad` raises the share of failure points
    (missing trait, non-container / non-HasTraits where one is required)."""
    def leaf():
        r = rnd.random()
        if r < bad * 0.5:
            return N_(rnd.choice(["nonexist", "g", "value"]), rnd.random() < 0.9, rnd.random() < 0.25)
        return N_(rnd.choice(["value", "value", "value2"]), rnd.random() < 0.9, rnd.random() < 0.15)

    def sub(d):
        if d <= 0 or rnd.random() < 0.25:
            return leaf()
        r = rnd.random()
        notify = rnd.random() < 0.7
        nch = rnd.choice([1, 1, 1, 2])
        if r < 0.45:
            fld = rnd.choice(["f", "f", "g", "w"] if rnd.random() < bad else ["f", "f", "g"])
            ch = []
            for _ in range(nch):
                c = sub(d - 1) if rnd.random() > bad * 0.3 else I_(rnd.choice(["list", "dict"]), True,
                                                                  rnd.random() < 0.3, [leaf()])
                if c not in ch:
                    ch.append(c)
            return N_(fld, notify, rnd.random() < 0.15, ch)
        fld, ck = rnd.choice([("kids", "list"), ("kids", "list"), ("m", "dict"), ("s", "set")])
        if rnd.random() < bad * 0.4:
            ck = rnd.choice(["list", "dict", "set"])
        ch = []
        for _ in range(nch):
            c = sub(d - 1)
            if c not in ch:
                ch.append(c)
        inner = I_(ck, notify, rnd.random() < 0.2, ch)
        if rnd.random() < 0.25:
            return N_(fld, notify, rnd.random() < 0.15, items_dsl(ch, notify))
        return N_(fld, notify, rnd.random() < 0.15, [inner])

    return canon_graph(sub(depth))


def canon_graph(g):
    """children in one canonical order and without duplicates: ObserverGraph compares children as sets
    (and refuses duplicates), the model compares them as lists"""
    kind, a, notify, optional, ch = g
    cs = []
    for c in sorted((canon_graph(c) for c in ch), key=json.dumps):
        if c not in cs:
            cs.append(c)
    return [kind, a, notify, optional, cs]


TEXTS = ["value", "f.value", "f:value", "f.g.value", "kids.items.value2", "kids:items:value2", "f.kids.items.value2",
         "m.items.value2", "s.items.value2", "[f,g].value2", "kids.items.f.value2", "[value2, f.value2]",
         "kids.items.value", "value, nonexist", "w.value", "[f,g].value", "f.nonexist", "kids.items.g.value",
         "m.items.value", "f.items.value", "value2, f.value2, kids.items.value"]


def is_text(gs):
    """a mini-language text or a list of texts (as opposed to a list of graph trees)"""
    return isinstance(gs, str) or (isinstance(gs, list) and bool(gs) and isinstance(gs[0], str))


def mk_reg(kind, root, hid, dsp, gs, handlers=None):
    if handlers is not None and handlers[hid] == "ameth" and dsp == 2:
        dsp = 1          # a coroutine-function handler: dispatch_same schedules it as a task on the running loop, the
        #                  custom dispatcher runs it synchronously; dispatch="ui" would only create the coroutine
    if is_text(gs):
        return [kind, root, hid, 0 if dsp == 1 else dsp, None, gs]      # text(s): dispatch="same" / "ui"
    return [kind, root, hid, dsp, gs, None]


def gen_case(rnd, ctx, maxlen):
    n = rnd.randint(2, 5)
    objs = []
    for i in range(n):
        cls = "P" if rnd.random() < 0.3 else "N"
        d = {"cls": cls}
        others = list(range(n))
        if rnd.random() < 0.7:
            d["f"] = rnd.choice(others)
        if cls == "N" and rnd.random() < 0.5:
            d["g"] = rnd.choice(others)
        d["kids"] = [rnd.choice(others) for _ in range(rnd.choice([0, 1, 2, 2, 3, 4]))]
        if cls == "N":
            d["m"] = [rnd.choice(others) for _ in range(rnd.choice([0, 0, 1, 2]))]
            d["s"] = sorted(set(rnd.choice(others) for _ in range(rnd.choice([0, 0, 1, 2]))))
        d["w"] = rnd.choice([None, None, "plain", "pylist"])
        objs.append(d)
    if n >= 3 and rnd.random() < 0.25:
        # two distinct but ==-equal observing objects (class E: value-based __eq__/__hash__) that share their
        # downstream objects: their registrations of one handler must stay independent
        shared = dict(objs[0], cls="E")
        for fld in ("m", "s"):
            shared.setdefault(fld, [])
        objs[0], objs[1] = shared, dict(shared)
        ctx.count("case:two-equal-observing-objects")
    nh = rnd.randint(1, 3)
    handlers = [rnd.choice(["func", "func", "rfunc", "meth", "meth"]) for _ in range(nh)]
    bad = rnd.choice([0.0, 0.15, 0.5])
    graphsets = []
    for _ in range(rnd.randint(1, 3)):
        gs = []
        for _ in range(rnd.choice([1, 1, 2, 3])):
            g = gen_graph(rnd, rnd.randint(0, 3), bad)
            if g not in gs:
                gs.append(g)
        graphsets.append(gs)
    # mini-language texts (compiled by the implementation; the driver reports the resulting graphs).  A case
    # uses either texts or generated graph objects, never both: ObserverGraph compares children as sets, the
    # model as lists, and only within one source is "equal as sets" the same as "equal as lists".
    if rnd.random() < 0.25:
        graphsets = [rnd.choice(TEXTS if bad else TEXTS[:12]) for _ in range(rnd.randint(1, 4))]
        # HasTraits.observe also accepts a list of expressions
        graphsets = [([t, rnd.choice(TEXTS[:12])] if rnd.random() < 0.25 else t) for t in graphsets]
    else:
        # bound coroutine-function handlers (registered through apply_observers with the custom dispatcher)
        handlers = [("ameth" if hk == "meth" and rnd.random() < 0.4 else hk) for hk in handlers]
    ctx.count("graphs-from:" + ("text" if is_text(graphsets[0]) else "objects"))
    for hk in handlers:
        ctx.count("handler:" + hk)
    incoming = set()
    for i, d in enumerate(objs):
        for j in [d.get("f"), d.get("g")]:
            if j is not None and j != i:
                incoming.add(j)
        for j in d.get("kids", []) + d.get("m", []) + d.get("s", []):
            incoming.add(j)      # the driver keeps the containers alive, also those of a collected owner
    live_h = list(range(nh))
    live_o = list(range(n))
    regs = []
    ops = []
    for _ in range(rnd.randint(1, maxlen)):
        r = rnd.random()
        if r < 0.38 and live_h and live_o:
            op = mk_reg("Reg", rnd.choice(live_o[:2] if rnd.random() < 0.7 else live_o), rnd.choice(live_h),
                        rnd.randint(0, 2), rnd.choice(graphsets), handlers)
            regs.append(op)
        elif r < 0.70 and live_h and live_o:
            cand = [x for x in regs if x[1] in live_o and x[2] in live_h]
            if cand and rnd.random() < 0.8:
                x = rnd.choice(cand)
                regs.remove(x)
                op = ["Unreg"] + x[1:]
            else:
                op = mk_reg("Unreg", rnd.choice(live_o), rnd.choice(live_h), rnd.randint(0, 2), rnd.choice(graphsets),
                            handlers)
        elif r < 0.93 and live_o:
            i = rnd.choice(live_o)
            names = [x for x in ("value", "value2") if x in TRAITS[objs[i]["cls"]]]
            op = ["Change", i, FNUM[rnd.choice(names)]]
        elif r < 0.97 and [x for x in live_h if handlers[x] in ("meth", "ameth")]:
            hd = rnd.choice([x for x in live_h if handlers[x] in ("meth", "ameth")])
            live_h.remove(hd)
            op = ["CollectOwner", hd]
        else:
            cand = [x for x in live_o if x not in incoming]
            if not cand or len(live_o) < 2:
                continue
            i = rnd.choice(cand)
            live_o.remove(i)
            op = ["CollectObj", i]
        ops.append(op)
        ctx.count("op:" + op[0] + ("(text)" if op[0] in ("Reg", "Unreg") and op[5] is not None else ""))
    if not ops:
        ops = [["Change", 0, FNUM["value2"]]]
    ctx.count("history-length:%02d" % len(ops))
    ctx.count("failure-share:%s" % bad)
    return dict(objs=objs, handlers=handlers, ops=ops)


def gen_dyn_case(rnd, ctx, maxlen):
    """Registrations interleaved with mutations of the object graph (Instance links, list / dict / set
    items in place).  All objects have all traits, no failure points, links only to higher indices
    (acyclic: cycles through the root are C08's known finding F14), so that maintainers never raise."""
    n = rnd.randint(3, 5)
    objs = []
    for i in range(n):
        hi = list(range(i + 1, n))
        d = {"cls": "N", "w": None}
        if hi and rnd.random() < 0.7:
            d["f"] = rnd.choice(hi)
        if hi and rnd.random() < 0.5:
            d["g"] = rnd.choice(hi)
        d["kids"] = [rnd.choice(hi) for _ in range(rnd.choice([0, 1, 2, 3]))] if hi else []
        d["m"] = [rnd.choice(hi) for _ in range(rnd.choice([0, 1, 2]))] if hi else []
        d["s"] = sorted(set(rnd.choice(hi) for _ in range(rnd.choice([0, 1, 2])))) if hi else []
        objs.append(d)
    nh = rnd.randint(1, 3)
    handlers = [rnd.choice(["func", "func", "rfunc", "meth", "meth"]) for _ in range(nh)]
    if rnd.random() < 0.3:
        graphsets = [rnd.choice(TEXTS[:12]) for _ in range(rnd.randint(1, 3))]
    else:
        graphsets = []
        for _ in range(rnd.randint(1, 3)):
            gs = []
            for _ in range(rnd.choice([1, 1, 2])):
                g = gen_graph(rnd, rnd.randint(1, 3), 0.0)
                if g not in gs:
                    gs.append(g)
            graphsets.append(gs)
    if not is_text(graphsets[0]):
        handlers = [("ameth" if hk == "meth" and rnd.random() < 0.4 else hk) for hk in handlers]
    if not is_text(graphsets[0]) and rnd.random() < 0.5:
        # registrations on a trait that does not exist yet (optional) and is added later with add_trait
        leafs = [N_("value"), N_("value2", rnd.random() < 0.8, rnd.random() < 0.3)]
        ex = N_("extra", rnd.random() < 0.6, True, [rnd.choice(leafs)])
        graphsets.append([canon_graph(rnd.choice([ex, N_("f", True, False, [ex]), N_("extra", True, True)]))])
    ctx.count("graphs-from:" + ("text" if is_text(graphsets[0]) else "objects") + "(dynamic)")
    extra_added = set()
    # generation-time copy of the containers (only to produce valid indices / keys)
    kids = {i: list(d["kids"]) for i, d in enumerate(objs)}
    mkeys = {i: ["k%d" % j for j in range(len(d["m"]))] for i, d in enumerate(objs)}
    link = {(i, fld): d.get(fld) for i, d in enumerate(objs) for fld in ("f", "g")}
    live_h = list(range(nh))
    regs, ops = [], []
    for _ in range(rnd.randint(2, maxlen)):
        r = rnd.random()
        if r < 0.25:
            op = mk_reg("Reg", 0 if rnd.random() < 0.8 else rnd.randrange(n), rnd.choice(live_h), rnd.randint(0, 2),
                        rnd.choice(graphsets), handlers)
            regs.append(op)
        elif r < 0.45:
            if regs and rnd.random() < 0.85:
                x = rnd.choice(regs)
                regs.remove(x)
                op = ["Unreg"] + x[1:]
            else:
                op = mk_reg("Unreg", 0, rnd.choice(live_h), rnd.randint(0, 2), rnd.choice(graphsets), handlers)
        elif r < 0.62:
            op = ["Change", rnd.randrange(n), FNUM[rnd.choice(["value", "value2"])]]
        elif r < 0.65:
            meths = [x for x in live_h if handlers[x] in ("meth", "ameth")]
            if not meths or len(live_h) < 2:
                continue
            hd = rnd.choice(meths)
            live_h.remove(hd)
            regs = [x for x in regs if x[2] != hd]
            op = ["CollectOwner", hd]
        else:
            i = rnd.choice([0, 0] + list(range(n - 1)))
            hi = list(range(i + 1, n))
            if not hi:
                continue
            what = rnd.choice(["link", "link", "append", "pop", "setitem", "dset", "ddel", "sadd", "sdiscard", "addtrait",
                               "setslice", "setslice"])
            if what == "addtrait":
                i = rnd.choice([0, 0, 1])
                # a second add_trait of the same (now existing, instance-only) name re-defines it: nothing may change
                op = ["AddTrait", i, rnd.choice(list(range(i + 1, n)) + [None]) if i not in extra_added else None]
                extra_added.add(i)
            elif what == "setslice":
                # whole-list slice assignment that changes the MULTIPLICITY of objects already present
                new = [x for x in kids[i] for _ in range(rnd.choice([0, 1, 1, 2, 3]))] + \
                    [rnd.choice(hi) for _ in range(rnd.choice([0, 0, 1]))]
                rnd.shuffle(new)
                if new == kids[i]:
                    continue
                kids[i] = list(new)
                op = ["Mut", i, "kids", "setslice", list(new)]
            elif what == "link":
                fld = rnd.choice(["f", "g"])
                cur = link[(i, fld)]
                new = rnd.choice([x for x in hi + [None] if x != cur] or [None])
                if new == cur:
                    continue
                link[(i, fld)] = new
                op = ["SetLink", i, fld, new]
            elif what == "append":
                j = rnd.choice(hi)
                kids[i].append(j)
                op = ["Mut", i, "kids", "append", j]
            elif what == "pop" and kids[i]:
                k = rnd.randrange(len(kids[i]))
                kids[i].pop(k)
                op = ["Mut", i, "kids", "pop", k]
            elif what == "setitem" and kids[i]:
                k = rnd.randrange(len(kids[i]))
                j = rnd.choice(hi)
                kids[i][k] = j
                op = ["Mut", i, "kids", "setitem", k, j]
            elif what == "dset":
                key = rnd.choice(["k0", "k1", "k2"])
                if key not in mkeys[i]:
                    mkeys[i].append(key)
                op = ["Mut", i, "m", "dset", key, rnd.choice(hi)]
            elif what == "ddel" and mkeys[i]:
                key = rnd.choice(mkeys[i])
                mkeys[i].remove(key)
                op = ["Mut", i, "m", "ddel", key]
            elif what in ("sadd", "sdiscard"):
                op = ["Mut", i, "s", what, rnd.choice(hi)]
            else:
                continue
        ops.append(op)
        ctx.count("op:" + op[0] + ("(text)" if op[0] in ("Reg", "Unreg") and op[5] is not None else "")
                  + ("(%s)" % op[3] if op[0] == "Mut" else ""))
    if not ops:
        ops = [["Change", 0, FNUM["value2"]]]
    ctx.count("history-length:%02d" % len(ops))
    ctx.count("case:dynamic")
    return dict(objs=objs, handlers=handlers, ops=ops)


def corpus():
    """The shapes of the repaired finding F8 (DESIGN §8) and the clauses of the statement, on every run."""
    cs = []
    n3 = [{"cls": "N", "kids": [1, 2, 3], "f": 1, "g": 2}, {"cls": "N"}, {"cls": "N"}, {"cls": "P"}]
    chg = [["Change", 1, 2], ["Change", 2, 2], ["Change", 0, 2]]
    # (a) deep child failure: third item lacks `value`
    for text in ("kids.items.value", "kids:items:value"):
        cs.append(dict(objs=n3, handlers=["func", "meth"],
                       ops=[["Reg", 0, 0, 0, None, text]] + chg + [["Unreg", 0, 0, 0, None, text]]))
    g_deep = N_("kids", True, False, [I_("list", True, False, [N_("value")])])
    cs.append(dict(objs=n3, handlers=["func", "meth"], ops=[["Reg", 0, 1, 1, [g_deep], None]] + chg))
    # (b) parallel graphs: the second one fails
    cs.append(dict(objs=n3, handlers=["func"], ops=[["Reg", 0, 0, 0, None, "value, nonexist"]] + chg))
    cs.append(dict(objs=n3, handlers=["func"], ops=[["Reg", 0, 0, 0, [N_("value"), N_("f", True, False, [N_("value")]),
                                                                     N_("nonexist")], None]] + chg))
    # (c) removal twin: only f.value registered, [f,g].value removed
    cs.append(dict(objs=n3, handlers=["func"],
                   ops=[["Reg", 0, 0, 0, None, "f.value"], ["Unreg", 0, 0, 0, None, "[f,g].value"]] + chg +
                       [["Unreg", 0, 0, 0, None, "f.value"]] + chg))
    # removal failing deep inside one graph
    g_fg = N_("f", True, False, [N_("value")])
    g_kv = N_("kids", True, False, [I_("list", True, False, [N_("value2")])])
    cs.append(dict(objs=n3, handlers=["func"],
                   ops=[["Reg", 0, 0, 0, [g_fg], None], ["Unreg", 0, 0, 0, [g_fg, g_kv], None],
                        ["Unreg", 0, 0, 0, [g_kv, g_fg], None]] + chg))
    # n registrations, n removals, one more
    for n in (1, 2, 3):
        for text in ("value", "f.value", "kids.items.value2", "[f,g].value", "m.items.value"):
            objs = [{"cls": "N", "kids": [1, 1, 2], "f": 1, "g": 2, "m": [1, 2]}, {"cls": "N", "f": 2}, {"cls": "N"}]
            cs.append(dict(objs=objs, handlers=["meth", "func"],
                           ops=[["Reg", 0, 0, 0, None, text]] * n + chg + [["Unreg", 0, 0, 0, None, text]] * n + chg +
                               [["Unreg", 0, 0, 0, None, text]] + chg))
    # weakness
    objs = [{"cls": "N", "f": 1, "kids": [1, 2]}, {"cls": "N"}, {"cls": "N"}]
    cs.append(dict(objs=objs, handlers=["meth", "func"],
                   ops=[["Reg", 0, 0, 0, None, "f.value"], ["Reg", 0, 1, 0, None, "kids.items.value"], ["Change", 1, 2],
                        ["CollectOwner", 0], ["Change", 1, 2], ["CollectObj", 0], ["Change", 1, 2], ["Change", 2, 2]]))
    # a registration on a not-yet-defined optional trait, completed by add_trait while an earlier trait_added
    # handler has already given the new trait a value; fully reversible afterwards
    pend = [{"cls": "N", "f": 1, "kids": [], "m": [], "s": []}, {"cls": "N", "kids": [], "m": [], "s": []},
            {"cls": "N", "kids": [], "m": [], "s": []}]
    for notify in (False, True):
        g_ex = N_("extra", notify, True, [N_("value")])
        for gs in ([g_ex], [N_("f", True, False, [g_ex])]):
            tgt = 0 if gs[0] is g_ex else 1
            cs.append(dict(objs=pend, handlers=["func"],
                           ops=[["Reg", 0, 0, 0, gs, None], ["Reg", 0, 0, 0, gs, None], ["Change", 2, 2],
                                ["AddTrait", tgt, 2], ["Change", 2, 2], ["Unreg", 0, 0, 0, gs, None], ["Change", 2, 2],
                                ["Unreg", 0, 0, 0, gs, None], ["Change", 2, 2], ["Unreg", 0, 0, 0, gs, None]]))
    # slice assignment changing the multiplicity of an item already present, then deletions
    sl = [{"cls": "N", "kids": [1, 2], "m": [], "s": []}, {"cls": "N", "kids": [], "m": [], "s": []},
          {"cls": "N", "kids": [], "m": [], "s": []}]
    for text in ("kids.items.value", "kids:items:value"):
        cs.append(dict(objs=sl, handlers=["func"],
                       ops=[["Reg", 0, 0, 0, None, text], ["Mut", 0, "kids", "setslice", [1, 1, 2]], ["Mut", 0, "kids", "pop", 0],
                            ["Change", 1, 2], ["Change", 2, 2], ["Mut", 0, "kids", "setslice", [2, 1]], ["Change", 1, 2],
                            ["Mut", 0, "kids", "setslice", [1]], ["Change", 2, 2], ["Change", 1, 2],
                            ["Unreg", 0, 0, 0, None, text], ["Change", 1, 2], ["Unreg", 0, 0, 0, None, text]]))
    # the SAME object under two keys of a dict (twice in a list): leaving under one key / position un-hooks one
    # occurrence; a key (position) re-assigned the value it already holds un-hooks and re-hooks it
    dd = [{"cls": "N", "kids": [1, 1], "m": [1, 1], "s": [1]}, {"cls": "N", "kids": [], "m": [], "s": []},
          {"cls": "N", "kids": [], "m": [], "s": []}]
    for text in ("m.items.value", "m:items:value"):
        cs.append(dict(objs=dd, handlers=["func"],
                       ops=[["Reg", 0, 0, 0, None, text], ["Mut", 0, "m", "ddel", "k0"], ["Change", 1, 2],
                            ["Mut", 0, "m", "ddel", "k1"], ["Change", 1, 2], ["Unreg", 0, 0, 0, None, text], ["Change", 1, 2],
                            ["Unreg", 0, 0, 0, None, text]]))
        cs.append(dict(objs=dd, handlers=["func"],
                       ops=[["Reg", 0, 0, 0, None, text], ["Mut", 0, "m", "dset", "k0", 1], ["Change", 1, 2],
                            ["Mut", 0, "m", "dset", "k1", 2], ["Change", 1, 2], ["Mut", 0, "m", "dset", "k0", 2], ["Change", 1, 2],
                            ["Change", 2, 2], ["Unreg", 0, 0, 0, None, text], ["Change", 2, 2], ["Unreg", 0, 0, 0, None, text]]))
    cs.append(dict(objs=dd, handlers=["func"],
                   ops=[["Reg", 0, 0, 0, None, "kids.items.value"], ["Mut", 0, "kids", "setitem", 0, 1], ["Change", 1, 2],
                        ["Mut", 0, "kids", "pop", 0], ["Change", 1, 2], ["Mut", 0, "kids", "pop", 0], ["Change", 1, 2],
                        ["Unreg", 0, 0, 0, None, "kids.items.value"], ["Change", 1, 2]]))
    # add_trait re-defining an instance-only trait that is observed: the notifiers are carried over, nothing is added
    for g_dyn in ([N_("extra", True, True)], [N_("extra", True, True, [N_("value")])]):
        cs.append(dict(objs=pend, handlers=["func"],
                       ops=[["AddTrait", 0, 2], ["Reg", 0, 0, 0, g_dyn, None], ["Change", 2, 2], ["AddTrait", 0, None],
                            ["Change", 2, 2], ["Unreg", 0, 0, 0, g_dyn, None], ["Change", 2, 2], ["Unreg", 0, 0, 0, g_dyn, None]]))
    # two ==-equal observing objects sharing a child, one handler: independent registrations
    eq = [{"cls": "E", "f": 2, "kids": [2, 3], "m": [], "s": []}, {"cls": "E", "f": 2, "kids": [2, 3], "m": [], "s": []},
          {"cls": "N", "kids": [], "m": [], "s": []}, {"cls": "N", "kids": [], "m": [], "s": []}]
    for text in ("f.value", "kids.items.value"):
        for hk in ("func", "meth"):
            cs.append(dict(objs=eq, handlers=[hk],
                           ops=[["Reg", 0, 0, 0, None, text], ["Reg", 1, 0, 0, None, text], ["Change", 2, 2],
                                ["Unreg", 0, 0, 0, None, text], ["Change", 2, 2], ["CollectObj", 0], ["Change", 2, 2],
                                ["Unreg", 1, 0, 0, None, text], ["Change", 2, 2], ["Unreg", 1, 0, 0, None, text]]))
    # sixth wave: a link reassigned to a value that CANNOT be observed (class P has no `value`): the assignment raises out of
    # the maintainer, but it has happened, and the replaced object must have been un-hooked.  ONE registration per case:
    # a raising maintainer aborts the notification, so the maintainers of other registrations on that trait do not run
    # (the model follows; the law, which recomputes from the heap, would report their handlers: see design.d/C09.md)
    bad = [{"cls": "N", "f": 1, "g": 1, "kids": [], "m": [], "s": []}, {"cls": "N", "kids": [], "m": [], "s": []},
           {"cls": "P", "kids": []}, {"cls": "N", "kids": [], "m": [], "s": []}]
    for text in ("f.value", "f:value", "[f,g].value"):
        cs.append(dict(objs=bad, handlers=["func", "meth"],
                       ops=[["Reg", 0, 0, 0, None, text],
                            ["Change", 1, 2], ["SetLink", 0, "f", 2], ["Change", 1, 2], ["SetLink", 0, "f", 3], ["Change", 1, 2],
                            ["Change", 3, 2], ["SetLink", 0, "f", 2], ["Change", 3, 2], ["Change", 1, 2]]))
    # the class-level (decorated) registration of an object made by copy.copy (__reduce_ex__ / __setstate__): it must
    # follow the restored graph and be removable like any other registration
    for cls, text in DECL.items():
        objs = [{"cls": cls, "f": 1, "kids": [1, 2]}, {"cls": "N"}, {"cls": "N"}, {"cls": cls, "copy_of": 0}]
        cs.append(dict(objs=objs, handlers=["decl", "func"],
                       ops=[["Copy", 0, 3, 0, text], ["Change", 1, 2], ["Change", 2, 2], ["Reg", 3, 1, 0, None, text],
                            ["Change", 1, 2], ["Unreg", 3, 0, 0, None, text], ["Change", 1, 2], ["Change", 2, 2],
                            ["Unreg", 3, 0, 0, None, text], ["Unreg", 3, 1, 0, None, text], ["Change", 1, 2]]))
    # a trait whose value lives only in a cached-property slot: the walk must not depend on whether the cache is filled
    cpo = [{"cls": "N", "f": 1, "kids": [], "m": [], "s": []}, {"cls": "N", "kids": [], "m": [], "s": []},
           {"cls": "N", "kids": [], "m": [], "s": []}]
    for reg in (["Reg", 0, 0, 0, None, "cp.value"], ["Reg", 0, 0, 0, [N_("cp", False, False, [N_("value")])], None]):
        unreg = ["Unreg"] + reg[1:]
        cs.append(dict(objs=cpo, handlers=["func"],
                       ops=[["ReadCp", 0], reg, ["Change", 1, 2], unreg, ["Change", 1, 2], unreg]))
        cs.append(dict(objs=cpo, handlers=["func"],
                       ops=[reg, ["Change", 1, 2], ["ReadCp", 0], ["Change", 1, 2], unreg, ["Change", 1, 2], unreg]))
    # every kind of bound-method handler: plain and `async def`; number and nested expression
    g_v = N_("value")
    g_fv = N_("f", True, False, [N_("value")])
    for hk in ("meth", "ameth"):
        for g in (g_v, g_fv):
            for dsp in (0, 1):      # 0: dispatch_same (a coroutine handler becomes a task), 1: custom dispatcher
                cs.append(dict(objs=objs, handlers=[hk, "func"],
                               ops=[["Reg", 0, 0, dsp, [g], None], ["Reg", 0, 1, dsp, [g], None], ["Change", 0, 2],
                                    ["Change", 1, 2], ["CollectOwner", 0], ["Change", 0, 2], ["Change", 1, 2],
                                    ["Unreg", 0, 1, dsp, [g], None]]))
    return cs


def _paths(g, pre=()):
    yield pre
    for i, c in enumerate(g[4]):
        yield from _paths(c, pre + (i,))


def _replace(g, path, new):
    if not path:
        return new
    ch = list(g[4])
    ch[path[0]] = _replace(ch[path[0]], path[1:], new)
    return [g[0], g[1], g[2], g[3], ch]


def enum_failure_cases():
    """Failure injected at EVERY position of the walk: for a fixed set of graphs over a fixed pool, every node in
    turn is replaced by one that cannot apply (unknown trait / wrong container kind / non-optional item node on a
    HasTraits object); the failing graph is registered alone, after a good parallel graph, before one, and used
    for a removal while the good graph is registered."""
    objs = [{"cls": "N", "f": 1, "g": 2, "kids": [1, 2, 1], "m": [1, 2], "s": [2]},
            {"cls": "N", "f": 3, "g": 3, "kids": [3], "m": [3], "s": [3]},
            {"cls": "N", "f": 3, "kids": [3, 3], "m": [], "s": []},
            {"cls": "N", "kids": [], "m": [], "s": []}]
    v = N_("value")
    bases = [N_("kids", True, False, [I_("list", True, False, [N_("f", True, False, [v])])]),
             N_("f", True, False, [N_("kids", False, False, [I_("list", True, False, [v])]), N_("value2")]),
             N_("m", True, False, [I_("dict", True, False, [N_("g", True, True, [v]), N_("f", False, False, [v])])]),
             N_("s", False, False, [I_("set", False, False, [N_("kids", True, False, items_dsl([v]))])]),
             N_("g", True, False, [N_("f", True, False, [N_("value"), N_("value2", False)])])]
    bads = [N_("nonexist"), N_("nonexist", True, False, [v]), I_("dict", True, False, [v]), I_("list", True, False, [v])]
    good = N_("f", True, False, [N_("value2")])
    chg = [["Change", 1, 2], ["Change", 3, 2], ["Change", 3, 10], ["Change", 1, 10]]
    cs = []
    for b_ in bases:
        base = canon_graph(b_)
        for path in _paths(base):
            for bad in bads:
                g = canon_graph(_replace(base, path, bad))
                if g == base:
                    continue
                for hk in ("func", "meth"):
                    cs.append(dict(objs=objs, handlers=[hk], ops=[
                        ["Reg", 0, 0, 0, [g], None], ["Reg", 0, 0, 0, [good, g], None], ["Reg", 0, 0, 0, [g, good], None]]
                        + chg + [["Reg", 0, 0, 0, [base, good], None], ["Unreg", 0, 0, 0, [good, g], None],
                                 ["Unreg", 0, 0, 0, [g], None]] + chg +
                        [["Unreg", 0, 0, 0, [base, good], None], ["Unreg", 0, 0, 0, [base], None]] + chg))
                    break
    return cs


def run_block(ctx, cases, tag):
    # shards of 100 cases: the terms are large and parsing dominates, so many small shards run in parallel
    hist.run(ctx, "c09_driver.py", cases, to_term, HEADER, CASE_T, key_fn, describe, nontrivial,
             relation="C09.Corr.corr_codes (Model.step / Dyn.dstep = observe machinery on every step)", tag=tag,
             shard=100)


def run(ctx):
    ok, log = ctx.proofs(PROPS)
    ctx.cov["trusted_base"] += [
        "tools/drivers/c09_driver.py (pool construction, canonical snapshot of every notifier list: handler/target/"
        "dispatcher identity, reference count, maintainer kind and graph; weakref probes) and tools/props/c09.py "
        "(generator, term writer)",
        "modelled, not verified: CPython weakref/garbage collection timing (the model has explicit Collect operations; "
        "that del + gc.collect() really frees the object is observed on the interpreter), the expression compiler "
        "(text expressions are compiled by the implementation and the resulting graphs are the model's input)",
        "C09/Dyn.v (heap mutations with maintainers) is an executable model compared with the implementation in the "
        "dynamic cases; beyond the wfH invariant no theorem is stated about it (that is property C08)",
    ]
    ctx.cov["rule"] = ("random histories of register / unregister (1-3 parallel graphs, depth <= 4, named / list / dict / "
                       "set item nodes, notify and optional flags, failure points: missing trait, non-container, "
                       "non-HasTraits), scalar changes and collections over a static pool of 2-5 objects with sharing, "
                       "duplicates and cycles; every third case is dynamic: all-valid acyclic pool, registrations interleaved with "
                       "Instance-link reassignments and in-place list / dict / set mutations (maintainers re-hook the "
                       "downstream graph; compared with C09/Dyn.v, the law follows the current heap); "
                       "1-3 handlers (function / bound method) x 3 dispatchers (same, a custom callable, ui on the main thread); a case is "
                       "non-trivial if some step raises or calls a handler; distinct = distinct (pool, handlers, history)")
    rnd = random.Random(ctx.seed)
    n, maxlen = (700, 10) if ctx.tier == "quick" else (9500, 20)
    if ctx.replay:
        cases = [json.load(open(ctx.replay))["replay"]["case"]]
    else:
        enum = enum_failure_cases()
        if ctx.tier == "quick":
            enum = rnd.sample(enum, 40)
        ctx.count("case:failure-at-every-position", len(enum))
        cases = corpus() + enum + [gen_case(rnd, ctx, maxlen) if k % 3 else gen_dyn_case(rnd, ctx, maxlen + 4)
                                   for k in range(n)]
    for c in cases[:2] + cases[-2:]:
        ctx.sample(c)
    # one driver run per block of 2400 cases
    for k in range(0, len(cases), 2400):
        run_block(ctx, cases[k:k + 2400], "cases%02d" % (k // 2400))
    proof_gate(ctx, ok, log, PROPS)
