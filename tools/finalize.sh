#!/bin/bash
# tools/finalize.sh : the integration pass run by hand before a delivery (never by a check).
#   1 merge the per-property known-findings files   2 gate   3 full Coq build   4 every seed against its check
#   5 thorough then quick pass on /repo (evidence)   6 MANIFEST / DESIGN generated parts   7 coqchk
set -u
cd "$(dirname "$0")/.."
step() { echo; echo "=== $* ($(date -u +%H:%M))"; }
step merge findings; python3 tools/mergefindings.py
step gate; python3 tools/gate.py || exit 1
step build; bash coq/build.sh 16 > /var/tmp/finalize_build.log 2>&1; echo "build rc=$?"; tail -2 /var/tmp/finalize_build.log
if [ "${1:-}" != "--no-seeds" ]; then
  step seed pass; tools/seedpass.sh 6 > /var/tmp/finalize_seedpass.log 2>&1; grep -c REPORTED /var/tmp/finalize_seedpass.log; grep "NOT-REPORTED\|seedcheck-failed" /var/tmp/finalize_seedpass.log
fi
step thorough; python3 tools/runall.py thorough -j 3 > /var/tmp/finalize_thorough.log 2>&1; tail -22 /var/tmp/finalize_thorough.log
step quick; python3 tools/runall.py quick -j 3 > /var/tmp/finalize_quick.log 2>&1; tail -22 /var/tmp/finalize_quick.log
step manifest + design; python3-vt tools/mkmanifest.py && python3 tools/mkdesign.py
step coqchk; bash tools/coqchk_all.sh > /var/tmp/finalize_coqchk.log 2>&1; tail -5 coq/coqchk.log
