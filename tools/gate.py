#!/usr/bin/env python3
"""Fails if the Coq development declares an axiom, leaves a proof open or switches a kernel check off.
Variable/Hypothesis/Context are accepted inside a Section only."""
import os, re, sys
ROOT = os.path.join(os.path.dirname(os.path.dirname(os.path.abspath(__file__))), "coq")
sys.path.insert(0, os.path.dirname(os.path.abspath(__file__)))
from vlib.coqrun import strip_comments  # noqa: E402
FORBID = re.compile(r"\b(Admitted|admit|Axiom|Axioms|Parameter|Parameters|Conjecture|Conjectures)\b|Admit Obligations|"
                    r"Unset\s+Guard|Unset\s+Positivity|Unset\s+Universe|bypass_check|type-in-type|impredicative-set|"
                    r"native_compute|\bhammer\b")
LOCAL = re.compile(r"^\s*(Variable|Variables|Hypothesis|Hypotheses|Context)\b")
bad = []
nfiles = 0
for d, _, fs in os.walk(ROOT):
    for f in fs:
        if not f.endswith(".v"):
            continue
        nfiles += 1
        p = os.path.join(d, f)
        depth = 0
        for n, line in enumerate(strip_comments(open(p).read()).split("\n"), 1):
            if re.match(r"^\s*(Section|Module)\b", line) and ":=" not in line:
                depth += 1
            elif re.match(r"^\s*End\b", line):
                depth -= 1
            if FORBID.search(line):
                bad.append("%s:%d: %s" % (p, n, line.strip()))
            if LOCAL.match(line) and depth <= 0:
                bad.append("%s:%d: outside a Section: %s" % (p, n, line.strip()))
if bad:
    print("GATE FAILED:\n" + "\n".join(bad))
    sys.exit(1)
print("gate ok: %d files, no Admitted/admit/Axiom/Parameter/Conjecture/unsafe flag, no Variable/Hypothesis outside a Section" % nfiles)
