#!/bin/bash
# Independent re-check (coqchk) of every claimed property's Props library and everything it depends on,
# with the axiom summary (-o).  Output: coq/coqchk.log.  Takes several minutes.
cd "$(dirname "$0")/../coq" || exit 2
mods=$(python3 - <<'PY'
import json, glob, os
m=json.load(open('../MANIFEST.json'))
mods=[]
for c in m['checks']:
    for f in sorted(glob.glob('%s/Props*.v' % c['property_id'])):
        mods.append('TV.%s.%s' % (c['property_id'], os.path.basename(f)[:-2]))
print(' '.join(mods))
PY
)
echo "coqchk -silent -o -Q . TV $mods" > coqchk.log
timeout 7200 coqchk -silent -o -Q . TV $mods >> coqchk.log 2>&1
rc=$?
echo "exit status: $rc" >> coqchk.log
tail -20 coqchk.log
exit $rc
