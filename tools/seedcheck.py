#!/usr/bin/env python3
"""Verify a seeded change and run the checks against it.

    tools/seedcheck.py <dir with patch.diff, demo.py, meta.json> [--suite] [--tier quick|thorough] [--props C07,C19]

Creates a scratch worktree of /repo under /var/tmp, confirms that the demo passes without the patch and fails with
it (and, with --suite, that the unedited test suite still passes with it), then runs ./check for the property (or
--props) with VERIF_REPO pointing at the patched worktree.  The worktree is removed afterwards.  /repo is untouched.
"""
import json
import os
import shutil
import subprocess
import sys
import tempfile

VERIF = os.path.dirname(os.path.dirname(os.path.abspath(__file__)))
PY = "/venv/bin/python"


def sh(cmd, cwd=None, env=None, timeout=3600):
    r = subprocess.run(cmd, shell=True, cwd=cwd, env=env, capture_output=True, text=True, timeout=timeout)
    return r.returncode, (r.stdout + r.stderr)


def main():
    args = sys.argv[1:]
    d = os.path.abspath(args[0])
    suite = "--suite" in args
    tier = args[args.index("--tier") + 1] if "--tier" in args else "quick"
    meta = json.load(open(os.path.join(d, "meta.json")))
    props = args[args.index("--props") + 1].split(",") if "--props" in args else [meta["property"].upper()]
    if "--no-check" in args:
        props = []
    wt = tempfile.mkdtemp(prefix="seedwt_", dir="/var/tmp")
    os.rmdir(wt)
    ev = tempfile.mkdtemp(prefix="seedev_", dir="/var/tmp")
    res = {"seed": d, "props": props, "tier": tier}
    try:
        rc, out = sh("git -C /repo worktree add -q --detach %s HEAD" % wt)
        assert rc == 0, out
        env = dict(os.environ, PYTHONPATH=wt, PYTHONHASHSEED="0")
        shutil.copy("/repo/traits/version.py", os.path.join(wt, "traits", "version.py"))   # untracked, needed by setup.py
        rc, out = sh("%s setup.py build_ext --inplace" % PY, cwd=wt, env=env)
        assert rc == 0, out[-2000:]
        demo = os.path.join(d, "demo.py")
        rc0, out0 = sh("%s %s" % (PY, demo), cwd=wt, env=env, timeout=600)
        res["demo_without_patch_rc"] = rc0
        rc, out = sh("git apply %s" % os.path.join(d, "patch.diff"), cwd=wt)
        assert rc == 0, "patch does not apply: " + out
        rc, out = sh("%s setup.py build_ext --inplace" % PY, cwd=wt, env=env)
        res["builds"] = rc == 0
        rc1, out1 = sh("%s %s" % (PY, demo), cwd=wt, env=env, timeout=600)
        res["demo_with_patch_rc"] = rc1
        res["demo_with_patch_tail"] = out1[-400:]
        if suite:
            rc, out = sh("%s -m pytest -q -p no:cacheprovider --timeout=900 traits 2>&1 | tail -2" % PY, cwd=wt, env=env)
            res["suite_tail"] = out.strip()[-300:]
        for p in props:
            e2 = dict(os.environ, VERIF_REPO=wt, VERIF_EVIDENCE_DIR=ev)
            rc, out = sh("./check %s --tier %s" % (p, tier), cwd=VERIF, env=e2, timeout=3600)
            res["check_" + p] = {"rc": rc, "violations": [l[:300] for l in out.splitlines() if l.startswith("VIOLATION")][:6],
                                 "first_lines": [l[:300] for l in out.splitlines() if not l.startswith("VIOLATION")][:4],
                                 "summary": out.strip().splitlines()[-1][:300] if out.strip() else ""}
    finally:
        sh("git -C /repo worktree remove --force %s" % wt)
        shutil.rmtree(wt, ignore_errors=True)
        shutil.rmtree(ev, ignore_errors=True)
        sh("git -C /repo worktree prune")
    if "--record" in args:
        vf = os.path.join(d, "verified.json")
        res2 = json.load(open(vf)) if os.path.exists(vf) else {}
        res2.update(res)
        res2["seed"] = os.path.relpath(d, VERIF)
        json.dump(res2, open(vf, "w"), indent=1)
    print(json.dumps(res, indent=1))


main()
