"""Per-property MANIFEST text.  A property appears under CLAIMED only when its check exists,
passes on the unchanged tree and writes valid evidence."""

TECHNIQUE = "machine-checked proof in Coq 8.16.1 over an executable Gallina model + in-Coq correspondence check against the implementation"
DEFAULT_REASON = ("not claimed yet: the Coq model, theorems and correspondence driver for this property are not built "
                  "(design in DESIGN.md §6); machine-checked proof is applicable in principle")
NOTES = ("All checks: ./check Cxx --tier quick|thorough (cwd /verif). Every run copies /repo/traits into a scratch directory, "
         "compiles ctraits.c there, re-checks the property's Coq theorems (coq/Cxx/Props.v, Print Assumptions captured), "
         "executes generated histories on the scratch build and evaluates, inside Coq, (a) model = implementation and "
         "(b) the property's boolean law on the implementation's observations. See DESIGN.md.")

NOT_CLAIMED = {}

import glob, json, os
CLAIMED = {}
for _f in sorted(glob.glob(os.path.join(os.path.dirname(os.path.abspath(__file__)), "manifest.d", "C*.json"))):
    _d = json.load(open(_f))
    if _d.get("claimed", True):
        CLAIMED[os.path.basename(_f)[:-5]] = _d
    else:
        NOT_CLAIMED[os.path.basename(_f)[:-5]] = _d["reason"]
