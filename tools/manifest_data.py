"""Per-property MANIFEST text.  A property appears under CLAIMED only when its check exists,
passes on the unchanged tree and writes valid evidence."""

TECHNIQUE = "machine-checked proof in Coq 8.16.1 over an executable Gallina model + in-Coq correspondence check against the implementation"
DEFAULT_REASON = ("not claimed yet: the Coq model, theorems and correspondence driver for this property are not built "
                  "(design in DESIGN.md §6); machine-checked proof is applicable in principle")
NOTES = ("All checks: ./check Cxx --tier quick|thorough (cwd /verif). Every run copies /repo/traits into a scratch directory, "
         "compiles ctraits.c there, re-checks the property's Coq theorems (coq/Cxx/Props.v, Print Assumptions captured), "
         "executes generated histories on the scratch build and evaluates, inside Coq, (a) model = implementation and "
         "(b) the property's boolean law on the implementation's observations. See DESIGN.md.")

NOT_CLAIMED = {}

BASE_NOTE = ("Trusted: Coq 8.16.1 kernel and vm_compute (no native_compute, no extraction); the Python driver that maps "
             "implementation behaviour to observation terms and the case generator; ")

CLAIMED = {
    "C07": dict(
        text=("Proof: for every item validator (accepting, rejecting, converting), every start state and every history over all "
              "13 TraitSet mutators plus copy operations, the Gallina model of trait_set_object.TraitSet satisfies the whole "
              "property law (refinement of the built-in set on validated items incl. exception class, failing operation inert, "
              "exactly one event iff the contents changed, delta law removed ⊆ old / added ∩ old = ∅ / (old∖removed)∪added = new, "
              "copies equal and validating) — theorems law_holds_on_every_history, refines_builtin_set, delta_law, "
              "silent_iff_unchanged_and_single_event, failing_op_inert, xor_is_builtin_for_nonconverting_validators, closed under "
              "the global context. The hand-written model is tied to the current tree by running generated histories on "
              "TraitSet and on Set-trait TraitSetObject values (copy, deepcopy, pickle protocols 0-5 included) and comparing "
              "every step inside Coq; the same boolean law is evaluated on the implementation's own observations, so a "
              "violating implementation yields a concrete replay."),
        note=BASE_NOTE + "modelled not verified: CPython's set (Common/LSet.v, lists compared extensionally), copy/pickle "
             "protocols (the model's Copy step is 'equal contents, same validator, no notifiers'; the driver probes the real copy); "
             "no axioms (Print Assumptions: Closed under the global context)."),
}
