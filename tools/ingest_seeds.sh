#!/bin/bash
# tools/ingest_seeds.sh c05 : copy /tmp/mutout-c05/N into seeded/C05-mN, confirm demo + suite in a scratch worktree
# (no check run), remove the agent's worktree and output directory.
set -u
id=$1; ID=$(echo "$id" | tr a-z A-Z); wave=${2:-}; tag=m; [ "$wave" = 2 ] && tag=n; [ "$wave" = 3 ] && tag=t; [ "$wave" = 4 ] && tag=u; [ "$wave" = 5 ] && tag=v; [ "$wave" = 6 ] && tag=w; [ "$wave" = 7 ] && tag=x; [ "$wave" = 8 ] && tag=y
cd "$(dirname "$0")/.."
for n in 1 2 3 4 5; do
  src=/tmp/mut${wave}out-$id/$n
  [ -f "$src/patch.diff" ] || continue
  dst=seeded/$ID-$tag$n
  mkdir -p "$dst"; cp "$src"/patch.diff "$src"/demo.py "$src"/meta.json "$dst"/ 2>/dev/null
  python3 tools/seedcheck.py "$dst" --suite --no-check --record | python3 -c "
import json,sys
r=json.load(sys.stdin)
print(r['seed'].split('/')[-1], 'demo without/with:', r.get('demo_without_patch_rc'), r.get('demo_with_patch_rc'), '| suite:', (r.get('suite_tail') or '').splitlines()[-1:] )"
done
git -C /repo worktree remove --force /tmp/mut${wave}-$id 2>/dev/null
rm -rf /tmp/mut${wave}out-$id
git -C /repo worktree prune
