#!/usr/bin/env python3
"""Regenerates MANIFEST.json from tools/manifest_data.py (one entry per property) and validates it."""
import json, os, sys
HERE = os.path.dirname(os.path.abspath(__file__))
VERIF = os.path.dirname(HERE)
sys.path.insert(0, HERE)
import manifest_data as md  # noqa: E402

props = [json.loads(l)["id"] if "id" in json.loads(l) else json.loads(l)["property_id"]
         for l in open(os.path.join(VERIF, "properties.jsonl")) if l.strip()]
checks, na = [], []
for pid in props:
    e = md.CLAIMED.get(pid)
    if e is None:
        na.append(dict(property_id=pid, reason=md.NOT_CLAIMED.get(pid, md.DEFAULT_REASON)))
        continue
    checks.append(dict(
        property_id=pid,
        quick_cmd="./check %s --tier quick" % pid,
        thorough_cmd="./check %s --tier thorough" % pid,
        evidence_file="/verif/evidence/%s.json" % pid,
        replay_cmd_template="./check %s --replay {path}" % pid,
        engine="coq-proof+correspondence",
        level_claimed=dict(category="proof", text=e["text"], design_ref=e.get("design_ref", "DESIGN.md §6 " + pid)),
        level_note=e["note"],
        technique=e.get("technique", md.TECHNIQUE),
    ))
m = dict(
    version=1,
    setup_cmd="bash coq/build.sh 16 && /venv/bin/python tools/gate.py",
    notes=md.NOTES,
    hooks=dict(guard="ENTHOUGHT_TRAITS_VERIF",
               enable="unused: the checks need no source hooks (every observation goes through the public API of a "
                      "scratch build of /repo's working tree); the variable is removed from the environment of every run",
               baseline_off_cmd="cd /repo && env -u ENTHOUGHT_TRAITS_VERIF /venv/bin/python -m pytest -ra -q -p no:cacheprovider --timeout=900 --continue-on-collection-errors",
               source_commits=[], add_only=True),
    engines=[dict(name="coq-proof+correspondence", path="/verif/check",
                  serves_properties=[c["property_id"] for c in checks],
                  kind_free_text="Coq 8.16.1 theorems over executable Gallina models (coq/), tied to /repo's working tree on "
                                 "every run by an in-Coq correspondence evaluation (vm_compute over observations recorded "
                                 "from a fresh scratch build) and, where the anchored code is a small pure function, by a "
                                 "translator that regenerates the model from the source text")],
    checks=checks,
    not_applicable=na,
)
json.dump(m, open(os.path.join(VERIF, "MANIFEST.json"), "w"), indent=1)
try:
    import jsonschema
    jsonschema.validate(m, json.load(open("/root/.vp/MANIFEST.schema.json")))
    print("MANIFEST.json valid: %d checks, %d not claimed" % (len(checks), len(na)))
except ImportError:
    print("MANIFEST.json written (jsonschema not importable here): %d checks" % len(checks))
