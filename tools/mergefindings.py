#!/usr/bin/env python3
"""Merges known_findings.d/*.json (written by the per-property builders) into known_findings.json, the single
committed known-findings file.  For a property that has a .d file that file is authoritative: its entries override the
main file's entries with the same key (a `known` entry that was repaired becomes `fixed`), and `known` entries of the
main file that the .d file no longer lists are dropped (pruned as false alarms or superseded).  `fixed` entries are
never dropped.  Run by hand (never by a check); afterwards known_findings.d can be removed."""
import glob, json, os
VERIF = os.path.dirname(os.path.dirname(os.path.abspath(__file__)))
main = os.path.join(VERIF, "known_findings.json")
d = os.path.join(VERIF, "known_findings.d")


def norm(e):
    out = dict(property=e["property"], key=e["key"], status=e.get("status", "known"), what=e["what"])
    if out["status"] == "fixed":
        out["commit"] = e.get("commit", "")
        if not out["what"].startswith("fixed:"):
            out["what"] = "fixed: property=%s %s %s" % (e["property"], out["commit"], out["what"])
    return out


entries, order = {}, []
for e in json.load(open(main)):
    k = (e["property"], e["key"])
    if k not in entries:
        order.append(k)
    entries[k] = e if e.get("status") == "fixed" and "commit" in e else norm(e)
with_file = {}
for f in sorted(glob.glob(os.path.join(d, "*.json"))):
    p = os.path.basename(f)[:-5]
    with_file[p] = set()
    for e in json.load(open(f)):
        k = (e["property"], e["key"])
        with_file[p].add(e["key"])
        if k not in entries:
            order.append(k)
        entries[k] = norm(e)
keep = []
for k in order:
    e = entries[k]
    if e["status"] == "known" and k[0] in with_file and k[1] not in with_file[k[0]]:
        continue
    keep.append(e)
keep.sort(key=lambda e: (0 if e["status"] == "fixed" else 1))
json.dump(keep, open(main, "w"), indent=1, ensure_ascii=False)
print("known_findings.json: %d fixed, %d known" % (sum(e["status"] == "fixed" for e in keep),
                                                    sum(e["status"] == "known" for e in keep)))
