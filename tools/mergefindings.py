#!/usr/bin/env python3
"""Merges known_findings.d/*.json into known_findings.json (the single committed known-findings file):
fixed entries are kept, known entries are replaced by the union of the per-property files."""
import glob, json, os
VERIF = os.path.dirname(os.path.dirname(os.path.abspath(__file__)))
main = os.path.join(VERIF, "known_findings.json")
cur = json.load(open(main))
fixed = [e for e in cur if e.get("status") == "fixed"]
known = {}
for e in cur:
    if e.get("status") == "known":
        known[(e["property"], e["key"])] = e
d = os.path.join(VERIF, "known_findings.d")
props_with_file = set()
for f in sorted(glob.glob(os.path.join(d, "*.json"))):
    props_with_file.add(os.path.basename(f)[:-5])
    for e in json.load(open(f)):
        if e.get("status", "known") == "known":
            known[(e["property"], e["key"])] = dict(property=e["property"], key=e["key"], status="known", what=e["what"])
# a property that has a .d file is authoritative for its known entries
out = [e for (p, k), e in sorted(known.items()) if p not in props_with_file or
       any(e2["key"] == k for e2 in json.load(open(os.path.join(d, p + ".json"))))]
json.dump(fixed + out, open(main, "w"), indent=1, ensure_ascii=False)
print("known_findings.json: %d fixed, %d known" % (len(fixed), len(out)))
