(* C02 — handlers that come and go: registration and removal in the middle of a history, and handlers that
   unregister themselves while they are being notified.

   The static development (Model.v / Law.v / Proofs.v) is stated for an ARBITRARY environment, so the dynamic layer is
   built on it: at every operation the static [Model.step] runs with the environment whose handler list is the list
   that is LIVE at that moment — this is exactly the snapshot semantics of call_notifiers (ctraits.c l.2292-2306: both
   notifier lists are copied before the first notifier is called, so a handler removed during the dispatch is still
   called for this change and a handler added during it is not) — and afterwards the self-unregistering handlers that
   were called are dropped from the live lists.

   Two lists as in the C code: the trait's notifiers (static wrappers, then on_trait_change(h, name) / observe in
   registration order: has_traits.py _on_trait_change l.2254-2268 appends) and the object's notifiers
   (on_trait_change(h) without a name).  [d_alloc] records that a notifier list object exists: the `del` branch of
   setattr_trait tests the POINTERS (l.2405 `(tnotifiers != NULL) || (onotifiers != NULL)`), everything else the lengths
   (has_notifiers, l.45-47).  Definitions only. *)
From Coq Require Import List Arith Bool PeanoNat ZArith.
From TV Require Import Common.Harness C02.Model C02.Law.
Import ListNotations.
Local Open Scope nat_scope.

Definition with_handlers (E : env) (hs : list handler) : env :=
  {| e_eq := e_eq E; e_ne := e_ne E; e_validate := e_validate E; e_default := e_default E; e_kind := e_kind E;
     e_handlers := hs; e_store_original := e_store_original E |}.

Record dstate := mkD { d_slot : option val; d_tl : list handler; d_ol : list handler; d_alloc : bool;
                       d_quiet : bool; (* HASTRAITS_NO_NOTIFY: obj._trait_change_notify(False) is in force *)
                       d_kind : tkind; (* the trait's kind / comparison mode NOW: ctrait.comparison_mode can be set at run time *)
                       d_fresh : option nat  (* Some n: the default is produced AFRESH each time it is needed (List/Dict/
                                                Instance(X, ()) defaults, a non-constant _x_default method); n is the identity
                                                of the next one.  None: the constant default e_default *) }.
Inductive dop :=
| DOp (o : op)
| DRegister (h : handler)        (* on_trait_change(h, "x") / on_trait_change(h) / observe(h, "x") *)
| DUnregister (id : nat)         (* the same with remove=True *)
| DNotify (on : bool)            (* obj._trait_change_notify(on): clears / sets HASTRAITS_NO_NOTIFY *)
| DSetMode (m : mode).           (* obj._trait("x", 2).comparison_mode = m  (_set_trait_comparison_mode, ctraits.c l.4640-4672) *)

Definition is_obj (h : handler) : bool := match h_mech h with OtcAny => true | _ => false end.
Definition live (st : dstate) : list handler := d_tl st ++ d_ol st.
Definition has_id (id : nat) (l : list handler) : bool := existsb (fun h => h_id h =? id) l.
Definition drop_ids (ids : list nat) (l : list handler) : list handler :=
  filter (fun h => negb (existsb (Nat.eqb (h_id h)) ids)) l.
Definition silent (s : option val) : obs := mkObs Ok s [] [].

(* what a handler does to the notifier lists WHILE it is being notified *)
Inductive reaction :=
| RKill (victim : nat)          (* unregisters handler `victim` (itself: a self-unregistering handler) *)
| RSpawn (h : handler).         (* registers a new handler *)

Section Dyn.
  Variable E : env.            (* e_handlers E: the handlers registered before the history starts *)
  Variable reacts : list (nat * reaction).    (* handler id -> what it does when it is called *)

  Definition init : dstate :=
    mkD None (filter (fun h => negb (is_obj h)) (e_handlers E)) (filter is_obj (e_handlers E)) (negb (is_nil (e_handlers E)))
        false (e_kind E) None.

  (* the reactions triggered by the calls of one operation, in call order *)
  Definition triggered (calls : list call) : list reaction :=
    flat_map (fun c : call => map snd (filter (fun p : nat * reaction => fst p =? fst (fst c)) reacts)) calls.

  (* `del` when the notifier lists exist but are empty: the default is read back, nobody is told *)
  Definition empty_lists_delete (st : dstate) (o : op) : bool :=
    match o, d_slot st, d_kind st with
    | Delete, Some _, TNormal _ => is_nil (live st) && d_alloc st
    | _, _, _ => false
    end.

  Definition register (st : dstate) (h : handler) : dstate :=
    if has_id (h_id h) (live st) then st                          (* `if notifier.equals(handler): break` *)
    else if is_obj h then mkD (d_slot st) (d_tl st) (d_ol st ++ [h]) true (d_quiet st) (d_kind st) (d_fresh st)
    else mkD (d_slot st) (d_tl st ++ [h]) (d_ol st) true (d_quiet st) (d_kind st) (d_fresh st).
  Definition unregister (st : dstate) (id : nat) : dstate :=
    mkD (d_slot st) (drop_ids [id] (d_tl st)) (drop_ids [id] (d_ol st)) (d_alloc st) (d_quiet st) (d_kind st) (d_fresh st).
  (* a freshly produced default is used up once it has been seen: stored, or told to a handler as old / new *)
  Definition seen (d : val) (s' : option val) (calls : list call) : bool :=
    opt_eqb Nat.eqb s' (Some d)
    || existsb (fun c : call => (snd c =? d) || match snd (fst c) with OVal o => o =? d | _ => false end) calls.
  Definition next_fresh (st : dstate) (s' : option val) (calls : list call) : option nat :=
    match d_fresh st with
    | Some n => Some (if seen n s' calls then S n else n)
    | None => None
    end.
  Definition react (st : dstate) (r : reaction) : dstate :=
    match r with RKill v => unregister st v | RSpawn h => register st h end.
  (* after an operation: new stored value; the (un)registrations done by the called handlers take effect for the NEXT
     operation only — the dispatch itself ran on the snapshot: a handler removed during it was still called, a handler
     added during it was not *)
  Definition settle (st : dstate) (s' : option val) (calls : list call) : dstate :=
    fold_left react (triggered calls) (mkD s' (d_tl st) (d_ol st) (d_alloc st) (d_quiet st) (d_kind st) (next_fresh st s' calls)).

  Definition set_quiet (st : dstate) (q : bool) : dstate :=
    mkD (d_slot st) (d_tl st) (d_ol st) (d_alloc st) q (d_kind st) (d_fresh st).
  (* an Event has no comparison mode to speak of: setattr_event and the wrappers ignore the bits *)
  Definition set_mode (st : dstate) (m : mode) : dstate :=
    mkD (d_slot st) (d_tl st) (d_ol st) (d_alloc st) (d_quiet st) (match d_kind st with TNormal _ => TNormal m | TEvent => TEvent end)
        (d_fresh st).
  (* the environment in force at this moment: live handlers (the snapshot), current kind / mode *)
  Definition env_at (st : dstate) : env :=
    {| e_eq := e_eq E; e_ne := e_ne E; e_validate := e_validate E;
       e_default := match d_fresh st with Some n => n | None => e_default E end; e_kind := d_kind st;
       e_handlers := live st; e_store_original := e_store_original E |}.
  (* trait_set(trait_change_notify=False) ends with an unconditional _trait_change_notify(True) *)
  (* ... and add_trait installs a fresh clone of the ORIGINAL definition: a mode set at run time is lost *)
  Definition after_quiet_assign (o : op) (st : dstate) : dstate :=
    match o with
    | QuietAssign _ => set_quiet st false
    | Retrait => mkD (d_slot st) (d_tl st) (d_ol st) (d_alloc st) (d_quiet st) (e_kind E) (d_fresh st)
    | _ => st
    end.

  (* one operation while notification is switched off: call_notifiers returns at once (l.2270), so everything happens
     except the calls; `del` skips its whole notifier block (l.2399), so the default is NOT read back *)
  Definition quiet_op (st : dstate) (o : op) : option val * obs :=
    match o with
    | Delete => match d_slot st, d_kind st with
                | Some _, TNormal _ => (None, silent None)
                | _, _ => (d_slot st, silent (d_slot st))
                end
    | _ => let '(s', ob) := step (env_at st) (d_slot st) o in (s', mkObs (o_out ob) (o_slot ob) [] [])
    end.

  Definition dstep (st : dstate) (o : dop) : dstate * obs :=
    match o with
    | DRegister h => (register st h, silent (d_slot st))
    | DUnregister id => (unregister st id, silent (d_slot st))
    | DNotify on => (set_quiet st (negb on), silent (d_slot st))
    | DSetMode m => (set_mode st m, silent (d_slot st))
    | DOp o =>
        let '(s', ob) :=
          if d_quiet st then quiet_op st o
          else if empty_lists_delete st o then (Some (e_default (env_at st)), silent (Some (e_default (env_at st))))
          else step (env_at st) (d_slot st) o in        (* the snapshot *)
        (after_quiet_assign o (settle st s' (o_calls ob)), ob)
    end.

  (* a trait whose default is produced afresh each time: identities n, n+1, ... *)
  Definition with_fresh (st : dstate) (n : option nat) : dstate :=
    mkD (d_slot st) (d_tl st) (d_ol st) (d_alloc st) (d_quiet st) (d_kind st) n.

  Fixpoint drun (st : dstate) (ops : list dop) : list (dop * obs) :=
    match ops with
    | [] => []
    | o :: r => let '(st', ob) := dstep st o in (o, ob) :: drun st' r
    end.

  (* ---------- the law over such a history: the static law of Law.v, at every operation, for the handlers live at
     that moment; the live lists are threaded from the operations and the OBSERVED calls, never from Model.step ---------- *)
  Definition dnext (st : dstate) (o : dop) (ob : obs) : dstate :=
    match o with
    | DRegister h => register st h
    | DUnregister id => unregister st id
    | DNotify on => set_quiet st (negb on)
    | DSetMode m => set_mode st m
    | DOp op => after_quiet_assign op (settle st (o_slot ob) (if d_quiet st then [] else o_calls ob))
    end.
  Definition dlaw_step (st : dstate) (o : dop) (ob : obs) : list Z :=
    match o with
    | DOp op => if d_quiet st then []              (* notification switched off by the caller: the statement is silent *)
                else law_step (env_at st) (d_slot st) op ob
                     ++ match op with
                        | Delete =>      (* the new value told on `del` is what a read returns right afterwards: the stored value,
                                            or — nothing stored — the default the NEXT read would produce *)
                            chk 6 (forallb (fun c : call => snd c =? readable (env_at (dnext st o ob)) (o_slot ob)) (o_calls ob))
                        | _ => []
                        end
    | _ => chk 3 (is_nil (o_calls ob))           (* (un)registering a handler / switching notification is not a change *)
    end.
  Fixpoint dlaw_hist (i : Z) (st : dstate) (h : list (dop * obs)) : list Z :=
    match h with
    | [] => []
    | (o, ob) :: r => map (fun c => (100 * i + c)%Z) (dlaw_step st o ob) ++ dlaw_hist (i + 1)%Z (dnext st o ob) r
    end.

  (* ---------- what one handler must receive, defined per operation from the static specification ---------- *)
  Definition find_id (id : nat) (l : list handler) : option handler := find (fun h => h_id h =? id) l.
End Dyn.
