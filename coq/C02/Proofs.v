(* C02 — lemmas. *)
From Coq Require Import List Arith Bool PeanoNat ZArith Lia.
From TV Require Import Common.Harness C02.Model C02.Law.
Import ListNotations.
Local Open Scope nat_scope.

(* ---------- boolean equalities ---------- *)
Lemma oldv_eqb_refl o : oldv_eqb o o = true.
Proof. destruct o; cbn; auto using Nat.eqb_refl. Qed.
Lemma call_eqb_refl c : call_eqb c c = true.
Proof. destruct c as [[i o] n]. cbn. rewrite !Nat.eqb_refl, oldv_eqb_refl. reflexivity. Qed.
Lemma list_eqb_refl {A} (eqb : A -> A -> bool) (l : list A) : (forall x, eqb x x = true) -> list_eqb eqb l l = true.
Proof. intros H. induction l as [|x l IH]; cbn; [reflexivity|]. rewrite H, IH. reflexivity. Qed.
Lemma opt_val_eqb_refl o : opt_val_eqb o o = true.
Proof. destruct o; cbn; auto using Nat.eqb_refl. Qed.

Fixpoint nodupb (l : list nat) : bool :=
  match l with [] => true | x :: r => negb (existsb (Nat.eqb x) r) && nodupb r end.
(* well-formed configuration: handler ids are pairwise distinct *)
Definition wf (E : env) : bool := nodupb (map h_id (e_handlers E)).

Lemma forallb_map {A B} (f : A -> B) (P : B -> bool) l : forallb P (map f l) = forallb (fun x => P (f x)) l.
Proof. induction l as [|x l IH]; cbn; [reflexivity|]. rewrite IH. reflexivity. Qed.

Lemma all_same_length_const (ls : list (list call)) n : (forall l, In l ls -> length l = n) -> all_same_length ls = true.
Proof.
  destruct ls as [|l r]; [reflexivity|]. intros H. cbn. apply forallb_forall. intros m Hm.
  rewrite (H l (or_introl eq_refl)), (H m (or_intror Hm)). apply Nat.eqb_refl.
Qed.

Section Notify.
  Variable E : env.
  Notation hs := (e_handlers E).

  (* projection of a notification on one handler *)
  Lemma calls_of_map (l : list handler) (P : handler -> bool) old new h :
    nodupb (map h_id l) = true -> In h l ->
    calls_of (h_id h) (map (fun h' => (h_id h', old, new)) (filter P l))
    = if P h then [(h_id h, old, new)] else [].
  Proof.
    induction l as [|x l IH]; intros Hnd Hin; [destruct Hin|].
    cbn in Hnd. apply andb_true_iff in Hnd. destruct Hnd as [Hx Hnd]. apply negb_true_iff in Hx.
    assert (forall y, In y l -> (h_id y =? h_id x) = false) as Hfresh.
    { intros y Hy. destruct (h_id y =? h_id x) eqn:Eq; [|reflexivity]. apply Nat.eqb_eq in Eq.
      assert (existsb (Nat.eqb (h_id x)) (map h_id l) = true) as T.
      { apply existsb_exists. exists (h_id y). split; [apply in_map; exact Hy|apply Nat.eqb_eq; congruence]. }
      congruence. }
    assert (forall y, (h_id y =? h_id x) = false ->
              calls_of (h_id y) (map (fun h' => (h_id h', old, new)) (filter P (x :: l)))
              = calls_of (h_id y) (map (fun h' => (h_id h', old, new)) (filter P l))) as Hskip.
    { intros y Hy. cbn [filter]. destruct (P x); [|reflexivity]. cbn. rewrite Nat.eqb_sym, Hy. reflexivity. }
    destruct Hin as [->|Hin].
    - cbn [filter]. destruct (P h) eqn:Ph.
      + cbn. rewrite Nat.eqb_refl. f_equal.
        (* nothing else in l has this id *)
        clear IH Hskip. induction l as [|y l IHl]; [reflexivity|]. cbn [filter].
        assert ((h_id y =? h_id h) = false) as Hy by (apply Hfresh; left; reflexivity).
        destruct (P y); cbn; [rewrite Hy|]; apply IHl.
        * cbn in Hx. apply orb_false_iff in Hx. apply Hx.
        * cbn in Hnd. apply andb_true_iff in Hnd. apply Hnd.
        * intros z Hz. apply Hfresh. right. exact Hz.
        * cbn in Hx. apply orb_false_iff in Hx. apply Hx.
        * cbn in Hnd. apply andb_true_iff in Hnd. apply Hnd.
        * intros z Hz. apply Hfresh. right. exact Hz.
      + clear IH Hskip. induction l as [|y l IHl]; [reflexivity|]. cbn [filter].
        assert ((h_id y =? h_id h) = false) as Hy by (apply Hfresh; left; reflexivity).
        destruct (P y); cbn; [rewrite Hy|]; apply IHl.
        * cbn in Hx. apply orb_false_iff in Hx. apply Hx.
        * cbn in Hnd. apply andb_true_iff in Hnd. apply Hnd.
        * intros z Hz. apply Hfresh. right. exact Hz.
        * cbn in Hx. apply orb_false_iff in Hx. apply Hx.
        * cbn in Hnd. apply andb_true_iff in Hnd. apply Hnd.
        * intros z Hz. apply Hfresh. right. exact Hz.
    - rewrite (Hskip h (Hfresh h Hin)). apply IH; assumption.
  Qed.

  Lemma notify_calls_of old new h : wf E = true -> In h hs ->
    calls_of (h_id h) (fst (notify E old new)) = if accepted E h old new then [(h_id h, old, new)] else [].
  Proof. intros Hw Hin. unfold notify. cbn [fst]. apply calls_of_map; assumption. Qed.

  Lemma notify_truthful old new c : In c (fst (notify E old new)) -> snd (fst c) = old /\ snd c = new.
  Proof.
    unfold notify. cbn [fst]. intros H. apply in_map_iff in H. destruct H as (h & <- & _). split; reflexivity.
  Qed.

  (* the sink receives exactly the calls of the raising handlers *)
  Lemma raising_filter (l : list handler) old new :
    nodupb (map h_id l) = true -> forall l0, (forall x, In x l0 -> In x l) ->
    filter (fun c : call => existsb (fun h => (h_id h =? fst (fst c)) && h_raises h) l)
           (map (fun h' => (h_id h', old, new)) l0)
    = map (fun h' => (h_id h', old, new)) (filter h_raises l0).
  Proof.
    intros Hnd l0. induction l0 as [|x l0 IH]; intros Hsub; [reflexivity|]. cbn [map filter fst].
    assert (existsb (fun h => (h_id h =? h_id x) && h_raises h) l = h_raises x) as Hx.
    { assert (In x l) as Hin by (apply Hsub; left; reflexivity). clear IH Hsub.
      induction l as [|y l IHl]; [destruct Hin|]. cbn in Hnd. apply andb_true_iff in Hnd. destruct Hnd as [Hy Hnd].
      apply negb_true_iff in Hy. cbn [existsb]. destruct Hin as [->|Hin].
      - rewrite Nat.eqb_refl. cbn. destruct (h_raises x); [reflexivity|]. cbn.
        (* no other element has x's id *)
        apply not_true_is_false. intros T. apply existsb_exists in T. destruct T as (z & Hz & Tz).
        apply andb_true_iff in Tz. destruct Tz as [Tz _]. apply Nat.eqb_eq in Tz.
        assert (existsb (Nat.eqb (h_id x)) (map h_id l) = true) as T2.
        { apply existsb_exists. exists (h_id z). split; [apply in_map; exact Hz|apply Nat.eqb_eq; congruence]. }
        congruence.
      - assert ((h_id y =? h_id x) = false) as Hne.
        { destruct (h_id y =? h_id x) eqn:Eq; [|reflexivity]. apply Nat.eqb_eq in Eq.
          assert (existsb (Nat.eqb (h_id y)) (map h_id l) = true) as T2.
          { apply existsb_exists. exists (h_id x). split; [apply in_map; exact Hin|apply Nat.eqb_eq; congruence]. }
          congruence. }
        rewrite Hne. cbn. apply IHl; assumption. }
    cbn [snd fst]. rewrite Hx. destruct (h_raises x); cbn; [f_equal|]; apply IH; intros z Hz; apply Hsub; right; exact Hz.
  Qed.

  Lemma notify_sink old new : wf E = true ->
    snd (notify E old new)
    = filter (fun c : call => existsb (fun h => (h_id h =? fst (fst c)) && h_raises h) hs) (fst (notify E old new)).
  Proof.
    intros Hw. unfold notify. cbn [fst snd]. symmetry. apply raising_filter; [exact Hw|].
    intros x Hx. apply filter_In in Hx. apply Hx.
  Qed.
End Notify.

Section StepLaw.
  Variable E : env.
  Hypothesis Hwf : wf E = true.
  Notation hs := (e_handlers E).
  Notation nv_of v w := (new_value E v w).

  Lemma chk_true k : chk k true = []. Proof. reflexivity. Qed.

  (* what one handler receives from the (possibly suppressed) raw notification *)
  Definition emitted (changed : bool) (old : oldv) (w : val) : list call * list call :=
    if changed then notify E old w else ([], []).

  Lemma emitted_calls_of changed old w h : In h hs ->
    calls_of (h_id h) (fst (emitted changed old w))
    = if changed && accepted E h old w then [(h_id h, old, w)] else [].
  Proof.
    intros Hin. unfold emitted. destruct changed; [|reflexivity]. cbn [andb]. apply notify_calls_of; assumption.
  Qed.
  Lemma emitted_truthful changed old w :
    forallb (fun c : call => oldv_eqb (snd (fst c)) old && (snd c =? w)) (fst (emitted changed old w)) = true.
  Proof.
    apply forallb_forall. intros c Hc. unfold emitted in Hc. destruct changed; [|destruct Hc].
    destruct (notify_truthful E old w c Hc) as [-> ->]. rewrite oldv_eqb_refl, Nat.eqb_refl. reflexivity.
  Qed.
  Lemma emitted_sink changed old w :
    list_eqb call_eqb (snd (emitted changed old w))
      (filter (fun c : call => existsb (fun h => (h_id h =? fst (fst c)) && h_raises h) hs) (fst (emitted changed old w))) = true.
  Proof.
    unfold emitted. destruct changed; [|reflexivity]. rewrite (notify_sink E old w Hwf).
    apply list_eqb_refl. apply call_eqb_refl.
  Qed.

  (* the three per-handler clauses, from a bound on what each handler accepts *)
  Lemma per_handler_bounds changed old w lo hi :
    (forall h, In h hs -> lo <= (if changed && accepted E h old w then 1 else 0) <= hi) ->
    forallb (fun l : list call => length l <=? hi) (map (fun h => calls_of (h_id h) (fst (emitted changed old w))) hs) = true
    /\ forallb (fun l : list call => lo <=? length l) (map (fun h => calls_of (h_id h) (fst (emitted changed old w))) hs) = true.
  Proof.
    intros H. rewrite !forallb_map. split; apply forallb_forall; intros h Hh; rewrite (emitted_calls_of _ _ _ _ Hh);
      specialize (H h Hh); destruct (changed && accepted E h old w); cbn [length]; apply Nat.leb_le; lia.
  Qed.
  Lemma per_handler_agree changed old w b :
    (forall h, In h hs -> changed && accepted E h old w = b) ->
    all_same_length (map (fun h => calls_of (h_id h) (fst (emitted changed old w))) hs) = true.
  Proof.
    intros H. apply (all_same_length_const _ (if b then 1 else 0)). intros l Hl. apply in_map_iff in Hl.
    destruct Hl as (h & <- & Hh). rewrite (emitted_calls_of _ _ _ _ Hh), (H h Hh). destruct b; reflexivity.
  Qed.

  Lemma accepted_not_equality h old w : (forall m, e_kind E = TNormal m -> m <> MEquality) -> old <> OUninitialized ->
    accepted E h old w = true.
  Proof.
    intros Hk Ho. unfold accepted. destruct old; try reflexivity; [|congruence].
    destruct (e_kind E) as [m|] eqn:K; [|reflexivity]. destruct m; try reflexivity. exfalso. apply (Hk _ eq_refl). reflexivity.
  Qed.

  Lemma step_slot s o : o_slot (snd (step E s o)) = fst (step E s o).
  Proof.
    unfold step. cbv zeta. destruct o as [v| | |v'| |].
    - destruct (e_validate E v) as [w|]; [|reflexivity]. destruct (e_kind E) as [m|].
      + destruct (is_nil hs); [reflexivity|]. destruct (notify E (OVal (readable E s)) (nv_of v w)).
        destruct m; [|destruct (readable E s =? nv_of v w)..]; reflexivity.
      + destruct (notify E OUndefined w). reflexivity.
    - destruct (e_kind E); [|reflexivity]. destruct s; [reflexivity|]. destruct (notify E OUninitialized (e_default E)). reflexivity.
    - destruct (e_kind E) as [m|]; [|reflexivity]. destruct s as [old|]; [|reflexivity].
      destruct (is_nil hs); [reflexivity|]. destruct (notify E OUninitialized (e_default E)).
      destruct (match m with MNone => true | _ => negb (old =? e_default E) end);
        [destruct (notify E (OVal old) (e_default E))|]; reflexivity.
    - destruct (e_validate E v'); [|reflexivity]. destruct (e_kind E); reflexivity.
    - reflexivity.
    - reflexivity.
  Qed.

  Lemma notify_uninitialized w : notify E OUninitialized w = ([], []).
  Proof.
    unfold notify. cbn [accepted]. assert (filter (fun _ : handler => false) hs = []) as ->.
    { induction hs as [|x l IH]; [reflexivity|exact IH]. }
    reflexivity.
  Qed.

  Lemma is_nil_map {A B} (f : A -> B) l : is_nil l = true -> map f l = [].
  Proof. destruct l; [reflexivity|discriminate]. Qed.

  Lemma step_law s o : law_step E s o (snd (step E s o)) = [].
  Proof.
    unfold step, law_step. destruct o as [v| | |v'| |].
    - (* Assign *)
      destruct (e_validate E v) as [w0|]; [|reflexivity].
      destruct (e_kind E) as [m|] eqn:K; [set (w := new_value E v w0); cbv beta iota|rename w0 into w].
      + (* normal trait *)
        destruct (is_nil hs) eqn:Hnil.
        * (* no notifier at all *)
          destruct hs; [|discriminate]. cbn. rewrite Nat.eqb_refl.
          rewrite orb_true_r.
          unfold expected. rewrite K. destruct m; [| |]; try (destruct (readable E s =? w)); cbn; try reflexivity;
            destruct (e_eq E (readable E s) w), (e_ne E (readable E s) w); reflexivity.
        * set (old := readable E s).
          set (changed := match m with MNone => true | _ => negb (old =? w) end).
          change (if changed then notify E (OVal old) w else ([], [])) with (emitted changed (OVal old) w).
          destruct (emitted changed (OVal old) w) as [cs sk] eqn:Em.
          assert (cs = fst (emitted changed (OVal old) w)) as Hcs by (rewrite Em; reflexivity).
          assert (sk = snd (emitted changed (OVal old) w)) as Hsk by (rewrite Em; reflexivity).
          cbn [fst snd o_out o_slot o_calls o_sink outcome_eqb]. rewrite opt_val_eqb_refl.
          destruct (expected E old w) as [lo hi] eqn:Ex.
          assert (forall h, In h hs -> lo <= (if changed && accepted E h (OVal old) w then 1 else 0) <= hi) as Hb.
          { intros h Hh. unfold expected in Ex. rewrite K in Ex. unfold changed, accepted. rewrite K.
            destruct m.
            - inversion Ex; subst. cbn. lia.
            - destruct (old =? w); inversion Ex; subst; cbn; lia.
            - destruct (old =? w); [inversion Ex; subst; cbn; lia|]. cbn [negb andb].
              destruct (e_eq E old w), (e_ne E old w); inversion Ex; subst; destruct (h_mech h); cbn; lia. }
          destruct (per_handler_bounds changed (OVal old) w lo hi Hb) as [B1 B2].
          rewrite Hcs, B1, B2, emitted_truthful. cbn [chk app].
          (* agreement *)
          destruct (agreement_demanded E old w) eqn:Ag; [|reflexivity]. cbn [negb orb].
          assert (exists b, forall h, In h hs -> changed && accepted E h (OVal old) w = b) as [b Hbq].
          { unfold agreement_demanded in Ag. rewrite K in Ag. unfold changed, accepted. rewrite K. destruct m.
            - exists true. reflexivity.
            - exists (negb (old =? w)). intros. rewrite andb_true_r. reflexivity.
            - destruct (old =? w); [exists false; reflexivity|]. cbn in Ag. unfold coherent_pair in Ag.
              destruct (e_eq E old w), (e_ne E old w); cbn in Ag; try discriminate;
                [exists false|exists true|exists true|exists true|exists true]; intros h _; destruct (h_mech h); reflexivity. }
          rewrite (per_handler_agree changed (OVal old) w b Hbq). reflexivity.
      + (* Event *)
        change (notify E OUndefined w) with (emitted true OUndefined w).
        destruct (emitted true OUndefined w) as [cs sk] eqn:Em.
        assert (cs = fst (emitted true OUndefined w)) as Hcs by (rewrite Em; reflexivity).
        assert (sk = snd (emitted true OUndefined w)) as Hsk by (rewrite Em; reflexivity).
        cbn [fst snd o_out o_slot o_calls o_sink outcome_eqb]. rewrite opt_val_eqb_refl.
        unfold expected, agreement_demanded. rewrite K.
        assert (forall h, In h hs -> 1 <= (if true && accepted E h OUndefined w then 1 else 0) <= 1) as Hb
          by (intros; cbn; lia).
        destruct (per_handler_bounds true OUndefined w 1 1 Hb) as [B1 B2].
        rewrite Hcs, B1, B2, emitted_truthful. cbn [chk app negb orb].
        rewrite (per_handler_agree true OUndefined w true); [reflexivity|]. intros; reflexivity.
    - (* Read *)
      destruct (e_kind E) as [m|]; [|reflexivity].
      destruct s as [x|]; [reflexivity|].
      rewrite notify_uninitialized. reflexivity.
    - (* Delete: what the handlers are told is truthful *)
      destruct (e_kind E) as [m|]; [|reflexivity]. destruct s as [old|]; [|reflexivity].
      destruct (is_nil hs); [reflexivity|]. rewrite notify_uninitialized.
      destruct (match m with MNone => true | _ => negb (old =? e_default E) end); [|reflexivity].
      pose proof (notify_truthful E (OVal old) (e_default E)) as T.
      destruct (notify E (OVal old) (e_default E)) as [cs sk]. cbn [fst snd o_calls o_slot app] in *.
      assert (forallb (fun c : call => oldv_eqb (snd (fst c)) (OVal (readable E (Some old)))
                                       && (e_default E =? snd c)) cs = true) as ->; [|reflexivity].
      apply forallb_forall. intros c Hc. destruct (T c Hc) as [-> ->]. cbn. rewrite !Nat.eqb_refl. reflexivity.
    - (* QuietAssign: the law is silent *)
      reflexivity.
    - reflexivity.
    - reflexivity.
  Qed.

  (* what `del` tells the handlers as new IS stored afterwards *)
  Lemma step_delete_stored s c : In c (o_calls (snd (step E s Delete))) -> o_slot (snd (step E s Delete)) = Some (snd c).
  Proof.
    unfold step. destruct (e_kind E) as [m|]; [|intros []]. destruct s as [old|]; [|intros []].
    destruct (is_nil hs); [intros []|]. rewrite notify_uninitialized.
    destruct (match m with MNone => true | _ => negb (old =? e_default E) end); [|intros []].
    pose proof (notify_truthful E (OVal old) (e_default E) c) as T.
    destruct (notify E (OVal old) (e_default E)) as [cs sk]. cbn [fst snd o_calls o_slot app] in *.
    intros Hc. destruct (T Hc) as [_ ->]. reflexivity.
  Qed.

  Theorem run_law ops : forall s i, law_hist E i s (run E s ops) = [].
  Proof.
    induction ops as [|o r IH]; intros s i; [reflexivity|]. cbn [run].
    pose proof (step_law s o) as L. pose proof (step_slot s o) as S.
    destruct (step E s o) as [s' ob]. cbn [law_hist fst snd] in *. rewrite L, S. cbn. apply IH.
  Qed.
End StepLaw.

(* ================= calls are exactly the changes ================= *)
Section Spec.
  Variable E : env.
  Notation hs := (e_handlers E).

  (* does handler h regard old -> w as a change?  (the property's criterion; for equality mode the
     comparison h's mechanism evaluates: legacy wrappers `old != new`, observe `old == new`; an
     exception counts as a change) *)
  Definition unequal (h : handler) (o w : val) : bool :=
    match h_mech h with
    | Observe => negb (cmp_eqb (e_eq E o w) CTrue)
    | _ => negb (cmp_eqb (e_ne E o w) CFalse)
    end.
  Definition counts_as_change (h : handler) (o w : val) : bool :=
    match e_kind E with
    | TEvent => true
    | TNormal MNone => true
    | TNormal MIdentity => negb (o =? w)
    | TNormal MEquality => negb (o =? w) && unequal h o w
    end.
  Definition after_read (s : option val) : option val :=
    match e_kind E with TEvent => s | TNormal _ => Some (readable E s) end.
  (* `del`: the entry is removed; when notifiers exist the default is read back (and stored) at once *)
  Definition after_delete (s : option val) : option val :=
    match e_kind E, s with
    | TNormal _, Some _ => if is_nil hs then None else Some (e_default E)
    | _, _ => s
    end.

  (* the calls handler h must receive over a history, defined without the notification machinery *)
  Fixpoint spec_calls (h : handler) (s : option val) (ops : list op) : list call :=
    match ops with
    | [] => []
    | Read :: r => spec_calls h (after_read s) r
    | Delete :: r =>                      (* like assigning the default, without validation, when a value is stored *)
        match e_kind E, s with
        | TNormal _, Some old =>
            (if counts_as_change h old (e_default E) then [(h_id h, OVal old, e_default E)] else [])
            ++ spec_calls h (after_delete s) r
        | _, _ => spec_calls h s r
        end
    | Retrait :: r => spec_calls h s r
    | Other :: r => spec_calls h s r
    | QuietAssign v :: r =>               (* no call; the value is stored like an ordinary assignment *)
        spec_calls h (match e_validate E v, e_kind E with Some w, TNormal _ => Some (new_value E v w) | _, _ => s end) r
    | Assign v :: r =>
        match e_validate E v with
        | None => spec_calls h s r
        | Some w =>
            match e_kind E with
            | TEvent => (h_id h, OUndefined, w) :: spec_calls h s r
            | TNormal _ =>
                let nv := new_value E v w in        (* the object the trait stores *)
                (if counts_as_change h (readable E s) nv then [(h_id h, OVal (readable E s), nv)] else [])
                ++ spec_calls h (Some nv) r
            end
        end
    end.

  Definition all_calls (hist : list (op * obs)) : list call := flat_map (fun p => o_calls (snd p)) hist.
  Definition all_sink (hist : list (op * obs)) : list call := flat_map (fun p => o_sink (snd p)) hist.

  Lemma calls_of_app id a b : calls_of id (a ++ b) = calls_of id a ++ calls_of id b.
  Proof. apply filter_app. Qed.

  Hypothesis Hwf : wf E = true.

  Lemma step_read_state s : fst (step E s Read) = after_read s.
  Proof.
    unfold step, after_read. destruct (e_kind E); [|reflexivity]. destruct s; [reflexivity|].
    destruct (notify E OUninitialized (e_default E)). reflexivity.
  Qed.
  Lemma step_read_silent s : o_calls (snd (step E s Read)) = [] /\ o_sink (snd (step E s Read)) = [].
  Proof.
    unfold step. destruct (e_kind E); [|split; reflexivity]. destruct s; [split; reflexivity|].
    rewrite notify_uninitialized. split; reflexivity.
  Qed.
  Lemma step_rejected s v : e_validate E v = None -> step E s (Assign v) = (s, mkObs TraitError s [] []).
  Proof. intros H. unfold step. rewrite H. reflexivity. Qed.

  Lemma accepted_counts h old w m : e_kind E = TNormal m ->
    (match m with MNone => true | _ => negb (old =? w) end) && accepted E h (OVal old) w = counts_as_change h old w.
  Proof.
    intros K. unfold accepted, counts_as_change, unequal. rewrite K. destruct m; try reflexivity.
    - rewrite andb_true_r. reflexivity.
    - destruct (negb (old =? w)); [|reflexivity]. cbn [andb].
      destruct (h_mech h); [destruct (e_ne E old w)|destruct (e_ne E old w)|destruct (e_ne E old w)
        |destruct (e_ne E old w)|destruct (e_ne E old w)|destruct (e_eq E old w)]; reflexivity.
  Qed.

  Lemma step_assign_calls h s v w : In h hs -> e_validate E v = Some w ->
    calls_of (h_id h) (o_calls (snd (step E s (Assign v))))
    = match e_kind E with
      | TEvent => [(h_id h, OUndefined, w)]
      | TNormal _ => if counts_as_change h (readable E s) (new_value E v w)
                     then [(h_id h, OVal (readable E s), new_value E v w)] else []
      end
    /\ fst (step E s (Assign v)) = match e_kind E with TEvent => s | TNormal _ => Some (new_value E v w) end.
  Proof.
    intros Hin Hv. unfold step. cbv zeta. rewrite Hv. destruct (e_kind E) as [m|] eqn:K.
    - destruct (is_nil hs) eqn:Hnil; [destruct hs; [destruct Hin|discriminate]|].
      set (old := readable E s). set (nv := new_value E v w).
      destruct (match m with MNone => true | _ => negb (old =? nv) end) eqn:Ch.
      + pose proof (notify_calls_of E (OVal old) nv h Hwf Hin) as N.
        destruct (notify E (OVal old) nv) as [cs sk]. cbn [fst snd o_calls] in *. rewrite N. split; [|reflexivity].
        rewrite <- (accepted_counts h old nv m K), Ch. reflexivity.
      + cbn [fst snd o_calls]. split; [|reflexivity].
        rewrite <- (accepted_counts h old nv m K), Ch. reflexivity.
    - pose proof (notify_calls_of E OUndefined w h Hwf Hin) as N.
      destruct (notify E OUndefined w) as [cs sk]. cbn [fst snd o_calls] in *. rewrite N. split; reflexivity.
  Qed.

  Lemma step_delete_calls h s : In h hs ->
    calls_of (h_id h) (o_calls (snd (step E s Delete)))
    = match e_kind E, s with
      | TNormal _, Some old => if counts_as_change h old (e_default E) then [(h_id h, OVal old, e_default E)] else []
      | _, _ => []
      end
    /\ fst (step E s Delete) = after_delete s.
  Proof.
    intros Hin. unfold step, after_delete. destruct (e_kind E) as [m|] eqn:K; [|split; reflexivity].
    destruct s as [old|]; [|split; reflexivity].
    destruct (is_nil hs) eqn:Hnil; [destruct hs; [destruct Hin|discriminate]|].
    rewrite notify_uninitialized.
    destruct (match m with MNone => true | _ => negb (old =? e_default E) end) eqn:Ch.
    - pose proof (notify_calls_of E (OVal old) (e_default E) h Hwf Hin) as N.
      destruct (notify E (OVal old) (e_default E)) as [cs sk]. cbn [fst snd o_calls app] in *. rewrite N. split; [|reflexivity].
      rewrite <- (accepted_counts h old (e_default E) m K), Ch. reflexivity.
    - cbn [fst snd o_calls app]. split; [|reflexivity].
      rewrite <- (accepted_counts h old (e_default E) m K), Ch. reflexivity.
  Qed.

  Theorem calls_exact h : In h hs -> forall ops s,
    calls_of (h_id h) (all_calls (run E s ops)) = spec_calls h s ops.
  Proof.
    intros Hin. induction ops as [|o r IH]; intros s; [reflexivity|]. cbn [run].
    destruct (step E s o) as [s' ob] eqn:St. cbn [all_calls flat_map snd]. rewrite calls_of_app. fold (all_calls (run E s' r)).
    rewrite IH. destruct o as [v| | |v'| |].
    - cbn [spec_calls]. destruct (e_validate E v) as [w|] eqn:Hv.
      + destruct (step_assign_calls h s v w Hin Hv) as [C S]. rewrite St in C, S. cbn [fst snd] in C, S. rewrite C, S.
        destruct (e_kind E); reflexivity.
      + rewrite (step_rejected s v Hv) in St. inversion St; subst. reflexivity.
    - cbn [spec_calls]. pose proof (step_read_state s) as S. destruct (step_read_silent s) as [C _].
      rewrite St in S, C. cbn [fst snd] in S, C. rewrite C, S. reflexivity.
    - cbn [spec_calls]. destruct (step_delete_calls h s Hin) as [C S]. rewrite St in C, S. cbn [fst snd] in C, S.
      rewrite C, S. unfold after_delete. destruct (e_kind E) as [m|]; [destruct s as [old|]|]; reflexivity.
    - cbn [spec_calls]. unfold step in St. destruct (e_validate E v') as [w|]; [destruct (e_kind E)|];
        inversion St; subst; reflexivity.
    - cbn [spec_calls]. cbn in St. inversion St; subst. reflexivity.
    - cbn [spec_calls]. cbn in St. inversion St; subst. reflexivity.
  Qed.

  (* old and new of every call are truthful *)
  Lemma calls_truthful s o c : In c (o_calls (snd (step E s o))) ->
    (exists v w, o = Assign v /\ e_validate E v = Some w /\
       match e_kind E with
       | TEvent => snd (fst c) = OUndefined /\ snd c = w
       | TNormal _ => snd (fst c) = OVal (readable E s) /\ readable E (fst (step E s o)) = snd c
                      /\ snd c = new_value E v w
       end)
    \/ (o = Delete /\ snd (fst c) = OVal (readable E s) /\ snd c = e_default E
        /\ readable E (fst (step E s o)) = e_default E).
  Proof.
    destruct o as [v| | |v'| |].
    - unfold step. destruct (e_validate E v) as [w|] eqn:Hv; [|intros []].
      destruct (e_kind E) as [m|].
      + destruct (is_nil hs); [intros []|]. set (nv := new_value E v w).
        destruct (match m with MNone => true | _ => negb (readable E s =? nv) end).
        * pose proof (notify_truthful E (OVal (readable E s)) nv c) as T.
          destruct (notify E (OVal (readable E s)) nv) as [cs sk]. cbn [fst snd o_calls] in *. intros Hc.
          destruct (T Hc) as [T1 T2]. left. exists v, w. repeat split; try assumption. rewrite T2. reflexivity.
        * intros [].
      + pose proof (notify_truthful E OUndefined w c) as T.
        destruct (notify E OUndefined w) as [cs sk]. cbn [fst snd o_calls] in *. intros Hc.
        destruct (T Hc) as [T1 T2]. left. exists v, w. repeat split; assumption.
    - destruct (step_read_silent s) as [C _]. rewrite C. intros [].
    - unfold step. destruct (e_kind E) as [m|]; [|intros []]. destruct s as [old|]; [|intros []].
      destruct (is_nil hs); [intros []|]. rewrite notify_uninitialized.
      destruct (match m with MNone => true | _ => negb (old =? e_default E) end).
      + pose proof (notify_truthful E (OVal old) (e_default E) c) as T.
        destruct (notify E (OVal old) (e_default E)) as [cs sk]. cbn [fst snd o_calls app] in *. intros Hc.
        destruct (T Hc) as [T1 T2]. right. repeat split; assumption.
      + intros [].
    - unfold step. destruct (e_validate E v'); [destruct (e_kind E)|]; intros [].
    - intros [].
    - intros [].
  Qed.

  (* == and != are coherent: != answers False exactly when == answers True (what Python guarantees
     for every class that does not override __ne__; NaN, raising __eq__ included) *)
  Definition coherent_eq : Prop := forall a b, e_ne E a b = CFalse <-> e_eq E a b = CTrue.

  Definition strip (c : call) : oldv * val := (snd (fst c), snd c).

  Lemma spec_calls_agree h1 h2 : coherent_eq -> forall ops s,
    map strip (spec_calls h1 s ops) = map strip (spec_calls h2 s ops).
  Proof.
    intros Hc.
    assert (forall o w, counts_as_change h1 o w = counts_as_change h2 o w) as Hcc.
    { intros o w. unfold counts_as_change. destruct (e_kind E) as [m|]; [|reflexivity]. destruct m; try reflexivity. f_equal.
      unfold unequal. pose proof (Hc o w) as [H1 H2].
      destruct (h_mech h1), (h_mech h2); try reflexivity;
        destruct (e_eq E o w) eqn:Eq, (e_ne E o w) eqn:Ne; try reflexivity;
        try (specialize (H1 eq_refl); discriminate); try (specialize (H2 eq_refl); discriminate). }
    induction ops as [|o r IH]; intros s; [reflexivity|]. destruct o as [v| | |v'| |]; cbn [spec_calls]; [|apply IH| |apply IH|apply IH|apply IH].
    - destruct (e_validate E v) as [w|]; [|apply IH]. destruct (e_kind E) as [m|] eqn:K.
      + cbv zeta. rewrite !map_app, IH, Hcc. destruct (counts_as_change h2 (readable E s) (new_value E v w)); reflexivity.
      + cbn [map]. rewrite IH. reflexivity.
    - destruct (e_kind E) as [m|]; [|apply IH]. destruct s as [old|]; [|apply IH].
      rewrite !map_app, IH, Hcc. destruct (counts_as_change h2 old (e_default E)); reflexivity.
  Qed.

  Theorem mechanisms_agree h1 h2 : coherent_eq -> In h1 hs -> In h2 hs -> forall ops s,
    map strip (calls_of (h_id h1) (all_calls (run E s ops))) = map strip (calls_of (h_id h2) (all_calls (run E s ops))).
  Proof. intros Hc H1 H2 ops s. rewrite !calls_exact by assumption. apply spec_calls_agree. exact Hc. Qed.

  (* the sink of every step holds exactly the calls of the raising handlers *)
  Lemma step_sink s o :
    o_sink (snd (step E s o))
    = filter (fun c : call => existsb (fun h => (h_id h =? fst (fst c)) && h_raises h) hs) (o_calls (snd (step E s o))).
  Proof.
    destruct o as [v| | |v'| |].
    - unfold step. destruct (e_validate E v) as [w|]; [|reflexivity]. destruct (e_kind E) as [m|].
      + destruct (is_nil hs); [reflexivity|]. set (nv := new_value E v w).
        destruct (match m with MNone => true | _ => negb (readable E s =? nv) end); [|reflexivity].
        pose proof (notify_sink E (OVal (readable E s)) nv Hwf) as N. destruct (notify E (OVal (readable E s)) nv). exact N.
      + pose proof (notify_sink E OUndefined w Hwf) as N. destruct (notify E OUndefined w). exact N.
    - destruct (step_read_silent s) as [C S]. rewrite C, S. reflexivity.
    - unfold step. destruct (e_kind E) as [m|]; [|reflexivity]. destruct s as [old|]; [|reflexivity].
      destruct (is_nil hs); [reflexivity|]. rewrite notify_uninitialized.
      destruct (match m with MNone => true | _ => negb (old =? e_default E) end); [|reflexivity].
      pose proof (notify_sink E (OVal old) (e_default E) Hwf) as N. destruct (notify E (OVal old) (e_default E)). exact N.
    - unfold step. destruct (e_validate E v'); [destruct (e_kind E)|]; reflexivity.
    - reflexivity.
    - reflexivity.
  Qed.
End Spec.

(* ================= a raising handler changes nothing else ================= *)
Definition set_raises (f : nat -> bool) (E : env) : env :=
  {| e_eq := e_eq E; e_ne := e_ne E; e_validate := e_validate E; e_default := e_default E; e_kind := e_kind E;
     e_handlers := map (fun h => mkHandler (h_id h) (h_mech h) (f (h_id h))) (e_handlers E);
     e_store_original := e_store_original E |}.

Definition visible (ob : obs) : outcome * option val * list call := (o_out ob, o_slot ob, o_calls ob).

Section Transparent.
  Variable E : env.
  Variables f g : nat -> bool.

  Lemma accepted_set_raises fr h old new :
    accepted (set_raises fr E) (mkHandler (h_id h) (h_mech h) (fr (h_id h))) old new = accepted E h old new.
  Proof. reflexivity. Qed.

  Lemma notify_calls_set_raises fr old new : fst (notify (set_raises fr E) old new) = fst (notify E old new).
  Proof.
    unfold notify. cbn [fst e_handlers set_raises]. induction (e_handlers E) as [|h l IH]; [reflexivity|].
    cbn [map filter]. rewrite accepted_set_raises. destruct (accepted E h old new); cbn [map h_id]; [f_equal|]; exact IH.
  Qed.

  Lemma step_visible_set_raises fr s o :
    fst (step (set_raises fr E) s o) = fst (step E s o)
    /\ visible (snd (step (set_raises fr E) s o)) = visible (snd (step E s o)).
  Proof.
    destruct o as [v| | |v'| |]; unfold step; cbn [e_validate e_kind e_default e_store_original set_raises].
    - destruct (e_validate E v) as [w|]; [|split; reflexivity]. destruct (e_kind E) as [m|].
      + assert (is_nil (e_handlers (set_raises fr E)) = is_nil (e_handlers E)) as -> by (cbn; destruct (e_handlers E); reflexivity).
        destruct (is_nil (e_handlers E)); [split; reflexivity|].
        change (readable (set_raises fr E) s) with (readable E s).
        change (new_value (set_raises fr E) v w) with (new_value E v w).
        set (nv := new_value E v w).
        destruct (match m with MNone => true | _ => negb (readable E s =? nv) end); [|split; reflexivity].
        pose proof (notify_calls_set_raises fr (OVal (readable E s)) nv) as N.
        destruct (notify (set_raises fr E) (OVal (readable E s)) nv), (notify E (OVal (readable E s)) nv).
        cbn in N. subst. split; reflexivity.
      + pose proof (notify_calls_set_raises fr OUndefined w) as N.
        destruct (notify (set_raises fr E) OUndefined w), (notify E OUndefined w). cbn in N. subst. split; reflexivity.
    - destruct (e_kind E); [|split; reflexivity]. destruct s; [split; reflexivity|].
      pose proof (notify_calls_set_raises fr OUninitialized (e_default E)) as N.
      destruct (notify (set_raises fr E) OUninitialized (e_default E)), (notify E OUninitialized (e_default E)).
      cbn in N. subst. split; reflexivity.
    - destruct (e_kind E) as [m|]; [|split; reflexivity]. destruct s as [old|]; [|split; reflexivity].
      assert (is_nil (e_handlers (set_raises fr E)) = is_nil (e_handlers E)) as -> by (cbn; destruct (e_handlers E); reflexivity).
      destruct (is_nil (e_handlers E)); [split; reflexivity|].
      pose proof (notify_calls_set_raises fr OUninitialized (e_default E)) as N0.
      pose proof (notify_calls_set_raises fr (OVal old) (e_default E)) as N1.
      destruct (notify (set_raises fr E) OUninitialized (e_default E)), (notify E OUninitialized (e_default E)).
      cbn in N0. subst.
      destruct (match m with MNone => true | _ => negb (old =? e_default E) end); [|split; reflexivity].
      destruct (notify (set_raises fr E) (OVal old) (e_default E)), (notify E (OVal old) (e_default E)).
      cbn in N1. subst. split; reflexivity.
    - destruct (e_validate E v'); [destruct (e_kind E)|]; split; reflexivity.
    - split; reflexivity.
    - split; reflexivity.
  Qed.

  Theorem raising_transparent ops : forall s,
    final (set_raises f E) s ops = final (set_raises g E) s ops
    /\ map (fun p => (fst p, visible (snd p))) (run (set_raises f E) s ops)
       = map (fun p => (fst p, visible (snd p))) (run (set_raises g E) s ops).
  Proof.
    induction ops as [|o r IH]; intros s; [split; reflexivity|]. cbn [final run].
    destruct (step_visible_set_raises f s o) as [F1 F2]. destruct (step_visible_set_raises g s o) as [G1 G2].
    destruct (step (set_raises f E) s o) as [sf obf], (step (set_raises g E) s o) as [sg obg].
    cbn [fst snd] in *. rewrite F1, G1. destruct (IH (fst (step E s o))) as [I1 I2]. split; [exact I1|].
    cbn [map fst snd]. rewrite F2, G2, I2. reflexivity.
  Qed.
End Transparent.

(* without coherence of == and != the mechanisms do disagree (by design of the two filters):
   a value whose == and != both answer True *)
Definition incoherent_env : env :=
  {| e_eq := fun _ _ => CTrue; e_ne := fun _ _ => CTrue; e_validate := fun v => Some v; e_default := 0;
     e_kind := TNormal MEquality;
     e_handlers := [mkHandler 0 Otc false; mkHandler 1 Observe false]; e_store_original := false |}.
Lemma mechanisms_disagree_when_incoherent :
  wf incoherent_env = true /\
  map (strip) (calls_of 0 (all_calls (run incoherent_env None [Assign 1]))) = [(OVal 0, 1)] /\
  map (strip) (calls_of 1 (all_calls (run incoherent_env None [Assign 1]))) = [].
Proof. vm_compute. repeat split. Qed.

Lemma rejected_and_read_silent E : wf E = true -> forall s,
  (forall v, e_validate E v = None -> step E s (Assign v) = (s, mkObs TraitError s [] []))
  /\ o_calls (snd (step E s Read)) = [] /\ o_sink (snd (step E s Read)) = []
  /\ fst (step E s Read) = after_read E s.
Proof.
  intros Hw s. split; [intros v Hv; apply step_rejected; exact Hv|].
  destruct (step_read_silent E s) as [C S]. split; [exact C|split; [exact S|apply step_read_state]].
Qed.

Lemma transparent_and_routed E : wf E = true ->
  (forall f g ops s,
     final (set_raises f E) s ops = final (set_raises g E) s ops
     /\ map (fun p => (fst p, visible (snd p))) (run (set_raises f E) s ops)
        = map (fun p => (fst p, visible (snd p))) (run (set_raises g E) s ops))
  /\ (forall s o, o_sink (snd (step E s o))
                  = filter (fun c : call => existsb (fun h => (h_id h =? fst (fst c)) && h_raises h) (e_handlers E))
                           (o_calls (snd (step E s o)))).
Proof.
  intros Hw. split; [intros f g ops s; apply raising_transparent|intros s o; apply step_sink; exact Hw].
Qed.
