(* C02 — correspondence.  One case = configuration (comparison tables of the value pool as
   measured on the interpreter, validation table, default, trait kind / comparison mode,
   handler list) and the history of (operation, observation recorded from the implementation). *)
From Coq Require Import List Arith Bool PeanoNat ZArith.
From TV Require Import Common.Harness C02.Model C02.Law.
Import ListNotations.
Local Open Scope nat_scope.

Record config := mkConfig {
  c_eq : list (list cmp);            (* bool(pool[i] == pool[j]) *)
  c_ne : list (list cmp);            (* bool(pool[i] != pool[j]) *)
  c_validate : list (option val);    (* what the trait's validate does to pool[i] *)
  c_default : val;
  c_kind : tkind;
  c_handlers : list handler;
  c_store_original : bool
}.

Definition tbl (m : list (list cmp)) (a b : val) : cmp := nth b (nth a m []) CRaise.
Definition env_of (c : config) : env :=
  {| e_eq := tbl (c_eq c); e_ne := tbl (c_ne c);
     e_validate := fun v => nth v (c_validate c) None;
     e_default := c_default c; e_kind := c_kind c; e_handlers := c_handlers c;
     e_store_original := c_store_original c |}.

Definition case := (config * list (op * obs))%type.

(* codes: 1 outcome, 2 stored value, 3 handler calls (ids, old, new, ORDER), 4 exception sink *)
Definition obs_diff (m i : obs) : list Z :=
  chk 1 (outcome_eqb (o_out m) (o_out i))
  ++ chk 2 (opt_val_eqb (o_slot m) (o_slot i))
  ++ chk 3 (list_eqb call_eqb (o_calls m) (o_calls i))
  ++ chk 4 (list_eqb call_eqb (o_sink m) (o_sink i)).

(* the model is re-synchronised on the implementation's stored value after every step *)
Fixpoint corr_hist (E : env) (i : Z) (s : option val) (h : list (op * obs)) : list Z :=
  match h with
  | [] => []
  | (o, ob) :: r =>
      map (fun c => (100 * i + c)%Z) (obs_diff (snd (step E s o)) ob) ++ corr_hist E (i + 1)%Z (o_slot ob) r
  end.

Definition corr_codes (c : case) : list Z := let '(cfg, h) := c in corr_hist (env_of cfg) 0%Z None h.
Definition law_codes (c : case) : list Z := let '(cfg, h) := c in law_hist (env_of cfg) 0%Z None h.
