(* C02 — correspondence.  One case = configuration (comparison tables of the value pool as
   measured on the interpreter, validation table, default, trait kind / comparison mode,
   handler list) and the history of (operation, observation recorded from the implementation). *)
From Coq Require Import List Arith Bool PeanoNat ZArith.
From TV Require Import Common.Harness C02.Model C02.Law C02.Dyn.
Import ListNotations.
Local Open Scope nat_scope.

(* bool(d == p) / bool(d != p) for a freshly produced default d: against pool[j] on the right, pool[i] on the left,
   another fresh default, itself *)
Record fresh_tbl := mkFresh { f_row : list cmp; f_col : list cmp; f_other : cmp; f_self : cmp }.

Record config := mkConfig {
  c_eq : list (list cmp);            (* bool(pool[i] == pool[j]) *)
  c_ne : list (list cmp);            (* bool(pool[i] != pool[j]) *)
  c_validate : list (option val);    (* what the trait's validate does to pool[i] *)
  c_default : val;
  c_kind : tkind;
  c_handlers : list handler;         (* registered before the history starts, in notifier-list order *)
  c_store_original : bool;
  c_reacts : list (nat * reaction);  (* what handlers do to the notifier lists while they are being notified *)
  c_fresh : option (fresh_tbl * fresh_tbl)   (* Some (eq, ne): the default is produced afresh each time (identities 1000,
                                                1001, ... in order of appearance); how such a value compares, as measured *)
}.

Definition tbl (m : list (list cmp)) (a b : val) : cmp := nth b (nth a m []) CRaise.
Definition with_fresh_cmp (ft : option fresh_tbl) (t : val -> val -> cmp) (a b : val) : cmp :=
  match ft with
  | None => t a b
  | Some f => if 1000 <=? a then (if 1000 <=? b then (if a =? b then f_self f else f_other f) else nth b (f_row f) CRaise)
              else if 1000 <=? b then nth a (f_col f) CRaise else t a b
  end.
Definition env_of (c : config) : env :=
  {| e_eq := with_fresh_cmp (option_map fst (c_fresh c)) (tbl (c_eq c));
     e_ne := with_fresh_cmp (option_map snd (c_fresh c)) (tbl (c_ne c));
     e_validate := fun v => nth v (c_validate c) None;
     e_default := c_default c; e_kind := c_kind c; e_handlers := c_handlers c;
     e_store_original := c_store_original c |}.

Definition case := (config * list (dop * obs))%type.

(* codes: 1 outcome, 2 stored value, 3 handler calls (ids, old, new, ORDER), 4 exception sink *)
Definition obs_diff (m i : obs) : list Z :=
  chk 1 (outcome_eqb (o_out m) (o_out i))
  ++ chk 2 (opt_val_eqb (o_slot m) (o_slot i))
  ++ chk 3 (list_eqb call_eqb (o_calls m) (o_calls i))
  ++ chk 4 (list_eqb call_eqb (o_sink m) (o_sink i)).

(* the model (Dyn.dstep: handlers may be registered / removed in the middle, or remove themselves during dispatch) is
   re-synchronised after every step on the implementation's stored value and on the self-unregistrations implied by the
   implementation's own calls (Dyn.dnext) *)
Fixpoint corr_hist (E : env) (once : list (nat * reaction)) (i : Z) (st : dstate) (h : list (dop * obs)) : list Z :=
  match h with
  | [] => []
  | (o, ob) :: r =>
      map (fun c => (100 * i + c)%Z) (obs_diff (snd (dstep E once st o)) ob)
      ++ corr_hist E once (i + 1)%Z (dnext E once st o ob) r
  end.

Definition start (cfg : config) : dstate :=
  with_fresh (init (env_of cfg)) (match c_fresh cfg with Some _ => Some 1000 | None => None end).

Definition corr_codes (c : case) : list Z :=
  let '(cfg, h) := c in corr_hist (env_of cfg) (c_reacts cfg) 0%Z (start cfg) h.
Definition law_codes (c : case) : list Z :=
  let '(cfg, h) := c in dlaw_hist (env_of cfg) (c_reacts cfg) 0%Z (start cfg) h.
