(* C02 — lemmas for handlers that come and go (Dyn.v), derived from the static development. *)
From Coq Require Import List Arith Bool PeanoNat ZArith Lia Permutation.
From TV Require Import Common.Harness C02.Model C02.Law C02.Proofs C02.Dyn.
Import ListNotations.
Local Open Scope nat_scope.

Lemma nodupb_iff l : nodupb l = true <-> NoDup l.
Proof.
  induction l as [|x l IH]; cbn; [split; [constructor|reflexivity]|].
  rewrite andb_true_iff, negb_true_iff, IH. split.
  - intros [H1 H2]. constructor; [|exact H2]. intros Hin.
    assert (existsb (Nat.eqb x) l = true) by (apply existsb_exists; exists x; split; [exact Hin|apply Nat.eqb_refl]). congruence.
  - intros H. inversion H as [|? ? Hn Hd]; subst. split; [|exact Hd].
    apply not_true_is_false. intros T. apply existsb_exists in T. destruct T as (y & Hy & Ey). apply Nat.eqb_eq in Ey. subst. contradiction.
Qed.

Definition wfl (l : list handler) : Prop := NoDup (map h_id l).
Definition wfd (st : dstate) : Prop := wfl (live st).

Lemma wfl_filter (P : handler -> bool) l : wfl l -> wfl (filter P l).
Proof.
  unfold wfl. induction l as [|x l IH]; cbn; intros H; [exact H|]. inversion H as [|? ? Hn Hd]; subst.
  destruct (P x); cbn; [|apply IH; exact Hd]. constructor; [|apply IH; exact Hd].
  intros Hin. apply Hn. apply in_map_iff in Hin. destruct Hin as (y & Ey & Hy). apply filter_In in Hy.
  apply in_map_iff. exists y. tauto.
Qed.
Lemma drop_ids_app ids l1 l2 : drop_ids ids (l1 ++ l2) = drop_ids ids l1 ++ drop_ids ids l2.
Proof. apply filter_app. Qed.

Section DynProofs.
  Variable E : env.
  Variable reacts : list (nat * reaction).
  Notation dstep := (dstep E reacts).
  Notation drun := (drun E reacts).
  Notation dnext := (dnext E reacts).
  Notation settle := (settle reacts).

  Lemma has_id_false id l : has_id id l = false -> ~ In id (map h_id l).
  Proof.
    intros H Hin. apply in_map_iff in Hin. destruct Hin as (h & Eh & Hh).
    assert (has_id id l = true) by (apply existsb_exists; exists h; split; [exact Hh|apply Nat.eqb_eq; exact Eh]). congruence.
  Qed.

  Lemma wfd_register st h : wfd st -> wfd (register st h).
  Proof.
    unfold wfd, register. intros H. destruct (has_id (h_id h) (live st)) eqn:Hi; [exact H|].
    apply has_id_false in Hi. unfold live, wfl in *.
    destruct (is_obj h); cbn [d_tl d_ol].
    - rewrite app_assoc. rewrite map_app. cbn. apply (Permutation_NoDup (l := h_id h :: map h_id (d_tl st ++ d_ol st))).
      + apply Permutation_cons_append.
      + constructor; assumption.
    - rewrite <- app_assoc. cbn. rewrite map_app. cbn.
      apply (Permutation_NoDup (l := h_id h :: map h_id (d_tl st ++ d_ol st))).
      + rewrite map_app. apply Permutation_middle.
      + constructor; assumption.
  Qed.
  Lemma wfd_unregister st id : wfd st -> wfd (unregister st id).
  Proof. unfold wfd, unregister, live. cbn [d_tl d_ol]. rewrite <- drop_ids_app. apply wfl_filter. Qed.
  Lemma wfd_react st r : wfd st -> wfd (react st r).
  Proof. destruct r; [apply wfd_unregister|apply wfd_register]. Qed.
  Lemma wfd_fold rs : forall st, wfd st -> wfd (fold_left react rs st).
  Proof. induction rs as [|r rs IH]; intros st H; [exact H|]. cbn. apply IH. apply wfd_react. exact H. Qed.
  Lemma wfd_settle st s' calls : wfd st -> wfd (settle st s' calls).
  Proof. intros H. unfold Dyn.settle. apply wfd_fold. exact H. Qed.

  Lemma wf_with st : wfd st -> wf (env_at E st) = true.
  Proof. intros H. unfold wf. cbn [e_handlers env_at]. apply nodupb_iff. exact H. Qed.

  Lemma live_after_quiet o st : live (after_quiet_assign E o st) = live st.
  Proof. destruct o; reflexivity. Qed.
  Lemma dstep_wfd st o : wfd st -> wfd (fst (dstep st o)).
  Proof.
    intros H. destruct o as [op|h|id|on|m]; cbn [Dyn.dstep fst].
    - destruct (if d_quiet st then _ else _) as [s' ob]. cbn [fst]. unfold wfd. rewrite live_after_quiet. apply wfd_settle. exact H.
    - apply wfd_register. exact H.
    - apply wfd_unregister. exact H.
    - exact H.
    - exact H.
  Qed.

  Lemma quiet_op_slot st op : o_slot (snd (quiet_op E st op)) = fst (quiet_op E st op) /\ o_calls (snd (quiet_op E st op)) = [].
  Proof.
    unfold quiet_op. destruct op as [v| | |v'| |];
      try (pose proof (step_slot (env_at E st) (d_slot st) (Assign v)) as S;
           destruct (step (env_at E st) (d_slot st) (Assign v)) as [s' ob]; cbn in *; split; [exact S|reflexivity]);
      try (pose proof (step_slot (env_at E st) (d_slot st) Read) as S;
           destruct (step (env_at E st) (d_slot st) Read) as [s' ob]; cbn in *; split; [exact S|reflexivity]);
      try (pose proof (step_slot (env_at E st) (d_slot st) (QuietAssign v')) as S;
           destruct (step (env_at E st) (d_slot st) (QuietAssign v')) as [s' ob]; cbn in *; split; [exact S|reflexivity]);
      try (pose proof (step_slot (env_at E st) (d_slot st) Other) as S;
           destruct (step (env_at E st) (d_slot st) Other) as [s' ob]; cbn in *; split; [exact S|reflexivity]);
      try (pose proof (step_slot (env_at E st) (d_slot st) Retrait) as S;
           destruct (step (env_at E st) (d_slot st) Retrait) as [s' ob]; cbn in *; split; [exact S|reflexivity]).
    destruct (d_slot st); [destruct (d_kind st)|]; split; reflexivity.
  Qed.

  (* one operation satisfies the law of the handlers live at that moment, and the law's own threading of the live
     lists (from the observed calls) agrees with the model *)
  Lemma dstep_law st o : wfd st ->
    dlaw_step E reacts st o (snd (dstep st o)) = [] /\ dnext st o (snd (dstep st o)) = fst (dstep st o).
  Proof.
    intros H. destruct o as [op|h|id|on|m]; cbn [Dyn.dstep Dyn.dnext dlaw_step fst snd]; [|split; reflexivity..].
    destruct (d_quiet st) eqn:Q.
    { destruct (quiet_op_slot st op) as [S C]. destruct (quiet_op E st op) as [s' ob]. cbn [fst snd] in *. rewrite S, C. split; reflexivity. }
    destruct (empty_lists_delete st op) eqn:Sp.
    - cbn [fst snd]. unfold empty_lists_delete in Sp. destruct op; try discriminate. split; reflexivity.
    - pose proof (step_law (env_at E st) (wf_with st H) (d_slot st) op) as L.
      pose proof (step_slot (env_at E st) (d_slot st) op) as S.
      assert (forall c, op = Delete -> In c (o_calls (snd (step (env_at E st) (d_slot st) op))) ->
                        o_slot (snd (step (env_at E st) (d_slot st) op)) = Some (snd c)) as D
        by (intros c -> Hc; apply step_delete_stored; exact Hc).
      destruct (step (env_at E st) (d_slot st) op) as [s' ob]. cbn [fst snd] in *. rewrite L, S. split; [|reflexivity].
      destruct op; try reflexivity. cbn [app].
      match goal with |- chk 6 (forallb ?f ?l) = [] => assert (forallb f l = true) as -> end; [|reflexivity].
      apply forallb_forall. intros c Hc. pose proof (D c eq_refl Hc) as Dc. rewrite S in Dc. rewrite Dc. cbn. apply Nat.eqb_refl.
  Qed.

  Theorem drun_law ops : forall st i, wfd st -> dlaw_hist E reacts i st (drun st ops) = [].
  Proof.
    induction ops as [|o r IH]; intros st i H; [reflexivity|]. cbn [Dyn.drun].
    destruct (dstep_law st o H) as [L N]. pose proof (dstep_wfd st o H) as W.
    destruct (dstep st o) as [st' ob]. cbn [fst snd dlaw_hist] in *. rewrite L, N. cbn. apply IH. exact W.
  Qed.

  (* ---------- calls of one handler = the changes while it is registered ---------- *)
  (* what handler `id` must receive for one operation in state st: nothing if it is not registered at that moment,
     otherwise what the static specification (Proofs.spec_calls, which never mentions notifiers) says for this one
     operation; (un)registration itself calls nobody *)
  Definition dspec_step (id : nat) (st : dstate) (o : dop) : list call :=
    match o with
    | DOp op => if d_quiet st then []            (* notification switched off *)
                else match find_id id (live st) with
                     | Some h => spec_calls (env_at E st) h (d_slot st) [op]
                     | None => []
                     end
    | _ => []
    end.
  Fixpoint dspec (id : nat) (st : dstate) (ops : list dop) : list call :=
    match ops with
    | [] => []
    | o :: r => dspec_step id st o ++ dspec id (fst (dstep st o)) r
    end.
  Definition dall_calls (h : list (dop * obs)) : list call := flat_map (fun p => o_calls (snd p)) h.

  Lemma find_id_some id l h : find_id id l = Some h -> In h l /\ h_id h = id.
  Proof. intros H. apply find_some in H. destruct H as [Hin He]. apply Nat.eqb_eq in He. tauto. Qed.
  Lemma find_id_none id l : find_id id l = None -> forall h, In h l -> (h_id h =? id) = false.
  Proof. intros H h Hin. apply (find_none _ _ H h Hin). Qed.

  Lemma calls_of_nobody id (E' : env) s op : (forall h, In h (e_handlers E') -> (h_id h =? id) = false) ->
    calls_of id (o_calls (snd (step E' s op))) = [].
  Proof.
    intros Hno.
    assert (forall old new, calls_of id (fst (notify E' old new)) = []) as Hn.
    { intros old new. unfold notify. cbn [fst]. unfold calls_of.
      induction (e_handlers E') as [|x l IHl]; [reflexivity|]. cbn [filter].
      assert ((h_id x =? id) = false) as Hx by (apply Hno; left; reflexivity).
      destruct (accepted E' x old new); cbn; [rewrite Hx|]; apply IHl; intros h Hh; apply Hno; right; exact Hh. }
    unfold step. destruct op as [v| | |v'| |].
    - destruct (e_validate E' v) as [w|]; [|reflexivity]. destruct (e_kind E') as [m|].
      + destruct (is_nil (e_handlers E')); [reflexivity|].
        destruct (match m with MNone => true | _ => negb (readable E' s =? new_value E' v w) end); [|reflexivity].
        pose proof (Hn (OVal (readable E' s)) (new_value E' v w)) as N.
        destruct (notify E' (OVal (readable E' s)) (new_value E' v w)). exact N.
      + pose proof (Hn OUndefined w) as N. destruct (notify E' OUndefined w). exact N.
    - destruct (e_kind E'); [|reflexivity]. destruct s; [reflexivity|].
      pose proof (Hn OUninitialized (e_default E')) as N. destruct (notify E' OUninitialized (e_default E')). exact N.
    - destruct (e_kind E') as [m|]; [|reflexivity]. destruct s as [old|]; [|reflexivity].
      destruct (is_nil (e_handlers E')); [reflexivity|].
      pose proof (Hn OUninitialized (e_default E')) as N0. destruct (notify E' OUninitialized (e_default E')) as [c0 k0].
      destruct (match m with MNone => true | _ => negb (old =? e_default E') end).
      + pose proof (Hn (OVal old) (e_default E')) as N1. destruct (notify E' (OVal old) (e_default E')) as [c1 k1].
        cbn in *. unfold calls_of in *. rewrite filter_app. exact (f_equal2 (@app _) N0 N1).
      + cbn in *. rewrite app_nil_r. exact N0.
    - destruct (e_validate E' v'); [destruct (e_kind E')|]; reflexivity.
    - reflexivity.
    - reflexivity.
  Qed.

  Lemma dstep_calls id st o : wfd st -> calls_of id (o_calls (snd (dstep st o))) = dspec_step id st o.
  Proof.
    intros H. destruct o as [op|h|k|on|m]; [|reflexivity..]. cbn [Dyn.dstep dspec_step].
    destruct (d_quiet st) eqn:Q.
    { destruct (quiet_op_slot st op) as [_ C]. destruct (quiet_op E st op) as [s' ob]. cbn [fst snd] in *. rewrite C. reflexivity. }
    destruct (empty_lists_delete st op) eqn:Sp.
    - cbn [fst snd]. unfold empty_lists_delete in Sp. destruct op; try discriminate.
      destruct (d_slot st); [|discriminate]. destruct (d_kind st); [|discriminate].
      apply andb_true_iff in Sp. destruct Sp as [Hnil _]. destruct (live st); [reflexivity|discriminate].
    - destruct (find_id id (live st)) as [h|] eqn:F.
      + destruct (find_id_some _ _ _ F) as [Hin <-].
        pose proof (calls_exact (env_at E st) (wf_with st H) h Hin [op] (d_slot st)) as C.
        cbn [run] in C. destruct (step (env_at E st) (d_slot st) op) as [s' ob].
        cbn [all_calls flat_map snd] in C. rewrite app_nil_r in C. exact C.
      + pose proof (calls_of_nobody id (env_at E st) (d_slot st) op (find_id_none _ _ F)) as C.
        destruct (step (env_at E st) (d_slot st) op) as [s' ob]. exact C.
  Qed.

  Theorem dcalls_exact id ops : forall st, wfd st -> calls_of id (dall_calls (drun st ops)) = dspec id st ops.
  Proof.
    induction ops as [|o r IH]; intros st H; [reflexivity|]. cbn [Dyn.drun dspec].
    pose proof (dstep_calls id st o H) as C. pose proof (dstep_wfd st o H) as W.
    destruct (dstep st o) as [st' ob]. cbn [dall_calls flat_map fst snd] in *.
    fold (dall_calls (drun st' r)). rewrite calls_of_app, C. f_equal. apply IH. exact W.
  Qed.

  (* ---------- what the reactions do to the live lists ---------- *)
  Lemma live_register_in st h x : In x (live st) -> In x (live (register st h)).
  Proof.
    unfold register. destruct (has_id (h_id h) (live st)); [tauto|]. unfold live. destruct (is_obj h); cbn [d_tl d_ol];
      intros Hx; apply in_app_or in Hx; apply in_or_app; destruct Hx as [Hx|Hx]; auto; [right|left]; apply in_or_app; left; exact Hx.
  Qed.
  Lemma live_unregister_in st v x : In x (live st) -> h_id x <> v -> In x (live (unregister st v)).
  Proof.
    unfold unregister, live. cbn [d_tl d_ol]. rewrite <- drop_ids_app. intros Hx Hn. apply filter_In. split; [exact Hx|].
    cbn. rewrite orb_false_r. apply negb_true_iff. apply Nat.eqb_neq. exact Hn.
  Qed.
  Lemma unregister_gone st v : has_id v (live (unregister st v)) = false.
  Proof.
    unfold unregister, live. cbn [d_tl d_ol]. rewrite <- drop_ids_app. apply not_true_is_false. intros T.
    apply existsb_exists in T. destruct T as (h & Hh & Eh). apply filter_In in Hh. destruct Hh as [_ Hn].
    cbn in Hn. rewrite orb_false_r in Hn. apply negb_true_iff in Hn. apply Nat.eqb_eq in Eh. rewrite Eh, Nat.eqb_refl in Hn. discriminate.
  Qed.
  Lemma absent_unregister st v w : has_id v (live st) = false -> has_id v (live (unregister st w)) = false.
  Proof.
    unfold unregister, live. cbn [d_tl d_ol]. rewrite <- drop_ids_app. intros H. apply not_true_is_false. intros T.
    apply existsb_exists in T. destruct T as (h & Hh & Eh). apply filter_In in Hh. destruct Hh as [Hh _].
    assert (has_id v (d_tl st ++ d_ol st) = true) by (apply existsb_exists; exists h; tauto). congruence.
  Qed.
  Lemma absent_register st v h : has_id v (live st) = false -> h_id h <> v -> has_id v (live (register st h)) = false.
  Proof.
    intros H Hn. unfold register. destruct (has_id (h_id h) (live st)); [exact H|].
    unfold live, has_id in *. destruct (is_obj h); cbn [d_tl d_ol]; rewrite ?existsb_app in *; cbn;
      apply orb_false_iff in H; destruct H as [H1 H2]; rewrite ?H1, ?H2; cbn;
      assert ((h_id h =? v) = false) as -> by (apply Nat.eqb_neq; exact Hn); cbn; rewrite ?orb_false_r; auto.
  Qed.

  (* a handler stays registered unless a handler that was CALLED during this operation removes it *)
  Lemma fold_keeps rs : forall st x, In x (live st) -> (forall v, In (RKill v) rs -> v <> h_id x) ->
    In x (live (fold_left react rs st)).
  Proof.
    induction rs as [|r rs IH]; intros st x Hx Hk; [exact Hx|]. cbn. apply IH.
    - destruct r as [v|h]; cbn; [apply live_unregister_in; [exact Hx|]|apply live_register_in; exact Hx].
      intros Ev. apply (Hk v); [left; reflexivity|auto].
    - intros v Hv. apply Hk. right. exact Hv.
  Qed.
  (* a handler removed by a called handler (itself included) is gone afterwards, unless a called handler registers
     a handler with that id again *)
  Lemma fold_gone rs v : In (RKill v) rs -> (forall h, In (RSpawn h) rs -> h_id h <> v) ->
    forall st, has_id v (live (fold_left react rs st)) = false.
  Proof.
    intros Hk Hs.
    assert (forall rs', (forall h, In (RSpawn h) rs' -> h_id h <> v) -> forall st, has_id v (live st) = false ->
              has_id v (live (fold_left react rs' st)) = false) as Habs.
    { induction rs' as [|r rs' IH]; intros Hs' st Ha; [exact Ha|]. cbn. apply IH; [intros h Hh; apply Hs'; right; exact Hh|].
      destruct r as [w|h]; cbn; [apply absent_unregister; exact Ha|apply absent_register; [exact Ha|apply Hs'; left; reflexivity]]. }
    induction rs as [|r rs IH]; intros st; [destruct Hk|]. cbn. destruct Hk as [->|Hk].
    - cbn. apply Habs; [intros h Hh; apply Hs; right; exact Hh|apply unregister_gone].
    - apply IH; [exact Hk|intros h Hh; apply Hs; right; exact Hh].
  Qed.

  Lemma triggered_in calls k r : In (k, r) reacts -> calls_of k calls <> [] -> In r (triggered reacts calls).
  Proof.
    intros Hr Hc. destruct (calls_of k calls) as [|c l] eqn:Ec; [congruence|].
    assert (In c (calls_of k calls)) as Hi by (rewrite Ec; left; reflexivity).
    apply filter_In in Hi. destruct Hi as [Hi Ei]. apply Nat.eqb_eq in Ei.
    unfold triggered. apply in_flat_map. exists c. split; [exact Hi|]. apply in_map_iff. exists (k, r). split; [reflexivity|].
    apply filter_In. split; [exact Hr|]. cbn. apply Nat.eqb_eq. symmetry. exact Ei.
  Qed.
  Lemma triggered_from calls r : In r (triggered reacts calls) -> exists k, In (k, r) reacts /\ calls_of k calls <> [].
  Proof.
    unfold triggered. intros H. apply in_flat_map in H. destruct H as (c & Hc & Hr). apply in_map_iff in Hr.
    destruct Hr as ([k r'] & Er & Hf). cbn in Er. subst r'. apply filter_In in Hf. destruct Hf as [Hin Ek]. cbn in Ek.
    apply Nat.eqb_eq in Ek. exists k. split; [exact Hin|]. intros Hn.
    assert (In c (calls_of k calls)) as Hi by (apply filter_In; split; [exact Hc|apply Nat.eqb_eq; congruence]).
    rewrite Hn in Hi. destruct Hi.
  Qed.

  (* snapshot semantics, stated on one operation: (a) a handler removed by a handler that was called (itself or another
     one) is gone AFTER the operation — and was still served during it, by calls_are_exactly_changes_while_registered;
     (b) every handler that no called handler removes stays registered *)
  Lemma reactions_local st op :
    (forall k v, In (k, RKill v) reacts -> calls_of k (o_calls (snd (dstep st (DOp op)))) <> [] ->
                 (forall k' h, In (k', RSpawn h) reacts -> h_id h <> v) ->
                 has_id v (live (fst (dstep st (DOp op)))) = false)
    /\ (forall x, In x (live st) ->
                  (forall k, In (k, RKill (h_id x)) reacts -> calls_of k (o_calls (snd (dstep st (DOp op)))) = []) ->
                  In x (live (fst (dstep st (DOp op))))).
  Proof.
    cbn [Dyn.dstep]. destruct (if d_quiet st then _ else _) as [s' ob]. cbn [fst snd]. rewrite live_after_quiet. split.
    - intros k v Hr Hc Hs. unfold Dyn.settle. apply fold_gone.
      + apply (triggered_in _ k); assumption.
      + intros h Hh. apply triggered_from in Hh. destruct Hh as (k' & Hk' & _). apply (Hs k' h Hk').
    - intros x Hx Hk. unfold Dyn.settle. apply fold_keeps; [exact Hx|].
      intros v Hv Ev. subst v. apply triggered_from in Hv. destruct Hv as (k & Hk1 & Hk2). apply Hk2. apply Hk. exact Hk1.
  Qed.
  (* while notification is switched off nobody is called and nothing reaches the exception sink; afterwards
     (DNotify true, or the end of a quiet trait_set) the theorems above apply again to the handlers then live *)
  Lemma quiet_silent st op : d_quiet st = true ->
    o_calls (snd (dstep st (DOp op))) = [] /\ o_sink (snd (dstep st (DOp op))) = []
    /\ live (fst (dstep st (DOp op))) = live st.
  Proof.
    intros Q. cbn [Dyn.dstep]. rewrite Q. destruct (quiet_op_slot st op) as [_ C].
    assert (o_sink (snd (quiet_op E st op)) = []) as K.
    { unfold quiet_op. destruct op; try (destruct (step _ _ _); reflexivity).
      destruct (d_slot st); [destruct (d_kind st)|]; reflexivity. }
    destruct (quiet_op E st op) as [s' ob]. cbn [fst snd] in *. rewrite C. split; [reflexivity|]. split; [exact K|].
    rewrite live_after_quiet. reflexivity.
  Qed.
  (* ---------- all mechanisms agree, for two handlers registered over the same stretches of the history ---------- *)
  Fixpoint same_presence (id1 id2 : nat) (st : dstate) (ops : list dop) : Prop :=
    match ops with
    | [] => True
    | o :: r => (find_id id1 (live st) = None <-> find_id id2 (live st) = None)
                /\ same_presence id1 id2 (fst (dstep st o)) r
    end.

  Lemma dspec_agree id1 id2 : coherent_eq E -> forall ops st, same_presence id1 id2 st ops ->
    map strip (dspec id1 st ops) = map strip (dspec id2 st ops).
  Proof.
    intros Hc. induction ops as [|o r IH]; intros st Hp; [reflexivity|]. destruct Hp as [Hp Hr].
    cbn [dspec]. rewrite !map_app, (IH _ Hr). f_equal.
    destruct o as [op|h|k|on|m]; try reflexivity. cbn [dspec_step]. destruct (d_quiet st); [reflexivity|].
    destruct (find_id id1 (live st)) as [h1|] eqn:F1, (find_id id2 (live st)) as [h2|] eqn:F2.
    - apply (spec_calls_agree (env_at E st) h1 h2 Hc [op] (d_slot st)).
    - destruct Hp as [_ Hp]. specialize (Hp eq_refl). discriminate.
    - destruct Hp as [Hp _]. specialize (Hp eq_refl). discriminate.
    - reflexivity.
  Qed.

  Theorem dmechanisms_agree id1 id2 ops st : wfd st -> coherent_eq E -> same_presence id1 id2 st ops ->
    map strip (calls_of id1 (dall_calls (drun st ops))) = map strip (calls_of id2 (dall_calls (drun st ops))).
  Proof. intros Hw Hc Hp. rewrite !dcalls_exact by exact Hw. apply dspec_agree; assumption. Qed.
End DynProofs.

(* ================= which handlers raise does not matter, with handlers coming and going ================= *)
Definition setr (f : nat -> bool) (h : handler) : handler := mkHandler (h_id h) (h_mech h) (f (h_id h)).
Definition setr_state (f : nat -> bool) (st : dstate) : dstate :=
  mkD (d_slot st) (map (setr f) (d_tl st)) (map (setr f) (d_ol st)) (d_alloc st) (d_quiet st) (d_kind st) (d_fresh st).
Definition setr_reaction (f : nat -> bool) (r : reaction) : reaction :=
  match r with RKill v => RKill v | RSpawn h => RSpawn (setr f h) end.
Definition setr_reacts (f : nat -> bool) (rs : list (nat * reaction)) : list (nat * reaction) :=
  map (fun p => (fst p, setr_reaction f (snd p))) rs.
Definition setr_op (f : nat -> bool) (o : dop) : dop :=
  match o with DRegister h => DRegister (setr f h) | _ => o end.

Section DynTransparent.
  Variable E : env.
  Variable reacts : list (nat * reaction).
  Variable f : nat -> bool.
  Notation Ef := (set_raises f E).
  Notation Rf := (setr_reacts f reacts).

  Lemma live_setr st : live (setr_state f st) = map (setr f) (live st).
  Proof. unfold live. cbn. rewrite map_app. reflexivity. Qed.
  Lemma has_id_setr id l : has_id id (map (setr f) l) = has_id id l.
  Proof. unfold has_id. induction l as [|x l IH]; cbn; [reflexivity|]. rewrite IH. reflexivity. Qed.
  Lemma drop_ids_setr ids l : drop_ids ids (map (setr f) l) = map (setr f) (drop_ids ids l).
  Proof.
    unfold drop_ids. induction l as [|x l IH]; cbn; [reflexivity|].
    destruct (existsb (Nat.eqb (h_id x)) ids); cbn; rewrite IH; reflexivity.
  Qed.
  Lemma register_setr st h : register (setr_state f st) (setr f h) = setr_state f (register st h).
  Proof.
    unfold register. rewrite live_setr, has_id_setr. cbn [h_id setr]. destruct (has_id (h_id h) (live st)); [reflexivity|].
    unfold is_obj. cbn [h_mech setr]. destruct (h_mech h); unfold setr_state; cbn; rewrite ?map_app; reflexivity.
  Qed.
  Lemma unregister_setr st v : unregister (setr_state f st) v = setr_state f (unregister st v).
  Proof. unfold unregister, setr_state. cbn [d_slot d_tl d_ol d_alloc d_quiet]. rewrite !drop_ids_setr. reflexivity. Qed.
  Lemma react_setr st r : react (setr_state f st) (setr_reaction f r) = setr_state f (react st r).
  Proof. destruct r; [apply unregister_setr|apply register_setr]. Qed.
  Lemma fold_setr rs : forall st, fold_left react (map (setr_reaction f) rs) (setr_state f st) = setr_state f (fold_left react rs st).
  Proof. induction rs as [|r rs IH]; intros st; [reflexivity|]. cbn. rewrite react_setr. apply IH. Qed.
  Lemma filter_setr (k : nat) (rs : list (nat * reaction)) :
    map snd (filter (fun p : nat * reaction => fst p =? k) (setr_reacts f rs))
    = map (setr_reaction f) (map snd (filter (fun p : nat * reaction => fst p =? k) rs)).
  Proof.
    unfold setr_reacts. induction rs as [|p rs IHr]; [reflexivity|]. cbn. destruct (fst p =? k); cbn; rewrite IHr; reflexivity.
  Qed.
  Lemma triggered_setr calls : triggered Rf calls = map (setr_reaction f) (triggered reacts calls).
  Proof.
    unfold triggered. induction calls as [|c l IH]; [reflexivity|]. cbn [flat_map]. rewrite map_app, IH, filter_setr. reflexivity.
  Qed.
  Lemma settle_setr st s' calls : settle Rf (setr_state f st) s' calls = setr_state f (settle reacts st s' calls).
  Proof. unfold settle. rewrite triggered_setr. apply (fold_setr _ (mkD s' (d_tl st) (d_ol st) (d_alloc st) (d_quiet st) (d_kind st) (next_fresh st s' calls))). Qed.

  Lemma env_at_setr st : env_at Ef (setr_state f st) = set_raises f (env_at E st).
  Proof. unfold env_at, set_raises. cbn [e_eq e_ne e_validate e_default e_kind e_handlers e_store_original d_kind setr_state].
         rewrite live_setr. reflexivity. Qed.
  Lemma is_nil_map {A B} (g : A -> B) l : is_nil (map g l) = is_nil l.
  Proof. destruct l; reflexivity. Qed.

  Lemma after_quiet_setr o st : after_quiet_assign Ef o (setr_state f st) = setr_state f (after_quiet_assign E o st).
  Proof. destruct o; reflexivity. Qed.

  (* one operation: the states stay related and everything but the sink is the same *)
  Lemma dstep_setr st o :
    fst (dstep Ef Rf (setr_state f st) (setr_op f o)) = setr_state f (fst (dstep E reacts st o))
    /\ visible (snd (dstep Ef Rf (setr_state f st) (setr_op f o))) = visible (snd (dstep E reacts st o)).
  Proof.
    destruct o as [op|h|id|on|m]; cbn [setr_op dstep fst snd].
    - assert (d_quiet (setr_state f st) = d_quiet st) as -> by reflexivity.
      assert (d_slot (setr_state f st) = d_slot st) as Hsl by reflexivity.
      destruct (d_quiet st).
      + (* switched off *)
        unfold quiet_op. rewrite env_at_setr, Hsl. assert (d_kind (setr_state f st) = d_kind st) as -> by reflexivity.
        destruct op as [v| | |v'| |];
          try (match goal with |- context [step (set_raises f ?E') ?s ?o] =>
                 destruct (step_visible_set_raises E' f s o) as [F V];
                 destruct (step (set_raises f E') s o) as [s1 ob1], (step E' s o) as [s2 ob2] end;
               cbn [fst snd] in *; subst s1; unfold visible in V; inversion V as [[V1 V2 V3]];
               cbn [o_calls fst snd]; rewrite settle_setr, after_quiet_setr; split; [reflexivity|];
               unfold visible; cbn; rewrite V1, V2; reflexivity).
        destruct (d_slot st); [destruct (d_kind st)|]; cbn [fst snd o_calls silent];
          rewrite settle_setr, after_quiet_setr; split; reflexivity.
      + assert (empty_lists_delete (setr_state f st) op = empty_lists_delete st op) as ->.
        { unfold empty_lists_delete. rewrite live_setr, is_nil_map. reflexivity. }
        destruct (empty_lists_delete st op).
        * cbn [fst snd o_calls silent]. rewrite settle_setr, after_quiet_setr. split; reflexivity.
        * rewrite env_at_setr, Hsl.
          destruct (step_visible_set_raises (env_at E st) f (d_slot st) op) as [F V].
          destruct (step (set_raises f (env_at E st)) (d_slot st) op) as [s1 ob1],
                   (step (env_at E st) (d_slot st) op) as [s2 ob2].
          cbn [fst snd] in *. subst s1. unfold visible in V. inversion V as [[V1 V2 V3]]. rewrite V3.
          rewrite settle_setr, after_quiet_setr. split; [reflexivity|]. unfold visible. rewrite V1, V2, V3. reflexivity.
    - rewrite register_setr. split; reflexivity.
    - rewrite unregister_setr. split; reflexivity.
    - split; reflexivity.
    - split; reflexivity.
  Qed.

  Lemma drun_setr ops : forall st,
    map (fun p => visible (snd p)) (drun Ef Rf (setr_state f st) (map (setr_op f) ops))
    = map (fun p => visible (snd p)) (drun E reacts st ops).
  Proof.
    induction ops as [|o r IH]; intros st; [reflexivity|]. cbn [map drun].
    destruct (dstep_setr st o) as [F V].
    destruct (dstep Ef Rf (setr_state f st) (setr_op f o)) as [s1 ob1], (dstep E reacts st o) as [s2 ob2].
    cbn [fst snd map] in *. subst s1. rewrite V. f_equal. apply IH.
  Qed.
End DynTransparent.

(* two choices of raising handlers give the same outcomes, stored values and call lists at every step *)
Lemma dyn_raising_transparent E reacts f g ops st :
  map (fun p => visible (snd p)) (drun (set_raises f E) (setr_reacts f reacts) (setr_state f st) (map (setr_op f) ops))
  = map (fun p => visible (snd p)) (drun (set_raises g E) (setr_reacts g reacts) (setr_state g st) (map (setr_op g) ops)).
Proof. rewrite !drun_setr. reflexivity. Qed.
