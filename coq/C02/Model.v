(* C02 — executable model of trait change notification.
   Two layers, as in the code:
   (1) the C layer (ctraits.c setattr_trait l.2376-2560, setattr_event l.2335-2367,
       getattr_trait l.1954-2012, call_notifiers l.2259-2329) decides whether a RAW
       notification (object, name, old, new) is sent to the concatenated notifier list;
   (2) every wrapper filters the raw notification itself before calling the user's handler:
       trait_notifiers._change_accepted (l.639-670; static _name_changed/_name_fired/
       _anytrait_changed wrappers l.327-359 and on_trait_change wrappers l.540-563) and
       observation._has_traits_helpers.ctrait_prevent_event (l.118-143; observe), and routes a
       handler exception to the notification exception handler (the "sink") without
       re-raising it (push_exception_handler(reraise_exceptions=False)).

   Values are identities (naturals) of Python objects; bool(a == b) and bool(a != b) are
   ARBITRARY three-valued functions of the environment (true / false / raises), so NaN,
   equal-but-not-identical objects, raising and incoherent comparisons are all covered.
   Definitions only. *)
From Coq Require Import List Arith Bool PeanoNat.
Import ListNotations.

Definition val := nat.
Inductive cmp := CTrue | CFalse | CRaise.
(* the `old` argument of a notification *)
Inductive oldv := OVal (v : val) | OUninitialized | OUndefined.

Inductive mode := MNone | MIdentity | MEquality.       (* ComparisonMode *)
Inductive tkind := TNormal (m : mode) | TEvent.
Inductive mech := StaticAny | StaticChanged | StaticFired | Otc | OtcAny | Observe.
(* Otc = on_trait_change(h, name) on the trait's notifier list; OtcAny = on_trait_change(h) on the object's list *)
Record handler := mkHandler { h_id : nat; h_mech : mech; h_raises : bool }.

Record env := mkEnv {
  e_eq : val -> val -> cmp;          (* bool(a == b) *)
  e_ne : val -> val -> cmp;          (* bool(a != b) *)
  e_validate : val -> option val;    (* None = TraitError, Some w = validated (possibly converted) value *)
  e_default : val;                   (* the trait's constant default value *)
  e_kind : tkind;
  e_handlers : list handler;         (* trait notifiers then object notifiers, in list order *)
  e_store_original : bool            (* TRAIT_SETATTR_ORIGINAL_VALUE (Expression, AdaptsTo): store the assigned object, not the validated one *)
}.

Inductive op := Assign (v : val) | Read | Delete     (* obj.x = v, obj.x, del obj.x *)
              | QuietAssign (v : val)             (* obj.trait_set(trait_change_notify=False, x=v) / trait_setq *)
              | Retrait                           (* obj.add_trait("x", <the same trait definition>) over the existing trait *)
              | Other.                            (* an assignment to ANOTHER trait of the same object (an Event, a sibling
                                                     attribute built from the same definition): nothing to do with x *)
Inductive outcome := Ok | TraitError | AttributeError.
Definition call := (nat * oldv * val)%type.       (* handler id, old, new *)
Record obs := mkObs {
  o_out : outcome;
  o_slot : option val;           (* obj.__dict__.get(name) after the operation *)
  o_calls : list call;           (* user handlers called, in call order *)
  o_sink : list call             (* exceptions routed to the notification exception handler *)
}.

Section WithEnv.
  Variable E : env.

  (* _change_accepted (legacy wrappers) / not ctrait_prevent_event (observe) *)
  Definition accepted (h : handler) (old : oldv) (new : val) : bool :=
    match old with
    | OUninitialized => false                       (* `if old is Uninitialized: return False` *)
    | OUndefined => true
    | OVal o =>
        match e_kind E with
        | TNormal MEquality =>
            match h_mech h with
            | Observe => match e_eq E o new with CTrue => false | _ => true end     (* bool(old == new); exception: fire *)
            | _ => match e_ne E o new with CFalse => false | _ => true end          (* bool(old != new); exception: fire *)
            end
        | _ => true
        end
    end.

  (* call_notifiers: every notifier of the (copied) list is called; a wrapper that accepts calls the
     user's handler; a raising handler is reported to the sink and the loop goes on *)
  Definition notify (old : oldv) (new : val) : list call * list call :=
    let cs := filter (fun h => accepted h old new) (e_handlers E) in
    (map (fun h => (h_id h, old, new)) cs,
     map (fun h => (h_id h, old, new)) (filter h_raises cs)).

  (* new_value = (flags & TRAIT_SETATTR_ORIGINAL_VALUE) ? original_value : value  (setattr_trait l.2487) *)
  Definition new_value (v w : val) : val := if e_store_original E then v else w.
  Definition readable (s : option val) : val := match s with Some v => v | None => e_default E end.
  Definition is_nil {A} (l : list A) : bool := match l with [] => true | _ => false end.

  Definition step (s : option val) (o : op) : option val * obs :=
    match o with
    | Read =>
        match e_kind E with
        | TEvent => (s, mkObs AttributeError s [] [])
        | TNormal _ =>
            match s with
            | Some _ => (s, mkObs Ok s [] [])
            | None =>                                  (* getattr_trait: store the default, notify with Uninitialized *)
                let s' := Some (e_default E) in
                let '(cs, sk) := notify OUninitialized (e_default E) in
                (s', mkObs Ok s' cs sk)
            end
        end
    | Delete =>                                        (* setattr_trait with value == NULL (l.2391-2436) *)
        match e_kind E with
        | TEvent => (s, mkObs Ok s [] [])              (* setattr_event: `if (value != NULL)` *)
        | TNormal m =>
            match s with
            | None => (s, mkObs Ok s [] [])            (* not in the dict: return 0 *)
            | Some old =>
                if is_nil (e_handlers E) then (None, mkObs Ok None [] [])
                else
                  (* value = traito->getattr(...): getattr_trait stores the default again and sends the
                     (Uninitialized, default) notification, which every wrapper drops; then the C layer
                     compares identities and notifies (old, default) *)
                  let d := e_default E in
                  let '(c0, k0) := notify OUninitialized d in
                  let changed := match m with MNone => true | _ => negb (old =? d) end in
                  let '(cs, sk) := if changed then notify (OVal old) d else ([], []) in
                  (Some d, mkObs Ok (Some d) (c0 ++ cs) (k0 ++ sk))
            end
        end
    | Other => (s, mkObs Ok s [] [])       (* other traits have their own ctrait, notifier list and dict entry *)
    | Retrait =>
        (* has_traits.py add_trait l.2835-2848: the new instance trait is a clone of the given definition and takes over
           the notifier list of the trait it replaces (static wrappers included, nothing is attached a second time);
           the stored value stays; no notification *)
        (s, mkObs Ok s [] [])
    | QuietAssign v =>
        (* has_traits.py trait_set l.1449-1458: _trait_change_notify(False); try: setattr finally: _trait_change_notify(True).
           With HASTRAITS_NO_NOTIFY set, setattr_trait does everything but call_notifiers returns at once (l.2270);
           the flag is cleared again whether or not the assignment raised *)
        match e_validate E v with
        | None => (s, mkObs TraitError s [] [])
        | Some w =>
            match e_kind E with
            | TEvent => (s, mkObs Ok s [] [])
            | TNormal _ => (Some (new_value v w), mkObs Ok (Some (new_value v w)) [] [])
            end
        end
    | Assign v =>
        match e_validate E v with
        | None => (s, mkObs TraitError s [] [])        (* validate failed: return -1 before anything else *)
        | Some w =>
            match e_kind E with
            | TEvent =>                                (* setattr_event: nothing stored, old = Undefined *)
                let '(cs, sk) := notify OUndefined w in (s, mkObs Ok s cs sk)
            | TNormal m =>
                (* new_value = (flags & TRAIT_SETATTR_ORIGINAL_VALUE) ? original_value : value  (l.2487) *)
                let nv := new_value v w in
                if is_nil (e_handlers E) then (Some nv, mkObs Ok (Some nv) [] [])     (* do_notifiers = 0 *)
                else
                  let old := readable s in             (* dict value, or the default materialised as `old` *)
                  (* `changed = (old_value != new_value)` (l.2517): identity of the object that will be stored *)
                  let changed := match m with MNone => true | _ => negb (old =? nv) end in
                  let '(cs, sk) := if changed then notify (OVal old) nv else ([], []) in
                  (Some nv, mkObs Ok (Some nv) cs sk)
            end
        end
    end.

  Fixpoint run (s : option val) (ops : list op) : list (op * obs) :=
    match ops with
    | [] => []
    | o :: r => let '(s', ob) := step s o in (o, ob) :: run s' r
    end.

  Fixpoint final (s : option val) (ops : list op) : option val :=
    match ops with [] => s | o :: r => final (fst (step s o)) r end.
End WithEnv.
