(* C02 — a trait that is PROTOTYPED from another object's trait under a different name
   (`x = PrototypedFrom("style", prefix="caption")`): the handlers of x are told
     - every assignment of a local value that is a change (setattr_delegate -> setattr_trait with traitd != traito,
       ctraits.c l.2640-2690: old = the delegated value, identity test, notifiers of x), after which x is UNLINKED
       (HasTraits._remove_trait_delegate_listener(name, True), has_traits.py l.3396-3417);
     - `del obj.x` (back to the prototype's value, linked again);
     - every change of the prototype's attribute WHILE x is linked (the listener set up by
       _init_trait_delegate_listener forwards it with trait_property_changed), and never while it is unlinked.
   Wrappers apply no comparison of their own to a delegate trait (trait.type is "delegate"), so the values of this
   scenario are pairwise unequal objects and only identity matters.  Small self-contained model, law and proof. *)
From Coq Require Import List Arith Bool PeanoNat ZArith Lia.
From TV Require Import Common.Harness C02.Model C02.Law C02.Proofs.
Import ListNotations.
Local Open Scope nat_scope.

Record pstate := mkP { p_local : option val; p_proto : val }.
Inductive pop := PAssign (v : val) | PDelete | PProto (v : val) | PRead.
Record pobs := mkPObs { po_local : option val; po_read : val; po_calls : list call }.

Definition preadable (st : pstate) : val := match p_local st with Some v => v | None => p_proto st end.
Definition tell_all (hs : list handler) (old new : val) : list call := map (fun h => (h_id h, OVal old, new)) hs.

Section Proto.
  Variable hs : list handler.      (* the handlers of x, in notifier-list order *)

  Definition pstep (st : pstate) (o : pop) : pstate * pobs :=
    match o with
    | PAssign v =>
        let old := preadable st in
        let st' := mkP (Some v) (p_proto st) in
        (st', mkPObs (Some v) v (if old =? v then [] else tell_all hs old v))
    | PDelete =>
        match p_local st with
        | None => (st, mkPObs None (p_proto st) [])
        | Some old =>
            let st' := mkP None (p_proto st) in
            (st', mkPObs None (p_proto st) (if old =? p_proto st then [] else tell_all hs old (p_proto st)))
        end
    | PProto v =>
        let st' := mkP (p_local st) v in
        (st', mkPObs (p_local st) (preadable st')
                     (match p_local st with
                      | None => if p_proto st =? v then [] else tell_all hs (p_proto st) v      (* linked: forwarded *)
                      | Some _ => []                                                            (* unlinked: silent *)
                      end))
    | PRead => (st, mkPObs (p_local st) (preadable st) [])
    end.

  Fixpoint prun (st : pstate) (ops : list pop) : list (pop * pobs) :=
    match ops with
    | [] => []
    | o :: r => let '(st', ob) := pstep st o in (o, ob) :: prun st' r
    end.

  (* the law on one observed step: what is readable before / after decides; it never mentions pstep.
     2 called although x did not change (or more than once); 3 called for a read / for a prototype change while x has a
     local value; 4 not called for a change; 5 the value readable afterwards is wrong; 6 old / new untruthful *)
  Definition expect (changed : bool) (old new : val) (calls : list call) : list Z :=
    chk 2 (forallb (fun h => length (calls_of (h_id h) calls) <=? (if changed then 1 else 0)) hs)
    ++ chk 4 (forallb (fun h => (if changed then 1 else 0) <=? length (calls_of (h_id h) calls)) hs)
    ++ chk 6 (forallb (fun c : call => oldv_eqb (snd (fst c)) (OVal old) && (snd c =? new)) calls).

  Definition plaw_step (st : pstate) (o : pop) (ob : pobs) : list Z :=
    let before := preadable st in
    match o with
    | PAssign v => chk 5 (po_read ob =? v) ++ expect (negb (before =? v)) before v (po_calls ob)
    | PDelete => chk 5 (po_read ob =? p_proto st) ++ expect (negb (before =? p_proto st)) before (p_proto st) (po_calls ob)
    | PProto v =>
        match p_local st with
        | None => chk 5 (po_read ob =? v) ++ expect (negb (before =? v)) before v (po_calls ob)
        | Some l => chk 5 (po_read ob =? l) ++ chk 3 (is_nil (po_calls ob))
        end
    | PRead => chk 5 (po_read ob =? before) ++ chk 3 (is_nil (po_calls ob))
    end.

  Definition pnext (st : pstate) (o : pop) (ob : pobs) : pstate :=
    mkP (po_local ob) (match o with PProto v => v | _ => p_proto st end).

  Fixpoint plaw (i : Z) (st : pstate) (h : list (pop * pobs)) : list Z :=
    match h with
    | [] => []
    | (o, ob) :: r => map (fun c => (100 * i + c)%Z) (plaw_step st o ob) ++ plaw (i + 1)%Z (pnext st o ob) r
    end.

  (* ---------------- the model satisfies the law ---------------- *)
  Hypothesis Hnd : nodupb (map h_id hs) = true.

  Lemma tell_all_calls_of old new h : In h hs -> calls_of (h_id h) (tell_all hs old new) = [(h_id h, OVal old, new)].
  Proof.
    intros Hin. unfold tell_all.
    pose proof (calls_of_map hs (fun _ => true) (OVal old) new h Hnd Hin) as C. cbn in C.
    assert (filter (fun _ : handler => true) hs = hs) as F by (clear; induction hs as [|x l IH]; cbn; [reflexivity|rewrite IH; reflexivity]).
    rewrite F in C. exact C.
  Qed.

  Lemma expect_told old new : old <> new -> expect true old new (tell_all hs old new) = [].
  Proof.
    intros Hne. unfold expect.
    assert (forallb (fun h => length (calls_of (h_id h) (tell_all hs old new)) <=? 1) hs = true) as ->.
    { apply forallb_forall. intros h Hh. rewrite (tell_all_calls_of old new h Hh). reflexivity. }
    assert (forallb (fun h => 1 <=? length (calls_of (h_id h) (tell_all hs old new))) hs = true) as ->.
    { apply forallb_forall. intros h Hh. rewrite (tell_all_calls_of old new h Hh). reflexivity. }
    assert (forallb (fun c : call => oldv_eqb (snd (fst c)) (OVal old) && (snd c =? new)) (tell_all hs old new) = true) as ->.
    { apply forallb_forall. intros c Hc. unfold tell_all in Hc. apply in_map_iff in Hc. destruct Hc as (h & <- & _). cbn.
      rewrite !Nat.eqb_refl. reflexivity. }
    reflexivity.
  Qed.
  Lemma expect_silent old new : expect false old new [] = [].
  Proof.
    unfold expect. cbn.
    assert (forallb (fun _ : handler => true) hs = true) as -> by (clear; induction hs; cbn; auto).
    reflexivity.
  Qed.

  Lemma pstep_law st o : plaw_step st o (snd (pstep st o)) = [] /\ pnext st o (snd (pstep st o)) = fst (pstep st o).
  Proof.
    destruct st as [loc p]. destruct o as [v| |v|]; cbn [pstep plaw_step pnext fst snd po_read po_calls po_local p_local p_proto].
    - rewrite Nat.eqb_refl. cbn [chk app]. split; [|reflexivity].
      destruct (preadable (mkP loc p) =? v) eqn:Eq; cbn [negb]; [apply expect_silent|].
      apply expect_told. apply Nat.eqb_neq. exact Eq.
    - destruct loc as [old|]; cbn [fst snd po_read po_calls po_local preadable p_local p_proto].
      + rewrite Nat.eqb_refl. cbn [chk app]. split; [|reflexivity].
        destruct (old =? p) eqn:Eq; cbn [negb]; [apply expect_silent|]. apply expect_told. apply Nat.eqb_neq. exact Eq.
      + rewrite !Nat.eqb_refl. cbn [chk app negb]. split; [apply expect_silent|reflexivity].
    - destruct loc as [l|]; cbn [preadable p_local p_proto].
      + rewrite Nat.eqb_refl. split; reflexivity.
      + rewrite Nat.eqb_refl. cbn [chk app]. split; [|reflexivity].
        destruct (p =? v) eqn:Eq; cbn [negb]; [apply expect_silent|]. apply expect_told. apply Nat.eqb_neq. exact Eq.
    - rewrite Nat.eqb_refl. split; reflexivity.
  Qed.

  Theorem prun_law ops : forall st i, plaw i st (prun st ops) = [].
  Proof.
    induction ops as [|o r IH]; intros st i; [reflexivity|]. cbn [prun].
    destruct (pstep_law st o) as [L N]. destruct (pstep st o) as [st' ob]. cbn [fst snd plaw] in *.
    rewrite L, N. cbn. apply IH.
  Qed.
End Proto.

(* ---------------- correspondence ---------------- *)
Definition pcase := (list handler * val * list (pop * pobs))%type.      (* handlers, initial prototype value, history *)

Definition pobs_diff (m i : pobs) : list Z :=
  chk 2 (opt_val_eqb (po_local m) (po_local i))
  ++ chk 5 (po_read m =? po_read i)
  ++ chk 3 (list_eqb call_eqb (po_calls m) (po_calls i)).
Fixpoint pcorr (hs : list handler) (i : Z) (st : pstate) (h : list (pop * pobs)) : list Z :=
  match h with
  | [] => []
  | (o, ob) :: r => map (fun c => (100 * i + c)%Z) (pobs_diff (snd (pstep hs st o)) ob) ++ pcorr hs (i + 1)%Z (pnext st o ob) r
  end.
Definition pcorr_codes (c : pcase) : list Z := let '(hs, p0, h) := c in pcorr hs 0%Z (mkP None p0) h.
Definition plaw_codes (c : pcase) : list Z := let '(hs, p0, h) := c in plaw hs 0%Z (mkP None p0) h.
