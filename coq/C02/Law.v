(* C02 — the property as a boolean checker on ONE observed history.  It does not mention
   [Model.step] / [Model.notify] / [Model.accepted]: it is applied verbatim to the observations
   recorded from the implementation (Corr.v) and proved of the model (Proofs.v).
   Clause codes (100*step + code):
     (1 and 8 are not used: the outcome class of the operation and the routing of handler exceptions to the
        notification exception handler are not part of the statement; they are compared model-vs-implementation in Corr.v)
     2 a handler was called although the assignment does not count as a change (or more than once)
     3 a handler was called for a rejected assignment or for a read (first read of a default included)
     4 a handler was NOT called for an assignment that counts as a change
     5 an accepted assignment was undone or stored something else than the validated value
       (the new value is not what is readable afterwards)
     6 reported old/new untruthful: old is not what was readable before, or new is not what is readable after
       (Event: old is not Undefined, new is not the validated value)
     7 the mechanisms disagree (different handlers saw different call sequences) although == / != are coherent
   Readings (DESIGN 6a): equality mode — identical => no change; == false and != true => change;
   == true and != false => no change; when a comparison raises or the two are incoherent the
   statement does not say: 0 or 1 call is accepted per handler; agreement between handlers (clause 7)
   is still demanded whenever (!= is false) <-> (== is true). *)
From Coq Require Import List Arith Bool PeanoNat ZArith.
From TV Require Import Common.Harness C02.Model.
Import ListNotations.
Local Open Scope nat_scope.

Definition cmp_eqb (a b : cmp) : bool :=
  match a, b with CTrue, CTrue | CFalse, CFalse | CRaise, CRaise => true | _, _ => false end.
Definition oldv_eqb (a b : oldv) : bool :=
  match a, b with
  | OVal x, OVal y => x =? y | OUninitialized, OUninitialized | OUndefined, OUndefined => true | _, _ => false
  end.
Definition call_eqb (a b : call) : bool :=
  let '(i, o, n) := a in let '(j, p, m) := b in (i =? j) && oldv_eqb o p && (n =? m).
Definition outcome_eqb (a b : outcome) : bool :=
  match a, b with Ok, Ok | TraitError, TraitError | AttributeError, AttributeError => true | _, _ => false end.
Definition opt_val_eqb := opt_eqb Nat.eqb.

Section Law.
  Variable E : env.

  Definition calls_of (id : nat) (l : list call) : list call := filter (fun c => fst (fst c) =? id) l.

  (* how many calls each handler may receive for an accepted assignment old -> w: (min, max) *)
  Definition coherent_pair (o w : val) : bool :=
    Bool.eqb (cmp_eqb (e_ne E o w) CFalse) (cmp_eqb (e_eq E o w) CTrue).
  Definition expected (o w : val) : nat * nat :=
    match e_kind E with
    | TEvent => (1, 1)
    | TNormal MNone => (1, 1)
    | TNormal MIdentity => if o =? w then (0, 0) else (1, 1)
    | TNormal MEquality =>
        if o =? w then (0, 0)
        else match e_eq E o w, e_ne E o w with
             | CFalse, CTrue => (1, 1)
             | CTrue, CFalse => (0, 0)
             | _, _ => (0, 1)
             end
    end.
  Definition agreement_demanded (o w : val) : bool :=
    match e_kind E with TNormal MEquality => (o =? w) || coherent_pair o w | _ => true end.

  Definition all_same_length (ls : list (list call)) : bool :=
    match ls with [] => true | l :: r => forallb (fun m => length m =? length l) r end.

  Definition law_step (s : option val) (o : op) (ob : obs) : list Z :=
    let hs := e_handlers E in
    match o with
    | Read => chk 3 (is_nil (o_calls ob))
    | Other => chk 3 (is_nil (o_calls ob))        (* a change of another trait is not a change of this one *)
    | Retrait => chk 3 (is_nil (o_calls ob))      (* replacing the trait definition is not an assignment *)
    | QuietAssign _ => []     (* notification switched off by the caller: the statement is silent; compared in Corr.v.
                                 What matters to the law is that the NEXT ordinary assignment notifies again *)
    | Delete =>               (* `del` is not an assignment, but what handlers ARE told must be truthful: old = what was
                                 readable before; new = the value stored afterwards, if one is stored (if none is stored, what
                                 the next read would produce is judged in Dyn.dlaw_step, which knows whether the default is
                                 constant or produced afresh) *)
        chk 6 (forallb (fun c : call => oldv_eqb (snd (fst c)) (OVal (readable E s))
                                        && match o_slot ob with Some v => v =? snd c | None => true end)
                       (o_calls ob))
    | Assign v =>
        match e_validate E v with
        | None => chk 3 (is_nil (o_calls ob))
        | Some w0 =>
            (* the new value: what the trait stores — the validated value, or the assigned object itself for traits
               that keep the original (Expression, AdaptsTo); an Event reports the validated value *)
            let w := match e_kind E with TEvent => w0 | TNormal _ => new_value E v w0 end in
            let old := match e_kind E with TEvent => OUndefined | TNormal _ => OVal (readable E s) end in
            let '(lo, hi) := expected (readable E s) w in
            let per := map (fun h => calls_of (h_id h) (o_calls ob)) hs in
            chk 2 (forallb (fun l => length l <=? hi) per)
            ++ chk 4 (forallb (fun l => lo <=? length l) per)
            ++ chk 5 (opt_val_eqb (o_slot ob) (match e_kind E with TEvent => s | TNormal _ => Some w end))
            ++ chk 6 (forallb (fun c => oldv_eqb (snd (fst c)) old && (snd c =? w)) (o_calls ob))
            ++ chk 7 (negb (agreement_demanded (readable E s) w) || all_same_length per)
        end
    end.

  Fixpoint law_hist (i : Z) (s : option val) (h : list (op * obs)) : list Z :=
    match h with
    | [] => []
    | (o, ob) :: r => map (fun c => (100 * i + c)%Z) (law_step s o ob) ++ law_hist (i + 1)%Z (o_slot ob) r
    end.
End Law.
