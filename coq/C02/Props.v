(* C02 — property theorems only.  [E : env] is an arbitrary configuration: arbitrary three-valued
   == and != on values (NaN, equal-not-identical, raising, incoherent), arbitrary validation function
   (rejecting, converting), any default, any trait kind / comparison mode, traits that store the validated value or (Expression, AdaptsTo) the
   assigned object itself, any list of handlers of the
   five mechanisms each possibly raising; [wf E] only says that handler ids are distinct.
   Histories are arbitrary lists of assignments, reads and `del` from any start state. *)
From Coq Require Import List Arith Bool PeanoNat ZArith.
From TV Require Import Common.Harness C02.Model C02.Law C02.Proofs C02.Dyn C02.DynProofs C02.Proto.
Import ListNotations.
Local Open Scope nat_scope.

(* the whole law (Law.v, clauses 2-7) holds at every step of every history *)
Theorem law_holds_on_every_history :
  forall E, wf E = true -> forall ops s i, law_hist E i s (run E s ops) = [].
Proof. exact run_law. Qed.
Print Assumptions law_holds_on_every_history.

(* every handler is called exactly for the assignments that count as a change under the trait's mode
   (Event: every accepted assignment, old = Undefined), with old = readable before and new = validated value,
   in order, and for nothing else: the call list equals a specification that never mentions notifiers *)
Theorem calls_are_exactly_changes :
  forall E, wf E = true -> forall h, In h (e_handlers E) -> forall ops s,
    calls_of (h_id h) (all_calls (run E s ops)) = spec_calls E h s ops.
Proof. exact calls_exact. Qed.
Print Assumptions calls_are_exactly_changes.

(* `del` (outside the statement, modelled for faithfulness) reports (stored value, default) the same way *)
Theorem old_new_truthful :
  forall E s o c, In c (o_calls (snd (step E s o))) ->
    (exists v w, o = Assign v /\ e_validate E v = Some w /\
       match e_kind E with
       | TEvent => snd (fst c) = OUndefined /\ snd c = w
       | TNormal _ => snd (fst c) = OVal (readable E s) /\ readable E (fst (step E s o)) = snd c
                      /\ snd c = new_value E v w
       end)
    \/ (o = Delete /\ snd (fst c) = OVal (readable E s) /\ snd c = e_default E
        /\ readable E (fst (step E s o)) = e_default E).
Proof. exact calls_truthful. Qed.
Print Assumptions old_new_truthful.

(* all mechanisms see the same (old, new) sequence when != is false exactly when == is true *)
Theorem three_mechanisms_agree :
  forall E, wf E = true -> forall h1 h2, coherent_eq E -> In h1 (e_handlers E) -> In h2 (e_handlers E) ->
    forall ops s,
      map strip (calls_of (h_id h1) (all_calls (run E s ops))) = map strip (calls_of (h_id h2) (all_calls (run E s ops))).
Proof. exact mechanisms_agree. Qed.
Print Assumptions three_mechanisms_agree.

(* ... and only then: with == and != both answering True, on_trait_change is called and observe is not *)
Theorem three_mechanisms_disagree_without_coherence :
  wf incoherent_env = true /\
  map strip (calls_of 0 (all_calls (run incoherent_env None [Assign 1]))) = [(OVal 0, 1)] /\
  map strip (calls_of 1 (all_calls (run incoherent_env None [Assign 1]))) = [].
Proof. exact mechanisms_disagree_when_incoherent. Qed.
Print Assumptions three_mechanisms_disagree_without_coherence.

Theorem rejected_and_default_read_silent :
  forall E, wf E = true -> forall s,
    (forall v, e_validate E v = None -> step E s (Assign v) = (s, mkObs TraitError s [] []))
    /\ o_calls (snd (step E s Read)) = [] /\ o_sink (snd (step E s Read)) = []
    /\ fst (step E s Read) = after_read E s.
Proof. exact rejected_and_read_silent. Qed.
Print Assumptions rejected_and_default_read_silent.

(* which handlers raise influences neither the final value nor outcome / stored value / call list of any step;
   the exception sink receives exactly the calls of the raising handlers *)
Theorem handler_exception_transparent :
  forall E, wf E = true ->
    (forall f g ops s,
       final (set_raises f E) s ops = final (set_raises g E) s ops
       /\ map (fun p => (fst p, visible (snd p))) (run (set_raises f E) s ops)
          = map (fun p => (fst p, visible (snd p))) (run (set_raises g E) s ops))
    /\ (forall s o, o_sink (snd (step E s o))
                    = filter (fun c : call => existsb (fun h => (h_id h =? fst (fst c)) && h_raises h) (e_handlers E))
                             (o_calls (snd (step E s o)))).
Proof. exact transparent_and_routed. Qed.
Print Assumptions handler_exception_transparent.

(* ---------- handlers that come and go (Dyn.v): registered or removed in the middle of a history, or by a handler
   WHILE it is being notified (it removes itself, removes another handler, registers a new one).  [wfd st]: the ids of
   the live handlers are distinct (kept by every operation); [reacts]: handler id -> what it does when called. ---------- *)

(* the law of Law.v holds at every operation for the handlers LIVE at that moment (snapshot semantics of
   call_notifiers), the live lists being threaded from the operations and the observed calls *)
Theorem law_holds_with_handlers_coming_and_going :
  forall E reacts ops st i, wfd st -> dlaw_hist E reacts i st (drun E reacts st ops) = [].
Proof. exact drun_law. Qed.
Print Assumptions law_holds_with_handlers_coming_and_going.

(* a handler receives exactly the changes of the sub-history during which it is registered: per operation, nothing if
   it is not registered at that moment, otherwise what the notifier-free specification says — also for the operation
   during which another handler removes it (it is still served) or registers it (it is not served yet) *)
Theorem calls_are_exactly_changes_while_registered :
  forall E reacts id ops st, wfd st ->
    calls_of id (dall_calls (drun E reacts st ops)) = dspec E reacts id st ops.
Proof. exact dcalls_exact. Qed.
Print Assumptions calls_are_exactly_changes_while_registered.

(* (un)registration during dispatch takes effect for the next operation and touches nobody else: a handler removed by a
   called handler (itself included) is gone afterwards; every handler that no called handler removes stays *)
Theorem registration_during_dispatch_is_local :
  forall E reacts st op,
    (forall k v, In (k, RKill v) reacts -> calls_of k (o_calls (snd (dstep E reacts st (DOp op)))) <> [] ->
                 (forall k' h, In (k', RSpawn h) reacts -> h_id h <> v) ->
                 has_id v (live (fst (dstep E reacts st (DOp op)))) = false)
    /\ (forall x, In x (live st) ->
                  (forall k, In (k, RKill (h_id x)) reacts -> calls_of k (o_calls (snd (dstep E reacts st (DOp op)))) = []) ->
                  In x (live (fst (dstep E reacts st (DOp op))))).
Proof. exact reactions_local. Qed.
Print Assumptions registration_during_dispatch_is_local.

(* all mechanisms agree in the dynamic setting too: two handlers that are registered over the same stretches of the history
   ([same_presence]: at every operation both or neither are live) see the same (old, new) sequence, when != is false
   exactly when == is true *)
Theorem three_mechanisms_agree_while_registered :
  forall E reacts id1 id2 ops st, wfd st -> coherent_eq E -> same_presence E reacts id1 id2 st ops ->
    map strip (calls_of id1 (dall_calls (drun E reacts st ops))) = map strip (calls_of id2 (dall_calls (drun E reacts st ops))).
Proof. exact dmechanisms_agree. Qed.
Print Assumptions three_mechanisms_agree_while_registered.

(* which handlers raise (those present from the start, those registered later by an operation or by another handler)
   changes neither outcome, stored value nor call list of any step — with handlers coming and going *)
Theorem handler_exception_transparent_with_handlers_coming_and_going :
  forall E reacts f g ops st,
    map (fun p => visible (snd p))
        (drun (set_raises f E) (setr_reacts f reacts) (setr_state f st) (map (setr_op f) ops))
    = map (fun p => visible (snd p))
        (drun (set_raises g E) (setr_reacts g reacts) (setr_state g st) (map (setr_op g) ops)).
Proof. exact dyn_raising_transparent. Qed.
Print Assumptions handler_exception_transparent_with_handlers_coming_and_going.

(* obj._trait_change_notify(False) (HASTRAITS_NO_NOTIFY) as operations of the history: while it is in force nobody is
   called and the notifier lists do not change; the two theorems above cover whole histories containing such phases *)
Theorem switched_off_is_silent :
  forall E reacts st op, d_quiet st = true ->
    o_calls (snd (dstep E reacts st (DOp op))) = [] /\ o_sink (snd (dstep E reacts st (DOp op))) = []
    /\ live (fst (dstep E reacts st (DOp op))) = live st.
Proof. exact quiet_silent. Qed.
Print Assumptions switched_off_is_silent.

Example switched_off_and_on_again :
  let E := {| e_eq := fun a b => if a =? b then CTrue else CFalse; e_ne := fun a b => if a =? b then CFalse else CTrue;
              e_validate := fun v => if v =? 7 then None else Some v; e_default := 9; e_kind := TNormal MEquality;
              e_handlers := [mkHandler 1 StaticChanged false; mkHandler 10 Observe false]; e_store_original := false |} in
  let ops := [DOp (Assign 1); DNotify false; DOp (Assign 2); DOp Delete; DOp (Assign 3); DNotify true; DOp (Assign 4);
              DNotify false; DOp (QuietAssign 7); DOp (Assign 5)] in
  map (fun p => (o_slot (snd p), length (o_calls (snd p)))) (drun E [] (init E) ops)
  = [(Some 1, 2); (Some 1, 0); (Some 2, 0); (None, 0); (Some 3, 0); (Some 3, 0); (Some 4, 2); (Some 4, 0); (Some 4, 0); (Some 5, 2)].
Proof. vm_compute. reflexivity. Qed.

(* the comparison mode itself can be changed in the middle of a history (ctrait.comparison_mode = ...): all the theorems
   above are about [env_at E st], the environment with the handlers AND the mode current at each operation *)
Example mode_changed_at_run_time :
  let E := {| e_eq := fun a b => if (a =? b) || ((a =? 1) && (b =? 2)) || ((a =? 2) && (b =? 1)) then CTrue else CFalse;
              e_ne := fun a b => if (a =? b) || ((a =? 1) && (b =? 2)) || ((a =? 2) && (b =? 1)) then CFalse else CTrue;
              e_validate := fun v => Some v; e_default := 9; e_kind := TNormal MIdentity;
              e_handlers := [mkHandler 1 StaticChanged false; mkHandler 10 Observe false]; e_store_original := false |} in
  let ops := [DOp (Assign 1); DOp (Assign 1); DOp (Assign 2); DSetMode MEquality; DOp (Assign 1); DSetMode MNone;
              DOp (Assign 1); DOp (Assign 1)] in
  map (fun p => length (o_calls (snd p))) (drun E [] (init E) ops) = [2; 0; 2; 0; 0; 0; 2; 2]
  /\ dlaw_hist E [] 0%Z (init E) (drun E [] (init E) ops) = [].
Proof. vm_compute. split; reflexivity. Qed.

(* a default that is produced AFRESH each time it is needed (List / Dict / Instance(X, ()) defaults, a non-constant
   _x_default): identities 1000, 1001, ... in order of appearance.  `del` reads the default back and stores it, so the new
   value the handlers are told IS what a read returns right afterwards (law clause 6 on Delete, part of
   law_holds_with_handlers_coming_and_going); the first assignment reports the default materialised as old *)
Example default_produced_afresh :
  let E := {| e_eq := fun a b => if a =? b then CTrue else CFalse; e_ne := fun a b => if a =? b then CFalse else CTrue;
              e_validate := fun v => Some v; e_default := 0; e_kind := TNormal MEquality;
              e_handlers := [mkHandler 1 StaticChanged false; mkHandler 10 Observe false]; e_store_original := false |} in
  let ops := [DOp (Assign 1); DOp Delete; DOp Read; DOp (Assign 2); DOp Delete; DOp Delete] in
  let st := with_fresh (init E) (Some 1000) in
  map (fun p => (o_slot (snd p), map (fun c : call => (snd (fst c), snd c)) (o_calls (snd p)))) (drun E [] st ops)
  = [(Some 1, [(OVal 1000, 1); (OVal 1000, 1)]); (Some 1001, [(OVal 1, 1001); (OVal 1, 1001)]); (Some 1001, []);
     (Some 2, [(OVal 1001, 2); (OVal 1001, 2)]); (Some 1002, [(OVal 2, 1002); (OVal 2, 1002)]);
     (Some 1003, [(OVal 1002, 1003); (OVal 1002, 1003)])]
  /\ dlaw_hist E [] 0%Z st (drun E [] st ops) = [].
Proof. vm_compute. split; reflexivity. Qed.

(* Non-vacuity: on_trait_change handler 10 from the start; observe handler 30 registered after the first change; 31
   (object level) unregisters itself when called; 32 removes 30 when called (30 is still served for that change) and
   registers 33 (not served yet); then 10 is removed explicitly *)
Example handlers_come_and_go :
  let E := {| e_eq := fun a b => if a =? b then CTrue else CFalse; e_ne := fun a b => if a =? b then CFalse else CTrue;
              e_validate := fun v => Some v; e_default := 9; e_kind := TNormal MEquality;
              e_handlers := [mkHandler 10 Otc false]; e_store_original := false |} in
  let reacts := [(31, RKill 31); (32, RKill 30); (32, RSpawn (mkHandler 33 Otc false))] in
  let ops := [DOp (Assign 1); DRegister (mkHandler 30 Observe false); DRegister (mkHandler 31 OtcAny true);
              DOp (Assign 2); DRegister (mkHandler 32 Otc false); DOp (Assign 3); DUnregister 10; DOp (Assign 4)] in
  wfd (init E)
  /\ map (fun p => map (fun c : call => fst (fst c)) (o_calls (snd p))) (drun E reacts (init E) ops)
     = [[10]; []; []; [10; 30; 31]; []; [10; 30; 32]; []; [32; 33]].
Proof. split; [repeat constructor; cbn; tauto|vm_compute; reflexivity]. Qed.

(* ---------- a trait PROTOTYPED from another object's trait under a different name (Proto.v): its handlers are told the local
   assignments that are changes, `del` (back to the prototype), and the prototype's changes exactly while no local value
   is set — for every handler list with distinct ids, every history, every start state ---------- *)
Theorem prototyped_trait_law_holds :
  forall hs, nodupb (map h_id hs) = true -> forall ops st i, plaw hs i st (prun hs st ops) = [].
Proof. exact prun_law. Qed.
Print Assumptions prototyped_trait_law_holds.

Example prototyped_trait_nontrivial :
  let hs := [mkHandler 1 StaticChanged false; mkHandler 10 Otc false; mkHandler 11 Observe false] in
  let ops := [PProto 2; PAssign 3; PAssign 3; PProto 4; PDelete; PProto 5; PRead; PAssign 5; PDelete] in
  map (fun p => (po_read (snd p), length (po_calls (snd p)))) (prun hs (mkP None 1) ops)
  = [(2, 3); (3, 3); (3, 0); (3, 0); (4, 3); (5, 3); (5, 0); (5, 0); (5, 0)].
Proof. vm_compute. reflexivity. Qed.

(* Non-vacuity: equality mode, five mechanisms, two raising handlers; values 0 and 1 equal but not identical,
   2 is NaN-like (unequal to itself), 3 is rejected.  Calls happen for None->0, 1->2, 2->(another NaN 4) only. *)
Example history_nontrivial :
  let eqf := fun a b => if (a =? b) && negb (a =? 2) && negb (a =? 4) then CTrue
                        else if ((a =? 0) && (b =? 1)) || ((a =? 1) && (b =? 0)) then CTrue else CFalse in
  let nef := fun a b => match eqf a b with CTrue => CFalse | _ => CTrue end in
  let E := {| e_eq := eqf; e_ne := nef; e_validate := fun v => if v =? 3 then None else Some v; e_default := 9;
              e_kind := TNormal MEquality;
              e_handlers := [mkHandler 0 StaticAny false; mkHandler 1 StaticChanged true; mkHandler 2 StaticFired false;
                             mkHandler 10 Otc false; mkHandler 11 Observe true]; e_store_original := false |} in
  wf E = true
  /\ map (fun p => length (o_calls (snd p))) (run E None [Read; Assign 0; Assign 1; Assign 3; Assign 2; Assign 2; Assign 4])
     = [0; 5; 0; 0; 5; 0; 5]
  /\ map (fun p => length (o_sink (snd p))) (run E None [Read; Assign 0; Assign 1; Assign 3; Assign 2; Assign 2; Assign 4])
     = [0; 2; 0; 0; 2; 0; 2].
Proof. vm_compute. repeat split. Qed.
