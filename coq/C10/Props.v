(* C10 — property theorems only.  Each is closed by [exact] of a lemma of
   Proofs.v and followed by Print Assumptions.  They hold for every class
   table (any number of classes and traits, every default kind), every world
   and every operation / history; [wf] (allocator above every object, every
   call counter is 1 and belongs to a materialised attribute) holds of every
   world without instances and is preserved by every operation. *)
From Coq Require Import ZArith List Bool.
From TV Require Import Common.Harness C10.Model C10.Law C10.Corr C10.Proofs.
Import ListNotations.
Open Scope Z_scope.

(* First read of a never-assigned trait: the declared default (of the instance
   trait if one shadows the class trait), allocated at the allocator position,
   stored in __dict__; the handler log is exactly as before (silent); nothing
   else in the instance changes except the call counter of a counted default. *)
Theorem first_read_is_default_and_silent :
  forall (w : world) (i n : Z) (t : tdef),
    valid_index w i -> alookup n (i_dict (inst_at w i)) = None -> resolve w (inst_at w i) n = Some t ->
    let ins := inst_at w i in
    let v := fst (default_value t (w_next w)) in
    step w (Read i n)
    = (mkW (w_classes w)
           (update_nth (Z.to_nat i)
              (fun _ => mkI (i_cls ins) (i_dict ins ++ [(n, v)]) (i_itraits ins)
                            (if counted t then bump n (i_calls ins) else i_calls ins) (i_log ins) (i_regs ins))
              (w_insts w))
           (snd (default_value t (w_next w))),
       v).
Proof. exact first_read. Qed.
Print Assumptions first_read_is_default_and_silent.

(* Later reads return the same object and change nothing at all. *)
Theorem later_reads_same_object :
  forall (w : world) (i n : Z) (t : tdef),
    valid_index w i -> alookup n (i_dict (inst_at w i)) = None -> resolve w (inst_at w i) n = Some t ->
    let w1 := fst (step w (Read i n)) in
    let v := snd (step w (Read i n)) in
    step w1 (Read i n) = (w1, v).
Proof. exact later_reads_same. Qed.
Print Assumptions later_reads_same_object.

Theorem stored_value_read_is_inert :
  forall (w : world) (i n : Z) (v : value),
    valid_index w i -> alookup n (i_dict (inst_at w i)) = Some v -> resolve w (inst_at w i) n <> None ->
    step w (Read i n) = (w, v).
Proof. exact stored_read. Qed.
Print Assumptions stored_value_read_is_inert.

(* _name_default methods and factories run at most once per instance and
   attribute, in every history from a world without instances — and a counter
   that is 1 belongs to an attribute whose value is stored. *)
Theorem default_method_at_most_once :
  forall (cls : list (list (Z * tdef))) (next0 : Z) (ops : list op) (ins : inst) (n c : Z),
    0 < next0 -> below next0 (flat_map (fun c => map (fun p => t_doid (snd p)) c) cls) ->
    In ins (w_insts (final (mkW cls [] next0) ops)) -> In (n, c) (i_calls ins) ->
    c = 1 /\ alookup n (i_dict ins) <> None.
Proof. exact default_method_once. Qed.
Print Assumptions default_method_at_most_once.

(* Non-interference: a history none of whose operations targets instance j
   leaves the complete view of j (values, identities, instance traits,
   counters, handler calls, registrations) exactly as it was. *)
Theorem non_interference :
  forall (ops : list op) (w : world) (j : nat),
    (j < length (w_insts w))%nat -> Forall (fun o => op_index o <> Some (Z.of_nat j)) ops ->
    nth_error (w_insts (final w ops)) j = nth_error (w_insts w) j.
Proof. exact final_other_instance. Qed.
Print Assumptions non_interference.

(* ... an instance created after any history starts with the empty view ... *)
Theorem instance_created_later_is_unaffected :
  forall (ops : list op) (w : world) (c : Z),
    let w1 := final w ops in
    nth_error (w_insts (fst (step w1 (NewInst c)))) (length (w_insts w1)) = Some (new_inst c)
    /\ w_classes (fst (step w1 (NewInst c))) = w_classes w1.
Proof.
  intros ops w c. cbn zeta. split.
  - exact (proj1 (new_instance_is_empty (final w ops) c)).
  - reflexivity.
Qed.
Print Assumptions instance_created_later_is_unaffected.

(* ... and no definition of any class is ever changed or removed: a class table can only GAIN a row, and only
   the row of a wildcard name on its first use (next two theorems). *)
Theorem class_definitions_never_change :
  forall (ops : list op) (w : world) (c : nat) (n : Z) (t : tdef),
    alookup n (nth c (w_classes w) []) = Some t -> alookup n (nth c (w_classes (final w ops)) []) = Some t.
Proof. exact final_classes_keep. Qed.
Print Assumptions class_definitions_never_change.

Theorem class_table_never_mutated :
  forall (ops : list op) (w : world), no_wildcard (w_classes w) -> w_classes (final w ops) = w_classes w.
Proof. exact final_classes_without_wildcard. Qed.
Print Assumptions class_table_never_mutated.

(* First use of a wildcard name n by instance i (no definition in the instance, none in its class, the class has
   a prefix trait): the class gains the row (n, t) — t the prefix trait, or the template carrying n's static
   handlers —, trait_added fires on instance i, and the read proceeds in that world, where n resolves to t. *)
Theorem wildcard_name_resolved_on_first_use :
  forall (w : world) (i n : Z) (t : tdef),
    valid_index w i -> wild_range n = true ->
    alookup n (i_itraits (inst_at w i)) = None -> alookup n (class_of w (inst_at w i)) = None ->
    prefix_resolve (class_of w (inst_at w i)) n = Some t ->
    let ins := inst_at w i in
    let wr := mkW (update_nth (Z.to_nat (i_cls ins)) (insert_row n t) (w_classes w))
                  (update_nth (Z.to_nat i) (fun _ => fire_trait_added w ins) (w_insts w)) (w_next w) in
    resolved w (Read i n) = wr /\ step w (Read i n) = step0 wr (Read i n) /\
    ((Z.to_nat (i_cls ins) < length (w_classes w))%nat -> resolve wr (inst_at wr i) n = Some t).
Proof. exact wildcard_first_use. Qed.
Print Assumptions wildcard_name_resolved_on_first_use.

(* Well-formedness is an invariant ... *)
Theorem wellformed_worlds_are_closed :
  (forall cls next0, 0 < next0 -> below next0 (flat_map (fun c => map (fun p => t_doid (snd p)) c) cls) ->
                     wf (mkW cls [] next0))
  /\ (forall ops w, wf w -> wf (final w ops)).
Proof. split; [exact wf_init | exact final_wf]. Qed.
Print Assumptions wellformed_worlds_are_closed.

(* ... under which a default just read aliases nothing: no object of another
   instance, of the same instance, and no class-level default object. *)
Theorem defaults_never_aliased :
  forall (w : world) (i n : Z) (t : tdef),
    wf w -> valid_index w i -> alookup n (i_dict (inst_at w i)) = None -> resolve w (inst_at w i) n = Some t ->
    forall x, In x (value_oids (snd (step w (Read i n)))) -> ~ In x (world_oids w).
Proof. exact default_not_aliased. Qed.
Print Assumptions defaults_never_aliased.

(* The whole law (all clauses of C10/Law.v) holds on what the model shows, at
   every step of every valid history from every well-formed world. *)
Theorem law_holds_on_every_history :
  forall (ops : list op) (w : world) (k : Z), wf w -> valid_hist w ops -> law_hist k w (obs_run w ops) = [].
Proof. exact law_on_histories. Qed.
Print Assumptions law_holds_on_every_history.

(* Introspection (copyable_trait_names, traits(k=v), trait_names(k=v), traits(), a private trait copy whose
   metadata is then set) changes nothing at all. *)
Theorem introspection_is_inert :
  forall (w : world) (i md : Z), valid_index w i -> step w (Introspect i md) = (w, mkV 0 []).
Proof. exact introspect_inert. Qed.
Print Assumptions introspection_is_inert.

(* Metadata set on a trait that was added to instance i changes that one definition of that one instance:
   the class tables, every other instance and every other definition are as before. *)
Theorem metadata_is_per_instance :
  forall (w : world) (i n code : Z) (t : tdef),
    valid_index w i -> alookup n (i_itraits (inst_at w i)) = Some t -> alookup n (class_of w (inst_at w i)) = None ->
    let ins := inst_at w i in
    step w (SetMeta i n code)
    = (mkW (w_classes w)
           (update_nth (Z.to_nat i)
              (fun _ => mkI (i_cls ins) (i_dict ins)
                            (aset n (mkT (t_kind t) (t_content t) (t_scalar t) (t_doid t) (t_nnotif t) (t_static t) (t_cmp t) code)
                                  (i_itraits ins))
                            (i_calls ins) (i_log ins) (i_regs ins))
              (w_insts w))
           (w_next w),
       mkV 0 []).
Proof. exact set_meta_effect. Qed.
Print Assumptions metadata_is_per_instance.

(* Handing instance src's own container object to the same-named trait of instance i: i stores a new container
   with the same contents that shares no object with anything in the world; src and the class tables are untouched. *)
Theorem handed_over_container_is_copied :
  forall (w : world) (i n src : Z) (t : tdef) (v : value),
    wf w -> valid_index w i -> valid_index w src -> src <> i ->
    alookup n (i_dict (inst_at w src)) = Some v -> resolve w (inst_at w i) n = Some t ->
    let w' := fst (step w (AssignFrom i n src)) in
    nth_error (w_insts w') (Z.to_nat src) = nth_error (w_insts w) (Z.to_nat src) /\
    w_classes w' = w_classes w /\
    exists v', alookup n (i_dict (inst_at w' i)) = Some v' /\
               vcontent v' = vcontent (fst (assigned_value t (fst (payload_of v)) (snd (payload_of v)) (w_next w))) /\
               forall x, In x (value_oids v') -> ~ In x (world_oids w).
Proof. exact assign_from_copies. Qed.
Print Assumptions handed_over_container_is_copied.

(* What an assignment over a stored value reports, by comparison mode: none = every handler, always;
   identity = every handler unless the very same scalar object is assigned; equality = unless equal.
   (First reads are silent in every mode: first_read_is_default_and_silent does not depend on t_cmp.) *)
Theorem assignment_notifies_by_comparison_mode :
  forall (w : world) (ins : inst) (n : Z) (content : list Z) (scalar : Z) (t : tdef) (ov : value) (h : Z) (hs : list Z),
    resolve w ins n = Some t -> hids w ins t n = h :: hs -> alookup n (i_dict ins) = Some ov ->
    let v := fst (assigned_value t content scalar (w_next w)) in
    let same := (shape_class (v_shape ov) =? shape_class (v_shape v)) && zlist_eqb (vcontent ov) (vcontent v) in
    let calls := map (fun x => (x, n, vcontent ov, vcontent v)) (h :: hs) in
    i_log (fst (fst (assign_inst w ins n content scalar)))
    = i_log ins ++ (if t_cmp t =? 0 then calls
                    else if (v_shape v =? 0) && same then []
                    else if (t_cmp t =? 2) && same then [] else calls).
Proof. exact assign_log_by_mode. Qed.
Print Assumptions assignment_notifies_by_comparison_mode.

(* del obj.n / reset_traits: without listeners the attribute is unassigned again and nothing is computed; with
   listeners the default it reverts to is computed once, stored — so later reads return the very object the handlers
   received as `new` — and its method / factory is counted once for the new unassigned state. *)
Theorem delete_reverts_to_a_stored_default :
  forall (w : world) (ins : inst) (n : Z) (ov : value) (t : tdef),
    alookup n (i_dict ins) = Some ov -> resolve w ins n = Some t ->
    let ins' := fst (fst (delete_inst w ins n)) in
    match hids w ins t n with
    | [] => alookup n (i_dict ins') = None /\ alookup n (i_calls ins') = None
    | _ :: _ => alookup n (i_dict ins') = Some (fst (default_value t (w_next w)))
                /\ alookup n (i_calls ins') = (if counted t then Some 1 else None)
    end.
Proof. exact delete_inst_effect. Qed.
Print Assumptions delete_reverts_to_a_stored_default.

(* Non-vacuity of the four theorems above: comparison modes none / identity / equality on three Int traits with a
   static handler each, an added trait with metadata, a hand-over of a list between two instances. *)
Example definitions_nontrivial :
  let ti c := mkT KConst [5] 0 0 1 true c 0 in
  let tl := mkT KTraitList [1] 0 1 0 false 2 0 in
  let ta := mkT KEvent [] 0 0 1 true 2 0 in
  let cls := [[(0, ti 0); (1, ti 1); (2, ti 2); (3, tl); (-1, ta)]] in
  let w0 := mkW cls [] 2 in
  let ops := [NewInst 0; NewInst 0; Read 0 0; Read 0 1; Read 0 2; Assign 0 0 [5] 0; Assign 0 1 [5] 0; Assign 0 2 [5] 0;
              Assign 0 0 [6] 0; Assign 0 1 [6] 0; Assign 0 2 [6] 0;
              AddTrait 0 50 (mkT KConst [3] 0 0 0 false 2 0); SetMeta 0 50 7; Introspect 0 100007;
              Read 0 3; Mutate 0 3 9; AssignFrom 1 3 0; Mutate 0 3 8; Delete 0 2; Delete 1 3] in
  let w := final w0 ops in
  wf w0 /\ valid_hist w0 ops
  /\ map i_log (w_insts w)
     = [[(0, 0, [5], [5]); (0, 0, [5], [6]); (0, 1, [5], [6]); (0, 2, [5], [6]); (0, 2, [6], [5])]; []]
  /\ map (fun i => alookup 3 (i_dict i)) (w_insts w) = [Some (mkV 5 [(2, [1; 9; 8])]); None]
  /\ map (fun i => alookup 2 (i_dict i)) (w_insts w) = [Some (mkV 0 [(0, [5])]); None]
  /\ map (fun i => option_map t_label (alookup 50 (i_itraits i))) (w_insts w) = [Some 7; None]
  /\ w_classes w = cls.
Proof.
  cbn zeta. split; [|split].
  - apply wf_init; [reflexivity|]. apply Forall_forall. intros x Hx. vm_compute in Hx. intuition (subst; reflexivity).
  - apply valid_histb_ok. vm_compute. reflexivity.
  - vm_compute. repeat split; reflexivity.
Qed.

(* Non-vacuity for wildcard names: `_ = Int(7)` with a static handler for name 60.  Instance 0 uses 61 and 60
   first (its class gains both rows, trait_added fires on it), instance 1 then finds them defined (no trait_added),
   the handler of 60 is never called for 61, and the declared rows are untouched. *)
Example wildcard_nontrivial :
  let wt := mkT KConst [7] 0 0 0 false 2 0 in
  let t60 := mkT KConst [7] 0 0 1 true 2 0 in
  let ta := mkT KEvent [] 0 0 1 true 2 0 in
  let cls := [[(0, mkT KConst [1] 0 0 0 false 2 0); (3060, t60); (-3, wt); (-1, ta)]] in
  let w0 := mkW cls [] 1 in
  let ops := [NewInst 0; NewInst 0; Read 0 61; Assign 0 60 [8] 0; Read 1 61; Assign 1 61 [9] 0; Assign 1 60 [7] 0; Read 1 60] in
  let w := final w0 ops in
  wf w0 /\ valid_hist w0 ops
  /\ w_classes w = [[(0, mkT KConst [1] 0 0 0 false 2 0); (60, t60); (61, wt); (3060, t60); (-3, wt); (-1, ta)]]
  /\ map (fun i => map fst (i_itraits i)) (w_insts w) = [[-1; 60]; []]
  /\ map i_log (w_insts w) = [[(0, 60, [7], [8])]; []]
  /\ map i_dict (w_insts w)
     = [[(61, mkV 0 [(0, [7])]); (60, mkV 0 [(0, [8])])]; [(61, mkV 0 [(0, [9])]); (60, mkV 0 [(0, [7])])]].
Proof.
  cbn zeta. split; [|split].
  - apply wf_init; [reflexivity|]. apply Forall_forall. intros x Hx. vm_compute in Hx. intuition (subst; reflexivity).
  - apply valid_histb_ok. vm_compute. reflexivity.
  - vm_compute. repeat split; reflexivity.
Qed.

(* Non-vacuity: two classes (a subclass overriding a list default), three
   instances, interleaved reads / mutation / handler registration / add_trait:
   the siblings get their own fresh containers with the declared contents, the
   counted default ran once per instance, handlers registered on instance 0 are
   invisible on instances 1 and 2, and the class tables are as declared. *)
Example history_nontrivial :
  let tl := mkT KTraitList [1; 2] 0 1 1 true 2 0 in
  let tm := mkT KMethod [7] 0 0 0 false 2 0 in
  let ta := mkT KEvent [] 0 0 1 true 2 0 in
  let cls := [[(0, tl); (1, tm); (-1, ta)]; [(0, mkT KTraitList [3] 0 2 1 true 2 0); (1, tm); (-1, ta)]] in
  let w0 := mkW cls [] 3 in
  let ops := [NewInst 0; NewInst 1; Read 0 0; Mutate 0 0 9; Register 0 0 1 true; Assign 0 0 [5] 0; Read 0 1; Read 0 1;
              AddTrait 0 50 (mkT KTraitList [4] 0 0 0 false 2 0); NewInst 0; Read 1 0; Read 2 0; Read 2 1] in
  let w := final w0 ops in
  wf w0 /\ valid_hist w0 ops
  /\ map i_dict (w_insts w)
     = [[(0, mkV 5 [(4, [5])]); (1, mkV 5 [(5, [7])])];
        [(0, mkV 5 [(7, [3])])];
        [(0, mkV 5 [(8, [1; 2])]); (1, mkV 5 [(9, [7])])]]
  /\ map i_calls (w_insts w) = [[(1, 1)]; []; [(1, 1)]]
  /\ map i_log (w_insts w) = [[(0, 0, [1; 2; 9], [5]); (1, 0, [1; 2; 9], [5])]; []; []]
  /\ map (fun i => map fst (i_itraits i)) (w_insts w) = [[0; -1; 1050; 50]; []; []]
  /\ w_classes w = cls.
Proof.
  cbn zeta. split; [|split].
  - apply wf_init; [reflexivity|]. apply Forall_forall. intros x Hx. vm_compute in Hx. intuition (subst; reflexivity).
  - apply valid_histb_ok. vm_compute. reflexivity.
  - vm_compute. repeat split; reflexivity.
Qed.
