(* C10 — property theorems only. *)
From Coq Require Import ZArith List Bool.
From TV Require Import Common.Harness C10.Model C10.Law C10.Corr C10.Proofs.
Import ListNotations.
Open Scope Z_scope.

Theorem class_table_never_mutated : forall w o, w_classes (fst (step w o)) = w_classes w.
Proof. exact class_table_const. Qed.
Print Assumptions class_table_never_mutated.
