(* C10 — property theorems only.  Each is closed by [exact] of a lemma of
   Proofs.v and followed by Print Assumptions.  They hold for every class
   table (any number of classes and traits, every default kind), every world
   and every operation / history; [wf] (allocator above every object, every
   call counter is 1 and belongs to a materialised attribute) holds of every
   world without instances and is preserved by every operation. *)
From Coq Require Import ZArith List Bool.
From TV Require Import Common.Harness C10.Model C10.Law C10.Corr C10.Proofs.
Import ListNotations.
Open Scope Z_scope.

(* First read of a never-assigned trait: the declared default (of the instance
   trait if one shadows the class trait), allocated at the allocator position,
   stored in __dict__; the handler log is exactly as before (silent); nothing
   else in the instance changes except the call counter of a counted default. *)
Theorem first_read_is_default_and_silent :
  forall (w : world) (i n : Z) (t : tdef),
    valid_index w i -> alookup n (i_dict (inst_at w i)) = None -> resolve w (inst_at w i) n = Some t ->
    let ins := inst_at w i in
    let v := fst (default_value t (w_next w)) in
    step w (Read i n)
    = (mkW (w_classes w)
           (update_nth (Z.to_nat i)
              (fun _ => mkI (i_cls ins) (i_dict ins ++ [(n, v)]) (i_itraits ins)
                            (if counted t then bump n (i_calls ins) else i_calls ins) (i_log ins) (i_regs ins))
              (w_insts w))
           (snd (default_value t (w_next w))),
       v).
Proof. exact first_read. Qed.
Print Assumptions first_read_is_default_and_silent.

(* Later reads return the same object and change nothing at all. *)
Theorem later_reads_same_object :
  forall (w : world) (i n : Z) (t : tdef),
    valid_index w i -> alookup n (i_dict (inst_at w i)) = None -> resolve w (inst_at w i) n = Some t ->
    let w1 := fst (step w (Read i n)) in
    let v := snd (step w (Read i n)) in
    step w1 (Read i n) = (w1, v).
Proof. exact later_reads_same. Qed.
Print Assumptions later_reads_same_object.

Theorem stored_value_read_is_inert :
  forall (w : world) (i n : Z) (v : value),
    valid_index w i -> alookup n (i_dict (inst_at w i)) = Some v -> step w (Read i n) = (w, v).
Proof. exact stored_read. Qed.
Print Assumptions stored_value_read_is_inert.

(* _name_default methods and factories run at most once per instance and
   attribute, in every history from a world without instances — and a counter
   that is 1 belongs to an attribute whose value is stored. *)
Theorem default_method_at_most_once :
  forall (cls : list (list (Z * tdef))) (next0 : Z) (ops : list op) (ins : inst) (n c : Z),
    In ins (w_insts (final (mkW cls [] next0) ops)) -> In (n, c) (i_calls ins) ->
    c = 1 /\ alookup n (i_dict ins) <> None.
Proof. exact default_method_once. Qed.
Print Assumptions default_method_at_most_once.

(* Non-interference: a history none of whose operations targets instance j
   leaves the complete view of j (values, identities, instance traits,
   counters, handler calls, registrations) exactly as it was. *)
Theorem non_interference :
  forall (ops : list op) (w : world) (j : nat),
    (j < length (w_insts w))%nat -> Forall (fun o => op_index o <> Some (Z.of_nat j)) ops ->
    nth_error (w_insts (final w ops)) j = nth_error (w_insts w) j.
Proof. exact final_other_instance. Qed.
Print Assumptions non_interference.

(* ... an instance created after any history starts with the empty view ... *)
Theorem instance_created_later_is_unaffected :
  forall (ops : list op) (w : world) (c : Z),
    let w1 := final w ops in
    nth_error (w_insts (fst (step w1 (NewInst c)))) (length (w_insts w1)) = Some (new_inst c)
    /\ w_classes (fst (step w1 (NewInst c))) = w_classes w.
Proof.
  intros ops w c. cbn zeta. split.
  - exact (proj1 (new_instance_is_empty (final w ops) c)).
  - rewrite step_classes. exact (final_classes ops w).
Qed.
Print Assumptions instance_created_later_is_unaffected.

(* ... and the class tables are never written. *)
Theorem class_table_never_mutated :
  forall (ops : list op) (w : world), w_classes (final w ops) = w_classes w.
Proof. exact final_classes. Qed.
Print Assumptions class_table_never_mutated.

(* Well-formedness is an invariant ... *)
Theorem wellformed_worlds_are_closed :
  (forall cls next0, 0 < next0 -> below next0 (flat_map (fun c => map (fun p => t_doid (snd p)) c) cls) ->
                     wf (mkW cls [] next0))
  /\ (forall ops w, wf w -> wf (final w ops)).
Proof. split; [exact wf_init | exact final_wf]. Qed.
Print Assumptions wellformed_worlds_are_closed.

(* ... under which a default just read aliases nothing: no object of another
   instance, of the same instance, and no class-level default object. *)
Theorem defaults_never_aliased :
  forall (w : world) (i n : Z) (t : tdef),
    wf w -> valid_index w i -> alookup n (i_dict (inst_at w i)) = None -> resolve w (inst_at w i) n = Some t ->
    forall x, In x (value_oids (snd (step w (Read i n)))) -> ~ In x (world_oids w).
Proof. exact default_not_aliased. Qed.
Print Assumptions defaults_never_aliased.

(* The whole law (all clauses of C10/Law.v) holds on what the model shows, at
   every step of every valid history from every well-formed world. *)
Theorem law_holds_on_every_history :
  forall (ops : list op) (w : world) (k : Z), wf w -> valid_hist w ops -> law_hist k w (obs_run w ops) = [].
Proof. exact law_on_histories. Qed.
Print Assumptions law_holds_on_every_history.

(* Non-vacuity: two classes (a subclass overriding a list default), three
   instances, interleaved reads / mutation / handler registration / add_trait:
   the siblings get their own fresh containers with the declared contents, the
   counted default ran once per instance, handlers registered on instance 0 are
   invisible on instances 1 and 2, and the class tables are as declared. *)
Example history_nontrivial :
  let tl := mkT KTraitList [1; 2] 0 1 1 true in
  let tm := mkT KMethod [7] 0 0 0 false in
  let ta := mkT KEvent [] 0 0 1 true in
  let cls := [[(0, tl); (1, tm); (-1, ta)]; [(0, mkT KTraitList [3] 0 2 1 true); (1, tm); (-1, ta)]] in
  let w0 := mkW cls [] 3 in
  let ops := [NewInst 0; NewInst 1; Read 0 0; Mutate 0 0 9; Register 0 0 1 true; Assign 0 0 [5] 0; Read 0 1; Read 0 1;
              AddTrait 0 50 (mkT KTraitList [4] 0 0 0 false); NewInst 0; Read 1 0; Read 2 0; Read 2 1] in
  let w := final w0 ops in
  wf w0 /\ valid_hist w0 ops
  /\ map i_dict (w_insts w)
     = [[(0, mkV 5 [(4, [5])]); (1, mkV 5 [(5, [7])])];
        [(0, mkV 5 [(7, [3])])];
        [(0, mkV 5 [(8, [1; 2])]); (1, mkV 5 [(9, [7])])]]
  /\ map i_calls (w_insts w) = [[(1, 1)]; []; [(1, 1)]]
  /\ map i_log (w_insts w) = [[(0, 0, [1; 2; 9], [5]); (1, 0, [1; 2; 9], [5])]; []; []]
  /\ map (fun i => map fst (i_itraits i)) (w_insts w) = [[0; -1; 1050; 50]; []; []]
  /\ w_classes w = cls.
Proof.
  cbn zeta. split; [|split].
  - apply wf_init; [reflexivity|]. apply Forall_forall. intros x Hx. vm_compute in Hx. intuition (subst; reflexivity).
  - apply valid_histb_ok. vm_compute. reflexivity.
  - vm_compute. repeat split; reflexivity.
Qed.
