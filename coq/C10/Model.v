(* C10 — executable model of the default-value machinery and of instance-trait
   isolation:
     traits/ctraits.c   has_traits_new (l.671-713: every instance points at the class traits dict),
                        has_traits_getattro (l.836-884: __dict__ first, then instance trait, then class trait),
                        get_trait (l.890-979: copy-on-write clone of a class trait into the instance traits dict),
                        default_value_for (l.1840-1913: the default_value_type switch),
                        getattr_trait (l.1953-2012: store the default in __dict__, notify with old = Uninitialized),
                        setattr_trait (l.2373-2549: old value = stored value or default_value_for; notify if changed)
     traits/trait_notifiers.py  _change_accepted (l.639-671: Uninitialized filter; object._trait(name, 2))
     traits/has_traits.py       _name_default methods bound at class creation (l.666-677), add_trait (l.2799-2870),
                        _on_trait_change / observe registering on the instance trait.
   The state is the whole observable world: class tables (never written by any
   operation) and, per instance, __dict__, the instance traits dict, the call
   counters of default methods/factories, the log of handler calls and the
   registry of handlers.  Objects are integer oids (0 = immutable scalar whose
   identity is irrelevant); a fresh-oid allocator [w_next] models allocation. *)
From Coq Require Import ZArith List Bool.
Import ListNotations.
Open Scope Z_scope.

(* ---- values ---- *)
Definition part := (Z * list Z)%type.               (* (oid, canonical contents) *)
(* shape: 0 scalar, 1 list, 2 dict, 3 set, 4 tuple (tuple object, inner list, scalar),
   5 a TraitListObject, 6 a TraitDictObject (they and the set fire the "<name>_items" event when mutated;
   1 / 2 are a plain Python list / dict), 7 a tuple of two TraitListObjects (tuple object, first list,
   second list), 8 a numpy array, 9 error,
   10 an opaque immutable object with identity (a uuid) *)
Record value := mkV { v_shape : Z; v_parts : list part }.

(* ---- trait definitions ---- *)
Inductive kind :=
| KConst       (* CONSTANT_DEFAULT_VALUE: Int(c) — the shared constant itself *)
| KListCopy    (* LIST_COPY_DEFAULT_VALUE: Any([..]) — PySequence_List copy *)
| KDictCopy    (* DICT_COPY_DEFAULT_VALUE: Any({..}) — PyDict_Copy *)
| KTraitList   (* TRAIT_LIST_OBJECT_DEFAULT_VALUE: List(Int, [..]) *)
| KTraitDict   (* TRAIT_DICT_OBJECT_DEFAULT_VALUE: Dict(Int, Int, {..}) *)
| KTraitSet    (* TRAIT_SET_OBJECT_DEFAULT_VALUE: Set(Int, {..}) *)
| KFactory     (* CALLABLE_AND_ARGS_DEFAULT_VALUE: Any(factory=f): f counted *)
| KMethod      (* CALLABLE_DEFAULT_VALUE: List(Int) with a _name_default method: counted *)
| KTuple       (* CALLABLE_DEFAULT_VALUE: Tuple(List(Int), Int): BaseTuple._get_default_value *)
| KUnion       (* CALLABLE_DEFAULT_VALUE: Union(List(Int), Int): Union._get_default_value *)
| KEvent       (* "<name>_items" / trait_added event traits (never read) *)
| KTuple2      (* CALLABLE_DEFAULT_VALUE: Tuple(List(Int, content), List(Int, [scalar])): two container members *)
| KArray       (* CALLABLE_AND_ARGS_DEFAULT_VALUE: Array(dtype=float, shape=(k,), value=[..]): copy_default_value *)
| KUuid        (* CALLABLE_AND_ARGS_DEFAULT_VALUE: UUID(): (self._create_uuid, (), None) — a new uuid per instance *)
| KMethodInt.  (* CALLABLE_DEFAULT_VALUE: Int with a _name_default method returning an int: counted, validated *)

Record tdef := mkT {
  t_kind : kind;
  t_content : list Z;    (* contents of the declared default container / [c] for a constant *)
  t_scalar : Z;          (* second member of the Tuple default *)
  t_doid : Z;            (* oid of the class-level default object (0: none / scalar) *)
  t_nnotif : Z;          (* length of the trait's notifier list *)
  t_static : bool;       (* the first notifier is the class's static _name_changed handler *)
  t_cmp : Z;             (* comparison_mode: 0 none, 1 identity, 2 equality *)
  t_label : Z            (* metadata: code of the `label` attribute of the definition (0: unset) *)
}.

(* a handler call: (handler id, trait name, old contents, new contents); handler 0 = static *)
Definition logent := (Z * Z * list Z * list Z)%type.

Record inst := mkI {
  i_cls : Z;                         (* index of its class *)
  i_dict : list (Z * value);         (* __dict__ in insertion order *)
  i_itraits : list (Z * tdef);       (* _instance_traits() in insertion order *)
  i_calls : list (Z * Z);            (* calls of the default method / factory per name (sorted, non-zero) *)
  i_log : list logent;               (* calls received by this instance's handlers *)
  i_regs : list (Z * Z)              (* (name, handler id) registered on this instance, in order *)
}.

Record world := mkW {
  w_classes : list (list (Z * tdef));   (* class index -> class traits dict *)
  w_insts : list inst;
  w_next : Z                            (* next fresh oid *)
}.

(* names: n >= 0 declared traits, n + 1000 the "<n>_items" trait, -1 trait_added *)
Definition items_name (n : Z) : Z := n + 1000.
Definition trait_added : Z := -1.
Definition any_name : Z := -2.
Definition anytrait_name : Z := -4.   (* class-table row marking a class-level _anytrait_changed method *)        (* on_trait_change(handler) without a name: the object's own notifier list *)

Inductive op :=
| Read (i n : Z)                                   (* getattr(obj_i, n) *)
| Assign (i n : Z) (content : list Z) (scalar : Z) (* setattr(obj_i, n, a new value of the trait's shape) *)
| Mutate (i n x : Z)                               (* getattr(obj_i, n), then append / set / add x in place *)
| Register (i n hid : Z) (via_observe : bool)      (* obj_i.on_trait_change(h, n) / obj_i.observe(h, n) *)
| AddTrait (i n : Z) (t : tdef)                    (* obj_i.add_trait(n, Int(c)) / List(Int, [..]) *)
| Delete (i n : Z)                                 (* del obj_i.n  (reset_traits([n])) *)
| SetMeta (i n code : Z)                           (* obj_i.trait(n).label = code, n a trait added to this instance *)
| AssignFrom (i n src : Z)                         (* setattr(obj_i, n, the value object stored in obj_src.__dict__[n]) *)
| Introspect (i mode : Z)                          (* obj_i.copyable_trait_names() / traits(k=v) / trait_names(k=v) / traits() *)
| NewInst (c : Z).                                 (* a new instance of class c *)

(* ---- association lists in insertion order ---- *)
Fixpoint alookup {A} (k : Z) (l : list (Z * A)) : option A :=
  match l with [] => None | (k', a) :: r => if k =? k' then Some a else alookup k r end.
Fixpoint aset {A} (k : Z) (a : A) (l : list (Z * A)) : list (Z * A) :=
  match l with
  | [] => [(k, a)]
  | (k', a') :: r => if k =? k' then (k, a) :: r else (k', a') :: aset k a r
  end.
Definition aremove {A} (k : Z) (l : list (Z * A)) : list (Z * A) := filter (fun p => negb (k =? fst p)) l.
Fixpoint update_nth {A} (n : nat) (f : A -> A) (l : list A) : list A :=
  match l, n with
  | [], _ => []
  | a :: r, O => f a :: r
  | a :: r, S m => a :: update_nth m f r
  end.
(* counters: sorted by name, only non-zero entries *)
Fixpoint bump (n : Z) (l : list (Z * Z)) : list (Z * Z) :=
  match l with
  | [] => [(n, 1)]
  | (k, c) :: r => if n =? k then (k, c + 1) :: r else if n <? k then (n, 1) :: (k, c) :: r else (k, c) :: bump n r
  end.
Fixpoint insert_sorted (x : Z) (l : list Z) : list Z :=
  match l with
  | [] => [x]
  | y :: r => if x =? y then l else if x <? y then x :: l else y :: insert_sorted x r
  end.
Fixpoint zlist_eqb (a b : list Z) : bool :=
  match a, b with
  | [], [] => true
  | x :: a', y :: b' => (x =? y) && zlist_eqb a' b'
  | _, _ => false
  end.

(* ---- default_value_for (ctraits.c l.1840-1913) ---- *)
(* The default a trait definition declares, allocated from [next]:
   (value, next fresh oid afterwards). *)
Definition default_value (t : tdef) (next : Z) : value * Z :=
  match t_kind t with
  | KConst | KMethodInt => (mkV 0 [(0, t_content t)], next)         (* trait->default_value / the method's int *)
  | KListCopy | KFactory => (mkV 1 [(next, t_content t)], next + 1)   (* a new list object per call *)
  | KTraitList | KMethod | KUnion => (mkV 5 [(next, t_content t)], next + 1)
  | KDictCopy => (mkV 2 [(next, t_content t)], next + 1)
  | KTraitDict => (mkV 6 [(next, t_content t)], next + 1)
  | KTraitSet => (mkV 3 [(next, t_content t)], next + 1)
  | KTuple => (mkV 4 [(next, []); (next + 1, t_content t); (0, [t_scalar t])], next + 2)
  | KUuid => (mkV 10 [(next, [])], next + 1)                         (* uuid.uuid4(): a new object per call *)
  | KArray => (mkV 8 [(next, t_content t)], next + 1)                (* a fresh copy of the class-level array *)
  | KTuple2 => (mkV 7 [(next, []); (next + 1, t_content t); (next + 2, [t_scalar t])], next + 3)
  | KEvent => (mkV 9 [], next)
  end.
(* kinds whose default is produced by a user callable the harness counts *)
Definition counted (t : tdef) : bool :=
  match t_kind t with KFactory | KMethod | KMethodInt => true | _ => false end.

(* class traits that come with a "<name>_items" event trait (handler.has_items) *)
Definition has_items (k : kind) : bool :=
  match k with KTraitList | KTraitDict | KTraitSet | KMethod => true | _ => false end.

Definition vcontent (v : value) : list Z := concat (map snd (v_parts v)).

(* a new value of the trait's shape built from an assignment payload *)
Definition assigned_value (t : tdef) (content : list Z) (scalar : Z) (next : Z) : value * Z :=
  default_value (mkT (t_kind t) content scalar 0 0 false 2 0) next.

(* in-place mutation of the first mutable part *)
Definition mutate_value (v : value) (x : Z) : value :=
  match v_shape v, v_parts v with
  | 1, (o, c) :: r => mkV 1 ((o, c ++ [x]) :: r)                       (* list.append(x) *)
  | 5, (o, c) :: r => mkV 5 ((o, c ++ [x]) :: r)
  | 2, (o, c) :: r => mkV 2 ((o, c ++ [x; x]) :: r)                    (* d[x] = x, x a new key *)
  | 6, (o, c) :: r => mkV 6 ((o, c ++ [x; x]) :: r)
  | 3, (o, c) :: r => mkV 3 ((o, insert_sorted x c) :: r)              (* s.add(x) *)
  | 4, p :: (o, c) :: r => mkV 4 (p :: (o, c ++ [x]) :: r)             (* t[0].append(x) *)
  | 8, (o, c) :: r => mkV 8 ((o, x :: tl c) :: r)                      (* a[0] = x *)
  | 7, p :: q :: (o, c) :: r => mkV 7 (p :: q :: (o, c ++ [x]) :: r)   (* t[1].append(x): the second member *)
  | _, _ => v
  end.

Definition error_value : value := mkV 9 [].
(* shapes that compare equal in Python when their contents do *)
Definition shape_class (s : Z) : Z := if s =? 5 then 1 else if s =? 6 then 2 else s.

Definition new_inst (c : Z) : inst := mkI c [] [] [] [] [].

Section Step.
  Variable w : world.

  Definition class_of (ins : inst) : list (Z * tdef) := nth (Z.to_nat (i_cls ins)) (w_classes w) [].

  (* has_traits_getattro / get_trait(…, 0): instance trait first, then class trait *)
  Definition resolve (ins : inst) (n : Z) : option tdef :=
    match alookup n (i_itraits ins) with
    | Some t => Some t
    | None => alookup n (class_of ins)
    end.

  (* a class defining `_anytrait_changed(self, name, old, new)` has the row [anytrait_name]: that static catch-all
     handler (id -5) is the first notifier of every class trait and of every trait added later *)
  Definition class_any (ins : inst) : bool :=
    match alookup anytrait_name (class_of ins) with Some _ => true | None => false end.
  Definition any_count (ins : inst) : Z := if class_any ins then 1 else 0.

  (* the handlers a change of name n on this instance reaches, in call order *)
  Definition hids (ins : inst) (t : tdef) (n : Z) : list Z :=
    (if class_any ins then [-5] else [])
    ++ (if t_static t then [0] else [])
    ++ map snd (filter (fun p => fst p =? n) (i_regs ins))
    ++ map snd (filter (fun p => fst p =? any_name) (i_regs ins)).     (* tnotifiers, then onotifiers *)

  (* call_notifiers + the wrappers' filter (trait_notifiers.py l.658): old = None is Uninitialized *)
  Definition notify (hs : list Z) (n : Z) (old : option (list Z)) (same : bool) (new : list Z) : list logent :=
    match old with
    | None => []
    | Some o => if same then [] else map (fun h => (h, n, o, new)) hs     (* equality comparison mode: old != new *)
    end.

  (* get_trait(obj, n, 2): clone the class trait into the instance traits dict unless present *)
  Definition ensure_itrait (ins : inst) (n : Z) (t : tdef) : list (Z * tdef) :=
    match alookup n (i_itraits ins) with
    | Some _ => i_itraits ins
    | None => i_itraits ins ++ [(n, t)]
    end.

  (* getattr_trait: compute the default, store it, notify with old = Uninitialized *)
  Definition materialise (ins : inst) (n : Z) (t : tdef) : inst * value * Z :=
    let '(v, next') := default_value t (w_next w) in
    (mkI (i_cls ins) (i_dict ins ++ [(n, v)]) (i_itraits ins)
         (if counted t then bump n (i_calls ins) else i_calls ins)
         (i_log ins ++ notify (hids ins t n) n None false (vcontent v))
         (i_regs ins),
     v, next').

  (* A TraitListObject whose "<n>_items" event is not a trait yet gets it added on the instance when it
     first fires (trait_items_event -> add_trait), which also fires trait_added. *)
  Definition items_fix (ins : inst) (n : Z) (v : value) (its : list (Z * tdef)) : list (Z * tdef) :=
    if (v_shape v =? 5)
       && negb (match alookup n (class_of ins) with Some ct => has_items (t_kind ct) | None => false end) then
      match alookup (items_name n) its with
      | Some _ => its
      | None =>
          let its1 := its ++ [(items_name n, mkT KEvent [] 0 0 (any_count ins) false 2 0)] in
          match alookup trait_added its1, alookup trait_added (class_of ins) with
          | None, Some ta => its1 ++ [(trait_added, ta)]
          | _, _ => its1
          end
      end
    else its.

  (* With an object-level handler the items event of a Trait{List,Dict,Set}Object reaches a wrapper, whose
     _change_accepted calls object._trait("<n>_items", 2): the items trait is cloned into the instance. *)
  Definition fires_items (v : value) : bool := (v_shape v =? 3) || (v_shape v =? 5) || (v_shape v =? 6).
  Definition has_any (ins : inst) : bool := existsb (fun p => fst p =? any_name) (i_regs ins) || class_any ins.
  Definition any_fix (ins : inst) (n : Z) (v : value) (its : list (Z * tdef)) : list (Z * tdef) :=
    if fires_items v && has_any ins then
      match alookup (items_name n) its with
      | Some _ => its
      | None => its ++ [(items_name n, match alookup (items_name n) (class_of ins) with
                                       | Some ct => ct                      (* clone of the class's items trait *)
                                       | None => mkT KEvent [] 0 0 0 false 2 0
                                       end)]
      end
    else its.

  (* setattr_trait (l.2373-2549) *)
  Definition assign_inst (ins : inst) (n : Z) (content : list Z) (scalar : Z) : inst * value * Z :=
        match resolve ins n with
        | None => (ins, error_value, w_next w)
        | Some t =>
            let '(v, next') := assigned_value t content scalar (w_next w) in
            let hs := hids ins t n in
            match hs with
            | [] =>                                          (* no notifiers: the old value is never computed *)
                (mkI (i_cls ins) (aset n v (i_dict ins)) (i_itraits ins) (i_calls ins) (i_log ins) (i_regs ins),
                 mkV 0 [], next')
            | _ =>
                (* old = __dict__ value, else default_value_for (stored, then overwritten) *)
                let '(olds, oldc, calls') :=
                  match alookup n (i_dict ins) with
                  | Some ov => (v_shape ov, vcontent ov, i_calls ins)
                  | None => (v_shape (fst (default_value t 0)), vcontent (fst (default_value t 0)),
                             if counted t then bump n (i_calls ins) else i_calls ins)
                  end in
                (* Python equality of old and new: same kind of container (a TraitListObject equals a list with
                   the same items, a list never equals an int) and same contents *)
                let same := (shape_class olds =? shape_class (v_shape v)) && zlist_eqb oldc (vcontent v) in
                (* C: changed = (old_value != value) — pointer comparison: a scalar equal to the old one is
                   the same object, a new container never is; the wrappers then filter by equality and
                   _change_accepted calls object._trait(name, 2), which clones the trait *)
                (* comparison_mode none: every assignment is a change; identity: pointer comparison only *)
                let called := if t_cmp t =? 0 then true else negb ((v_shape v =? 0) && same) in
                let filtered := if t_cmp t =? 2 then same else false in
                (mkI (i_cls ins) (aset n v (i_dict ins))
                     (if called then ensure_itrait ins n t else i_itraits ins)
                     calls'
                     (i_log ins ++ (if called then notify hs n (Some oldc) filtered (vcontent v) else []))
                     (i_regs ins),
                 mkV 0 [], next')
            end
        end.

  (* setattr_trait with value == NULL (l.2390-2440): remove the stored value; with listeners the value the attribute
     reverts to is obtained through getattr — computed, STORED, counted again (the counters count runs since the
     attribute last became unassigned) — and the change old -> default is reported like an assignment *)
  Definition delete_inst (ins : inst) (n : Z) : inst * value * Z :=
    match alookup n (i_dict ins) with
    | None => (ins, mkV 0 [], w_next w)                    (* nothing stored: return 0 *)
    | Some ov =>
        let ins1 := mkI (i_cls ins) (aremove n (i_dict ins)) (i_itraits ins) (aremove n (i_calls ins)) (i_log ins)
                        (i_regs ins) in
        match resolve ins n with
        | None => (ins1, mkV 0 [], w_next w)
        | Some t =>
            match hids ins t n with
            | [] => (ins1, mkV 0 [], w_next w)               (* no listeners: the default is not computed *)
            | hs =>
                let '(ins2, v, next') := materialise ins1 n t in
                let same := (shape_class (v_shape ov) =? shape_class (v_shape v))
                            && zlist_eqb (vcontent ov) (vcontent v) in
                let called := if t_cmp t =? 0 then true else negb ((v_shape v =? 0) && same) in
                let filtered := if t_cmp t =? 2 then same else false in
                (mkI (i_cls ins2) (i_dict ins2)
                     (if called then ensure_itrait ins2 n t else i_itraits ins2)
                     (i_calls ins2)
                     (i_log ins2 ++ (if called then notify hs n (Some (vcontent ov)) filtered (vcontent v) else []))
                     (i_regs ins2),
                 mkV 0 [], next')
            end
        end
    end.

  (* the payload that rebuilds a value of the same contents *)
  Definition payload_of (v : value) : list Z * Z :=
    match v_shape v, v_parts v with
    | 4, _ :: (_, c) :: (_, [sc]) :: _ => (c, sc)
    | 7, _ :: (_, c) :: (_, sc :: _) :: _ => (c, sc)      (* (a second list that was mutated is not rebuilt in full) *)
    | _, (_, c) :: _ => (c, 0)
    | _, _ => ([], 0)
    end.

  (* one operation on instance [ins]: new instance view, returned value, next oid *)
  Definition step_inst (ins : inst) (o : op) : inst * value * Z :=
    match o with
    | Read _ n =>
        match alookup n (i_dict ins) with
        | Some v => (ins, v, w_next w)                       (* the performance hack: value in __dict__ *)
        | None =>
            match resolve ins n with
            | Some t => materialise ins n t
            | None => (ins, error_value, w_next w)           (* AttributeError *)
            end
        end
    | Assign _ n content scalar => assign_inst ins n content scalar
    | AssignFrom _ n src =>
        (* the trait validates the foreign container into a new Trait{List,Dict,Set}Object of this instance *)
        match alookup n (i_dict (nth (Z.to_nat src) (w_insts w) (new_inst 0))) with
        | Some v => if (0 <=? src) && (src <? Z.of_nat (length (w_insts w)))
                    then let '(content, scalar) := payload_of v in assign_inst ins n content scalar
                    else (ins, error_value, w_next w)
        | None => (ins, error_value, w_next w)
        end
    | Delete _ n => delete_inst ins n
    | SetMeta _ n code =>
        (* a trait added with add_trait owns its metadata dict (_clone_trait copies it): only this instance sees it *)
        match alookup n (i_itraits ins), alookup n (class_of ins) with
        | Some t, None =>
            (mkI (i_cls ins) (i_dict ins)
                 (aset n (mkT (t_kind t) (t_content t) (t_scalar t) (t_doid t) (t_nnotif t) (t_static t) (t_cmp t) code)
                       (i_itraits ins))
                 (i_calls ins) (i_log ins) (i_regs ins), mkV 0 [], w_next w)
        | _, _ => (ins, error_value, w_next w)
        end
    | Mutate _ n x =>
        match alookup n (i_dict ins) with
        | Some v =>
            (mkI (i_cls ins) (aset n (mutate_value v x) (i_dict ins)) (any_fix ins n v (items_fix ins n v (i_itraits ins)))
                 (i_calls ins) (i_log ins) (i_regs ins), mkV 0 [], w_next w)
        | None =>
            match resolve ins n with
            | None => (ins, error_value, w_next w)
            | Some t =>
                let '(ins', v, next') := materialise ins n t in
                (mkI (i_cls ins') (aset n (mutate_value v x) (i_dict ins'))
                     (any_fix ins n v (items_fix ins n v (i_itraits ins')))
                     (i_calls ins') (i_log ins') (i_regs ins'), mkV 0 [], next')
            end
        end
    | Register _ n hid via_observe =>
        if n =? any_name then                      (* self._notifiers(True).append(wrapper) *)
          (mkI (i_cls ins) (i_dict ins) (i_itraits ins) (i_calls ins) (i_log ins) (i_regs ins ++ [(n, hid)]),
           mkV 0 [], w_next w)
        else
        match resolve ins n with
        | None => (ins, error_value, w_next w)
        | Some t =>
            (* _trait(n, 2)._notifiers(True).append(wrapper) *)
            let bumpn (t0 : tdef) := mkT (t_kind t0) (t_content t0) (t_scalar t0) (t_doid t0) (t_nnotif t0 + 1)
                                         (t_static t0) (t_cmp t0) (t_label t0) in
            let its := aset n (bumpn t) (ensure_itrait ins n t) in
            let its' :=
              if via_observe then
                (* observe() also hooks the trait_added event of the object *)
                match alookup trait_added its, alookup trait_added (class_of ins) with
                | Some ta, _ => aset trait_added (bumpn ta) its
                | None, Some ta => its ++ [(trait_added, bumpn ta)]
                | None, None => its
                end
              else its in
            (mkI (i_cls ins) (i_dict ins) its' (i_calls ins) (i_log ins) (i_regs ins ++ [(n, hid)]),
             mkV 0 [], w_next w)
        end
    | AddTrait _ n t =>
        (* add_trait (has_traits.py l.2799-2870): for a container trait "<n>_items" is added first (recursive
           call), then a clone of the new trait carrying the old trait's notifiers.  Adding a name that had
           no trait fires the trait_added event, whose static handler goes through _change_accepted and so
           clones trait_added into the instance traits.  The default object of the new trait is a new
           class-level-like object. *)
        let container := match t_kind t with KConst => false | _ => true end in
        let fire (its : list (Z * tdef)) : list (Z * tdef) :=
          match alookup trait_added its, alookup trait_added (class_of ins) with
          | None, Some ta => its ++ [(trait_added, ta)]
          | _, _ => its
          end in
        let its0 :=
          if container then
            let known := match alookup (items_name n) (i_itraits ins) with
                         | Some _ => true
                         | None => match alookup n (class_of ins) with
                                   | Some ct => has_items (t_kind ct)
                                   | None => false
                                   end
                         end in
            let nn0 := match alookup (items_name n) (i_itraits ins), alookup (items_name n) (class_of ins) with
                       | Some it, _ => t_nnotif it
                       | None, Some ct => t_nnotif ct
                       | None, None => any_count ins
                       end in
            let its := aset (items_name n) (mkT KEvent [] 0 0 nn0 false 2 0) (i_itraits ins) in
            if known then its else fire its
          else i_itraits ins in
        let old := match alookup n its0 with Some t0 => Some t0 | None => alookup n (class_of ins) end in
        let '(doid, next') := if container then (w_next w, w_next w + 1) else (0, w_next w) in
        (* a new name gets the static handlers the class defines for it (_<name>_changed): the template row *)
        let tmpl := alookup (n + 3000) (class_of ins) in
        let nn := match old with
                  | Some ot => t_nnotif ot
                  | None => match tmpl with Some tm => t_nnotif tm | None => any_count ins end
                  end in
        let st := match old with
                  | Some ot => t_static ot
                  | None => match tmpl with Some tm => t_static tm | None => false end
                  end in
        let its1 := aset n (mkT (t_kind t) (t_content t) (t_scalar t) doid nn st (t_cmp t) (t_label t)) its0 in
        (mkI (i_cls ins) (i_dict ins)
             (match old with Some _ => its1 | None => fire its1 end)
             (i_calls ins) (i_log ins) (i_regs ins),
         mkV 0 [], next')
    | Introspect _ _ => (ins, mkV 0 [], w_next w)      (* HasTraits.traits with metadata works on copies *)
    | NewInst _ => (ins, error_value, w_next w)
    end.

  Definition target (o : op) : Z :=
    match o with
    | Read i _ | Assign i _ _ _ | Mutate i _ _ | Register i _ _ _ | AddTrait i _ _ | Introspect i _
    | SetMeta i _ _ | AssignFrom i _ _ | Delete i _ => i
    | NewInst _ => Z.of_nat (length (w_insts w))
    end.
End Step.

(* ---- wildcard (prefix) traits: `_ = Int(d)` in the class body ----
   A name no definition exists for is resolved through the class's prefix trait on first use
   (ctraits.c get_prefix_trait l.622-646 -> HasTraits.__prefix_trait__, has_traits.py l.3125-3180): the class trait
   for that name is created on demand — the prefix trait itself, or a clone carrying the static handlers defined
   for that name — and stored in the CLASS traits dict (the one sanctioned write to it); then the trait_added event
   fires on the instance that used the name.  In the class table the prefix trait is the row [wild_name], the
   definition a name with static handlers gets is the row [template_name n].  Only names 60..69 are taken to be
   wildcard names (any other undefined name is an AttributeError in the model). *)
Definition wild_name : Z := -3.
Definition template_name (n : Z) : Z := n + 3000.
Definition wild_range (n : Z) : bool := (60 <=? n) && (n <? 70).

(* the attribute name an operation resolves (getattr, setattr, _trait(name, 2)); observe() needs a defined trait *)
Definition op_name (o : op) : option Z :=
  match o with
  | Read _ n | Assign _ n _ _ | Mutate _ n _ | Delete _ n => Some n
  | Register _ n _ via => if via then None else if n =? any_name then None else Some n
  | _ => None
  end.

Definition prefix_resolve (c : list (Z * tdef)) (n : Z) : option tdef :=
  match alookup (template_name n) c with
  | Some t => Some t
  | None => alookup wild_name c
  end.

(* class tables list the declared names in ascending order, then the special rows (templates, prefix trait, trait_added) *)
Fixpoint insert_row (n : Z) (t : tdef) (c : list (Z * tdef)) : list (Z * tdef) :=
  match c with
  | [] => [(n, t)]
  | (k, t') :: r => if (k <? 0) || (n <? k) then (n, t) :: c else (k, t') :: insert_row n t r
  end.

Definition fire_trait_added (w : world) (ins : inst) : inst :=
  mkI (i_cls ins) (i_dict ins)
      (match alookup trait_added (i_itraits ins), alookup trait_added (class_of w ins) with
       | None, Some ta => i_itraits ins ++ [(trait_added, ta)]
       | _, _ => i_itraits ins
       end)
      (i_calls ins) (i_log ins) (i_regs ins).

(* class tables and target instance after the on-demand resolution the operation causes (if any) *)
Definition prefix_use (w : world) (ins : inst) (o : op) : list (list (Z * tdef)) * inst :=
  match op_name o with
  | Some n =>
      if wild_range n then
        match alookup n (i_itraits ins), alookup n (class_of w ins), prefix_resolve (class_of w ins) n with
        | None, None, Some t =>
            (update_nth (Z.to_nat (i_cls ins)) (insert_row n t) (w_classes w), fire_trait_added w ins)
        | _, _, _ => (w_classes w, ins)
        end
      else (w_classes w, ins)
  | None => (w_classes w, ins)
  end.

(* the world after the on-demand resolution an operation causes: the class of the target instance may gain the
   row of the wildcard name, the target instance sees trait_added fire; nothing else changes *)
Definition resolved (w : world) (o : op) : world :=
  match o with
  | NewInst _ => w
  | _ =>
      let i := target w o in
      if (i <? 0) || (Z.of_nat (length (w_insts w)) <=? i) then w
      else
        let '(cls', ins0) := prefix_use w (nth (Z.to_nat i) (w_insts w) (new_inst 0)) o in
        mkW cls' (update_nth (Z.to_nat i) (fun _ => ins0) (w_insts w)) (w_next w)
  end.

(* the operation proper, every name being resolvable or an error: only the target's slot is rewritten *)
Definition step0 (w : world) (o : op) : world * value :=
  match o with
  | NewInst c => (mkW (w_classes w) (w_insts w ++ [new_inst c]) (w_next w), mkV 0 [])
  | _ =>
      let i := target w o in
      if (i <? 0) || (Z.of_nat (length (w_insts w)) <=? i) then (w, error_value)
      else
        let ins := nth (Z.to_nat i) (w_insts w) (new_inst 0) in
        let '(ins', r, next') := step_inst w ins o in
        (mkW (w_classes w) (update_nth (Z.to_nat i) (fun _ => ins') (w_insts w)) next', r)
  end.

Definition step (w : world) (o : op) : world * value := step0 (resolved w o) o.

Fixpoint run (w : world) (ops : list op) : list (op * value * world) :=
  match ops with
  | [] => []
  | o :: r => let '(w', v) := step w o in (o, v, w') :: run w' r
  end.
Definition final (w : world) (ops : list op) : world := fold_left (fun w o => fst (step w o)) ops w.
