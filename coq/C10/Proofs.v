(* C10 — proofs about the model of default values and instance isolation. *)
From Coq Require Import ZArith List Bool Lia.
From TV Require Import Common.Harness C10.Model C10.Law C10.Corr.
Import ListNotations.
Open Scope Z_scope.

(* ------------------------------------------------------------------ *)
(* lists                                                                *)

Lemma chk_nil k b : chk k b = [] <-> b = true.
Proof. destruct b; cbn; split; intros; congruence. Qed.

Lemma zlist_eqb_refl l : zlist_eqb l l = true.
Proof. induction l as [|x l IH]; [reflexivity|]. cbn. rewrite Z.eqb_refl. exact IH. Qed.

Lemma zlist_eqb_eq a : forall b, zlist_eqb a b = true -> a = b.
Proof.
  induction a as [|x a IH]; intros [|y b] H; cbn in H; try discriminate; [reflexivity|].
  apply andb_true_iff in H. destruct H as [H1 H2]. apply Z.eqb_eq in H1. subst. f_equal. apply IH. exact H2.
Qed.

Lemma update_nth_length {A} (f : A -> A) l : forall n, length (update_nth n f l) = length l.
Proof. induction l as [|a l IH]; intros [|n]; cbn; try reflexivity. rewrite IH. reflexivity. Qed.

Lemma nth_error_update_nth_other {A} (f : A -> A) l : forall n j, n <> j ->
  nth_error (update_nth n f l) j = nth_error l j.
Proof.
  induction l as [|a l IH]; intros [|n] [|j] H; cbn; try reflexivity; try congruence.
  apply IH. congruence.
Qed.

Lemma nth_update_nth_same {A} (f : A -> A) (d : A) l : forall n, (n < length l)%nat ->
  nth n (update_nth n f l) d = f (nth n l d).
Proof.
  induction l as [|a l IH]; intros [|n] H; cbn in *; try lia; try reflexivity. apply IH. lia.
Qed.

Lemma update_nth_id {A} (d : A) l : forall n, (n < length l)%nat ->
  update_nth n (fun _ => nth n l d) l = l.
Proof.
  induction l as [|a l IH]; intros [|n] H; cbn in *; try lia; try reflexivity. rewrite IH by lia. reflexivity.
Qed.

Lemma update_nth_twice {A} (f g : A -> A) l : forall n,
  update_nth n f (update_nth n g l) = update_nth n (fun x => f (g x)) l.
Proof. induction l as [|a l IH]; intros [|n]; cbn; try reflexivity. rewrite IH. reflexivity. Qed.

Lemma update_nth_ext {A} (f g : A -> A) l : forall n, (forall x, f x = g x) -> update_nth n f l = update_nth n g l.
Proof. induction l as [|a l IH]; intros [|n] H; cbn; try reflexivity; [rewrite H | rewrite (IH n H)]; reflexivity. Qed.

Lemma alookup_app {A} k (a b : list (Z * A)) :
  alookup k (a ++ b) = match alookup k a with Some x => Some x | None => alookup k b end.
Proof. induction a as [|[k' x] a IH]; [reflexivity|]. cbn. destruct (k =? k'); [reflexivity | exact IH]. Qed.

Lemma alookup_aset {A} k k' (x : A) l : alookup k (aset k' x l) = if k =? k' then Some x else alookup k l.
Proof.
  induction l as [|[k2 y] l IH]; cbn.
  - destruct (k =? k'); reflexivity.
  - destruct (Z.eqb_spec k' k2) as [->|Hne]; cbn.
    + destruct (k =? k2); reflexivity.
    + destruct (Z.eqb_spec k k2) as [->|Hne2].
      * destruct (Z.eqb_spec k2 k'); [congruence | reflexivity].
      * exact IH.
Qed.

(* ------------------------------------------------------------------ *)
(* the class tables are never written by the operation proper           *)

Definition final0 (w : world) (ops : list op) : world := fold_left (fun w o => fst (step0 w o)) ops w.

Lemma step_classes0 w o : w_classes (fst (step0 w o)) = w_classes w.
Proof.
  destruct o; cbn [step0]; try reflexivity;
    match goal with |- context [if ?c then _ else _] => destruct c end; try reflexivity;
    match goal with |- context [step_inst ?w ?i ?o] => destruct (step_inst w i o) as [[? ?] ?] end; reflexivity.
Qed.

Lemma final_classes0 ops : forall w, w_classes (final0 w ops) = w_classes w.
Proof.
  induction ops as [|o ops IH]; intros w; [reflexivity|]. cbn [final0 fold_left].
  change (fold_left (fun w o => fst (step0 w o)) ops ?x) with (final0 x ops). rewrite IH. apply step_classes0.
Qed.

(* ------------------------------------------------------------------ *)
(* non-interference: only the target's slot is rewritten                *)

Definition op_index (o : op) : option Z :=
  match o with
  | Read i _ | Assign i _ _ _ | Mutate i _ _ | Register i _ _ _ | AddTrait i _ _ | Introspect i _
  | SetMeta i _ _ | AssignFrom i _ _ | Delete i _ => Some i
  | NewInst _ => None
  end.

Definition valid_index (w : world) (i : Z) : Prop := 0 <= i < Z.of_nat (length (w_insts w)).
Definition inst_at (w : world) (i : Z) : inst := nth (Z.to_nat i) (w_insts w) (new_inst 0).

(* the three shapes of a step0 *)
Lemma step_shape0 w o :
  (exists c, o = NewInst c) \/
  (step0 w o = (w, error_value) /\ ~ valid_index w (target w o)) \/
  (exists ins' r nx,
      valid_index w (target w o) /\ op_index o = Some (target w o) /\
      step_inst w (inst_at w (target w o)) o = (ins', r, nx) /\
      step0 w o = (mkW (w_classes w) (update_nth (Z.to_nat (target w o)) (fun _ => ins') (w_insts w)) nx, r)).
Proof.
  destruct o as [i n|i n content scalar|i n x|i n hid via|i n t|i n|i n code|i n src|i md|c]; [| | | | | | | | |left; eexists; reflexivity]; right;
    cbn [step0 target op_index];
    (destruct ((i <? 0) || (Z.of_nat (length (w_insts w)) <=? i)) eqn:Ec;
     [left; split; [reflexivity|]; unfold valid_index; intros [H1 H2];
      apply orb_true_iff in Ec; destruct Ec as [E|E]; [apply Z.ltb_lt in E | apply Z.leb_le in E]; lia
     |right; unfold inst_at;
      match goal with |- context [step_inst w ?a ?o] => destruct (step_inst w a o) as [[ins' r] nx] eqn:Es end;
      exists ins', r, nx; apply orb_false_iff in Ec; destruct Ec as [E1 E2];
      apply Z.ltb_ge in E1; apply Z.leb_gt in E2; unfold valid_index; repeat split; try lia; reflexivity]).
Qed.

Lemma step_insts_length0 w o : (length (w_insts w) <= length (w_insts (fst (step0 w o))))%nat.
Proof.
  destruct (step_shape0 w o) as [[c ->]|[[-> _]|(ins' & r & nx & _ & _ & _ & ->)]]; cbn [step0 fst w_insts].
  - rewrite app_length. cbn. lia.
  - lia.
  - rewrite update_nth_length. lia.
Qed.

Lemma step_other_instance0 w o j :
  (j < length (w_insts w))%nat -> op_index o <> Some (Z.of_nat j) ->
  nth_error (w_insts (fst (step0 w o))) j = nth_error (w_insts w) j.
Proof.
  intros Hj Hne.
  destruct (step_shape0 w o) as [[c ->]|[[-> _]|(ins' & r & nx & Hv & Hi & _ & ->)]]; cbn [step0 fst w_insts].
  - apply nth_error_app1. exact Hj.
  - reflexivity.
  - apply nth_error_update_nth_other. intros E. apply Hne. rewrite Hi. f_equal. rewrite <- E.
    rewrite Z2Nat.id; [reflexivity | destruct Hv; lia].
Qed.

Lemma final_other_instance0 ops : forall w j,
  (j < length (w_insts w))%nat -> Forall (fun o => op_index o <> Some (Z.of_nat j)) ops ->
  nth_error (w_insts (final0 w ops)) j = nth_error (w_insts w) j.
Proof.
  induction ops as [|o ops IH]; intros w j Hj Hall; [reflexivity|]. cbn [final0 fold_left].
  change (fold_left (fun w o => fst (step0 w o)) ops ?x) with (final0 x ops).
  inversion Hall as [|? ? Ho Hr]; subst. rewrite IH.
  - apply step_other_instance0; assumption.
  - pose proof (step_insts_length0 w o). lia.
  - exact Hr.
Qed.

(* an instance created after any history starts with the empty view, whatever happened before *)
Lemma new_instance_is_empty0 w c :
  nth_error (w_insts (fst (step0 w (NewInst c)))) (length (w_insts w)) = Some (new_inst c)
  /\ w_next (fst (step0 w (NewInst c))) = w_next w.
Proof.
  cbn [step0 fst w_insts w_next]. split; [|reflexivity].
  rewrite nth_error_app2 by lia. rewrite Nat.sub_diag. reflexivity.
Qed.

(* ------------------------------------------------------------------ *)
(* reads                                                                *)

Lemma range_check w i : valid_index w i -> (i <? 0) || (Z.of_nat (length (w_insts w)) <=? i) = false.
Proof. intros [H1 H2]. apply orb_false_iff. split; [apply Z.ltb_ge | apply Z.leb_gt]; lia. Qed.

Lemma notify_uninitialized hs n b new : notify hs n None b new = [].
Proof. reflexivity. Qed.

(* first read of an unassigned trait: the declared default, freshly allocated, stored, silent *)
Lemma first_read0 w i n t :
  valid_index w i -> alookup n (i_dict (inst_at w i)) = None -> resolve w (inst_at w i) n = Some t ->
  let ins := inst_at w i in
  let v := fst (default_value t (w_next w)) in
  step0 w (Read i n)
  = (mkW (w_classes w)
         (update_nth (Z.to_nat i)
            (fun _ => mkI (i_cls ins) (i_dict ins ++ [(n, v)]) (i_itraits ins)
                          (if counted t then bump n (i_calls ins) else i_calls ins) (i_log ins) (i_regs ins))
            (w_insts w))
         (snd (default_value t (w_next w))),
     v).
Proof.
  intros Hv Hd Hr. cbn zeta. cbn [step0 target]. rewrite (range_check w i Hv).
  unfold inst_at in *. cbn [step_inst]. rewrite Hd, Hr. unfold materialise.
  destruct (default_value t (w_next w)) as [v next'] eqn:Ed. cbn [fst snd].
  rewrite notify_uninitialized, app_nil_r. reflexivity.
Qed.

(* a read of a stored value returns that object and changes nothing at all *)
Lemma stored_read0 w i n v :
  valid_index w i -> alookup n (i_dict (inst_at w i)) = Some v -> step0 w (Read i n) = (w, v).
Proof.
  intros Hv Hd. cbn [step0 target]. rewrite (range_check w i Hv). unfold inst_at in *. cbn [step_inst].
  rewrite Hd. f_equal. destruct w as [cs insts nx]. cbn [w_classes w_insts w_next] in *. f_equal.
  apply update_nth_id. destruct Hv as [H1 H2]. cbn in H2. lia.
Qed.

Lemma later_reads_same0 w i n t :
  valid_index w i -> alookup n (i_dict (inst_at w i)) = None -> resolve w (inst_at w i) n = Some t ->
  let w1 := fst (step0 w (Read i n)) in
  let v := snd (step0 w (Read i n)) in
  step0 w1 (Read i n) = (w1, v).
Proof.
  intros Hv Hd Hr. cbn zeta. rewrite (first_read0 w i n t Hv Hd Hr). cbn [fst snd].
  apply stored_read0.
  - unfold valid_index in *. cbn [w_insts]. rewrite update_nth_length. exact Hv.
  - unfold inst_at in *. cbn [w_insts]. rewrite nth_update_nth_same by (destruct Hv; lia).
    cbn [i_dict]. rewrite alookup_app, Hd. cbn. rewrite Z.eqb_refl. reflexivity.
Qed.

(* ------------------------------------------------------------------ *)
(* default methods / factories run at most once per (instance, attribute) *)

Lemma alookup_bump_same n l : alookup n l = None -> alookup n (bump n l) = Some 1.
Proof.
  induction l as [|[k c] l IH]; cbn; intros H; [rewrite Z.eqb_refl; reflexivity|].
  destruct (Z.eqb_spec n k) as [->|Hne]; [discriminate|]. cbn.
  destruct (n <? k); cbn.
  - rewrite Z.eqb_refl. reflexivity.
  - destruct (Z.eqb_spec n k); [contradiction | exact (IH H)].
Qed.

Lemma alookup_bump_other n m l : m <> n -> alookup m (bump n l) = alookup m l.
Proof.
  intros Hne. induction l as [|[k c] l IH]; cbn.
  - destruct (Z.eqb_spec m n); [contradiction | reflexivity].
  - destruct (Z.eqb_spec n k) as [->|Hnk]; cbn.
    + destruct (Z.eqb_spec m k); [contradiction | reflexivity].
    + destruct (n <? k); cbn.
      * destruct (Z.eqb_spec m n); [contradiction | reflexivity].
      * destruct (m =? k); [reflexivity | exact IH].
Qed.

(* every counter is 1 and belongs to a materialised attribute *)
Definition calls_ok (ins : inst) : Prop :=
  Forall (fun p => snd p = 1 /\ alookup (fst p) (i_dict ins) <> None) (i_calls ins).

Lemma bump_forall (P : Z * Z -> Prop) n l :
  (forall p, In p l -> fst p <> n) -> Forall P l -> P (n, 1) -> Forall P (bump n l).
Proof.
  intros Hk Hl Hn. induction l as [|[k c] l IH]; cbn.
  - constructor; [exact Hn | constructor].
  - inversion Hl as [|? ? H1 H2]; subst.
    destruct (Z.eqb_spec n k) as [->|Hne]; [exfalso; apply (Hk (k, c)); [left; reflexivity | reflexivity]|].
    destruct (n <? k).
    + constructor; [exact Hn | exact Hl].
    + constructor; [exact H1|]. apply IH; [|exact H2]. intros p Hp. apply Hk. right. exact Hp.
Qed.

Lemma calls_ok_bump ins n (d' : list (Z * value)) :
  calls_ok ins -> alookup n (i_dict ins) = None ->
  (forall m, alookup m (i_dict ins) <> None -> alookup m d' <> None) -> alookup n d' <> None ->
  Forall (fun p => snd p = 1 /\ alookup (fst p) d' <> None) (bump n (i_calls ins)).
Proof.
  intros Hok Hd Hmono Hn. unfold calls_ok in Hok. apply bump_forall.
  - intros p Hp E. rewrite Forall_forall in Hok. destruct (Hok p Hp) as [_ Hin]. rewrite E in Hin. contradiction.
  - eapply Forall_impl; [|exact Hok]. intros p [H1 H2]. split; [exact H1 | apply Hmono, H2].
  - split; [reflexivity | exact Hn].
Qed.

Lemma aset_mono {A} n (x : A) d m : alookup m d <> None -> alookup m (aset n x d) <> None.
Proof. intros H. rewrite alookup_aset. destruct (m =? n); [discriminate | exact H]. Qed.
Lemma aset_in {A} n (x : A) d : alookup n (aset n x d) <> None.
Proof. rewrite alookup_aset, Z.eqb_refl. discriminate. Qed.
Lemma app_mono {A} n (x : A) d m : alookup m d <> None -> alookup m (d ++ [(n, x)]) <> None.
Proof. intros H. rewrite alookup_app. destruct (alookup m d); [discriminate | contradiction]. Qed.
Lemma app_in {A} n (x : A) d : alookup n (d ++ [(n, x)]) <> None.
Proof. rewrite alookup_app. destruct (alookup n d); [discriminate|]. cbn. rewrite Z.eqb_refl. discriminate. Qed.

Lemma calls_ok_mono ins (d' : list (Z * value)) its lg rg :
  calls_ok ins -> (forall m, alookup m (i_dict ins) <> None -> alookup m d' <> None) ->
  calls_ok (mkI (i_cls ins) d' its (i_calls ins) lg rg).
Proof.
  intros Hok Hm. unfold calls_ok in *. cbn [i_calls i_dict]. eapply Forall_impl; [|exact Hok].
  intros p [H1 H2]. split; [exact H1 | apply Hm, H2].
Qed.

Lemma materialise_calls_ok w ins n t :
  calls_ok ins -> alookup n (i_dict ins) = None ->
  calls_ok (fst (fst (materialise w ins n t)))
  /\ (forall m, alookup m (i_dict ins) <> None -> alookup m (i_dict (fst (fst (materialise w ins n t)))) <> None)
  /\ alookup n (i_dict (fst (fst (materialise w ins n t)))) <> None.
Proof.
  intros Hok Hd. unfold materialise. destruct (default_value t (w_next w)) as [v nx]. cbn [fst i_dict].
  split; [|split].
  - destruct (counted t).
    + unfold calls_ok. cbn [i_calls i_dict].
      apply (calls_ok_bump ins n); try assumption; [intros m0; apply app_mono | apply app_in].
    + apply calls_ok_mono; [exact Hok | intros m0; apply app_mono].
  - intros m0. apply app_mono.
  - apply app_in.
Qed.

Lemma assign_inst_calls_ok w ins n content scalar :
  calls_ok ins -> calls_ok (fst (fst (assign_inst w ins n content scalar))).
Proof.
  intros Hok. unfold assign_inst.
  destruct (resolve w ins n) as [t|]; [|exact Hok].
  destruct (assigned_value t content scalar (w_next w)) as [v nx].
  destruct (hids w ins t n) as [|h hs].
  + cbn [fst]. apply calls_ok_mono; [exact Hok | intros m; apply aset_mono].
  + destruct (alookup n (i_dict ins)) as [ov|] eqn:Ed; cbn [fst].
    * apply calls_ok_mono; [exact Hok | intros m; apply aset_mono].
    * destruct (counted t).
      -- unfold calls_ok. cbn [i_calls i_dict].
         apply (calls_ok_bump ins n); try assumption; [intros m0; apply aset_mono | apply aset_in].
      -- apply calls_ok_mono; [exact Hok | intros m; apply aset_mono].
Qed.

Lemma alookup_aremove {A} k n (l : list (Z * A)) : alookup k (aremove n l) = if k =? n then None else alookup k l.
Proof.
  unfold aremove. induction l as [|[k2 a] r IH]; cbn [filter alookup fst]; [destruct (k =? n); reflexivity|].
  destruct (Z.eqb_spec n k2) as [->|Hne]; cbn [negb alookup].
  - rewrite IH. destruct (Z.eqb_spec k k2); reflexivity.
  - rewrite IH. destruct (Z.eqb_spec k k2) as [->|]; [|reflexivity].
    destruct (Z.eqb_spec k2 n); [congruence | reflexivity].
Qed.

Lemma delete_inst_calls_ok w ins n : calls_ok ins -> calls_ok (fst (fst (delete_inst w ins n))).
Proof.
  intros Hok. unfold delete_inst. destruct (alookup n (i_dict ins)) as [ov|]; [|exact Hok].
  set (ins1 := mkI (i_cls ins) (aremove n (i_dict ins)) (i_itraits ins) (aremove n (i_calls ins)) (i_log ins) (i_regs ins)).
  assert (H1 : calls_ok ins1).
  { unfold calls_ok in *. subst ins1. cbn [i_calls i_dict]. apply Forall_forall. intros p Hp.
    unfold aremove in Hp. apply filter_In in Hp. destruct Hp as [Hin Hne]. rewrite Forall_forall in Hok. destruct (Hok p Hin) as [Hc Hd].
    split; [exact Hc|]. rewrite alookup_aremove. apply negb_true_iff in Hne.
    rewrite Z.eqb_sym, Hne. exact Hd. }
  assert (Hn : alookup n (i_dict ins1) = None) by (subst ins1; cbn [i_dict]; rewrite alookup_aremove, Z.eqb_refl; reflexivity).
  replace (resolve w ins n) with (resolve w ins1 n) by reflexivity.
  destruct (resolve w ins1 n) as [t|]; [|exact H1].
  replace (hids w ins t n) with (hids w ins1 t n) by reflexivity.
  destruct (hids w ins1 t n) as [|h hs]; [exact H1|].
  destruct (materialise_calls_ok w ins1 n t H1 Hn) as (H2 & _ & _).
  destruct (materialise w ins1 n t) as [[ins2 v] nx]. cbn [fst] in *.
  apply calls_ok_mono; [exact H2 | auto].
Qed.

Lemma step_inst_calls_ok w ins o : calls_ok ins -> calls_ok (fst (fst (step_inst w ins o))).
Proof.
  intros Hok. destruct o as [i n|i n content scalar|i n x|i n hid via|i n t|i n|i n code|i n src|i md|c]; cbn [step_inst].
  - (* Read *)
    destruct (alookup n (i_dict ins)) eqn:Ed; [exact Hok|].
    destruct (resolve w ins n) as [t|]; [|exact Hok]. apply materialise_calls_ok; assumption.
  - (* Assign *)
    apply assign_inst_calls_ok, Hok.
  - (* Mutate *)
    destruct (alookup n (i_dict ins)) as [v|] eqn:Ed; cbn [fst].
    + apply calls_ok_mono; [exact Hok | intros m; apply aset_mono].
    + destruct (resolve w ins n) as [t|]; [|exact Hok].
      destruct (materialise_calls_ok w ins n t Hok Ed) as (H1 & H2 & H3).
      destruct (materialise w ins n t) as [[ins' v] nx]. cbn [fst] in *.
      unfold calls_ok in *. cbn [i_calls i_dict] in *. eapply Forall_impl; [|exact H1].
      intros p [Hc Hin]. split; [exact Hc | apply aset_mono, Hin].
  - (* Register *)
    destruct (n =? any_name); [cbn [fst]; apply calls_ok_mono; [exact Hok | auto]|].
    destruct (resolve w ins n) as [t|]; [|exact Hok]. cbn [fst].
    apply calls_ok_mono; [exact Hok | auto].
  - (* AddTrait *)
    match goal with |- context [if ?c then (w_next w, w_next w + 1) else (0, w_next w)] => destruct c end;
      cbn [fst]; (apply calls_ok_mono; [exact Hok | auto]).
  - (* Delete *)
    apply delete_inst_calls_ok, Hok.
  - (* SetMeta *)
    destruct (alookup n (i_itraits ins)); [|exact Hok]. destruct (alookup n (class_of w ins)); [exact Hok|].
    cbn [fst]. apply calls_ok_mono; [exact Hok | auto].
  - (* AssignFrom *)
    destruct (alookup n (i_dict (nth (Z.to_nat src) (w_insts w) (new_inst 0)))) as [v|]; [|exact Hok].
    destruct ((0 <=? src) && (src <? Z.of_nat (length (w_insts w)))); [|exact Hok].
    destruct (payload_of v) as [c0 s0]. apply assign_inst_calls_ok, Hok.
  - exact Hok.
  - exact Hok.
Qed.

Definition world_calls_ok (w : world) : Prop := Forall calls_ok (w_insts w).

Lemma Forall_update_nth {A} (P : A -> Prop) f l : forall n,
  Forall P l -> (forall x, P x -> P (f x)) -> Forall P (update_nth n f l).
Proof.
  induction l as [|a l IH]; intros [|n] H Hf; cbn; try constructor; inversion H; subst; auto.
Qed.

Lemma Forall_nth {A} (P : A -> Prop) l d : forall n, Forall P l -> P d -> P (nth n l d).
Proof. induction l as [|a l IH]; intros [|n] H Hd; cbn; inversion H; subst; auto. Qed.

Lemma new_inst_calls_ok c : calls_ok (new_inst c).
Proof. constructor. Qed.

Lemma step_calls_ok0 w o : world_calls_ok w -> world_calls_ok (fst (step0 w o)).
Proof.
  unfold world_calls_ok. intros H.
  assert (Hnth : forall k, calls_ok (nth k (w_insts w) (new_inst 0))).
  { intros k. apply Forall_nth; [exact H | apply new_inst_calls_ok]. }
  destruct o; cbn [step0];
    try (match goal with |- context [if ?c then _ else _] => destruct c end; [exact H|];
         match goal with |- context [step_inst w ?i ?o] =>
           pose proof (step_inst_calls_ok w i o (Hnth _)) as Hs; destruct (step_inst w i o) as [[? ?] ?] end;
         cbn [fst w_insts] in *; apply Forall_update_nth; [exact H | intros; exact Hs]).
  cbn [fst w_insts]. apply Forall_app. split; [exact H | constructor; [apply new_inst_calls_ok | constructor]].
Qed.

Lemma final_calls_ok0 ops : forall w, world_calls_ok w -> world_calls_ok (final0 w ops).
Proof.
  induction ops as [|o ops IH]; intros w H; [exact H|]. cbn [final0 fold_left].
  change (fold_left (fun w o => fst (step0 w o)) ops ?x) with (final0 x ops). apply IH, step_calls_ok0, H.
Qed.

(* from a world without instances: after any history every counter of every instance is 1 *)
Lemma default_method_once0 cls next0 ops ins n c :
  In ins (w_insts (final0 (mkW cls [] next0) ops)) -> In (n, c) (i_calls ins) ->
  c = 1 /\ alookup n (i_dict ins) <> None.
Proof.
  intros Hin Hl. assert (H : world_calls_ok (final0 (mkW cls [] next0) ops)).
  { apply final_calls_ok0. constructor. }
  unfold world_calls_ok in H. rewrite Forall_forall in H. specialize (H ins Hin). unfold calls_ok in H.
  rewrite Forall_forall in H. exact (H (n, c) Hl).
Qed.

(* ------------------------------------------------------------------ *)
(* allocation: every object in the world lies below the allocator, every
   default is allocated at or above it — so a default never aliases anything *)

Definition below (b : Z) (l : list Z) : Prop := Forall (fun x => x < b) l.
Definition class_oids (w : world) : list Z := flat_map (fun c => map (fun p => t_doid (snd p)) c) (w_classes w).

Lemma below_weaken b b' l : b <= b' -> below b l -> below b' l.
Proof. intros H. unfold below. apply Forall_impl. intros; lia. Qed.
Lemma below_app b l1 l2 : below b (l1 ++ l2) <-> below b l1 /\ below b l2.
Proof. unfold below. apply Forall_app. Qed.

Lemma default_value_oids t next :
  0 < next ->
  next <= snd (default_value t next) /\
  Forall (fun x => next <= x < snd (default_value t next)) (value_oids (fst (default_value t next))).
Proof.
  intros Hp. unfold default_value, value_oids.
  destruct (t_kind t); cbn [fst snd v_parts map filter];
    repeat match goal with
           | |- context [negb (?a =? 0)] =>
               let E := fresh "E" in destruct (Z.eqb_spec a 0) as [E|E]; [try lia|]; cbn [negb]
           end;
    (split; [lia|]); repeat constructor; lia.
Qed.

Lemma value_oids_mutate v x : value_oids (mutate_value v x) = value_oids v.
Proof.
  unfold mutate_value, value_oids. destruct v as [sh ps]. cbn [v_shape v_parts].
  destruct sh as [|p|p]; try reflexivity.
  do 4 (try (destruct p as [p|p|]; try reflexivity));
    destruct ps as [|[o c] [|[o2 c2] [|[o3 c3] r3]]]; try reflexivity; destruct c; reflexivity.
Qed.

Definition dict_oids (d : list (Z * value)) : list Z := flat_map (fun p => value_oids (snd p)) d.
Definition itrait_oids (its : list (Z * tdef)) : list Z := map (fun p => t_doid (snd p)) its.

Lemma inst_oids_split ins : inst_oids ins = dict_oids (i_dict ins) ++ itrait_oids (i_itraits ins).
Proof. reflexivity. Qed.

Lemma below_dict_aset b n v d : below b (dict_oids d) -> below b (value_oids v) -> below b (dict_oids (aset n v d)).
Proof.
  intros Hd Hv. induction d as [|[k x] d IH]; cbn [aset dict_oids flat_map snd] in *.
  - rewrite app_nil_r. exact Hv.
  - apply below_app in Hd. destruct Hd as [H1 H2]. destruct (n =? k); cbn [dict_oids flat_map snd]; apply below_app.
    + split; assumption.
    + split; [exact H1 | apply IH; exact H2].
Qed.

Lemma below_dict_lookup b n v d : below b (dict_oids d) -> alookup n d = Some v -> below b (value_oids v).
Proof.
  intros Hd Hl. induction d as [|[k x] d IH]; cbn in *; [discriminate|].
  apply below_app in Hd. destruct Hd as [H1 H2]. destruct (n =? k); [injection Hl as <-; exact H1 | apply IH; assumption].
Qed.

Lemma below_itraits_aset b n t its : below b (itrait_oids its) -> t_doid t < b -> below b (itrait_oids (aset n t its)).
Proof.
  intros Hd Hv. induction its as [|[k x] its IH]; cbn [aset itrait_oids map snd] in *.
  - constructor; [exact Hv | constructor].
  - inversion Hd as [|? ? H1 H2]; subst. destruct (n =? k); cbn [itrait_oids map snd]; constructor; auto.
    apply IH. exact H2.
Qed.

Lemma below_itraits_lookup b n t (its : list (Z * tdef)) : below b (itrait_oids its) -> alookup n its = Some t -> t_doid t < b.
Proof.
  intros Hd Hl. induction its as [|[k x] its IH]; cbn in *; [discriminate|].
  inversion Hd as [|? ? H1 H2]; subst. destruct (n =? k); [injection Hl as <-; exact H1 | apply IH; assumption].
Qed.

Lemma below_itraits_snoc b n t its : below b (itrait_oids its) -> t_doid t < b -> below b (itrait_oids (its ++ [(n, t)])).
Proof.
  intros Hd Hv. unfold itrait_oids. rewrite map_app. apply below_app. split; [exact Hd | constructor; [exact Hv | constructor]].
Qed.

Lemma below_class_lookup w b c n t :
  below b (class_oids w) -> alookup n (nth c (w_classes w) []) = Some t -> t_doid t < b.
Proof.
  unfold class_oids. intros Hb Hl. revert c Hl. induction (w_classes w) as [|cl cls IH]; intros [|c] Hl; cbn in *;
    try discriminate.
  - apply below_app in Hb. destruct Hb as [H1 _]. eapply (below_itraits_lookup b n t cl); eassumption.
  - apply below_app in Hb. destruct Hb as [_ H2]. eapply IH; eassumption.
Qed.

Section Alloc.
  Variable w : world.
  Hypothesis Hpos : 0 < w_next w.
  Hypothesis Hcls : below (w_next w) (class_oids w).

  Lemma resolve_below ins n t :
    below (w_next w) (itrait_oids (i_itraits ins)) -> resolve w ins n = Some t -> t_doid t < w_next w.
  Proof.
    intros Hi. unfold resolve, class_of. destruct (alookup n (i_itraits ins)) as [t0|] eqn:E.
    - intros H. injection H as <-. eapply below_itraits_lookup; eassumption.
    - intros H. eapply below_class_lookup; eassumption.
  Qed.

  Lemma ensure_itrait_below ins n t b :
    below b (itrait_oids (i_itraits ins)) -> t_doid t < b -> below b (itrait_oids (ensure_itrait ins n t)).
  Proof.
    intros H Ht. unfold ensure_itrait. destruct (alookup n (i_itraits ins)); [exact H | apply below_itraits_snoc; assumption].
  Qed.

  Lemma materialise_below ins n t :
    below (w_next w) (dict_oids (i_dict ins)) ->
    let '(ins', v, nx) := materialise w ins n t in
    w_next w <= nx /\ below nx (dict_oids (i_dict ins')) /\ i_itraits ins' = i_itraits ins
    /\ Forall (fun x => w_next w <= x < nx) (value_oids v).
  Proof.
    intros Hd. unfold materialise. pose proof (default_value_oids t (w_next w) Hpos) as [H1 H2].
    destruct (default_value t (w_next w)) as [v nx]. cbn [fst snd] in *. cbn [i_dict i_itraits].
    split; [exact H1|]. split; [|split; [reflexivity | exact H2]].
    unfold dict_oids. rewrite flat_map_app. apply below_app. split.
    - eapply below_weaken; eassumption.
    - cbn. rewrite app_nil_r. eapply Forall_impl; [|exact H2]. intros; cbn in *; lia.
  Qed.

  Lemma fire_below (its : list (Z * tdef)) ins b :
    w_next w <= b -> below b (itrait_oids its) ->
    below b (itrait_oids (match alookup trait_added its, alookup trait_added (class_of w ins) with
                          | None, Some ta => its ++ [(trait_added, ta)]
                          | _, _ => its
                          end)).
  Proof.
    intros Hb H. destruct (alookup trait_added its); [exact H|].
    destruct (alookup trait_added (class_of w ins)) as [ta|] eqn:E; [|exact H].
    apply below_itraits_snoc; [exact H|]. unfold class_of in E.
    pose proof (below_class_lookup w (w_next w) _ _ _ Hcls E). lia.
  Qed.

  Lemma assign_inst_below ins n content scalar :
    below (w_next w) (dict_oids (i_dict ins)) -> below (w_next w) (itrait_oids (i_itraits ins)) ->
    let '(ins', r, nx) := assign_inst w ins n content scalar in
    w_next w <= nx /\ below nx (inst_oids ins').
  Proof.
    intros Hd Hi.
    assert (Hsame : w_next w <= w_next w /\ below (w_next w) (inst_oids ins)).
    { split; [lia|]. rewrite inst_oids_split. apply below_app. split; assumption. }
    unfold assign_inst.
    destruct (resolve w ins n) as [t|] eqn:Er; [|exact Hsame].
    unfold assigned_value.
    pose proof (default_value_oids (mkT (t_kind t) content scalar 0 0 false 2 0) (w_next w) Hpos) as [H1 H2].
    destruct (default_value (mkT (t_kind t) content scalar 0 0 false 2 0) (w_next w)) as [v nx]. cbn [fst snd] in *.
    assert (Hv : below nx (value_oids v)) by (eapply Forall_impl; [|exact H2]; intros; cbn in *; lia).
    assert (Hd' : below nx (dict_oids (aset n v (i_dict ins)))).
    { apply below_dict_aset; [eapply below_weaken; eassumption | exact Hv]. }
    assert (Hi' : below nx (itrait_oids (i_itraits ins))) by (eapply below_weaken; eassumption).
    destruct (hids w ins t n) as [|h hs].
    + split; [exact H1|]. rewrite inst_oids_split. apply below_app. split; assumption.
    + destruct (alookup n (i_dict ins)) as [ov|];
        (split; [exact H1|]; rewrite inst_oids_split; cbn [i_dict i_itraits]; apply below_app; split; [exact Hd'|];
         match goal with |- below _ (itrait_oids (if ?c then _ else _)) => destruct c end; [|exact Hi'];
         apply ensure_itrait_below; [exact Hi'|]; pose proof (resolve_below ins n t Hi Er); lia).
  Qed.

  Lemma below_dict_aremove b n d : below b (dict_oids d) -> below b (dict_oids (aremove n d)).
  Proof.
    intros Hd. unfold aremove. induction d as [|[k x] d IH]; cbn [filter dict_oids flat_map snd fst] in *; [constructor|].
    apply below_app in Hd. destruct Hd as [H1 H2]. destruct (negb (n =? k)); cbn [dict_oids flat_map snd];
      [apply below_app; split; [exact H1 | apply IH, H2] | apply IH, H2].
  Qed.

  Lemma delete_inst_below ins n :
    below (w_next w) (dict_oids (i_dict ins)) -> below (w_next w) (itrait_oids (i_itraits ins)) ->
    let '(ins', r, nx) := delete_inst w ins n in
    w_next w <= nx /\ below nx (inst_oids ins').
  Proof.
    intros Hd Hi.
    assert (Hsame : w_next w <= w_next w /\ below (w_next w) (inst_oids ins)).
    { split; [lia|]. rewrite inst_oids_split. apply below_app. split; assumption. }
    unfold delete_inst. destruct (alookup n (i_dict ins)) as [ov|]; [|exact Hsame].
    set (ins1 := mkI (i_cls ins) (aremove n (i_dict ins)) (i_itraits ins) (aremove n (i_calls ins)) (i_log ins) (i_regs ins)).
    assert (Hd1 : below (w_next w) (dict_oids (i_dict ins1))) by (subst ins1; cbn [i_dict]; apply below_dict_aremove, Hd).
    assert (H1 : w_next w <= w_next w /\ below (w_next w) (inst_oids ins1)).
    { split; [lia|]. rewrite inst_oids_split. apply below_app. split; [exact Hd1 | exact Hi]. }
    replace (resolve w ins n) with (resolve w ins1 n) by reflexivity.
    destruct (resolve w ins1 n) as [t|] eqn:Er; [|exact H1].
    replace (hids w ins t n) with (hids w ins1 t n) by reflexivity.
    destruct (hids w ins1 t n) as [|h hs]; [exact H1|].
    pose proof (materialise_below ins1 n t Hd1) as H. destruct (materialise w ins1 n t) as [[ins2 v] nx].
    destruct H as (Hle & H2 & H3 & _). split; [exact Hle|]. rewrite inst_oids_split. cbn [i_dict i_itraits].
    apply below_app. split; [exact H2|].
    assert (Hi2 : below nx (itrait_oids (i_itraits ins2))) by (rewrite H3; eapply below_weaken; eassumption).
    match goal with |- below _ (itrait_oids (if ?c then _ else _)) => destruct c end; [|exact Hi2].
    apply ensure_itrait_below; [exact Hi2|].
    assert (Ht : t_doid t < w_next w) by (apply (resolve_below ins1 n t); [exact Hi | exact Er]). lia.
  Qed.

  (* every operation keeps the instance's objects below the (advanced) allocator *)
  Lemma step_inst_below ins o :
    below (w_next w) (inst_oids ins) ->
    let '(ins', r, nx) := step_inst w ins o in
    w_next w <= nx /\ below nx (inst_oids ins').
  Proof.
    intros Hb. rewrite inst_oids_split in Hb. apply below_app in Hb. destruct Hb as [Hd Hi].
    assert (Hsame : w_next w <= w_next w /\ below (w_next w) (inst_oids ins)).
    { split; [lia|]. rewrite inst_oids_split. apply below_app. split; assumption. }
    destruct o as [i n|i n content scalar|i n x|i n hid via|i n t|i n|i n code|i n src|i md|c]; cbn [step_inst].
    - (* Read *)
      destruct (alookup n (i_dict ins)); [exact Hsame|]. destruct (resolve w ins n) as [t|]; [|exact Hsame].
      pose proof (materialise_below ins n t Hd) as H. destruct (materialise w ins n t) as [[ins' v] nx].
      destruct H as (H1 & H2 & H3 & _). split; [exact H1|]. rewrite inst_oids_split, H3. apply below_app.
      split; [exact H2 | eapply below_weaken; eassumption].
    - (* Assign *)
      apply assign_inst_below; assumption.
    - (* Mutate *)
      assert (Hfix : forall v its b, w_next w <= b -> below b (itrait_oids its) ->
                                     below b (itrait_oids (any_fix w ins n v (items_fix w ins n v its)))).
      { intros v its b Hle Hb.
        assert (H1 : below b (itrait_oids (items_fix w ins n v its))).
        { unfold items_fix. destruct (_ && _); [|exact Hb].
          destruct (alookup (items_name n) its); [exact Hb|].
          apply (fire_below _ ins b Hle). apply below_itraits_snoc; [exact Hb | cbn; lia]. }
        unfold any_fix. destruct (_ && _); [|exact H1].
        destruct (alookup (items_name n) (items_fix w ins n v its)); [exact H1|].
        apply below_itraits_snoc; [exact H1|].
        destruct (alookup (items_name n) (class_of w ins)) as [ct|] eqn:Ec; [|cbn; lia].
        unfold class_of in Ec. pose proof (below_class_lookup w (w_next w) _ _ _ Hcls Ec). lia. }
      destruct (alookup n (i_dict ins)) as [v|] eqn:Ed.
      + split; [lia|]. rewrite inst_oids_split. cbn [i_dict i_itraits]. apply below_app. split.
        * apply below_dict_aset; [exact Hd|]. rewrite value_oids_mutate. eapply below_dict_lookup; eassumption.
        * apply Hfix; [lia | exact Hi].
      + destruct (resolve w ins n) as [t|]; [|exact Hsame].
        pose proof (materialise_below ins n t Hd) as H. destruct (materialise w ins n t) as [[ins' v] nx].
        destruct H as (H1 & H2 & H3 & H4). split; [exact H1|]. rewrite inst_oids_split. cbn [i_dict i_itraits].
        apply below_app. split.
        * apply below_dict_aset; [exact H2|]. rewrite value_oids_mutate.
          eapply Forall_impl; [|exact H4]. intros; cbn in *; lia.
        * rewrite H3. apply Hfix; [exact H1 | eapply below_weaken; eassumption].
    - (* Register *)
      destruct (n =? any_name).
      { split; [lia|]. rewrite inst_oids_split. cbn [i_dict i_itraits]. apply below_app. split; assumption. }
      destruct (resolve w ins n) as [t|] eqn:Er; [|exact Hsame]. split; [lia|].
      rewrite inst_oids_split. cbn [i_dict i_itraits]. apply below_app. split; [exact Hd|].
      pose proof (resolve_below ins n t Hi Er) as Ht.
      assert (H1 : below (w_next w) (itrait_oids (aset n (mkT (t_kind t) (t_content t) (t_scalar t) (t_doid t) (t_nnotif t + 1) (t_static t) (t_cmp t) (t_label t))
                                                       (ensure_itrait ins n t)))).
      { apply below_itraits_aset; [apply ensure_itrait_below; assumption | exact Ht]. }
      destruct via; [|exact H1].
      match goal with |- context [alookup trait_added ?l] => set (its := l) in * end.
      destruct (alookup trait_added its) as [ta|] eqn:Ea.
      + apply below_itraits_aset; [exact H1|]. cbn. eapply below_itraits_lookup; eassumption.
      + destruct (alookup trait_added (class_of w ins)) as [ta|] eqn:Ec; [|exact H1].
        apply below_itraits_snoc; [exact H1|]. cbn. unfold class_of in Ec. eapply below_class_lookup; eassumption.
    - (* AddTrait *)
      set (container := match t_kind t with KConst => false | _ => true end).
      set (fire := fun its : list (Z * tdef) =>
                     match alookup trait_added its, alookup trait_added (class_of w ins) with
                     | None, Some ta => its ++ [(trait_added, ta)]
                     | _, _ => its
                     end).
      assert (Hfire : forall its b, w_next w <= b -> below b (itrait_oids its) -> below b (itrait_oids (fire its))).
      { intros its b Hle Hb. apply (fire_below its ins b Hle Hb). }
      match goal with |- context [aset n _ ?x] => set (its0 := x) end.
      assert (H0 : below (w_next w) (itrait_oids its0)).
      { subst its0. destruct container; [|exact Hi].
        match goal with |- context [if ?c then _ else _] => destruct c end;
          [|apply Hfire; [lia|]]; (apply below_itraits_aset; [exact Hi | cbn; lia]). }
      destruct container.
      + split; [lia|]. rewrite inst_oids_split. cbn [i_dict i_itraits]. apply below_app.
        split; [eapply below_weaken; [|exact Hd]; lia|].
        assert (H1 : below (w_next w + 1) (itrait_oids its0)) by (eapply below_weaken; [|exact H0]; lia).
        match goal with |- context [match ?o with Some _ => _ | None => _ end] => destruct o end;
          [|apply Hfire; [lia|]]; (apply below_itraits_aset; [exact H1 | cbn; lia]).
      + split; [lia|]. rewrite inst_oids_split. cbn [i_dict i_itraits]. apply below_app. split; [exact Hd|].
        match goal with |- context [match ?o with Some _ => _ | None => _ end] => destruct o end;
          [|apply Hfire; [lia|]]; (apply below_itraits_aset; [exact H0 | cbn; lia]).
    - (* Delete *)
      apply delete_inst_below; assumption.
    - (* SetMeta *)
      destruct (alookup n (i_itraits ins)) as [t|] eqn:Et; [|exact Hsame].
      destruct (alookup n (class_of w ins)); [exact Hsame|]. split; [lia|].
      rewrite inst_oids_split. cbn [i_dict i_itraits]. apply below_app. split; [exact Hd|].
      apply below_itraits_aset; [exact Hi|]. cbn [t_doid]. eapply below_itraits_lookup; eassumption.
    - (* AssignFrom *)
      destruct (alookup n (i_dict (nth (Z.to_nat src) (w_insts w) (new_inst 0)))) as [v|]; [|exact Hsame].
      destruct ((0 <=? src) && (src <? Z.of_nat (length (w_insts w)))); [|exact Hsame].
      destruct (payload_of v) as [c0 s0]. apply assign_inst_below; assumption.
    - exact Hsame.
    - exact Hsame.
  Qed.
End Alloc.

(* ------------------------------------------------------------------ *)
(* well-formed worlds                                                   *)

Definition wf (w : world) : Prop :=
  0 < w_next w /\ below (w_next w) (class_oids w)
  /\ Forall (fun ins => below (w_next w) (inst_oids ins)) (w_insts w)
  /\ world_calls_ok w.

Lemma below_flat_map {A} b (f : A -> list Z) l : below b (flat_map f l) <-> Forall (fun a => below b (f a)) l.
Proof.
  induction l as [|a l IH]; cbn; [split; constructor|]. rewrite below_app, IH. split.
  - intros [H1 H2]. constructor; assumption.
  - intros H. inversion H; subst. split; assumption.
Qed.

Lemma world_oids_below w b :
  below b (world_oids w) <-> below b (class_oids w) /\ Forall (fun ins => below b (inst_oids ins)) (w_insts w).
Proof. unfold world_oids. rewrite below_app. fold (class_oids w). rewrite (below_flat_map b inst_oids). reflexivity. Qed.

Lemma wf_init cls next0 : 0 < next0 -> below next0 (flat_map (fun c => map (fun p => t_doid (snd p)) c) cls) ->
  wf (mkW cls [] next0).
Proof. intros H1 H2. repeat split; try assumption; constructor. Qed.

Lemma step_wf0 w o : wf w -> wf (fst (step0 w o)).
Proof.
  intros (Hp & Hc & Hi & Hk). pose proof (step_calls_ok0 w o Hk) as Hk'.
  destruct (step_shape0 w o) as [[c ->]|[[E _]|(ins' & r & nx & Hv & _ & Hs & E)]].
  - cbn [step0 fst] in *. repeat split; try assumption. cbn [w_insts w_next].
    apply Forall_app. split; [exact Hi | constructor; [constructor | constructor]].
  - rewrite E in *. repeat split; assumption.
  - rewrite E in *. cbn [fst w_next w_insts w_classes] in *.
    assert (Hb : below (w_next w) (inst_oids (inst_at w (target w o)))).
    { unfold inst_at. apply (Forall_nth (fun ins => below (w_next w) (inst_oids ins))); [exact Hi | constructor]. }
    pose proof (step_inst_below w Hp Hc (inst_at w (target w o)) o Hb) as H. rewrite Hs in H. destruct H as [Hle Hb'].
    unfold wf, class_oids in *. cbn [w_next w_insts w_classes].
    split; [lia|]. split; [eapply below_weaken; eassumption|]. split; [|exact Hk'].
    apply Forall_update_nth.
    + eapply Forall_impl; [|exact Hi]. intros a Ha. eapply below_weaken; eassumption.
    + intros _ _. exact Hb'.
Qed.

Lemma final_wf0 ops : forall w, wf w -> wf (final0 w ops).
Proof.
  induction ops as [|o ops IH]; intros w H; [exact H|]. cbn [final0 fold_left].
  change (fold_left (fun w o => fst (step0 w o)) ops ?x) with (final0 x ops). apply IH, step_wf0, H.
Qed.

(* A default read in a well-formed world returns objects that nothing else in
   the world refers to: not another instance, not this instance, not a class-level default. *)
Lemma default_not_aliased0 w i n t :
  wf w -> valid_index w i -> alookup n (i_dict (inst_at w i)) = None -> resolve w (inst_at w i) n = Some t ->
  forall x, In x (value_oids (snd (step0 w (Read i n)))) -> ~ In x (world_oids w).
Proof.
  intros (Hp & Hc & Hi & _) Hv Hd Hr x Hx Hin. rewrite (first_read0 w i n t Hv Hd Hr) in Hx. cbn [snd] in Hx.
  destruct (default_value_oids t (w_next w) Hp) as [_ Hf]. rewrite Forall_forall in Hf. specialize (Hf x Hx).
  assert (Hb : below (w_next w) (world_oids w)) by (apply world_oids_below; split; assumption).
  unfold below in Hb. rewrite Forall_forall in Hb. specialize (Hb x Hin). lia.
Qed.

(* ------------------------------------------------------------------ *)
(* the law holds on what the model shows                                *)

Definition valid_op0 (w : world) (o : op) : Prop :=
  match op_index o with Some i => valid_index w i | None => True end.

Lemma others_ok_app i : forall insts j rest,
  others_ok i j insts (map (fun x => digest (enc_inst x)) insts ++ rest) = true.
Proof.
  induction insts as [|a l IH]; intros j rest; [reflexivity|]. cbn [map app others_ok].
  rewrite Z.eqb_refl, orb_true_r. cbn [andb]. apply IH.
Qed.

Lemma others_ok_update i f : forall insts j k,
  i = j + Z.of_nat k ->
  others_ok i j insts (map (fun x => digest (enc_inst x)) (update_nth k f insts)) = true.
Proof.
  induction insts as [|a l IH]; intros j k Hi; [reflexivity|]. destruct k as [|k]; cbn [update_nth map others_ok].
  - replace (j =? i) with true by (symmetry; apply Z.eqb_eq; lia). cbn [orb andb].
    pose proof (others_ok_app i l (j + 1) []) as H. rewrite app_nil_r in H. exact H.
  - rewrite Z.eqb_refl, orb_true_r. cbn [andb]. apply IH. lia.
Qed.

Lemma inst_eqb_refl a : inst_eqb a a = true. Proof. apply zlist_eqb_refl. Qed.
Lemma value_eqb_refl a : value_eqb a a = true. Proof. apply zlist_eqb_refl. Qed.

Lemma calls_ok_leb ins : calls_ok ins -> forallb (fun p => snd p <=? 1) (i_calls ins) = true.
Proof.
  unfold calls_ok. intros H. apply forallb_forall. intros p Hp. rewrite Forall_forall in H.
  destruct (H p Hp) as [-> _]. reflexivity.
Qed.

Lemma default_value_like t next : 0 < next -> t_kind t <> KEvent ->
  value_like (fst (default_value t next)) (fst (default_value t 1)) = true
  /\ v_shape (fst (default_value t next)) <> 9.
Proof.
  intros Hp Hk.
  assert (E0 : (next =? 0) = false) by (apply Z.eqb_neq; lia).
  assert (E1 : (next + 1 =? 0) = false) by (apply Z.eqb_neq; lia).
  assert (E1' : (next + 2 =? 0) = false) by (apply Z.eqb_neq; lia).
  unfold default_value, value_like. destruct (t_kind t); try congruence;
    cbn [fst v_shape v_parts parts_like]; rewrite ?E0, ?E1, ?E1', ?zlist_eqb_refl; cbn; (split; [reflexivity | discriminate]).
Qed.

Lemma default_value_nodup t next : 0 < next -> znodup (value_oids (fst (default_value t next))) = true.
Proof.
  intros Hp.
  assert (E0 : (next =? 0) = false) by (apply Z.eqb_neq; lia).
  assert (E1 : (next + 1 =? 0) = false) by (apply Z.eqb_neq; lia).
  assert (E2 : (next =? next + 1) = false) by (apply Z.eqb_neq; lia).
  assert (E1' : (next + 2 =? 0) = false) by (apply Z.eqb_neq; lia).
  assert (E3 : (next =? next + 2) = false) by (apply Z.eqb_neq; lia).
  assert (E4 : (next + 1 =? next + 2) = false) by (apply Z.eqb_neq; lia).
  unfold default_value, value_oids. destruct (t_kind t); cbn [fst v_parts map filter fst];
    rewrite ?E0, ?E1, ?E1'; cbn [negb filter znodup zmem existsb andb orb]; rewrite ?E2, ?E3, ?E4; reflexivity.
Qed.

(* the clauses that do not depend on the kind of operation *)
Lemma common_clauses w o ins' r nx :
  wf w -> valid_index w (target w o) -> (forall c, o <> NewInst c) ->
  calls_ok ins' ->
  let i := target w o in
  let ob := mkO r ins' (map (fun x => digest (enc_inst x)) (update_nth (Z.to_nat i) (fun _ => ins') (w_insts w)))
                (digest (enc_classes (w_classes w))) nx (match v_shape r with 9 => true | _ => false end) in
  chk 3 (forallb (fun p => snd p <=? 1) (i_calls (o_target ob)))
  ++ chk 6 (others_ok i 0 (w_insts w) (o_digests ob)
            && (zlen (o_digests ob) =? zlen (w_insts w) + (match o with NewInst _ => 1 | _ => 0 end)))
  ++ chk 7 (o_classes ob =? digest (enc_classes (w_classes w)))
  ++ chk 8 (match o with NewInst c => inst_eqb (o_target ob) (new_inst c) | _ => true end)
  ++ chk 10 (opt_eqb Z.eqb (nth_error (o_digests ob) (Z.to_nat i)) (Some (digest (enc_inst (o_target ob))))) = [].
Proof.
  intros Hwf Hv Hno Hc. cbn zeta. cbn [o_target o_digests o_classes].
  rewrite (calls_ok_leb _ Hc). rewrite others_ok_update by (destruct Hv; rewrite Z2Nat.id; lia).
  unfold zlen. rewrite map_length, update_nth_length.
  assert (E8 : match o with NewInst c => inst_eqb ins' (new_inst c) | _ => true end = true).
  { destruct o; try reflexivity. exfalso. eapply Hno. reflexivity. }
  rewrite E8.
  assert (E6 : (Z.of_nat (length (w_insts w)) =? Z.of_nat (length (w_insts w)) + match o with NewInst _ => 1 | _ => 0 end) = true).
  { destruct o; try (apply Z.eqb_eq; lia). exfalso. eapply Hno. reflexivity. }
  rewrite E6, Z.eqb_refl. cbn [andb chk app].
  assert (Hlt : (Z.to_nat (target w o) < length (w_insts w))%nat) by (destruct Hv; lia).
  rewrite nth_error_map.
  rewrite (nth_error_nth' _ (new_inst 0)) by (rewrite update_nth_length; exact Hlt).
  rewrite nth_update_nth_same by exact Hlt. cbn [option_map opt_eqb]. rewrite Z.eqb_refl. reflexivity.
Qed.

Lemma exc_flag_false s : s <> 9 -> match s with 9 => true | _ => false end = false.
Proof.
  intros H. destruct s as [|p|p]; try reflexivity.
  do 4 (try (destruct p as [p|p|]; try reflexivity)). contradiction.
Qed.

Lemma observe_normal0 w o ins' r nx :
  step0 w o = (mkW (w_classes w) (update_nth (Z.to_nat (target w o)) (fun _ => ins') (w_insts w)) nx, r) ->
  valid_index w (target w o) ->
  observe0 w o
  = mkO r ins' (map (fun x => digest (enc_inst x)) (update_nth (Z.to_nat (target w o)) (fun _ => ins') (w_insts w)))
        (digest (enc_classes (w_classes w))) nx (match v_shape r with 9 => true | _ => false end).
Proof.
  intros E Hv. unfold observe0. rewrite E. cbn [w_insts w_classes w_next]. f_equal.
  apply nth_update_nth_same. destruct Hv. lia.
Qed.

Lemma in_range w i : valid_index w i -> (0 <=? i) && (i <? zlen (w_insts w)) = true.
Proof. intros [H1 H2]. unfold zlen. apply andb_true_iff. split; [apply Z.leb_le | apply Z.ltb_lt]; lia. Qed.

(* the clauses about reads *)
Lemma read_clauses w i n ins' r nx :
  wf w -> valid_index w i -> step_inst w (inst_at w i) (Read i n) = (ins', r, nx) ->
  let ob := mkO r ins' (map (fun x => digest (enc_inst x)) (update_nth (Z.to_nat i) (fun _ => ins') (w_insts w)))
                (digest (enc_classes (w_classes w))) nx (match v_shape r with 9 => true | _ => false end) in
  match is_default_read w (Read i n) with
  | Some (ins, n, t) =>
      chk 11 (negb (o_exc ob))
      ++ chk 1 (value_like (o_ret ob) (fst (default_value t 1)))
      ++ chk 5 (znodup (value_oids (o_ret ob))
                && forallb (fun x => negb (zmem x (world_oids w))) (value_oids (o_ret ob)))
      ++ chk 9 (opt_eqb value_eqb (alookup n (i_dict (o_target ob))) (Some (o_ret ob))
                && (zlen (i_dict (o_target ob)) =? zlen (i_dict ins) + 1)
                && zlist_eqb (flat_map (fun p => fst p :: enc_tdef (snd p)) (i_itraits (o_target ob)))
                             (flat_map (fun p => fst p :: enc_tdef (snd p)) (i_itraits ins)))
  | None => []
  end
  ++ match is_stored_read w (Read i n) with
     | Some (ins, v) => chk 4 (value_eqb (o_ret ob) v && inst_eqb (o_target ob) ins)
     | None => []
     end
  ++ chk 2 (negb (is_read (Read i n)) || (zlen (i_log (o_target ob)) =? zlen (i_log (inst_at w i)))) = [].
Proof.
  intros Hwf Hv Hs. cbn zeta. cbn [o_ret o_target o_exc is_read negb orb].
  unfold is_default_read, is_stored_read. rewrite (in_range w i Hv). fold (inst_at w i).
  cbn [step_inst] in Hs. destruct (alookup n (i_dict (inst_at w i))) as [v|] eqn:Ed.
  - injection Hs as <- <- <-. rewrite value_eqb_refl, inst_eqb_refl, Z.eqb_refl. reflexivity.
  - destruct (resolve w (inst_at w i) n) as [t|] eqn:Er.
    + unfold materialise in Hs. destruct (default_value t (w_next w)) as [v nx0] eqn:Edv.
      injection Hs as <- <- <-. cbn [i_log i_dict i_itraits notify]. rewrite ?app_nil_r, Z.eqb_refl.
      destruct Hwf as (Hp & Hc & Hi & _).
      destruct (t_kind t) eqn:Ek;
        try (assert (Hne : t_kind t <> KEvent) by congruence;
             destruct (default_value_like t (w_next w) Hp Hne) as [Hl Hsh]; rewrite Edv in Hl, Hsh; cbn [fst] in Hl, Hsh;
             rewrite (exc_flag_false _ Hsh), Hl;
             pose proof (default_value_nodup t (w_next w) Hp) as Hnd; rewrite Edv in Hnd; cbn [fst] in Hnd; rewrite Hnd;
             assert (Hfresh : forallb (fun x => negb (zmem x (world_oids w))) (value_oids v) = true);
             [ apply forallb_forall; intros x Hx; apply negb_true_iff;
               destruct (zmem x (world_oids w)) eqn:Ez; [|reflexivity]; exfalso;
               unfold zmem in Ez; apply existsb_exists in Ez; destruct Ez as [y [Hy Exy]]; apply Z.eqb_eq in Exy; subst y;
               destruct (default_value_oids t (w_next w) Hp) as [_ Hf]; rewrite Edv in Hf; cbn [fst snd] in Hf;
               rewrite Forall_forall in Hf; specialize (Hf x Hx);
               assert (Hb : below (w_next w) (world_oids w)) by (apply world_oids_below; split; assumption);
               unfold below in Hb; rewrite Forall_forall in Hb; specialize (Hb x Hy); lia
             | rewrite Hfresh; rewrite alookup_app, Ed; cbn [alookup]; rewrite Z.eqb_refl; cbn [opt_eqb];
               rewrite value_eqb_refl, zlist_eqb_refl; unfold zlen; rewrite app_length; cbn [length];
               replace (Z.of_nat (length (i_dict (inst_at w i)) + 1) =? Z.of_nat (length (i_dict (inst_at w i))) + 1)
                 with true by (symmetry; apply Z.eqb_eq; lia);
               reflexivity ]).
      reflexivity.
    + injection Hs as <- <- <-. rewrite Z.eqb_refl. reflexivity.
Qed.

Lemma app3_nil {A} (a b c rest : list A) : a ++ b ++ c = [] -> rest = [] -> a ++ b ++ c ++ rest = [].
Proof.
  intros H ->. rewrite app_nil_r. exact H.
Qed.

(* Main theorem: every clause of the law holds on what the model shows, for
   every operation in every well-formed world. *)
Theorem law_on_model0 w o : wf w -> valid_op0 w o -> law_core w o (observe0 w o) = [].
Proof.
  intros Hwf Hvo. destruct (step_shape0 w o) as [[c ->]|[[Eerr Hbad]|(ins' & r & nx & Hv & Hi & Hs & E)]].
  - (* NewInst *)
    unfold observe0, law_core. cbn [addressed negb].
    cbn [step0 target w_insts w_classes w_next is_default_read is_stored_read is_read negb orb app
                                   o_ret o_target o_digests o_classes o_exc].
    rewrite Nat2Z.id. rewrite app_nth2 by lia. rewrite Nat.sub_diag. cbn [nth new_inst i_calls forallb i_log].
    rewrite map_app, others_ok_app. unfold zlen. rewrite app_length, !map_length. cbn [length map].
    rewrite Z.eqb_refl, inst_eqb_refl.
    replace (Z.of_nat (length (w_insts w) + 1) =? Z.of_nat (length (w_insts w)) + 1) with true
      by (symmetry; apply Z.eqb_eq; lia).
    rewrite nth_error_app2 by (rewrite map_length; lia). rewrite map_length, Nat.sub_diag. cbn. rewrite Z.eqb_refl. reflexivity.
  - exfalso. unfold valid_op0 in Hvo. destruct o; cbn [op_index target] in *; try (apply Hbad; exact Hvo).
    cbn [step0] in Eerr. unfold error_value in Eerr. congruence.
  - rewrite (observe_normal0 w o ins' r nx E Hv).
    assert (Hno : forall c, o <> NewInst c) by (intros c ->; discriminate).
    assert (Hc : calls_ok ins').
    { destruct Hwf as (_ & _ & _ & Hk).
      pose proof (step_inst_calls_ok w (inst_at w (target w o)) o) as H. rewrite Hs in H. apply H.
      unfold inst_at. apply Forall_nth; [exact Hk | apply new_inst_calls_ok]. }
    pose proof (common_clauses w o ins' r nx Hwf Hv Hno Hc) as Hcommon. cbn zeta in Hcommon.
    unfold law_core.
    assert (Hadd : addressed w o = true).
    { unfold addressed. destruct o; try reflexivity; apply in_range; exact Hv. }
    rewrite Hadd. cbn [negb]. fold (inst_at w (target w o)).
    destruct o as [i n|i n content scalar|i n x|i n hid via|i n t|i n|i n code|i n src|i md|c]; try (exfalso; eapply Hno; reflexivity);
      try (cbn [is_default_read is_stored_read is_read negb orb chk app]; exact Hcommon).
    (* Read *)
    pose proof (read_clauses w i n ins' r nx Hwf Hv Hs) as Hr. cbn zeta in Hr. cbn [target] in *.
    exact (app3_nil _ _ _ _ Hr Hcommon).
Qed.

(* ------------------------------------------------------------------ *)
(* tracking                                                             *)

Lemma track_observe0 w o : valid_op0 w o -> track0 w o (observe0 w o) = fst (step0 w o).
Proof.
  intros Hvo. destruct (step_shape0 w o) as [[c ->]|[[Eerr Hbad]|(ins' & r & nx & Hv & Hi & Hs & E)]].
  - unfold track0, observe0. cbn [step0 fst o_target o_next w_insts w_next w_classes target].
    rewrite Nat2Z.id, app_nth2 by lia. rewrite Nat.sub_diag. reflexivity.
  - exfalso. unfold valid_op0 in Hvo. destruct o; cbn [op_index target] in *; try (apply Hbad; exact Hvo).
    cbn [step0] in Eerr. unfold error_value in Eerr. congruence.
  - rewrite (observe_normal0 w o ins' r nx E Hv), E. unfold track0. cbn [o_target o_next fst].
    destruct o; try reflexivity. discriminate Hi.
Qed.


(* ------------------------------------------------------------------ *)
(* the operations added for definitions and hand-over                   *)

Lemma introspect_inert0 w i md : valid_index w i -> step0 w (Introspect i md) = (w, mkV 0 []).
Proof.
  intros Hv. cbn [step0 target]. rewrite (range_check w i Hv). cbn [step_inst]. f_equal.
  destruct w as [cs insts nx]. cbn [w_classes w_insts w_next] in *. f_equal.
  apply update_nth_id. destruct Hv as [H1 H2]. cbn in H2. lia.
Qed.

(* setting metadata on a trait added to instance i: only that definition of that instance changes *)
Lemma set_meta_effect0 w i n code t :
  valid_index w i -> alookup n (i_itraits (inst_at w i)) = Some t -> alookup n (class_of w (inst_at w i)) = None ->
  let ins := inst_at w i in
  step0 w (SetMeta i n code)
  = (mkW (w_classes w)
         (update_nth (Z.to_nat i)
            (fun _ => mkI (i_cls ins) (i_dict ins)
                          (aset n (mkT (t_kind t) (t_content t) (t_scalar t) (t_doid t) (t_nnotif t) (t_static t) (t_cmp t) code)
                                (i_itraits ins))
                          (i_calls ins) (i_log ins) (i_regs ins))
            (w_insts w))
         (w_next w),
     mkV 0 []).
Proof.
  intros Hv Ht Hc. cbn zeta. cbn [step0 target]. rewrite (range_check w i Hv). unfold inst_at in *.
  cbn [step_inst]. rewrite Ht, Hc. reflexivity.
Qed.

(* the value an assignment stores *)
Lemma assign_inst_stores w ins n content scalar t :
  resolve w ins n = Some t ->
  alookup n (i_dict (fst (fst (assign_inst w ins n content scalar))))
  = Some (fst (assigned_value t content scalar (w_next w))).
Proof.
  intros Hr. unfold assign_inst. rewrite Hr. destruct (assigned_value t content scalar (w_next w)) as [v nx]. cbn [fst].
  destruct (hids w ins t n) as [|h hs]; [cbn [fst i_dict]; rewrite alookup_aset, Z.eqb_refl; reflexivity|].
  destruct (alookup n (i_dict ins)); cbn [fst i_dict]; rewrite alookup_aset, Z.eqb_refl; reflexivity.
Qed.

(* handing instance src's container to instance i's trait: i stores a NEW container (no object of the world,
   in particular not src's), src is untouched *)
Lemma assign_from_copies0 w i n src t v :
  wf w -> valid_index w i -> valid_index w src -> src <> i ->
  alookup n (i_dict (inst_at w src)) = Some v -> resolve w (inst_at w i) n = Some t ->
  let w' := fst (step0 w (AssignFrom i n src)) in
  nth_error (w_insts w') (Z.to_nat src) = nth_error (w_insts w) (Z.to_nat src) /\
  w_classes w' = w_classes w /\
  exists v', alookup n (i_dict (inst_at w' i)) = Some v' /\
             vcontent v' = vcontent (fst (assigned_value t (fst (payload_of v)) (snd (payload_of v)) (w_next w))) /\
             forall x, In x (value_oids v') -> ~ In x (world_oids w).
Proof.
  intros Hwf Hv Hs Hne Hsv Hr. cbn zeta. split; [|split].
  - apply step_other_instance0; [destruct Hs; lia|]. cbn [op_index]. intros E. injection E as E.
    apply Hne. rewrite E. rewrite Z2Nat.id; [reflexivity | destruct Hs; lia].
  - apply step_classes0.
  - cbn [step0 target]. rewrite (range_check w i Hv). unfold inst_at in *. cbn [step_inst]. rewrite Hsv.
    pose proof (in_range w src Hs) as Hir. unfold zlen in Hir. rewrite Hir.
    destruct (payload_of v) as [c0 s0] eqn:Ep. cbn [fst snd].
    pose proof (assign_inst_stores w (nth (Z.to_nat i) (w_insts w) (new_inst 0)) n c0 s0 t Hr) as Hst.
    destruct (assign_inst w (nth (Z.to_nat i) (w_insts w) (new_inst 0)) n c0 s0) as [[ins' r] nx]. cbn [fst] in *.
    cbn [w_insts]. rewrite nth_update_nth_same by (destruct Hv; lia).
    exists (fst (assigned_value t c0 s0 (w_next w))). split; [exact Hst|]. split; [reflexivity|].
    intros x Hx Hin. destruct Hwf as (Hp & Hc & Hi & _).
    unfold assigned_value in Hx.
    destruct (default_value_oids (mkT (t_kind t) c0 s0 0 0 false 2 0) (w_next w) Hp) as [_ Hf].
    rewrite Forall_forall in Hf. specialize (Hf x Hx).
    assert (Hb : below (w_next w) (world_oids w)) by (apply world_oids_below; split; assumption).
    unfold below in Hb. rewrite Forall_forall in Hb. specialize (Hb x Hin). lia.
Qed.

(* assignment notifies by comparison mode: none = always, identity = unless the very same (scalar) object,
   equality = unless equal *)
Lemma assign_log_by_mode w ins n content scalar t ov h hs :
  resolve w ins n = Some t -> hids w ins t n = h :: hs -> alookup n (i_dict ins) = Some ov ->
  let v := fst (assigned_value t content scalar (w_next w)) in
  let same := (shape_class (v_shape ov) =? shape_class (v_shape v)) && zlist_eqb (vcontent ov) (vcontent v) in
  let calls := map (fun x => (x, n, vcontent ov, vcontent v)) (h :: hs) in
  i_log (fst (fst (assign_inst w ins n content scalar)))
  = i_log ins ++ (if t_cmp t =? 0 then calls
                  else if (v_shape v =? 0) && same then []
                  else if (t_cmp t =? 2) && same then [] else calls).
Proof.
  intros Hr Hh Hd. cbn zeta. unfold assign_inst. rewrite Hr.
  destruct (assigned_value t content scalar (w_next w)) as [v nx]. cbn [fst]. rewrite Hh, Hd. cbn [fst i_log].
  f_equal. destruct (t_cmp t =? 0) eqn:E0.
  - cbn [notify]. assert (E2 : (t_cmp t =? 2) = false) by (apply Z.eqb_eq in E0; rewrite E0; reflexivity).
    rewrite E2. reflexivity.
  - destruct ((v_shape v =? 0) && _) eqn:Es; cbn [negb]; [reflexivity|].
    destruct (t_cmp t =? 2); cbn [notify andb]; [|reflexivity].
    destruct ((shape_class (v_shape ov) =? shape_class (v_shape v)) && zlist_eqb (vcontent ov) (vcontent v)); reflexivity.
Qed.

(* ================================================================== *)
(* wildcard names resolved on demand: [step w o = step0 (resolved w o) o] *)

Lemma alookup_insert_row_other k n t : k <> n -> forall c, alookup k (insert_row n t c) = alookup k c.
Proof.
  intros Hne. induction c as [|[k2 t2] r IH]; cbn [insert_row alookup].
  - destruct (Z.eqb_spec k n); [contradiction | reflexivity].
  - destruct ((k2 <? 0) || (n <? k2)); cbn [alookup].
    + destruct (Z.eqb_spec k n); [contradiction | reflexivity].
    + destruct (k =? k2); [reflexivity | exact IH].
Qed.

Lemma alookup_insert_row_same n t : forall c, alookup n c = None -> alookup n (insert_row n t c) = Some t.
Proof.
  induction c as [|[k2 t2] r IH]; cbn [insert_row alookup]; intros H.
  - rewrite Z.eqb_refl. reflexivity.
  - destruct (Z.eqb_spec n k2) as [->|Hne]; [discriminate|].
    destruct ((k2 <? 0) || (n <? k2)); cbn [alookup].
    + rewrite Z.eqb_refl. reflexivity.
    + destruct (Z.eqb_spec n k2); [contradiction | apply IH, H].
Qed.

Lemma below_insert_row b n t c : below b (itrait_oids c) -> t_doid t < b -> below b (itrait_oids (insert_row n t c)).
Proof.
  intros Hc Ht. induction c as [|[k2 t2] r IH]; cbn [insert_row itrait_oids map snd].
  - constructor; [exact Ht | constructor].
  - inversion Hc as [|? ? H1 H2]; subst. destruct ((k2 <? 0) || (n <? k2)); cbn [itrait_oids map snd].
    + constructor; [exact Ht | exact Hc].
    + constructor; [exact H1 | apply IH, H2].
Qed.

Lemma nth_update_nth_other {A} (f : A -> A) (d : A) l : forall n j, n <> j -> nth j (update_nth n f l) d = nth j l d.
Proof. induction l as [|a l IH]; intros [|n] [|j] H; cbn; try reflexivity; try congruence. apply IH. congruence. Qed.

Lemma nth_update_nth_any {A} (f : A -> A) (d : A) l : forall n j,
  nth j (update_nth n f l) d = if (Nat.eqb n j && Nat.ltb j (length l))%bool then f (nth j l d) else nth j l d.
Proof.
  induction l as [|a l IH]; intros n j.
  - replace (update_nth n f []) with (@nil A) by (destruct n; reflexivity). cbn [length].
    replace (Nat.ltb j 0) with false by (symmetry; apply Nat.ltb_ge; lia). rewrite andb_false_r. reflexivity.
  - destruct n as [|n], j as [|j]; cbn [update_nth nth length]; try reflexivity.
    rewrite IH. reflexivity.
Qed.

(* what on-demand resolution does to the class tables and to the target instance *)
Lemma prefix_use_cases w ins o :
  prefix_use w ins o = (w_classes w, ins) \/
  exists n t, op_name o = Some n /\ wild_range n = true /\ alookup n (i_itraits ins) = None /\
              alookup n (class_of w ins) = None /\ prefix_resolve (class_of w ins) n = Some t /\
              prefix_use w ins o
              = (update_nth (Z.to_nat (i_cls ins)) (insert_row n t) (w_classes w), fire_trait_added w ins).
Proof.
  unfold prefix_use. destruct (op_name o) as [n|]; [|left; reflexivity].
  destruct (wild_range n) eqn:Er; [|left; reflexivity].
  destruct (alookup n (i_itraits ins)) eqn:E1; [left; reflexivity|].
  destruct (alookup n (class_of w ins)) eqn:E2; [left; reflexivity|].
  destruct (prefix_resolve (class_of w ins) n) as [t|] eqn:E3; [|left; reflexivity].
  right. exists n, t. repeat split; assumption.
Qed.

Lemma resolved_cases w o :
  resolved w o = w \/
  exists cls' ins0, valid_index w (target w o) /\ (forall c, o <> NewInst c) /\
                    prefix_use w (inst_at w (target w o)) o = (cls', ins0) /\
                    resolved w o = mkW cls' (update_nth (Z.to_nat (target w o)) (fun _ => ins0) (w_insts w)) (w_next w).
Proof.
  destruct o as [i n|i n content scalar|i n x|i n hid via|i n t|i n|i n code|i n src|i md|c]; [| | | | | | | | |left; reflexivity];
    unfold resolved; cbn [target];
    (destruct ((i <? 0) || (Z.of_nat (length (w_insts w)) <=? i)) eqn:Ec; [left; reflexivity|]);
    right; fold (inst_at w i);
    match goal with |- context [prefix_use w (inst_at w i) ?o] => destruct (prefix_use w (inst_at w i) o) as [cls' ins0] eqn:Ep end;
    exists cls', ins0; apply orb_false_iff in Ec; destruct Ec as [E1 E2]; apply Z.ltb_ge in E1; apply Z.leb_gt in E2;
    (split; [unfold valid_index; lia|]); (split; [intros c; discriminate|]); split; reflexivity.
Qed.

Lemma world_eta w : mkW (w_classes w) (w_insts w) (w_next w) = w.
Proof. destruct w; reflexivity. Qed.

Lemma resolved_noop w o :
  (forall cls' ins0, prefix_use w (inst_at w (target w o)) o = (cls', ins0) -> cls' = w_classes w /\ ins0 = inst_at w (target w o)) ->
  resolved w o = w.
Proof.
  intros H. destruct (resolved_cases w o) as [E|(cls' & ins0 & Hv & _ & Ep & E)]; [exact E|].
  destruct (H _ _ Ep) as [-> ->]. rewrite E. unfold inst_at. rewrite update_nth_id by (destruct Hv; lia).
  apply world_eta.
Qed.

Lemma resolved_if_resolvable w o :
  (op_name o = None \/ exists n, op_name o = Some n /\ (wild_range n = false \/ resolve w (inst_at w (target w o)) n <> None)) ->
  resolved w o = w.
Proof.
  intros H. apply resolved_noop. intros cls' ins0 Ep.
  destruct (prefix_use_cases w (inst_at w (target w o)) o) as [E|(n & t & Hn & Hr & H1 & H2 & _ & _)].
  - rewrite E in Ep. injection Ep as <- <-. split; reflexivity.
  - exfalso. destruct H as [H|(n' & Hn' & Hor)]; [congruence|].
    rewrite Hn in Hn'. injection Hn' as <-. destruct Hor as [Hw|Hres]; [congruence|].
    apply Hres. unfold resolve. rewrite H1. exact H2.
Qed.

Lemma resolved_length w o : length (w_insts (resolved w o)) = length (w_insts w).
Proof.
  destruct (resolved_cases w o) as [->|(cls' & ins0 & _ & _ & _ & ->)]; [reflexivity|].
  cbn [w_insts]. apply update_nth_length.
Qed.

Lemma resolved_next w o : w_next (resolved w o) = w_next w.
Proof. destruct (resolved_cases w o) as [->|(cls' & ins0 & _ & _ & _ & ->)]; reflexivity. Qed.

Lemma resolved_target w o : target (resolved w o) o = target w o.
Proof. destruct o; reflexivity. Qed.

Lemma resolved_other_instance w o j :
  op_index o <> Some (Z.of_nat j) -> nth_error (w_insts (resolved w o)) j = nth_error (w_insts w) j.
Proof.
  intros Hne. destruct (resolved_cases w o) as [->|(cls' & ins0 & Hv & Hno & _ & ->)]; [reflexivity|].
  cbn [w_insts]. apply nth_error_update_nth_other. intros E. apply Hne.
  destruct o; cbn [op_index target] in *; try (f_equal; rewrite <- E; rewrite Z2Nat.id; [reflexivity | destruct Hv; lia]).
  exfalso. eapply Hno. reflexivity.
Qed.

(* a class table only ever gains rows: every definition that is there stays exactly as it is *)
Lemma resolved_classes_keep w o c n t :
  alookup n (nth c (w_classes w) []) = Some t -> alookup n (nth c (w_classes (resolved w o)) []) = Some t.
Proof.
  intros H. destruct (resolved_cases w o) as [->|(cls' & ins0 & Hv & _ & Ep & ->)]; [exact H|]. cbn [w_classes].
  destruct (prefix_use_cases w (inst_at w (target w o)) o) as [E|(n' & t' & _ & _ & _ & H2 & _ & E)];
    rewrite E in Ep; injection Ep as <- <-; [exact H|].
  rewrite nth_update_nth_any. destruct (_ && _)%bool eqn:Eb; [|exact H].
  apply andb_true_iff in Eb. destruct Eb as [Eb _]. apply Nat.eqb_eq in Eb. subst c.
  rewrite alookup_insert_row_other; [exact H|]. intros ->. unfold class_of in H2. congruence.
Qed.

Lemma resolved_classes_length w o : length (w_classes (resolved w o)) = length (w_classes w).
Proof.
  destruct (resolved_cases w o) as [->|(cls' & ins0 & Hv & _ & Ep & ->)]; [reflexivity|]. cbn [w_classes].
  destruct (prefix_use_cases w (inst_at w (target w o)) o) as [E|(n' & t' & _ & _ & _ & _ & _ & E)];
    rewrite E in Ep; injection Ep as <- <-; [reflexivity | apply update_nth_length].
Qed.

(* a class without a wildcard trait never changes *)
Lemma resolved_classes_without_wildcard w o :
  (forall c n, prefix_resolve (nth c (w_classes w) []) n = None) -> w_classes (resolved w o) = w_classes w.
Proof.
  intros Hnw. destruct (resolved_cases w o) as [->|(cls' & ins0 & Hv & _ & Ep & ->)]; [reflexivity|]. cbn [w_classes].
  destruct (prefix_use_cases w (inst_at w (target w o)) o) as [E|(n' & t' & _ & _ & _ & _ & H3 & E)];
    rewrite E in Ep; injection Ep as <- <-; [reflexivity|].
  unfold class_of in H3. rewrite Hnw in H3. discriminate.
Qed.

Lemma fire_calls_ok w ins : calls_ok ins -> calls_ok (fire_trait_added w ins).
Proof. intros H. unfold fire_trait_added. apply calls_ok_mono; [exact H | auto]. Qed.

Lemma resolved_wf w o : wf w -> wf (resolved w o).
Proof.
  intros Hwf. destruct (resolved_cases w o) as [->|(cls' & ins0 & Hv & _ & Ep & ->)]; [exact Hwf|].
  destruct Hwf as (Hp & Hc & Hi & Hk). unfold wf, class_oids. cbn [w_next w_classes w_insts].
  assert (Hins : below (w_next w) (inst_oids (inst_at w (target w o))) /\ calls_ok (inst_at w (target w o))).
  { unfold inst_at. split.
    - apply (Forall_nth (fun ins => below (w_next w) (inst_oids ins))); [exact Hi | constructor].
    - apply Forall_nth; [exact Hk | apply new_inst_calls_ok]. }
  destruct Hins as [Hb Hcok].
  destruct (prefix_use_cases w (inst_at w (target w o)) o) as [E|(n & t & _ & _ & _ & _ & H3 & E)];
    rewrite E in Ep; injection Ep as <- <-.
  - split; [exact Hp|]. split; [exact Hc|]. split.
    + apply Forall_update_nth; [exact Hi | intros _ _; exact Hb].
    + unfold world_calls_ok. cbn [w_insts]. apply Forall_update_nth; [exact Hk | intros _ _; exact Hcok].
  - assert (Ht : t_doid t < w_next w).
    { unfold prefix_resolve, class_of in H3.
      destruct (alookup (template_name n) (nth (Z.to_nat (i_cls (inst_at w (target w o)))) (w_classes w) [])) eqn:E1.
      - injection H3 as <-. eapply below_class_lookup; eassumption.
      - eapply below_class_lookup; eassumption. }
    split; [exact Hp|]. split; [|split].
    + unfold class_oids in Hc. apply below_flat_map. apply below_flat_map in Hc.
      apply Forall_update_nth; [exact Hc|]. intros c0 Hc0. apply below_insert_row; assumption.
    + apply Forall_update_nth; [exact Hi|]. intros _ _. unfold fire_trait_added.
      rewrite inst_oids_split in *. cbn [i_dict i_itraits]. apply below_app in Hb. destruct Hb as [Hb1 Hb2].
      apply below_app. split; [exact Hb1|]. apply (fire_below w Hc _ (inst_at w (target w o)) (w_next w)); [lia | exact Hb2].
    + unfold world_calls_ok. cbn [w_insts]. apply Forall_update_nth; [exact Hk | intros _ _; apply fire_calls_ok, Hcok].
Qed.

(* ------------------------------------------------------------------ *)
(* the theorems for the step with on-demand resolution                  *)

Definition valid_op (w : world) (o : op) : Prop := valid_op0 w o.

Lemma valid_op_resolved w o : valid_op w o -> valid_op0 (resolved w o) o.
Proof.
  unfold valid_op, valid_op0. destruct (op_index o) as [i|]; [|auto]. unfold valid_index.
  rewrite resolved_length. auto.
Qed.

Lemma step_wf w o : wf w -> wf (fst (step w o)).
Proof. intros H. unfold step. apply step_wf0, resolved_wf, H. Qed.

Lemma final_wf ops : forall w, wf w -> wf (final w ops).
Proof.
  induction ops as [|o ops IH]; intros w H; [exact H|]. cbn [final fold_left].
  change (fold_left (fun w o => fst (step w o)) ops ?x) with (final x ops). apply IH, step_wf, H.
Qed.

Lemma step_insts_length w o : (length (w_insts w) <= length (w_insts (fst (step w o))))%nat.
Proof. unfold step. pose proof (step_insts_length0 (resolved w o) o). rewrite resolved_length in H. exact H. Qed.

Lemma step_other_instance w o j :
  (j < length (w_insts w))%nat -> op_index o <> Some (Z.of_nat j) ->
  nth_error (w_insts (fst (step w o))) j = nth_error (w_insts w) j.
Proof.
  intros Hj Hne. unfold step. rewrite step_other_instance0; [apply resolved_other_instance, Hne | | exact Hne].
  rewrite resolved_length. exact Hj.
Qed.

Lemma final_other_instance ops : forall w j,
  (j < length (w_insts w))%nat -> Forall (fun o => op_index o <> Some (Z.of_nat j)) ops ->
  nth_error (w_insts (final w ops)) j = nth_error (w_insts w) j.
Proof.
  induction ops as [|o ops IH]; intros w j Hj Hall; [reflexivity|]. cbn [final fold_left].
  change (fold_left (fun w o => fst (step w o)) ops ?x) with (final x ops).
  inversion Hall as [|? ? Ho Hr]; subst. rewrite IH.
  - apply step_other_instance; assumption.
  - pose proof (step_insts_length w o). lia.
  - exact Hr.
Qed.

(* every definition of every class stays exactly as it is; tables only gain the rows of wildcard names *)
Lemma step_classes_keep w o c n t :
  alookup n (nth c (w_classes w) []) = Some t -> alookup n (nth c (w_classes (fst (step w o))) []) = Some t.
Proof. intros H. unfold step. rewrite step_classes0. apply resolved_classes_keep, H. Qed.

Lemma final_classes_keep ops : forall w c n t,
  alookup n (nth c (w_classes w) []) = Some t -> alookup n (nth c (w_classes (final w ops)) []) = Some t.
Proof.
  induction ops as [|o ops IH]; intros w c n t H; [exact H|]. cbn [final fold_left].
  change (fold_left (fun w o => fst (step w o)) ops ?x) with (final x ops). apply IH, step_classes_keep, H.
Qed.

Definition no_wildcard (cls : list (list (Z * tdef))) : Prop := forall c n, prefix_resolve (nth c cls []) n = None.

Lemma step_classes_without_wildcard w o : no_wildcard (w_classes w) -> w_classes (fst (step w o)) = w_classes w.
Proof. intros H. unfold step. rewrite step_classes0. apply resolved_classes_without_wildcard, H. Qed.

Lemma final_classes_without_wildcard ops : forall w, no_wildcard (w_classes w) -> w_classes (final w ops) = w_classes w.
Proof.
  induction ops as [|o ops IH]; intros w H; [reflexivity|]. cbn [final fold_left].
  change (fold_left (fun w o => fst (step w o)) ops ?x) with (final x ops).
  rewrite IH; [apply step_classes_without_wildcard, H|]. rewrite step_classes_without_wildcard by exact H. exact H.
Qed.

(* the one sanctioned change: first use of a wildcard name *)
Lemma wildcard_first_use w i n t :
  valid_index w i -> wild_range n = true ->
  alookup n (i_itraits (inst_at w i)) = None -> alookup n (class_of w (inst_at w i)) = None ->
  prefix_resolve (class_of w (inst_at w i)) n = Some t ->
  let ins := inst_at w i in
  let wr := mkW (update_nth (Z.to_nat (i_cls ins)) (insert_row n t) (w_classes w))
                (update_nth (Z.to_nat i) (fun _ => fire_trait_added w ins) (w_insts w)) (w_next w) in
  resolved w (Read i n) = wr /\ step w (Read i n) = step0 wr (Read i n) /\
  ((Z.to_nat (i_cls ins) < length (w_classes w))%nat -> resolve wr (inst_at wr i) n = Some t).
Proof.
  intros Hv Hr H1 H2 H3. cbn zeta.
  assert (E : resolved w (Read i n)
              = mkW (update_nth (Z.to_nat (i_cls (inst_at w i))) (insert_row n t) (w_classes w))
                    (update_nth (Z.to_nat i) (fun _ => fire_trait_added w (inst_at w i)) (w_insts w)) (w_next w)).
  { unfold resolved. cbn [target]. rewrite (range_check w i Hv). fold (inst_at w i).
    unfold prefix_use. cbn [op_name]. rewrite Hr, H1, H2, H3. reflexivity. }
  split; [exact E|]. split; [unfold step; rewrite E; reflexivity|].
  intros Hc. unfold resolve, inst_at, class_of. cbn [w_insts w_classes].
  rewrite nth_update_nth_same by (destruct Hv; lia). unfold fire_trait_added at 1 2. cbn [i_itraits i_cls].
  fold (inst_at w i).
  assert (Hn : alookup n (match alookup trait_added (i_itraits (inst_at w i)), alookup trait_added (class_of w (inst_at w i)) with
                          | None, Some ta => i_itraits (inst_at w i) ++ [(trait_added, ta)]
                          | _, _ => i_itraits (inst_at w i)
                          end) = None).
  { destruct (alookup trait_added (i_itraits (inst_at w i))); [exact H1|].
    destruct (alookup trait_added (class_of w (inst_at w i))); [|exact H1].
    rewrite alookup_app, H1. cbn. unfold wild_range in Hr. apply andb_true_iff in Hr. destruct Hr as [Hr _].
    apply Z.leb_le in Hr. destruct (Z.eqb_spec n trait_added) as [E0|]; [unfold trait_added in E0; lia | reflexivity]. }
  rewrite Hn. rewrite nth_update_nth_same by exact Hc. apply alookup_insert_row_same. exact H2.
Qed.

(* ---- reads, when the name is already resolvable ---- *)
Lemma first_read w i n t :
  valid_index w i -> alookup n (i_dict (inst_at w i)) = None -> resolve w (inst_at w i) n = Some t ->
  let ins := inst_at w i in
  let v := fst (default_value t (w_next w)) in
  step w (Read i n)
  = (mkW (w_classes w)
         (update_nth (Z.to_nat i)
            (fun _ => mkI (i_cls ins) (i_dict ins ++ [(n, v)]) (i_itraits ins)
                          (if counted t then bump n (i_calls ins) else i_calls ins) (i_log ins) (i_regs ins))
            (w_insts w))
         (snd (default_value t (w_next w))),
     v).
Proof.
  intros Hv Hd Hr. unfold step. rewrite resolved_if_resolvable; [apply first_read0; assumption|].
  right. exists n. split; [reflexivity|]. right. cbn [target]. rewrite Hr. discriminate.
Qed.

Lemma stored_read w i n v :
  valid_index w i -> alookup n (i_dict (inst_at w i)) = Some v -> resolve w (inst_at w i) n <> None ->
  step w (Read i n) = (w, v).
Proof.
  intros Hv Hd Hr. unfold step. rewrite resolved_if_resolvable; [apply stored_read0; assumption|].
  right. exists n. split; [reflexivity|]. right. exact Hr.
Qed.

Lemma later_reads_same w i n t :
  valid_index w i -> alookup n (i_dict (inst_at w i)) = None -> resolve w (inst_at w i) n = Some t ->
  let w1 := fst (step w (Read i n)) in
  let v := snd (step w (Read i n)) in
  step w1 (Read i n) = (w1, v).
Proof.
  intros Hv Hd Hr. cbn zeta. rewrite (first_read w i n t Hv Hd Hr). cbn [fst snd].
  apply stored_read.
  - unfold valid_index in *. cbn [w_insts]. rewrite update_nth_length. exact Hv.
  - unfold inst_at in *. cbn [w_insts]. rewrite nth_update_nth_same by (destruct Hv; lia).
    cbn [i_dict]. rewrite alookup_app, Hd. cbn. rewrite Z.eqb_refl. reflexivity.
  - unfold inst_at, resolve, class_of in *. cbn [w_insts w_classes]. rewrite nth_update_nth_same by (destruct Hv; lia).
    cbn [i_itraits i_cls]. rewrite Hr. discriminate.
Qed.

Lemma default_not_aliased w i n t :
  wf w -> valid_index w i -> alookup n (i_dict (inst_at w i)) = None -> resolve w (inst_at w i) n = Some t ->
  forall x, In x (value_oids (snd (step w (Read i n)))) -> ~ In x (world_oids w).
Proof.
  intros Hwf Hv Hd Hr. unfold step. rewrite resolved_if_resolvable; [apply (default_not_aliased0 w i n t); assumption|].
  right. exists n. split; [reflexivity|]. right. cbn [target]. rewrite Hr. discriminate.
Qed.

Lemma new_instance_is_empty w c :
  nth_error (w_insts (fst (step w (NewInst c)))) (length (w_insts w)) = Some (new_inst c)
  /\ w_next (fst (step w (NewInst c))) = w_next w.
Proof. exact (new_instance_is_empty0 w c). Qed.

Lemma introspect_inert w i md : valid_index w i -> step w (Introspect i md) = (w, mkV 0 []).
Proof.
  intros Hv. unfold step. rewrite resolved_if_resolvable; [apply introspect_inert0, Hv | left; reflexivity].
Qed.

Lemma set_meta_effect w i n code t :
  valid_index w i -> alookup n (i_itraits (inst_at w i)) = Some t -> alookup n (class_of w (inst_at w i)) = None ->
  let ins := inst_at w i in
  step w (SetMeta i n code)
  = (mkW (w_classes w)
         (update_nth (Z.to_nat i)
            (fun _ => mkI (i_cls ins) (i_dict ins)
                          (aset n (mkT (t_kind t) (t_content t) (t_scalar t) (t_doid t) (t_nnotif t) (t_static t) (t_cmp t) code)
                                (i_itraits ins))
                          (i_calls ins) (i_log ins) (i_regs ins))
            (w_insts w))
         (w_next w),
     mkV 0 []).
Proof.
  intros Hv Ht Hc. unfold step. rewrite resolved_if_resolvable; [apply set_meta_effect0; assumption | left; reflexivity].
Qed.

Lemma assign_from_copies w i n src t v :
  wf w -> valid_index w i -> valid_index w src -> src <> i ->
  alookup n (i_dict (inst_at w src)) = Some v -> resolve w (inst_at w i) n = Some t ->
  let w' := fst (step w (AssignFrom i n src)) in
  nth_error (w_insts w') (Z.to_nat src) = nth_error (w_insts w) (Z.to_nat src) /\
  w_classes w' = w_classes w /\
  exists v', alookup n (i_dict (inst_at w' i)) = Some v' /\
             vcontent v' = vcontent (fst (assigned_value t (fst (payload_of v)) (snd (payload_of v)) (w_next w))) /\
             forall x, In x (value_oids v') -> ~ In x (world_oids w).
Proof.
  intros Hwf Hv Hs Hne Hsv Hr. cbn zeta. unfold step.
  rewrite resolved_if_resolvable; [apply assign_from_copies0; assumption | left; reflexivity].
Qed.

(* counters *)
Lemma default_method_once cls next0 ops ins n c :
  0 < next0 -> below next0 (flat_map (fun c => map (fun p => t_doid (snd p)) c) cls) ->
  In ins (w_insts (final (mkW cls [] next0) ops)) -> In (n, c) (i_calls ins) ->
  c = 1 /\ alookup n (i_dict ins) <> None.
Proof.
  intros Hp Hb Hin Hl. assert (H : wf (final (mkW cls [] next0) ops)) by (apply final_wf, wf_init; assumption).
  destruct H as (_ & _ & _ & H). unfold world_calls_ok in H. rewrite Forall_forall in H. specialize (H ins Hin).
  unfold calls_ok in H. rewrite Forall_forall in H. exact (H (n, c) Hl).
Qed.

(* the law *)
Theorem law_on_model w o : wf w -> valid_op w o -> law_step w o (observe w o) = [].
Proof.
  intros Hwf Hvo. unfold law_step, observe. apply law_on_model0; [apply resolved_wf, Hwf | apply valid_op_resolved, Hvo].
Qed.

Lemma track_observe w o : valid_op w o -> track w o (observe w o) = fst (step w o).
Proof. intros Hvo. unfold track, observe, step. apply track_observe0, valid_op_resolved, Hvo. Qed.

Fixpoint obs_run (w : world) (ops : list op) : list (op * obs) :=
  match ops with
  | [] => []
  | o :: r => (o, observe w o) :: obs_run (fst (step w o)) r
  end.

Fixpoint valid_hist (w : world) (ops : list op) : Prop :=
  match ops with
  | [] => True
  | o :: r => valid_op w o /\ valid_hist (fst (step w o)) r
  end.

Theorem law_on_histories : forall ops w k, wf w -> valid_hist w ops -> law_hist k w (obs_run w ops) = [].
Proof.
  induction ops as [|o ops IH]; intros w k Hwf Hvh; [reflexivity|]. cbn [obs_run law_hist].
  destruct Hvh as [Hvo Hvh]. rewrite (law_on_model w o Hwf Hvo). cbn [map app].
  rewrite (track_observe w o Hvo). apply IH; [apply step_wf, Hwf | exact Hvh].
Qed.

Definition valid_opb (w : world) (o : op) : bool :=
  match op_index o with
  | Some i => (0 <=? i) && (i <? Z.of_nat (length (w_insts w)))
  | None => true
  end.
Fixpoint valid_histb (w : world) (ops : list op) : bool :=
  match ops with
  | [] => true
  | o :: r => valid_opb w o && valid_histb (fst (step w o)) r
  end.
Lemma valid_histb_ok ops : forall w, valid_histb w ops = true -> valid_hist w ops.
Proof.
  induction ops as [|o ops IH]; intros w H; [exact I|]. cbn [valid_histb valid_hist] in *.
  apply andb_true_iff in H. destruct H as [H1 H2]. split; [|apply IH, H2].
  unfold valid_opb, valid_op, valid_op0 in *. destruct (op_index o) as [i|]; [|exact I].
  apply andb_true_iff in H1. destruct H1 as [Ha Hb]. apply Z.leb_le in Ha. apply Z.ltb_lt in Hb.
  unfold valid_index. lia.
Qed.

(* del obj.n: without listeners the attribute is simply unassigned again; with listeners the default it reverts to
   is computed once, STORED (later reads return the object the handlers got as `new`) and counted once *)
Lemma delete_inst_effect w ins n ov t :
  alookup n (i_dict ins) = Some ov -> resolve w ins n = Some t ->
  let ins' := fst (fst (delete_inst w ins n)) in
  match hids w ins t n with
  | [] => alookup n (i_dict ins') = None /\ alookup n (i_calls ins') = None
  | _ :: _ => alookup n (i_dict ins') = Some (fst (default_value t (w_next w)))
              /\ alookup n (i_calls ins') = (if counted t then Some 1 else None)
  end.
Proof.
  intros Hd Hr. cbn zeta. unfold delete_inst. rewrite Hd, Hr.
  destruct (hids w ins t n) as [|h hs]; cbn [fst i_dict i_calls].
  - rewrite !alookup_aremove, Z.eqb_refl. split; reflexivity.
  - unfold materialise. destruct (default_value t (w_next w)) as [v nx]. cbn [fst i_dict i_calls].
    rewrite alookup_app, alookup_aremove, Z.eqb_refl. cbn [alookup]. rewrite Z.eqb_refl. split; [reflexivity|].
    destruct (counted t); [|rewrite alookup_aremove, Z.eqb_refl; reflexivity].
    apply alookup_bump_same. rewrite alookup_aremove, Z.eqb_refl. reflexivity.
Qed.
