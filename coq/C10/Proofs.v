(* C10 — proofs (being filled in). *)
From Coq Require Import ZArith List Bool Lia.
From TV Require Import Common.Harness C10.Model C10.Law C10.Corr.
Import ListNotations.
Open Scope Z_scope.

Lemma class_table_const w o : w_classes (fst (step w o)) = w_classes w.
Proof.
  destruct o; cbn [step]; try reflexivity;
    match goal with |- context [if ?c then _ else _] => destruct c end; try reflexivity;
    match goal with |- context [step_inst ?w ?i ?o] => destruct (step_inst w i o) as [[? ?] ?] end; reflexivity.
Qed.
