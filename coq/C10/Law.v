(* C10 — the property as a boolean checker on one observed step.
   It does not mention [Model.step]: it is evaluated on what the implementation
   showed, relative to the world tracked so far (every instance view in it was
   itself observed, or is the empty view of a new instance; the class tables
   are the declared ones).
   An observation gives: the value returned, the complete view of the target
   instance afterwards, a digest of the view of EVERY instance afterwards, a
   digest of all class tables afterwards, and the allocator position.
   Clause codes:
     1 first read of an unassigned trait did not return the declared default
     2 a read reached a change handler (the target's call log grew)
     3 a default method / factory ran more than once for one (instance, attribute)
     4 a later read returned another object, or a read of a stored value changed the instance
     5 a default container is not fresh: it aliases an object of another
       instance, of this instance, or a class-level default object
     6 the view of another instance changed (values, identities, handler calls,
       instance traits, counters) or the number of instances is wrong
     7 the class tables changed
     8 a new instance does not start with the empty view
     9 the default just read was not stored (dict / instance traits / handlers changed otherwise)
    10 the digest reported for the target is not the digest of its reported view (harness sanity)
    11 reading a defined trait raised *)
From Coq Require Import ZArith List Bool.
From TV Require Import Common.Harness C10.Model.
Import ListNotations.
Open Scope Z_scope.

(* 61-bit rolling digest with a mask instead of a modulus (Z.modulo by a 61-bit prime is ~50x slower
   under vm_compute than Z.land); same function in the driver *)
Definition digest_step61 (h c : Z) : Z := Z.land (h * 1000003 + c + 7) 2305843009213693951.
Definition digest (l : list Z) : Z := fold_left digest_step61 l 0.

(* ---- canonical integer encoding of views (mirrored by the driver) ---- *)
Definition zlen {A} (l : list A) : Z := Z.of_nat (length l).
Definition enc_list (l : list Z) : list Z := zlen l :: l.
Definition enc_part (p : part) : list Z := fst p :: enc_list (snd p).
Definition enc_value (v : value) : list Z := v_shape v :: zlen (v_parts v) :: flat_map enc_part (v_parts v).
Definition kind_code (k : kind) : Z :=
  match k with
  | KConst => 0 | KListCopy => 1 | KDictCopy => 2 | KTraitList => 3 | KTraitDict => 4 | KTraitSet => 5
  | KFactory => 6 | KMethod => 7 | KTuple => 8 | KUnion => 9 | KEvent => 10 | KMethodInt => 11 | KTuple2 => 12 | KArray => 13 | KUuid => 14
  end.
Definition enc_tdef (t : tdef) : list Z :=
  kind_code (t_kind t) :: t_scalar t :: t_doid t :: t_nnotif t :: (if t_static t then 1 else 0) :: t_cmp t :: t_label t
  :: enc_list (t_content t).
Definition enc_log (e : logent) : list Z :=
  let '(h, n, o, nw) := e in h :: n :: enc_list o ++ enc_list nw.
Definition enc_inst (i : inst) : list Z :=
  i_cls i
  :: zlen (i_dict i) :: flat_map (fun p => fst p :: enc_value (snd p)) (i_dict i)
  ++ zlen (i_itraits i) :: flat_map (fun p => fst p :: enc_tdef (snd p)) (i_itraits i)
  ++ zlen (i_calls i) :: flat_map (fun p => [fst p; snd p]) (i_calls i)
  ++ zlen (i_log i) :: flat_map enc_log (i_log i)
  ++ zlen (i_regs i) :: flat_map (fun p => [fst p; snd p]) (i_regs i).
Definition enc_class (c : list (Z * tdef)) : list Z :=
  zlen c :: flat_map (fun p => fst p :: enc_tdef (snd p)) c.
Definition enc_classes (cs : list (list (Z * tdef))) : list Z := zlen cs :: flat_map enc_class cs.

Record obs := mkO {
  o_ret : value;
  o_target : inst;          (* view of the target instance after the operation *)
  o_digests : list Z;       (* digest of the view of every instance afterwards, in order *)
  o_classes : Z;            (* digest of all class tables afterwards *)
  o_next : Z;               (* allocator position afterwards *)
  o_exc : bool              (* the operation raised *)
}.

(* ---- helpers ---- *)
Definition inst_eqb (a b : inst) : bool := zlist_eqb (enc_inst a) (enc_inst b).
Definition value_eqb (a b : value) : bool := zlist_eqb (enc_value a) (enc_value b).
Definition zmem (x : Z) (l : list Z) : bool := existsb (Z.eqb x) l.
Fixpoint znodup (l : list Z) : bool :=
  match l with [] => true | x :: r => negb (zmem x r) && znodup r end.

(* same shape and contents, part by part; a part is an object iff it is one in the declared default *)
Fixpoint parts_like (a b : list part) : bool :=
  match a, b with
  | [], [] => true
  | (o1, c1) :: a', (o2, c2) :: b' => Bool.eqb (o1 =? 0) (o2 =? 0) && zlist_eqb c1 c2 && parts_like a' b'
  | _, _ => false
  end.
Definition value_like (a b : value) : bool := (v_shape a =? v_shape b) && parts_like (v_parts a) (v_parts b).

Definition value_oids (v : value) : list Z := filter (fun o => negb (o =? 0)) (map fst (v_parts v)).
Definition inst_oids (i : inst) : list Z :=
  flat_map (fun p => value_oids (snd p)) (i_dict i) ++ map (fun p => t_doid (snd p)) (i_itraits i).
Definition world_oids (w : world) : list Z :=
  flat_map (fun c => map (fun p => t_doid (snd p)) c) (w_classes w) ++ flat_map inst_oids (w_insts w).

(* the tracked world after an observed step *)
Definition track0 (w : world) (o : op) (ob : obs) : world :=
  match o with
  | NewInst _ => mkW (w_classes w) (w_insts w ++ [o_target ob]) (o_next ob)
  | _ => mkW (w_classes w) (update_nth (Z.to_nat (target w o)) (fun _ => o_target ob) (w_insts w)) (o_next ob)
  end.

(* digests of all instances other than index i agree with the tracked views *)
Fixpoint others_ok (i : Z) (j : Z) (insts : list inst) (ds : list Z) : bool :=
  match insts, ds with
  | [], _ => true
  | ins :: r, d :: ds' => ((j =? i) || (digest (enc_inst ins) =? d)) && others_ok i (j + 1) r ds'
  | _ :: _, [] => false
  end.

Definition is_default_read (w : world) (o : op) : option (inst * Z * tdef) :=
  match o with
  | Read i n =>
      if (0 <=? i) && (i <? zlen (w_insts w)) then
        let ins := nth (Z.to_nat i) (w_insts w) (new_inst 0) in
        match alookup n (i_dict ins) with
        | Some _ => None
        | None => match resolve w ins n with
                  | Some t => match t_kind t with KEvent => None | _ => Some (ins, n, t) end   (* events are write-only *)
                  | None => None
                  end
        end
      else None
  | _ => None
  end.

Definition is_stored_read (w : world) (o : op) : option (inst * value) :=
  match o with
  | Read i n =>
      if (0 <=? i) && (i <? zlen (w_insts w)) then
        let ins := nth (Z.to_nat i) (w_insts w) (new_inst 0) in
        match alookup n (i_dict ins) with Some v => Some (ins, v) | None => None end
      else None
  | _ => None
  end.

Definition is_read (o : op) : bool := match o with Read _ _ => true | _ => false end.

(* an operation addressed to an instance that does not exist (possible in shrunk histories) shows nothing *)
Definition addressed (w : world) (o : op) : bool :=
  match o with
  | NewInst _ => true
  | _ => (0 <=? target w o) && (target w o <? zlen (w_insts w))
  end.

Definition law_core (w : world) (o : op) (ob : obs) : list Z :=
  if negb (addressed w o) then [] else
  let i := target w o in
  let before := nth (Z.to_nat i) (w_insts w) (new_inst 0) in
  let after := o_target ob in
  (* 1, 5, 9, 11: first read of an unassigned trait *)
  match is_default_read w o with
  | Some (ins, n, t) =>
      chk 11 (negb (o_exc ob))
      ++ chk 1 (value_like (o_ret ob) (fst (default_value t 1)))
      ++ chk 5 (znodup (value_oids (o_ret ob))
                && forallb (fun x => negb (zmem x (world_oids w))) (value_oids (o_ret ob)))
      ++ chk 9 (opt_eqb value_eqb (alookup n (i_dict after)) (Some (o_ret ob))
                && (zlen (i_dict after) =? zlen (i_dict ins) + 1)
                && zlist_eqb (flat_map (fun p => fst p :: enc_tdef (snd p)) (i_itraits after))
                             (flat_map (fun p => fst p :: enc_tdef (snd p)) (i_itraits ins)))
  | None => []
  end
  (* 4: a read of a stored value returns that very object and changes nothing *)
  ++ match is_stored_read w o with
     | Some (ins, v) => chk 4 (value_eqb (o_ret ob) v && inst_eqb after ins)
     | None => []
     end
  (* 2: reads never reach a handler *)
  ++ chk 2 (negb (is_read o) || (zlen (i_log after) =? zlen (i_log before)))
  (* 3: default methods / factories at most once per (instance, attribute) *)
  ++ chk 3 (forallb (fun p => snd p <=? 1) (i_calls after))
  (* 6: every other instance is exactly as it was *)
  ++ chk 6 (others_ok i 0 (w_insts w) (o_digests ob)
            && (zlen (o_digests ob) =? zlen (w_insts w) + (match o with NewInst _ => 1 | _ => 0 end)))
  (* 7: the class tables are exactly as declared (plus the rows of wildcard names resolved so far) *)
  ++ chk 7 (o_classes ob =? digest (enc_classes (w_classes w)))
  (* 8: a new instance starts empty *)
  ++ chk 8 (match o with NewInst c => inst_eqb after (new_inst c) | _ => true end)
  (* 10: harness sanity *)
  ++ chk 10 (opt_eqb Z.eqb (nth_error (o_digests ob) (Z.to_nat i)) (Some (digest (enc_inst after)))).

(* The law is evaluated in the world as it is after the on-demand resolution of a wildcard name, which is the one
   sanctioned change of a class table ([Model.resolved] does not mention the step function). *)
Definition law_step (w : world) (o : op) (ob : obs) : list Z := law_core (resolved w o) o ob.
Definition track (w : world) (o : op) (ob : obs) : world := track0 (resolved w o) o ob.

Fixpoint law_hist (k : Z) (w : world) (h : list (op * obs)) : list Z :=
  match h with
  | [] => []
  | (o, ob) :: r => map (fun c => 100 * k + c) (law_step w o ob) ++ law_hist (k + 1) (track w o ob) r
  end.
