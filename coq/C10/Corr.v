(* C10 — correspondence: one case = the declared class tables, the allocator
   start, the digest of the class tables as first observed, and the history of
   (operation, observation recorded from the implementation). *)
From Coq Require Import ZArith List Bool.
From TV Require Import Common.Harness C10.Model C10.Law.
Import ListNotations.
Open Scope Z_scope.

Definition case := (list (list (Z * tdef)) * Z * Z * list (op * obs))%type.

(* what the model shows for one step, in the shape of an observation *)
Definition observe0 (w : world) (o : op) : obs :=
  let '(w', r) := step0 w o in
  mkO r (nth (Z.to_nat (target w o)) (w_insts w') (new_inst 0))
      (map (fun i => digest (enc_inst i)) (w_insts w'))
      (digest (enc_classes (w_classes w')))
      (w_next w')
      (match v_shape r with 9 => true | _ => false end).

Definition observe (w : world) (o : op) : obs := observe0 (resolved w o) o.

(* codes: 100*step + 1 returned value, 2 view of the target instance, 3 allocator position,
   4 exception flag; 20 (at step 0) declared class tables <> observed ones *)
Definition obs_diff (m i : obs) : list Z :=
  chk 1 (value_eqb (o_ret m) (o_ret i) || (o_exc i && o_exc m))
  ++ chk 2 (inst_eqb (o_target m) (o_target i))
  ++ chk 3 (o_next m =? o_next i)
  ++ chk 4 (Bool.eqb (o_exc m) (o_exc i)).

(* The model is re-synchronised on the implementation's view after every step. *)
Fixpoint corr_hist (k : Z) (w : world) (h : list (op * obs)) : list Z :=
  match h with
  | [] => []
  | (o, ob) :: r =>
      map (fun c => 100 * k + c) (obs_diff (observe w o) ob) ++ corr_hist (k + 1) (track w o ob) r
  end.

Definition corr_codes (c : case) : list Z :=
  let '(cls, next0, d0, h) := c in
  chk 20 (d0 =? digest (enc_classes cls)) ++ corr_hist 0 (mkW cls [] next0) h.
Definition law_codes (c : case) : list Z :=
  let '(cls, next0, d0, h) := c in law_hist 0 (mkW cls [] next0) h.
