(* C06 — the property as a boolean checker on one observed history.
   It does not mention [Model.step]: it is applied verbatim to the observations
   recorded from the implementation, and proved of the model in Proofs.v.
   Clause codes (returned on failure):
     1 outcome class differs from the built-in dict on validated keys/values
     2 contents differ from the built-in dict on validated keys/values
     8 return value differs from the built-in dict (popitem: the item inserted last)
     9 the iteration order of the keys differs from the built-in dict's insertion order
     3 a failing operation changed the contents or notified somebody; a construction notified somebody
   per notification channel (base 0: plain notifier registered first, base 10:
   plain notifier registered after an observe() handler, base 20: the
   "<name>_items" trait event of a TraitDictObject with has_items):
     base+4 more than one notification for one operation
     base+5 contents changed but no notification
     base+6 reconstruction law: added keys were absent and now hold the given
            values, changed keys were present with the given old values and are
            still present, removed keys held the given values and are gone,
            and before = removed ∪ changed ∪ (after ∖ keys added)
     base+7 an event whose three parts are all empty
     29 the "<name>_items" channel was not observed although configured
   observer channel (DictChangeEvent given to observe(handler, "d.items")):
     34 more than one event, 35 changed but no event,
     36 removed does not hold old values / added does not hold new values /
        (before ∖ removed) ∪ added <> after
     37 removed and added both empty *)
From Coq Require Import ZArith List Bool.
From TV Require Import Common.LSet Common.LMap Common.Harness C06.Model.
Import ListNotations.
Open Scope Z_scope.

Definition exn_eqb (a b : exn) : bool :=
  match a, b with
  | KeyError, KeyError | TraitError, TraitError | TypeError, TypeError
  | ValueError, ValueError | OtherError, OtherError => true
  | _, _ => false
  end.
Definition outcome_eqb (a b : outcome) : bool :=
  match a, b with Ok, Ok => true | Raise x, Raise y => exn_eqb x y | _, _ => false end.
Definition is_raise (o : outcome) : bool := match o with Ok => false | Raise _ => true end.
Definition retv_eqb (a b : retv) : bool :=
  match a, b with
  | RNone, RNone => true
  | RVal x, RVal y => x =? y
  | RItem k v, RItem k' v' => (k =? k') && (v =? v')
  | _, _ => false
  end.

(* before, as recovered from the contents afterwards and one notification *)
Definition undo (after : amap) (e : ev3) : amap :=
  let '(removed, added, changed) := e in removed ++ changed ++ minus after (keys added).

Definition ev_ok (before after : amap) (e : ev3) : bool :=
  let '(removed, added, changed) := e in
  forallb (fun k => negb (has k before) && oz_eqb (lookup k after) (lookup k added)) (keys added)
  && forallb (fun k => oz_eqb (lookup k before) (lookup k changed) && has k after) (keys changed)
  && forallb (fun k => oz_eqb (lookup k before) (lookup k removed) && negb (has k after)) (keys removed)
  && mapeq before (undo after e).

Definition ev_nonempty (e : ev3) : bool :=
  let '(removed, added, changed) := e in negb (mempty removed && mempty added && mempty changed).

(* one notification channel *)
Definition chan (base : Z) (before after : amap) (evs : list ev3) : list Z :=
  chk (base + 4) (Nat.leb (length evs) 1)
  ++ chk (base + 5) (mapeq before after || negb (is_nil evs))
  ++ chk (base + 6) (forallb (ev_ok before after) evs)
  ++ chk (base + 7) (forallb ev_nonempty evs).

(* the merged event of the observer framework: (before ∖ removed) ∪ added = after *)
Definition oev_ok (before after : amap) (e : ev2) : bool :=
  let '(removed, added) := e in
  forallb (fun k => oz_eqb (lookup k before) (lookup k removed)) (keys removed)
  && forallb (fun k => oz_eqb (lookup k after) (lookup k added)) (keys added)
  && mapeq after (added ++ minus before (keys removed)).
Definition oev_nonempty (e : ev2) : bool := negb (mempty (fst e) && mempty (snd e)).

Definition ochan (before after : amap) (evs : list ev2) : list Z :=
  chk 34 (Nat.leb (length evs) 1)
  ++ chk 35 (mapeq before after || negb (is_nil evs))
  ++ chk 36 (forallb (oev_ok before after) evs)
  ++ chk 37 (forallb oev_nonempty evs).

Section Law.
  Variable kv vv : Z -> option Z.
  Variable tgt : target.

  (* [(key_validator(k), value_validator(v)) for k, v in items]; first rejection aborts *)
  Fixpoint validate_pairs (items : list (Z * Z)) : option (list (Z * Z)) :=
    match items with
    | [] => Some []
    | (k, v) :: r =>
        match kv k, vv v with
        | Some vk, Some vvv =>
            match validate_pairs r with Some vps => Some ((vk, vvv) :: vps) | None => None end
        | _, _ => None
        end
    end.

  (* The built-in dict under the same operation on validated keys and values:
     outcome, contents, return value.  Reading fixed in DESIGN §6a: containment
     in del / pop / setdefault is tested on the raw key; what setdefault inserts
     (or finds) is the validated key.  popitem: any item of the dict may be
     returned (the item the implementation returned is taken as the choice). *)
  Definition builtin (m : amap) (o : op) (ret : retv) : outcome * amap * retv :=
    match o with
    | SetItem k v =>
        match kv k, vv v with
        | Some vk, Some vvv => if hashable vk then (Ok, mset vk vvv m, RNone) else (Raise TypeError, m, RNone)
        | _, _ => (Raise TraitError, m, RNone)
        end
    | DelItem k => if negb (hashable k) then (Raise TypeError, m, RNone)
                   else if has k m then (Ok, mremove k m, RNone) else (Raise KeyError, m, RNone)
    | Update a ps | Ior a ps =>
        match validate_pairs (items_of a ps) with
        | Some vps => (Ok, update_all vps m, RNone)
        | None => (Raise TraitError, m, RNone)
        end
    | SetDefault k v =>
        if negb (hashable k) then (Raise TypeError, m, RNone) else
        match lookup k m with
        | Some x => (Ok, m, RVal x)
        | None =>
            match kv k, vv v with
            | Some vk, Some vvv =>
                if negb (hashable vk) then (Raise TypeError, m, RNone) else
                match lookup vk m with
                | Some x => (Ok, m, RVal x)                 (* dict.setdefault: present key wins *)
                | None => (Ok, mset vk vvv m, RVal vvv)
                end
            | _, _ => (Raise TraitError, m, RNone)
            end
        end
    | Pop k None =>
        match lookup k m with
        | Some x => (Ok, mremove k m, RVal x)
        | None => (Raise KeyError, m, RNone)
        end
    | Pop k (Some d) =>
        match lookup k m with
        | Some x => (Ok, mremove k m, RVal x)
        | None => (Ok, m, RVal d)
        end
    | PopItem =>                                    (* LIFO: the item inserted last *)
        match last_item m with
        | None => (Raise KeyError, m, RNone)
        | Some (k, v0) => (Ok, mremove k m, RItem k (match lookup k m with Some x => x | None => v0 end))
        end
    | Clear => (Ok, [], RNone)
    | UpdateBad ps _ =>                             (* dict.update raises ValueError; a failing operation changes nothing *)
        match validate_pairs ps with
        | Some _ => (Raise ValueError, m, RNone)
        | None => (Raise TraitError, m, RNone)
        end
    | Ctor a ps =>                                  (* dict(validated items) *)
        match validate_pairs (items_of a ps) with
        | Some vps => (Ok, update_all vps [], RNone)
        | None => (Raise TraitError, m, RNone)
        end
    end.

  (* refinement clauses 1, 2, 8 *)
  Definition ref_codes3 (before : amap) (o : op) (ob : obs) : list Z :=
    let '(bo, ba, br) := builtin before o (o_ret ob) in
    chk 1 (outcome_eqb (o_out ob) bo)
    ++ chk 2 (mapeq (o_after ob) ba)
    ++ chk 8 (retv_eqb (o_ret ob) br).

  (* clause 9: the iteration (insertion) order of the keys is that of the built-in dict: an overwritten key keeps
     its place, a new key goes to the end — for every operation, update / |= included (new keys in the order of
     their first occurrence in the argument) *)
  Definition order_ok (before : amap) (o : op) (ob : obs) : bool :=
    let '(bo, ba, br) := builtin before o (o_ret ob) in
    list_eqb Z.eqb (keys (o_after ob)) (keys ba).
  Definition ref_codes (before : amap) (o : op) (ob : obs) : list Z :=
    ref_codes3 before o ob ++ chk 9 (order_ok before o ob).

  Definition silent (ob : obs) : bool :=
    is_nil (o_events ob) && is_nil (o_events2 ob) && is_nil (o_oevents ob)
    && match o_ievents ob with Some l => is_nil l | None => true end.

  (* failing-op clause 3 and the event clauses of every channel *)
  Definition ev_codes (before : amap) (ob : obs) : list Z :=
    let after := o_after ob in
    chk 3 (negb (is_raise (o_out ob)) || (mapeq after before && silent ob))
    ++ chan 0 before after (o_events ob)
    ++ chan 10 before after (o_events2 ob)
    ++ match tgt with
       | Obj true => match o_ievents ob with Some l => chan 20 before after l | None => [29] end
       | _ => []
       end
    ++ ochan before after (o_oevents ob).

  (* a construction is not a mutation of the dict: it must refine dict(validated items) and notify nobody *)
  Definition is_ctor (o : op) : bool := match o with Ctor _ _ => true | _ => false end.

  Definition law_step (before : amap) (o : op) (ob : obs) : list Z :=
    ref_codes before o ob ++ (if is_ctor o then chk 3 (silent ob) else ev_codes before ob).

  Fixpoint law_hist (i : Z) (before : amap) (h : list (op * obs)) : list Z :=
    match h with
    | [] => []
    | (o, ob) :: r => map (fun c => 100 * i + c) (law_step before o ob) ++ law_hist (i + 1) (o_after ob) r
    end.

  (* The input shape of finding F6: setdefault with a key that is absent as
     given but whose validated form is present. *)
  Definition f6_trigger (m : amap) (o : op) : bool :=
    match o with
    | SetDefault k v =>
        match lookup k m with
        | Some _ => false
        | None => match kv k, vv v with Some vk, Some _ => hashable k && hashable vk && has vk m | _, _ => false end
        end
    | _ => false
    end.
End Law.
