(* C06 — executable model of traits/trait_dict_object.py (TraitDict,
   TraitDictObject.notifier) and traits/observation/_dict_change_event.py
   (dict_event_factory).
   Keys and values are integer atoms; a dict is an association list in
   insertion order read through [lookup] (Common/LMap).  The key and value
   validators are arbitrary functions [kv vv : Z -> option Z]
   (Some y = accept and convert to y, None = raise TraitError).
   Each mutator is written after the method body it models; line numbers refer
   to traits/trait_dict_object.py. *)
From Coq Require Import ZArith List Bool.
From TV Require Import Common.LSet Common.LMap.
Import ListNotations.
Open Scope Z_scope.

Inductive exn := KeyError | TraitError | TypeError | ValueError | OtherError.
Inductive outcome := Ok | Raise (e : exn).

(* return values: None / a value / a (key, value) tuple *)
Inductive retv := RNone | RVal (v : Z) | RItem (k v : Z).

Inductive op :=
| SetItem (k v : Z)                          (* d[k] = v *)
| DelItem (k : Z)                            (* del d[k] *)
| Update (asmap : bool) (ps : list (Z * Z))  (* d.update(dict(ps)) / d.update(ps) *)
| Ior (asmap : bool) (ps : list (Z * Z))     (* d |= dict(ps) / d |= ps *)
| SetDefault (k v : Z)                       (* d.setdefault(k, v); setdefault(k) is v = the atom of None *)
| Pop (k : Z) (dflt : option Z)              (* d.pop(k) / d.pop(k, dflt) *)
| PopItem
| Clear
| UpdateBad (ps : list (Z * Z)) (len : Z)   (* d.update(ps + [an element of length len <> 2]): not a pair *)
| Ctor (asmap : bool) (ps : list (Z * Z)).  (* d = TraitDict(dict(ps) / ps, validators): a new object, the history
                                               continues on it (for a Dict trait: owner.d = dict(ps) / ps) *)

(* Key atoms >= 300 are unhashable objects (lists): `key in self` and dict access raise TypeError.  Modelled
   for __setitem__, __delitem__ and setdefault; pop (where CPython answers an empty dict without hashing the key)
   and the bulk operations treat every key as hashable — the generator gives them hashable keys only. *)
Definition hashable (k : Z) : bool := k <? 300.

(* A notification as a plain notifier receives it: (removed, added, changed). *)
Definition ev3 := (amap * amap * amap)%type.
(* A DictChangeEvent as an observe() handler receives it: (removed, added). *)
Definition ev2 := (amap * amap)%type.

(* How the dict is held: a stand-alone TraitDict, or the TraitDictObject of a
   Dict trait (whose own notifier fires the "<name>_items" event iff
   trait.has_items, l.440-443 / l.528-529). *)
Inductive target := Plain | Obj (has_items : bool).

(* What one operation shows.  Notifier order in the harness: [items event of
   the TraitDictObject], plain notifier 1, observe() notifier, plain notifier 2. *)
Record obs := mkObs {
  o_out : outcome;
  o_after : amap;
  o_events : list ev3;          (* plain notifier registered before the observer *)
  o_ret : retv;
  o_oevents : list ev2;         (* observe(handler, "d.items") *)
  o_events2 : list ev3;         (* plain notifier registered after the observer *)
  o_ievents : option (list ev3) (* "<name>_items" trait event (None: stand-alone TraitDict) *)
}.

(* _dict_change_event.py, dict_event_factory (l.71-78):
     removed = removed.copy(); removed.update(changed)
     added = added.copy()
     for key in changed: added[key] = trait_dict[key] *)
Definition factory (after : amap) (e : ev3) : ev2 :=
  let '(removed, added, changed) := e in
  (update_all changed removed,
   fold_left (fun acc p => match lookup (fst p) after with
                           | Some x => mset (fst p) x acc
                           | None => acc      (* trait_dict[key] cannot fail: changed keys are present *)
                           end) changed added).

Section WithValidators.
  Variable kv vv : Z -> option Z.
  Variable tgt : target.

  (* TraitDict.notify (l.143-155) calls every notifier with the same three dicts. *)
  Definition mk (out : outcome) (after : amap) (evs : list ev3) (r : retv) : obs :=
    mkObs out after evs r (map (factory after) evs) evs
          (match tgt with Plain => None | Obj true => Some evs | Obj false => Some [] end).
  Definition ok (after : amap) (evs : list ev3) (r : retv) : obs := mk Ok after evs r.
  Definition raise (e : exn) (m : amap) : obs := mk (Raise e) m [] RNone.

  (* the shared tail of __setitem__ (l.171-183) and setdefault (l.274-287) *)
  Definition store (m : amap) (vk vvv : Z) (r : retv) : obs :=
    match lookup vk m with
    | Some old => ok (mset vk vvv m) [([], [], [(vk, old)])] r   (* changed = {vk: self[vk]}, added = {} *)
    | None => ok (mset vk vvv m) [([], [(vk, vvv)], [])] r       (* added = {vk: vvv} *)
    end.

  (* the loop of update / __ior__ (l.216-226, l.255-265); None = a validator raised *)
  Fixpoint upd_loop (m : amap) (items : list (Z * Z)) (vd added changed : amap)
    : option (amap * amap * amap) :=
    match items with
    | [] => Some (vd, added, changed)
    | (k, v) :: r =>
        match kv k with
        | None => None
        | Some vk =>
            match vv v with
            | None => None
            | Some vvv =>
                match lookup vk m with
                | Some old => upd_loop m r (mset vk vvv vd) added (mset vk old changed)
                | None => upd_loop m r (mset vk vvv vd) (mset vk vvv added) changed
                end
            end
        end
    end.

  (* __init__, l.121-141: value = {self.key_validator(key): self.value_validator(value) for key, value in items} *)
  Fixpoint ctor_loop (items : list (Z * Z)) (acc : amap) : option amap :=
    match items with
    | [] => Some acc
    | (k, v) :: r =>
        match kv k with
        | None => None
        | Some vk => match vv v with
                     | None => None
                     | Some vvv => ctor_loop r (mset vk vvv acc)
                     end
        end
    end.

  (* items = other.items() if hasattr(other, 'keys') else other; a mapping
     argument is the dict built from the pairs *)
  Definition items_of (asmap : bool) (ps : list (Z * Z)) : list (Z * Z) :=
    if asmap then update_all ps [] else ps.

  Definition do_update (m : amap) (asmap : bool) (ps : list (Z * Z)) : obs :=
    match upd_loop m (items_of asmap ps) [] [] [] with
    | None => raise TraitError m
    | Some (vd, added, changed) =>
        let after := update_all vd m in                    (* super().update(validated_dict) *)
        if mempty added && mempty changed then ok after [] RNone
        else ok after [([], added, changed)] RNone        (* if added or changed: notify *)
    end.

  Definition step (m : amap) (o : op) : obs :=
    match o with
    | SetItem k v =>                               (* __setitem__, l.159-183 *)
        match kv k with
        | None => raise TraitError m
        | Some vk => match vv v with
                     | None => raise TraitError m
                     | Some vvv => if hashable vk then store m vk vvv RNone
                                   else raise TypeError m          (* `validated_key in self` *)
                     end
        end
    | DelItem k =>                                 (* __delitem__, l.185-201: raw key *)
        if negb (hashable k) then raise TypeError m else           (* `key in self` *)
        match lookup k m with
        | Some x => ok (mremove k m) [([(k, x)], [], [])] RNone
        | None => raise KeyError m                 (* super().__delitem__ raises before notify *)
        end
    | Update asmap ps => do_update m asmap ps      (* update, l.241-269 *)
    | Ior asmap ps => do_update m asmap ps         (* __ior__, l.204-232 (returns self) *)
    | SetDefault k v =>                            (* setdefault, l.271-296 *)
        if negb (hashable k) then raise TypeError m else           (* `key in self` *)
        match lookup k m with
        | Some x => ok m [] (RVal x)               (* if key in self: return self[key] — raw key *)
        | None =>
            match kv k with
            | None => raise TraitError m
            | Some vk => match vv v with
                         | None => raise TraitError m
                         | Some vvv => if hashable vk then store m vk vvv (RVal vvv)   (* overwrites when vk is present: F6 *)
                                       else raise TypeError m
                         end
            end
        end
    | Pop k None =>                                (* pop(key), l.298-325: should_notify = True *)
        match lookup k m with
        | Some x => ok (mremove k m) [([(k, x)], [], [])] (RVal x)
        | None => raise KeyError m
        end
    | Pop k (Some d) =>                            (* pop(key, value): should_notify = key in self *)
        match lookup k m with
        | Some x => ok (mremove k m) [([(k, x)], [], [])] (RVal x)
        | None => ok m [] (RVal d)
        end
    | PopItem =>                                   (* popitem, l.327-344: last inserted item *)
        match last_item m with
        | None => raise KeyError m
        | Some (k, v0) =>
            let v := match lookup k m with Some x => x | None => v0 end in
            ok (mremove k m) [([(k, v)], [], [])] (RItem k v)
        end
    | Clear =>                                     (* clear, l.234-239 *)
        if mempty m then ok [] [] RNone else ok [] [(m, [], [])] RNone
    | UpdateBad ps _ =>
        (* `for key, value in items` fails to unpack the malformed element after the pairs before it were validated;
           nothing was written yet (super().update comes after the loop) *)
        match upd_loop m ps [] [] [] with
        | None => raise TraitError m
        | Some _ => raise ValueError m
        end
    | Ctor asmap ps =>                             (* a failing construction leaves the old object in place *)
        match ctor_loop (items_of asmap ps) [] with
        | None => raise TraitError m
        | Some d => ok d [] RNone                  (* the constructor notifies nobody *)
        end
    end.

  Fixpoint run (m : amap) (ops : list op) : list (op * obs) :=
    match ops with
    | [] => []
    | o :: r => let ob := step m o in (o, ob) :: run (o_after ob) r
    end.
End WithValidators.

(* The validators the correspondence harness uses.  Atoms: 0..99 the ints,
   100+i the string "i", >= 200 objects that are neither ints nor convertible.
   VTab: an explicit finite table (x -> Some y accept-and-convert, x -> None
   reject), identity elsewhere: arbitrary, also non-idempotent, validators. *)
Inductive vkind := VAll | VInt | VCInt | VTab (t : list (Z * option Z)).
Fixpoint tab_lookup (x : Z) (t : list (Z * option Z)) : option (option Z) :=
  match t with [] => None | (a, r) :: t' => if x =? a then Some r else tab_lookup x t' end.
Definition vld_of (k : vkind) (x : Z) : option Z :=
  match k with
  | VAll => Some x
  | VInt => if (0 <=? x) && (x <? 100) then Some x else None
  | VCInt => if (0 <=? x) && (x <? 100) then Some x
             else if (100 <=? x) && (x <? 200) then Some (x - 100) else None
  | VTab t => match tab_lookup x t with Some r => r | None => Some x end
  end.
