(* C06 — property theorems only.  Each is closed by [exact] of a lemma of
   Proofs.v and followed by Print Assumptions.  All of them hold for every key
   validator [kv] and value validator [vv] (accepting, rejecting, converting,
   non-idempotent), every target, every start contents [m] and every operation
   or history. *)
From Coq Require Import ZArith List Bool.
From TV Require Import Common.LSet Common.LMap Common.Harness C06.Model C06.Law C06.Proofs.
Import ListNotations.
Open Scope Z_scope.

(* The whole law (refinement clauses 1, 2, 8; failing-op clause 3; the event
   clauses of all four channels) holds at every step of every history in which
   the input shape of finding F6 does not occur. *)
Theorem law_holds_on_every_f6_free_history :
  forall (kv vv : Z -> option Z) (tgt : target) (ops : list op) (m : amap) (i : Z),
    f6_free kv vv tgt m ops = true -> law_hist kv vv tgt i m (run kv vv tgt m ops) = [].
Proof. exact run_law. Qed.
Print Assumptions law_holds_on_every_f6_free_history.

(* ... in particular on every history at all when the key validator accepts or
   rejects but never converts. *)
Theorem law_holds_on_every_history_nonconverting_keys :
  forall (kv vv : Z -> option Z) (tgt : target), (forall x y, kv x = Some y -> y = x) ->
  forall (ops : list op) (m : amap) (i : Z), law_hist kv vv tgt i m (run kv vv tgt m ops) = [].
Proof. exact run_law_nonconverting. Qed.
Print Assumptions law_holds_on_every_history_nonconverting_keys.

(* F6: the unrestricted law is false of the model that follows the code
   (Dict(CInt, CInt) holding {1: 10}, setdefault('1', 11)): contents (2) and
   return value (8) differ from the built-in dict. *)
Theorem setdefault_coercing_refuted :
  exists kv vv m k v,
    f6_trigger kv vv m (SetDefault k v) = true /\
    law_step kv vv Plain m (SetDefault k v) (step kv vv Plain m (SetDefault k v)) = [2; 8].
Proof. exact f6_witness. Qed.
Print Assumptions setdefault_coercing_refuted.

(* ... and that is the only way the law can fail: in any history, with any
   validators, every failing clause is "contents" or "return value" (of a
   setdefault in the F6 shape). *)
Theorem only_f6_can_fail :
  forall (kv vv : Z -> option Z) (tgt : target) (m : amap) (o : op) (c : Z),
    In c (law_step kv vv tgt m o (step kv vv tgt m o)) ->
    f6_trigger kv vv m o = true /\ (c = 2 \/ c = 8).
Proof. exact step_law_upto_f6. Qed.
Print Assumptions only_f6_can_fail.

(* Refinement of the built-in dict on validated keys and values: outcome
   (exception class), contents, return value. *)
Theorem refines_dict :
  forall (kv vv : Z -> option Z) (tgt : target) (m : amap) (o : op),
    f6_trigger kv vv m o = false ->
    let ob := step kv vv tgt m o in
    let '(bo, ba, br) := builtin kv vv m o (o_ret ob) in
    o_out ob = bo /\ (forall k, lookup k (o_after ob) = lookup k ba) /\ o_ret ob = br.
Proof. exact step_refines. Qed.
Print Assumptions refines_dict.

(* The keys keep the insertion order of the built-in dict (an overwritten key keeps its place, a new key goes to
   the end, update / |= append new keys in the order of their first occurrence in the argument; popitem's reference is
   the item inserted last) — for every operation, also in the F6 shape. *)
Theorem insertion_order_is_the_dicts :
  forall (kv vv : Z -> option Z) (tgt : target) (m : amap) (o : op),
    order_ok kv vv m o (step kv vv tgt m o) = true.
Proof. exact step_order. Qed.
Print Assumptions insertion_order_is_the_dicts.

(* A failing operation changes nothing and notifies nobody. *)
Theorem failing_op_untouched :
  forall (kv vv : Z -> option Z) (tgt : target) (m : amap) (o : op) (e : exn),
    let ob := step kv vv tgt m o in
    o_out ob = Raise e ->
    o_after ob = m /\ o_events ob = [] /\ o_events2 ob = [] /\ o_oevents ob = []
    /\ (o_ievents ob = None \/ o_ievents ob = Some []).
Proof. exact step_failing_inert. Qed.
Print Assumptions failing_op_untouched.

(* Reconstruction law, unconditional (also in the F6 shape): added keys were
   absent and now hold the given values, changed keys were present with the
   given old values and still are, removed keys held the given values and are
   gone, before = removed ∪ changed ∪ (after ∖ keys added), and the three parts
   are never all empty. *)
Theorem reconstruction_law :
  forall (kv vv : Z -> option Z) (tgt : target) (m : amap) (o : op) (removed added changed : amap),
    In (removed, added, changed) (o_events (step kv vv tgt m o)) ->
    let after := o_after (step kv vv tgt m o) in
    (forall k, has k added = true -> lookup k m = None /\ lookup k after = lookup k added) /\
    (forall k, has k changed = true -> lookup k m = lookup k changed /\ has k after = true) /\
    (forall k, has k removed = true -> lookup k m = lookup k removed /\ lookup k after = None) /\
    (forall k, lookup k m = lookup k (removed ++ changed ++ minus after (keys added))) /\
    (exists k, has k removed = true \/ has k added = true \/ has k changed = true).
Proof. exact step_reconstruction. Qed.
Print Assumptions reconstruction_law.

(* At most one notification per mutating operation, exactly one when the mapping
   changed; every notifier (also one registered after an observe() handler)
   receives the same event, and the observer's event is its merge. *)
Theorem one_event_per_change :
  forall (kv vv : Z -> option Z) (tgt : target) (m : amap) (o : op),
    is_ctor o = false ->
    let ob := step kv vv tgt m o in
    (length (o_events ob) <= 1)%nat /\
    ((exists k, lookup k m <> lookup k (o_after ob)) -> exists e, o_events ob = [e]) /\
    o_events2 ob = o_events ob /\
    o_oevents ob = map (factory (o_after ob)) (o_events ob).
Proof. exact step_event_count. Qed.
Print Assumptions one_event_per_change.

(* Construction (TraitDict(items, validators) / assignment to a Dict trait): the new dict is exactly
   dict(validated items) — first rejection aborts and leaves the old object —, and nobody is notified. *)
Theorem construction_is_dict_of_validated_items :
  forall (kv vv : Z -> option Z) (tgt : target) (m : amap) (a : bool) (ps : list (Z * Z)),
    let ob := step kv vv tgt m (Ctor a ps) in
    match validate_pairs kv vv (items_of a ps) with
    | Some vps => o_out ob = Ok /\ o_after ob = update_all vps []
    | None => o_out ob = Raise TraitError /\ o_after ob = m
    end /\ o_events ob = [] /\ o_events2 ob = [] /\ o_oevents ob = [].
Proof. exact ctor_spec. Qed.
Print Assumptions construction_is_dict_of_validated_items.

(* An event for an operation that leaves the mapping as it was (d[k] = d[k])
   is an identity event: nothing removed, nothing added, changed keys keep their values. *)
Theorem event_without_change_is_identity :
  forall (kv vv : Z -> option Z) (tgt : target) (m : amap) (o : op) (removed added changed : amap),
    (forall k, lookup k m = lookup k (o_after (step kv vv tgt m o))) ->
    In (removed, added, changed) (o_events (step kv vv tgt m o)) ->
    removed = [] /\ added = [] /\
    forall k, has k changed = true -> lookup k changed = lookup k (o_after (step kv vv tgt m o)).
Proof. exact step_unchanged_event. Qed.
Print Assumptions event_without_change_is_identity.

(* The merged DictChangeEvent of dict_event_factory: removed holds old values,
   added holds new values, (before ∖ removed) ∪ added = after, not both empty. *)
Theorem observer_event_faithful :
  forall (kv vv : Z -> option Z) (tgt : target) (m : amap) (o : op) (removed added : amap),
    In (removed, added) (o_oevents (step kv vv tgt m o)) ->
    let after := o_after (step kv vv tgt m o) in
    (forall k, has k removed = true -> lookup k m = lookup k removed) /\
    (forall k, has k added = true -> lookup k after = lookup k added) /\
    (forall k, lookup k after = lookup k (added ++ minus m (keys removed))) /\
    (removed <> [] \/ added <> []).
Proof. exact step_observer_event. Qed.
Print Assumptions observer_event_faithful.

(* dict_event_factory maps any faithful (removed, added, changed) to a faithful merged event. *)
Theorem factory_preserves_faithfulness :
  forall (b a r ad c : amap), NoDup (keys c) ->
    ev_ok b a (r, ad, c) = true -> oev_ok b a (factory a (r, ad, c)) = true.
Proof. exact factory_ok. Qed.
Print Assumptions factory_preserves_faithfulness.

(* Non-vacuity: a history with coercing validators in which keys are added,
   changed (also through a coerced duplicate in an update), removed, an
   operation fails, a pop with default stays silent, and the F6 shape is absent. *)
Example history_nontrivial :
  let kv := vld_of VCInt in let vv := vld_of VCInt in
  let ops := [SetItem 101 11; Update false [(102, 12); (2, 113); (1, 11); (3, 10)]; DelItem 9; Pop 9 (Some 5);
              SetDefault 200 1; PopItem; Clear; Clear] in
  let h := run kv vv (Obj true) [(1, 10)] ops in
  f6_free kv vv (Obj true) [(1, 10)] ops = true
  /\ map (fun p => length (o_events (snd p))) h = [1; 1; 0; 0; 0; 1; 1; 0]%nat
  /\ map (fun p => o_out (snd p)) h = [Ok; Ok; Raise KeyError; Ok; Raise TraitError; Ok; Ok; Ok]
  /\ map (fun p => o_oevents (snd p)) (firstn 2 h)
     = [[([(1, 10)], [(1, 11)])]; [([(1, 11)], [(2, 13); (3, 10); (1, 11)])]].
Proof. vm_compute. repeat split; reflexivity. Qed.
