(* C06 — proofs that the model of TraitDict satisfies the law, for every key and
   value validator, every state, every target and every operation / history. *)
From Coq Require Import ZArith List Bool Lia.
From TV Require Import Common.LSet Common.LMap Common.Harness C06.Model C06.Law.
Import ListNotations.
Open Scope Z_scope.

(* ------------------------------------------------------------------ *)
(* generic facts                                                        *)

Lemma chk_nil k b : chk k b = [] <-> b = true.
Proof. destruct b; cbn; split; intros; congruence. Qed.
Lemma chk_true k : chk k true = []. Proof. reflexivity. Qed.
Lemma chk_app_nil k b r : chk k b ++ r = [] -> b = true /\ r = [].
Proof. destruct b; cbn; intros H; [split; [reflexivity | exact H] | discriminate]. Qed.
Lemma app_nil_iff {A} (a b : list A) : a ++ b = [] <-> a = [] /\ b = [].
Proof. split; [apply app_eq_nil | intros [-> ->]; reflexivity]. Qed.

Lemma has_true k m : has k m = true <-> exists v, lookup k m = Some v.
Proof. unfold has. destruct (lookup k m) as [v|]; split; intros H; try discriminate; eauto. destruct H; discriminate. Qed.
Lemma has_false k m : has k m = false <-> lookup k m = None.
Proof. unfold has. destruct (lookup k m); split; congruence. Qed.

Lemma forallb_keys (f : Z -> bool) m :
  forallb f (keys m) = true <-> (forall k, has k m = true -> f k = true).
Proof.
  rewrite forallb_forall. split; intros H k Hk.
  - apply H. apply mem_In. rewrite lookup_keys. exact Hk.
  - apply H. rewrite <- lookup_keys. apply mem_In. exact Hk.
Qed.

Lemma has_cons k k' v' ps : has k ((k', v') :: ps) = (k =? k') || has k ps.
Proof. unfold has. cbn [lookup]. destruct (k =? k'); reflexivity. Qed.

Lemma has_update_all k ps : forall m, has k (update_all ps m) = has k ps || has k m.
Proof.
  induction ps as [|[k' v'] ps IH]; intros m; [reflexivity|]. cbn [update_all fold_left fst snd].
  change (fold_left (fun acc p => mset (fst p) (snd p) acc) ps ?x) with (update_all ps x).
  rewrite IH, has_mset, has_cons.
  destruct (k =? k'), (has k ps); reflexivity.
Qed.

Lemma mempty_has m : mempty m = true -> forall k, has k m = false.
Proof. intros H k. apply has_false. apply mempty_lookup. exact H. Qed.

Lemma mempty_has_iff m : mempty m = true <-> forall k, has k m = false.
Proof.
  split; [apply mempty_has|]. intros H. destruct m as [|[k v] r]; [reflexivity|].
  specialize (H k). unfold has in H. cbn in H. rewrite Z.eqb_refl in H. discriminate.
Qed.

Lemma has_single k x v : has k [(x, v)] = (k =? x).
Proof. unfold has. cbn. destruct (k =? x); reflexivity. Qed.

Lemma oz_eqb_refl a : oz_eqb a a = true.
Proof. apply oz_eqb_eq. reflexivity. Qed.

(* ------------------------------------------------------------------ *)
(* Prop readings of the event checkers                                  *)

Lemma ev_ok_spec b a r ad c :
  ev_ok b a (r, ad, c) = true <->
  (forall k, has k ad = true -> has k b = false /\ lookup k a = lookup k ad) /\
  (forall k, has k c = true -> lookup k b = lookup k c /\ has k a = true) /\
  (forall k, has k r = true -> lookup k b = lookup k r /\ has k a = false) /\
  (forall k, lookup k b = lookup k (r ++ c ++ minus a (keys ad))).
Proof.
  unfold ev_ok, undo. rewrite !andb_true_iff, !forallb_keys, mapeq_spec.
  split.
  - intros [[[H1 H2] H3] H4]. repeat split; try assumption.
    + specialize (H1 k H). apply andb_true_iff in H1. destruct H1 as [Hb _]. apply negb_true_iff in Hb. exact Hb.
    + specialize (H1 k H). apply andb_true_iff in H1. destruct H1 as [_ Ha]. apply oz_eqb_eq. exact Ha.
    + specialize (H2 k H). apply andb_true_iff in H2. destruct H2 as [Hb _]. apply oz_eqb_eq. exact Hb.
    + specialize (H2 k H). apply andb_true_iff in H2. tauto.
    + specialize (H3 k H). apply andb_true_iff in H3. destruct H3 as [Hb _]. apply oz_eqb_eq. exact Hb.
    + specialize (H3 k H). apply andb_true_iff in H3. destruct H3 as [_ Ha]. apply negb_true_iff in Ha. exact Ha.
  - intros (H1 & H2 & H3 & H4). repeat split; try assumption.
    + intros k Hk. destruct (H1 k Hk) as [Hb Ha]. rewrite Hb, Ha, oz_eqb_refl. reflexivity.
    + intros k Hk. destruct (H2 k Hk) as [Hb Ha]. rewrite Hb, Ha, oz_eqb_refl. reflexivity.
    + intros k Hk. destruct (H3 k Hk) as [Hb Ha]. rewrite Hb, Ha, oz_eqb_refl. reflexivity.
Qed.

Lemma oev_ok_spec b a r ad :
  oev_ok b a (r, ad) = true <->
  (forall k, has k r = true -> lookup k b = lookup k r) /\
  (forall k, has k ad = true -> lookup k a = lookup k ad) /\
  (forall k, lookup k a = lookup k (ad ++ minus b (keys r))).
Proof.
  unfold oev_ok. rewrite !andb_true_iff, !forallb_keys, mapeq_spec. split.
  - intros [[H1 H2] H3]. repeat split; try assumption; intros k Hk; apply oz_eqb_eq; auto.
  - intros (H1 & H2 & H3). repeat split; try assumption; intros k Hk; apply oz_eqb_eq; auto.
Qed.

(* ------------------------------------------------------------------ *)
(* dict_event_factory turns a faithful (removed, added, changed) into a
   faithful merged event                                                *)

Lemma lookup_factory_added after k c : forall acc,
  lookup k (fold_left (fun acc p => match lookup (fst p) after with
                                    | Some x => mset (fst p) x acc
                                    | None => acc end) c acc)
  = if has k c && has k after then lookup k after else lookup k acc.
Proof.
  induction c as [|[k1 v1] c IH]; intros acc; [reflexivity|]. cbn [fold_left fst].
  rewrite IH, has_cons.
  destruct (Z.eqb_spec k k1) as [->|Hne]; cbn [orb].
  - destruct (lookup k1 after) as [x|] eqn:El.
    + assert (Ha : has k1 after = true) by (apply has_true; eauto).
      rewrite Ha, andb_true_r, lookup_mset, Z.eqb_refl. destruct (has k1 c); reflexivity.
    + assert (Ha : has k1 after = false) by (apply has_false; exact El).
      rewrite Ha, !andb_false_r. reflexivity.
  - destruct (lookup k1 after) as [x|]; [|reflexivity].
    rewrite lookup_mset. destruct (Z.eqb_spec k k1); [contradiction|]. reflexivity.
Qed.

Lemma factory_ok b a r ad c :
  NoDup (keys c) -> ev_ok b a (r, ad, c) = true -> oev_ok b a (factory a (r, ad, c)) = true.
Proof.
  intros Hnd H. apply ev_ok_spec in H. destruct H as (H1 & H2 & H3 & H4).
  unfold factory. apply oev_ok_spec.
  assert (Lr : forall k, lookup k (update_all c r) = match lookup k c with Some v => Some v | None => lookup k r end).
  { intro k. apply lookup_update_all_nodup. exact Hnd. }
  assert (Hr : forall k, has k (update_all c r) = has k c || has k r).
  { intro k. apply has_update_all. }
  split; [|split].
  - intros k Hk. rewrite Lr. rewrite Hr in Hk. destruct (has k c) eqn:Ec.
    + destruct (H2 k Ec) as [Hb _]. apply has_true in Ec. destruct Ec as [v Ev]. rewrite Ev in *. exact Hb.
    + apply has_false in Ec. rewrite Ec. cbn in Hk. apply H3. exact Hk.
  - intros k Hk. rewrite lookup_factory_added. unfold has in Hk. rewrite lookup_factory_added in Hk.
    destruct (has k c && has k a) eqn:E; [reflexivity|]. apply H1. unfold has. exact Hk.
  - intros k. rewrite lookup_app, lookup_factory_added, lookup_minus, lookup_keys, Hr.
    destruct (has k c) eqn:Ec.
    + destruct (H2 k Ec) as [_ Ha]. rewrite Ha. cbn. apply has_true in Ha. destruct Ha as [x ->]. reflexivity.
    + cbn [andb]. destruct (lookup k ad) as [y|] eqn:Ead.
      * assert (Hh : has k ad = true) by (apply has_true; eauto).
        destruct (H1 k Hh) as [_ Ha]. rewrite Ha. exact Ead.
      * cbn [orb]. destruct (has k r) eqn:Er.
        -- destruct (H3 k Er) as [_ Ha]. apply has_false. exact Ha.
        -- specialize (H4 k). rewrite !lookup_app, lookup_minus, lookup_keys in H4.
           apply has_false in Ec. apply has_false in Er. rewrite Ec, Er in H4.
           assert (Hh : has k ad = false) by (apply has_false; exact Ead). rewrite Hh in H4. symmetry. exact H4.
Qed.

Lemma factory_nonempty a r ad c :
  ev_nonempty (r, ad, c) = true -> oev_nonempty (factory a (r, ad, c)) = true.
Proof.
  unfold ev_nonempty, oev_nonempty, factory. cbn [fst snd]. intros H.
  destruct c as [|[k v] c].
  - cbn [update_all fold_left]. destruct (mempty r), (mempty ad); cbn in *; congruence.
  - destruct (mempty (update_all ((k, v) :: c) r)) eqn:E; [|reflexivity].
    pose proof (mempty_has _ E k) as Hk. rewrite has_update_all in Hk.
    unfold has in Hk at 1. cbn in Hk. rewrite Z.eqb_refl in Hk. discriminate.
Qed.

(* ------------------------------------------------------------------ *)
(* the event clauses of all channels, for the two shapes the model emits *)

Section Channels.
  Variable tgt : target.

  Lemma ev_codes_silent out m after r :
    mapeq m after = true -> ev_codes tgt m (mk tgt out after [] r) = [].
  Proof.
    intros H. unfold ev_codes, mk, chan, ochan, silent.
    cbn [o_after o_out o_events o_events2 o_oevents o_ievents map length forallb is_nil Nat.leb].
    rewrite H. rewrite mapeq_sym in H. rewrite H. cbn [orb andb chk app].
    destruct tgt as [|[|]]; cbn; destruct (is_raise out); reflexivity.
  Qed.

  Lemma ev_codes_one m after e r :
    NoDup (keys (snd e)) -> ev_ok m after e = true -> ev_nonempty e = true ->
    ev_codes tgt m (mk tgt Ok after [e] r) = [].
  Proof.
    intros Hnd Hok Hne. destruct e as [[rm ad] c]. cbn [snd] in Hnd.
    pose proof (factory_ok _ _ _ _ _ Hnd Hok) as Ho. pose proof (factory_nonempty after _ _ _ Hne) as Hon.
    unfold ev_codes, mk, chan, ochan, silent.
    cbn [o_after o_out o_events o_events2 o_oevents o_ievents map length forallb is_nil Nat.leb is_raise negb].
    rewrite Hok, Hne, Ho, Hon. rewrite !orb_true_r. cbn [orb andb chk app].
    destruct tgt as [|[|]]; cbn [chan length forallb is_nil Nat.leb negb]; rewrite ?Hok, ?Hne, ?orb_true_r; reflexivity.
  Qed.
End Channels.

(* ------------------------------------------------------------------ *)
(* the notifications of the single-key mutators are faithful            *)

Ltac lk :=
  repeat rewrite ?lookup_app, ?lookup_minus, ?lookup_mset, ?lookup_mremove, ?lookup_keys, ?has_mset, ?has_single in *;
  cbn [lookup keys map fst app] in *.

Ltac split_eqb :=
  repeat match goal with
         | |- context [Z.eqb ?a ?b] =>
             let E := fresh "E" in destruct (Z.eqb_spec a b) as [E|E]; [try subst a | ]
         | H : context [Z.eqb ?a ?b] |- _ =>
             let E := fresh "E" in destruct (Z.eqb_spec a b) as [E|E]; [try subst a | ]
         end.

Ltac nohas := let k := fresh "k" in let Hk := fresh "Hk" in
  intros k Hk; unfold has in Hk; cbn in Hk; discriminate Hk.
Ltac the_key Hk := rewrite has_single in Hk; apply Z.eqb_eq in Hk; subst.

Lemma ev_changed m vk vvv old :
  lookup vk m = Some old -> ev_ok m (mset vk vvv m) ([], [], [(vk, old)]) = true.
Proof.
  intros Hl. apply ev_ok_spec. split; [nohas|]. split; [|split; [nohas|]].
  - intros k Hk. the_key Hk. split.
    + cbn. rewrite Z.eqb_refl. exact Hl.
    + rewrite has_mset, Z.eqb_refl. reflexivity.
  - intro k. lk. unfold mem. cbn. destruct (Z.eqb_spec k vk) as [->|Hne]; [exact Hl | reflexivity].
Qed.

Lemma ev_added m vk vvv :
  lookup vk m = None -> ev_ok m (mset vk vvv m) ([], [(vk, vvv)], []) = true.
Proof.
  intros Hl. apply ev_ok_spec. split; [|split; [nohas|split; [nohas|]]].
  - intros k Hk. the_key Hk. split.
    + apply has_false. exact Hl.
    + rewrite lookup_mset. cbn. rewrite Z.eqb_refl. reflexivity.
  - intro k. lk. destruct (Z.eqb_spec k vk) as [->|Hne]; [exact Hl | reflexivity].
Qed.

Lemma ev_removed m k0 x :
  lookup k0 m = Some x -> ev_ok m (mremove k0 m) ([(k0, x)], [], []) = true.
Proof.
  intros Hl. apply ev_ok_spec. split; [nohas|split; [nohas|split]].
  - intros k Hk. the_key Hk. split.
    + cbn. rewrite Z.eqb_refl. exact Hl.
    + apply has_false. rewrite lookup_mremove, Z.eqb_refl. reflexivity.
  - intro k. lk. unfold mem. cbn. destruct (Z.eqb_spec k k0) as [->|Hne]; [exact Hl | reflexivity].
Qed.

Lemma ev_cleared m : ev_ok m [] (m, [], []) = true.
Proof.
  apply ev_ok_spec. split; [nohas|split; [nohas|split]].
  - intros k Hk. split; reflexivity.
  - intro k. lk. destruct (lookup k m); reflexivity.
Qed.

Lemma nodup_nil : NoDup (keys []). Proof. constructor. Qed.
Lemma nodup_single k v : NoDup (keys [(k, v)]). Proof. constructor; [intros [] | constructor]. Qed.

(* ------------------------------------------------------------------ *)
(* insertion order of dict.update                                       *)

Definition addkey (ks : list Z) (k : Z) : list Z := if mem k ks then ks else ks ++ [k].
Definition addkeys (l ks : list Z) : list Z := fold_left addkey l ks.

Lemma keys_mset k v m : keys (mset k v m) = addkey (keys m) k.
Proof.
  unfold addkey. induction m as [|[k2 v2] r IH]; cbn [mset keys map fst]; [reflexivity|].
  rewrite mem_cons. destruct (Z.eqb_spec k k2) as [->|Hne]; cbn [keys map fst orb]; [reflexivity|].
  unfold keys in IH. rewrite IH. destruct (mem k (map fst r)); reflexivity.
Qed.

Lemma keys_update_all ps : forall m, keys (update_all ps m) = addkeys (keys ps) (keys m).
Proof.
  induction ps as [|[k v] ps IH]; intros m; [reflexivity|]. cbn [update_all fold_left fst snd keys map addkeys].
  change (fold_left (fun acc p => mset (fst p) (snd p) acc) ps ?x) with (update_all ps x).
  rewrite IH, keys_mset. reflexivity.
Qed.

Lemma mem_addkey x ks k : mem x (addkey ks k) = mem x ks || (x =? k).
Proof.
  unfold addkey. destruct (mem k ks) eqn:E.
  - destruct (Z.eqb_spec x k) as [->|]; [rewrite E; reflexivity | rewrite orb_false_r; reflexivity].
  - rewrite mem_app, mem_cons, mem_nil, orb_false_r. reflexivity.
Qed.

Lemma mem_addkeys x l : forall ks, mem x (addkeys l ks) = mem x ks || mem x l.
Proof.
  induction l as [|k l IH]; intros ks; cbn [addkeys fold_left]; [rewrite mem_nil, orb_false_r; reflexivity|].
  change (fold_left addkey l ?a) with (addkeys l a). rewrite IH, mem_addkey, mem_cons.
  destruct (mem x ks), (x =? k), (mem x l); reflexivity.
Qed.

Lemma addkeys_app l1 l2 ks : addkeys (l1 ++ l2) ks = addkeys l2 (addkeys l1 ks).
Proof. unfold addkeys. apply fold_left_app. Qed.

(* updating with the dict built from the pairs inserts the same keys in the same order as updating with the pairs *)
Lemma addkeys_cons x l ks : addkeys (x :: l) ks = addkeys l (addkey ks x).
Proof. reflexivity. Qed.

Lemma addkeys_via_dict l : forall acc ks, addkeys (addkeys l acc) ks = addkeys (acc ++ l) ks.
Proof.
  induction l as [|x l IH]; intros acc ks; [rewrite app_nil_r; reflexivity|].
  rewrite addkeys_cons, IH. unfold addkey. destruct (mem x acc) eqn:E.
  - rewrite !addkeys_app, addkeys_cons. f_equal. unfold addkey.
    rewrite mem_addkeys, E, orb_true_r. reflexivity.
  - rewrite <- app_assoc. reflexivity.
Qed.

Lemma keys_update_via_dict vps m : keys (update_all (update_all vps []) m) = keys (update_all vps m).
Proof.
  rewrite (keys_update_all (update_all vps []) m), (keys_update_all vps []), (keys_update_all vps m).
  cbn [keys map]. rewrite addkeys_via_dict. reflexivity.
Qed.

(* ------------------------------------------------------------------ *)
(* the loop of update / __ior__                                         *)

Section Update.
  Variable kv vv : Z -> option Z.

  (* the loop on already validated pairs *)
  Fixpoint acc_loop (m : amap) (vps : list (Z * Z)) (vd added changed : amap) : amap * amap * amap :=
    match vps with
    | [] => (vd, added, changed)
    | (vk, vvv) :: r =>
        match lookup vk m with
        | Some old => acc_loop m r (mset vk vvv vd) added (mset vk old changed)
        | None => acc_loop m r (mset vk vvv vd) (mset vk vvv added) changed
        end
    end.

  Lemma upd_loop_validated m items : forall vd ad ch,
    upd_loop kv vv m items vd ad ch
    = match validate_pairs kv vv items with
      | Some vps => Some (acc_loop m vps vd ad ch)
      | None => None
      end.
  Proof.
    induction items as [|[k v] r IH]; intros vd ad ch; [reflexivity|]. cbn [upd_loop validate_pairs].
    destruct (kv k) as [vk|]; [|reflexivity]. destruct (vv v) as [vvv|]; [|reflexivity].
    destruct (lookup vk m) as [old|] eqn:El; rewrite IH; destruct (validate_pairs kv vv r); cbn [acc_loop]; rewrite ?El; reflexivity.
  Qed.

  Lemma ctor_loop_validated items : forall acc,
    ctor_loop kv vv items acc
    = match validate_pairs kv vv items with
      | Some vps => Some (update_all vps acc)
      | None => None
      end.
  Proof.
    induction items as [|[k v] r IH]; intros acc; [reflexivity|]. cbn [ctor_loop validate_pairs].
    destruct (kv k) as [vk|]; [|reflexivity]. destruct (vv v) as [vvv|]; [|reflexivity].
    rewrite IH. destruct (validate_pairs kv vv r); reflexivity.
  Qed.

  Definition loop_inv (m vd ad ch : amap) : Prop :=
    NoDup (keys vd) /\ NoDup (keys ch) /\
    (forall k, lookup k ad = if has k m then None else lookup k vd) /\
    (forall k, lookup k ch = if has k vd then lookup k m else None).

  Lemma acc_loop_inv m vps : forall vd ad ch vd' ad' ch',
    loop_inv m vd ad ch -> acc_loop m vps vd ad ch = (vd', ad', ch') ->
    loop_inv m vd' ad' ch' /\ vd' = update_all vps vd.
  Proof.
    induction vps as [|[vk vvv] r IH]; intros vd ad ch vd' ad' ch' Hinv H.
    - cbn in H. injection H as <- <- <-. split; [exact Hinv | reflexivity].
    - cbn [acc_loop] in H. destruct Hinv as (N1 & N2 & I1 & I2). destruct (lookup vk m) as [old|] eqn:El.
      + apply IH in H; [exact H|]. split; [apply nodup_mset, N1|]. split; [apply nodup_mset, N2|]. split.
        * intro k. rewrite I1, lookup_mset. destruct (has k m) eqn:Eh; [reflexivity|].
          destruct (Z.eqb_spec k vk) as [->|]; [|reflexivity]. apply has_false in Eh. congruence.
        * intro k. rewrite lookup_mset, has_mset, I2. destruct (Z.eqb_spec k vk) as [->|]; cbn [orb]; [|reflexivity].
          symmetry. exact El.
      + apply IH in H; [exact H|]. split; [apply nodup_mset, N1|]. split; [exact N2|]. split.
        * intro k. rewrite !lookup_mset, I1. destruct (Z.eqb_spec k vk) as [->|]; [|reflexivity].
          apply has_false in El. rewrite El. reflexivity.
        * intro k. rewrite has_mset, I2. destruct (Z.eqb_spec k vk) as [->|]; cbn [orb]; [|reflexivity].
          rewrite El. destruct (has vk vd); reflexivity.
  Qed.

  Lemma loop_inv_init m : loop_inv m [] [] [].
  Proof.
    split; [constructor|]. split; [constructor|]. split; intro k; cbn; [destruct (has k m)|]; reflexivity.
  Qed.

  (* what update() leaves behind and reports, from the invariant *)
  Lemma update_after m vd k :
    NoDup (keys vd) ->
    lookup k (update_all vd m) = match lookup k vd with Some v => Some v | None => lookup k m end.
  Proof. intros H. apply lookup_update_all_nodup. exact H. Qed.

  Lemma update_event_ok m vd ad ch :
    loop_inv m vd ad ch -> ev_ok m (update_all vd m) ([], ad, ch) = true.
  Proof.
    intros (N1 & N2 & I1 & I2). apply ev_ok_spec. repeat split.
    - unfold has in H. rewrite I1 in H. destruct (has k m); [discriminate | reflexivity].
    - rewrite update_after by exact N1. rewrite I1. unfold has in H. rewrite I1 in H.
      destruct (has k m); [discriminate|]. destruct (lookup k vd); [reflexivity | discriminate].
    - rewrite I2. unfold has in H. rewrite I2 in H. destruct (has k vd); [reflexivity | discriminate].
    - unfold has. rewrite update_after by exact N1. unfold has in H. rewrite I2 in H.
      destruct (has k vd) eqn:Eh; [|discriminate]. apply has_true in Eh. destruct Eh as [v ->]. reflexivity.
    - unfold has in H. cbn in H. discriminate.
    - unfold has in H. cbn in H. discriminate.
    - intro k. cbn [app]. rewrite lookup_app, lookup_minus, lookup_keys, I2.
      rewrite update_after by exact N1. unfold has at 2. rewrite I1.
      destruct (has k vd) eqn:Ev.
      + destruct (lookup k m) as [x|] eqn:Em; [reflexivity|].
        assert (Hm : has k m = false) by (apply has_false; exact Em). rewrite Hm.
        apply has_true in Ev. destruct Ev as [v ->]. reflexivity.
      + apply has_false in Ev. rewrite Ev. destruct (has k m); reflexivity.
  Qed.

  Lemma update_silent m vd ad ch :
    loop_inv m vd ad ch -> mempty ad = true -> mempty ch = true -> mapeq m (update_all vd m) = true.
  Proof.
    intros (N1 & N2 & I1 & I2) Ha Hc. apply mapeq_spec. intro k. rewrite update_after by exact N1.
    pose proof (mempty_lookup _ Ha k) as La. pose proof (mempty_lookup _ Hc k) as Lc. rewrite I1 in La. rewrite I2 in Lc.
    destruct (lookup k vd) as [v|] eqn:Ev; [|reflexivity].
    assert (Hv : has k vd = true) by (apply has_true; eauto). rewrite Hv in Lc.
    destruct (has k m) eqn:Hm; [apply has_true in Hm; destruct Hm as [x Hx]; congruence | discriminate].
  Qed.

  (* contents after update() = built-in dict.update with the validated pairs *)
  Lemma update_contents m vps k :
    lookup k (update_all (update_all vps []) m) = lookup k (update_all vps m).
  Proof.
    rewrite update_after by (apply nodup_update_all; constructor).
    symmetry. apply lookup_update_all.
  Qed.
End Update.

(* ------------------------------------------------------------------ *)
(* every model step satisfies the law                                   *)

Section Main.
  Variable kv vv : Z -> option Z.
  Variable tgt : target.

  Notation step := (step kv vv tgt).
  Notation ev_codes := (ev_codes tgt).
  Notation ref_codes3 := (ref_codes3 kv vv).
  Notation law_step := (law_step kv vv tgt).

  Lemma raise_ev e m : ev_codes m (raise tgt e m) = [].
  Proof. apply ev_codes_silent, mapeq_refl. Qed.

  Lemma store_ev m vk vvv r : ev_codes m (store tgt m vk vvv r) = [].
  Proof.
    unfold store. destruct (lookup vk m) as [old|] eqn:El; apply ev_codes_one.
    - apply nodup_single.
    - apply ev_changed, El.
    - reflexivity.
    - apply nodup_nil.
    - apply ev_added, El.
    - reflexivity.
  Qed.

  Lemma removed_ev m k x r :
    lookup k m = Some x -> ev_codes m (ok tgt (mremove k m) [([(k, x)], [], [])] r) = [].
  Proof.
    intros Hl. apply ev_codes_one; [apply nodup_nil | apply ev_removed, Hl | reflexivity].
  Qed.

  Lemma do_update_ev m a ps : ev_codes m (do_update kv vv tgt m a ps) = [].
  Proof.
    unfold do_update. rewrite upd_loop_validated.
    destruct (validate_pairs kv vv (items_of a ps)) as [vps|]; [|apply raise_ev].
    destruct (acc_loop m vps [] [] []) as [[vd ad] ch] eqn:Ea.
    destruct (acc_loop_inv m vps _ _ _ _ _ _ (loop_inv_init m) Ea) as [Hinv _].
    destruct (mempty ad && mempty ch) eqn:Ee.
    - apply andb_true_iff in Ee. destruct Ee as [E1 E2].
      apply ev_codes_silent. eapply update_silent; eassumption.
    - apply ev_codes_one.
      + cbn [snd]. destruct Hinv as (_ & N2 & _). exact N2.
      + apply update_event_ok. exact Hinv.
      + unfold ev_nonempty. cbn [mempty andb]. rewrite Ee. reflexivity.
  Qed.

  (* clause 3 and all event clauses, on every channel, for every operation:
     holds unconditionally (also in the F6 shape). *)
  Theorem step_ev_codes m o : is_ctor o = false -> ev_codes m (step m o) = [].
  Proof.
    intros Hnc. destruct o as [k v|k|a ps|a ps|k v|k d| | |ps len|a ps]; cbn [Model.step]; [| | | | | | | | |discriminate Hnc].
    - destruct (kv k) as [vk|]; [|apply raise_ev]. destruct (vv v) as [vvv|]; [|apply raise_ev].
      destruct (hashable vk); [apply store_ev | apply raise_ev].
    - destruct (hashable k); cbn [negb]; [|apply raise_ev].
      destruct (lookup k m) as [x|] eqn:El; [apply removed_ev, El | apply raise_ev].
    - apply do_update_ev.
    - apply do_update_ev.
    - destruct (hashable k); cbn [negb]; [|apply raise_ev].
      destruct (lookup k m) as [x|] eqn:El; [apply ev_codes_silent, mapeq_refl|].
      destruct (kv k) as [vk|]; [|apply raise_ev]. destruct (vv v) as [vvv|]; [|apply raise_ev].
      destruct (hashable vk); [apply store_ev | apply raise_ev].
    - destruct d as [d|]; destruct (lookup k m) as [x|] eqn:El;
        try (apply removed_ev, El); try apply raise_ev. apply ev_codes_silent, mapeq_refl.
    - destruct (last_item m) as [[k v0]|] eqn:El; [|apply raise_ev].
      assert (Hk : exists x, lookup k m = Some x).
      { unfold last_item in El. destruct (rev m) as [|p r] eqn:Er; [discriminate|]. injection El as ->.
        assert (Hin : In (k, v0) m) by (apply in_rev; rewrite Er; left; reflexivity).
        apply has_true. rewrite <- lookup_keys. apply mem_In. apply (in_map fst) in Hin. exact Hin. }
      destruct Hk as [x Hx]. rewrite Hx. apply removed_ev, Hx.
    - destruct (mempty m) eqn:Em.
      + apply mempty_spec in Em. subst m. apply ev_codes_silent. reflexivity.
      + apply ev_codes_one; [apply nodup_nil | apply ev_cleared |].
        unfold ev_nonempty. rewrite Em. reflexivity.
    - destruct (upd_loop kv vv m ps [] [] []); apply raise_ev.
  Qed.

  (* refinement clauses 1, 2, 8 *)
  Lemma ref_intro m o ob bo ba br :
    builtin kv vv m o (o_ret ob) = (bo, ba, br) ->
    outcome_eqb (o_out ob) bo = true -> mapeq (o_after ob) ba = true -> retv_eqb (o_ret ob) br = true ->
    ref_codes3 m o ob = [].
  Proof. intros Hb H1 H2 H8. unfold Law.ref_codes3. rewrite Hb, H1, H2, H8. reflexivity. Qed.

  Lemma retv_eqb_refl r : retv_eqb r r = true.
  Proof. destruct r; cbn; rewrite ?Z.eqb_refl; reflexivity. Qed.

  Lemma ref_raise m o e r0 :
    builtin kv vv m o r0 = (Raise e, m, RNone) -> r0 = RNone -> ref_codes3 m o (raise tgt e m) = [].
  Proof.
    intros Hb ->. eapply ref_intro; [exact Hb | | apply mapeq_refl | reflexivity]. destruct e; reflexivity.
  Qed.

  Lemma ref_store m o vk vvv r ba :
    builtin kv vv m o r = (Ok, ba, r) -> mapeq (mset vk vvv m) ba = true ->
    ref_codes3 m o (store tgt m vk vvv r) = [].
  Proof.
    intros Hb Hm. unfold store. destruct (lookup vk m); (eapply ref_intro; [exact Hb | reflexivity | exact Hm | apply retv_eqb_refl]).
  Qed.

  Lemma ref_update m o a ps :
    builtin kv vv m o RNone
    = match validate_pairs kv vv (items_of a ps) with
      | Some vps => (Ok, update_all vps m, RNone)
      | None => (Raise TraitError, m, RNone)
      end ->
    ref_codes3 m o (do_update kv vv tgt m a ps) = [].
  Proof.
    intros Hb. unfold do_update. rewrite upd_loop_validated.
    destruct (validate_pairs kv vv (items_of a ps)) as [vps|]; [|eapply ref_raise; [exact Hb | reflexivity]].
    destruct (acc_loop m vps [] [] []) as [[vd ad] ch] eqn:Ea.
    destruct (acc_loop_inv m vps _ _ _ _ _ _ (loop_inv_init m) Ea) as [_ ->].
    assert (Hm : mapeq (update_all (update_all vps []) m) (update_all vps m) = true).
    { apply mapeq_spec. intro k. apply update_contents. }
    destruct (mempty ad && mempty ch); (eapply ref_intro; [exact Hb | reflexivity | exact Hm | reflexivity]).
  Qed.

  Theorem step_ref_codes m o : f6_trigger kv vv m o = false -> ref_codes3 m o (step m o) = [].
  Proof.
    intros Hf. destruct o as [k v|k|a ps|a ps|k v|k d| | |ps len|a ps]; cbn [Model.step].
    - destruct (kv k) as [vk|] eqn:Ek.
      + destruct (vv v) as [vvv|] eqn:Ev.
        * destruct (hashable vk) eqn:Eh.
          -- apply ref_store with (ba := mset vk vvv m); [cbn; rewrite Ek, Ev, Eh; reflexivity | apply mapeq_refl].
          -- eapply ref_raise; [cbn; rewrite Ek, Ev, Eh; reflexivity | reflexivity].
        * eapply ref_raise; [cbn; rewrite Ek, Ev; reflexivity | reflexivity].
      + eapply ref_raise; [cbn; rewrite Ek; reflexivity | reflexivity].
    - destruct (hashable k) eqn:Eh; cbn [negb]; [|eapply ref_raise; [cbn; rewrite Eh; reflexivity | reflexivity]].
      destruct (lookup k m) as [x|] eqn:El.
      + eapply ref_intro; [cbn; unfold has; rewrite Eh, El; reflexivity | reflexivity | apply mapeq_refl | reflexivity].
      + eapply ref_raise; [cbn; unfold has; rewrite Eh, El; reflexivity | reflexivity].
    - apply ref_update. reflexivity.
    - apply ref_update. reflexivity.
    - cbn [f6_trigger] in Hf.
      destruct (hashable k) eqn:Eh; cbn [negb]; [|eapply ref_raise; [cbn; rewrite Eh; reflexivity | reflexivity]].
      destruct (lookup k m) as [x|] eqn:El.
      + eapply ref_intro; [cbn; rewrite Eh, El; reflexivity | reflexivity | apply mapeq_refl | apply retv_eqb_refl].
      + destruct (kv k) as [vk|] eqn:Ek.
        * destruct (vv v) as [vvv|] eqn:Ev.
          -- destruct (hashable vk) eqn:Ehv.
             ++ cbn [andb] in Hf. apply has_false in Hf. apply ref_store with (ba := mset vk vvv m);
                  [cbn; rewrite Eh, El, Ek, Ev, Ehv, Hf; reflexivity | apply mapeq_refl].
             ++ eapply ref_raise; [cbn; rewrite Eh, El, Ek, Ev, Ehv; reflexivity | reflexivity].
          -- eapply ref_raise; [cbn; rewrite Eh, El, Ek, Ev; reflexivity | reflexivity].
        * eapply ref_raise; [cbn; rewrite Eh, El, Ek; reflexivity | reflexivity].
    - destruct d as [d|]; destruct (lookup k m) as [x|] eqn:El.
      + eapply ref_intro; [cbn; rewrite El; reflexivity | reflexivity | apply mapeq_refl | apply retv_eqb_refl].
      + eapply ref_intro; [cbn; rewrite El; reflexivity | reflexivity | apply mapeq_refl | apply retv_eqb_refl].
      + eapply ref_intro; [cbn; rewrite El; reflexivity | reflexivity | apply mapeq_refl | apply retv_eqb_refl].
      + eapply ref_raise; [cbn; rewrite El; reflexivity | reflexivity].
    - destruct (last_item m) as [[k v0]|] eqn:El.
      + assert (Hk : exists x, lookup k m = Some x).
        { unfold last_item in El. destruct (rev m) as [|p r] eqn:Er; [discriminate|]. injection El as ->.
          assert (Hin : In (k, v0) m) by (apply in_rev; rewrite Er; left; reflexivity).
          apply has_true. rewrite <- lookup_keys. apply mem_In. apply (in_map fst) in Hin. exact Hin. }
        destruct Hk as [x Hx]. rewrite Hx.
        eapply ref_intro; cbn [ok mk o_ret o_out o_after].
        * cbn [builtin]. rewrite El, Hx. reflexivity.
        * reflexivity.
        * apply mapeq_refl.
        * apply retv_eqb_refl.
      + assert (Hm : m = []).
        { unfold last_item in El. destruct (rev m) eqn:Er; [|discriminate].
          rewrite <- (rev_involutive m), Er. reflexivity. }
        subst m. eapply ref_raise; reflexivity.
    - destruct (mempty m); (eapply ref_intro; [reflexivity | reflexivity | reflexivity | reflexivity]).
    - (* UpdateBad *)
      rewrite upd_loop_validated. destruct (validate_pairs kv vv ps) as [vps|] eqn:Ev;
        (eapply ref_raise; [cbn; rewrite Ev; reflexivity | reflexivity]).
    - (* Ctor *)
      rewrite ctor_loop_validated. destruct (validate_pairs kv vv (items_of a ps)) as [vps|] eqn:Ev.
      + eapply ref_intro; [cbn; rewrite Ev; reflexivity | reflexivity | apply mapeq_refl | reflexivity].
      + eapply ref_raise; [cbn; rewrite Ev; reflexivity | reflexivity].
  Qed.

  (* a construction notifies nobody *)
  Lemma ctor_silent m a ps : silent (step m (Ctor a ps)) = true.
  Proof.
    cbn [Model.step]. destruct (ctor_loop kv vv (items_of a ps) []); unfold raise, ok, mk, silent; cbn;
      destruct tgt as [|[|]]; reflexivity.
  Qed.

  Lemma step_ev_part m o :
    (if is_ctor o then chk 3 (silent (step m o)) else Law.ev_codes tgt m (step m o)) = [].
  Proof.
    destruct (is_ctor o) eqn:E; [|apply step_ev_codes, E].
    destruct o; try discriminate E. rewrite ctor_silent. reflexivity.
  Qed.

  (* clause 9: the keys keep the built-in dict's insertion order (unconditional, also in the F6 shape) *)
  Lemma zlist_refl l : list_eqb Z.eqb l l = true.
  Proof. induction l as [|x l IH]; [reflexivity|]. cbn. rewrite Z.eqb_refl. exact IH. Qed.

  Lemma keys_mset_present k v x m : lookup k m = Some x -> keys (mset k v m) = keys m.
  Proof.
    induction m as [|[k2 v2] r IH]; cbn; [discriminate|]. destruct (Z.eqb_spec k k2) as [->|Hne]; intros H.
    - reflexivity.
    - cbn. f_equal. apply IH. exact H.
  Qed.

  Lemma do_update_order m a ps bo ba br :
    match validate_pairs kv vv (items_of a ps) with
    | Some vps => (Ok, update_all vps m, RNone)
    | None => (Raise TraitError, m, RNone)
    end = (bo, ba, br) ->
    list_eqb Z.eqb (keys (o_after (do_update kv vv tgt m a ps))) (keys ba) = true.
  Proof.
    intros Hb. unfold do_update. rewrite upd_loop_validated.
    destruct (validate_pairs kv vv (items_of a ps)) as [vps|]; injection Hb as <- <- <-; [|apply zlist_refl].
    destruct (acc_loop m vps [] [] []) as [[vd ad] ch] eqn:Ea.
    destruct (acc_loop_inv m vps _ _ _ _ _ _ (loop_inv_init m) Ea) as [_ ->].
    destruct (mempty ad && mempty ch); cbn [ok mk o_after]; rewrite keys_update_via_dict; apply zlist_refl.
  Qed.

  Theorem step_order m o : order_ok kv vv m o (step m o) = true.
  Proof.
    unfold order_ok. destruct o as [k v|k|a ps|a ps|k v|k d| | |ps len|a ps]; cbn [Model.step builtin];
      try (destruct (match validate_pairs kv vv (items_of a ps) with
                     | Some vps => (Ok, update_all vps m, RNone)
                     | None => (Raise TraitError, m, RNone)
                     end) as [[bo ba] br] eqn:Eb; eapply do_update_order; exact Eb);
      try rewrite ctor_loop_validated; unfold store, has;
      repeat (match goal with
              | |- context [match ?x with _ => _ end] =>
                  match type of x with
                  | option _ => destruct x eqn:?
                  | bool => destruct x eqn:?
                  | (_ * _)%type => is_var x; destruct x
                  end
              end; cbn [ok raise mk o_after o_ret negb orb]);
      try apply zlist_refl; try discriminate; try congruence.
    all: try (erewrite keys_mset_present by eassumption; apply zlist_refl).
  Qed.

  Theorem step_law m o : f6_trigger kv vv m o = false -> law_step m o (step m o) = [].
  Proof.
    intros Hf. unfold Law.law_step, Law.ref_codes. rewrite step_ref_codes by exact Hf.
    rewrite step_order, step_ev_part. reflexivity.
  Qed.

  (* With the F6 shape allowed: the only clauses that can fail are contents (2)
     and return value (8) of that setdefault. *)
  Theorem step_law_upto_f6 m o :
    forall c, In c (law_step m o (step m o)) -> f6_trigger kv vv m o = true /\ (c = 2 \/ c = 8).
  Proof.
    intros c Hin. destruct (f6_trigger kv vv m o) eqn:Hf.
    - split; [reflexivity|]. unfold Law.law_step, Law.ref_codes in Hin.
      rewrite step_ev_part, step_order in Hin. cbn [chk] in Hin. rewrite !app_nil_r in Hin.
      destruct o as [k v|k|a ps|a ps|k v|k d| | |ps len|a ps]; try discriminate Hf.
      cbn [f6_trigger] in Hf. cbn [Model.step] in Hin.
      destruct (lookup k m) as [x|] eqn:El; [discriminate|].
      destruct (kv k) as [vk|] eqn:Ek; [|discriminate]. destruct (vv v) as [vvv|] eqn:Ev; [|discriminate].
      apply andb_true_iff in Hf. destruct Hf as [Hf Hh]. apply andb_true_iff in Hf. destruct Hf as [Ehk Ehv].
      rewrite Ehk, Ehv in Hin. cbn [negb] in Hin.
      apply has_true in Hh. destruct Hh as [old Hold].
      unfold store, Law.ref_codes3 in Hin. rewrite Hold in Hin.
      cbn [ok mk o_ret o_out o_after builtin] in Hin. rewrite Ehk, El, Ek, Ev, Ehv, Hold in Hin. cbn [negb] in Hin.
      cbn [outcome_eqb chk app] in Hin. apply in_app_or in Hin. destruct Hin as [Hin|Hin].
      + destruct (mapeq (mset vk vvv m) m); cbn in Hin; [contradiction|]. destruct Hin as [<-|[]]. left; reflexivity.
      + destruct (retv_eqb (RVal vvv) (RVal old)); cbn in Hin; [contradiction|]. destruct Hin as [<-|[]]. right; reflexivity.
    - rewrite step_law in Hin by exact Hf. contradiction.
  Qed.

  (* histories: the F6 shape does not occur at any step *)
  Fixpoint f6_free (m : amap) (ops : list op) : bool :=
    match ops with
    | [] => true
    | o :: r => negb (f6_trigger kv vv m o) && f6_free (o_after (step m o)) r
    end.

  Theorem run_law : forall ops m i, f6_free m ops = true -> law_hist kv vv tgt i m (run kv vv tgt m ops) = [].
  Proof.
    induction ops as [|o ops IH]; intros m i Hf; cbn [run law_hist]; [reflexivity|].
    cbn [f6_free] in Hf. apply andb_true_iff in Hf. destruct Hf as [H1 H2]. apply negb_true_iff in H1.
    rewrite step_law by exact H1. cbn [map app]. apply IH. exact H2.
  Qed.

  (* a key validator that never converts cannot produce the F6 shape *)
  Lemma nonconverting_f6_free :
    (forall x y, kv x = Some y -> y = x) -> forall ops m, f6_free m ops = true.
  Proof.
    intros Hid. induction ops as [|o ops IH]; intros m; [reflexivity|]. cbn [f6_free]. rewrite IH, andb_true_r.
    apply negb_true_iff. destruct o; try reflexivity. cbn [f6_trigger].
    destruct (lookup k m) eqn:El; [reflexivity|]. destruct (kv k) as [vk|] eqn:Ek; [|reflexivity].
    apply Hid in Ek. subst vk. destruct (vv v); [|reflexivity].
    apply has_false in El. rewrite El, andb_false_r. reflexivity.
  Qed.

  Theorem run_law_nonconverting :
    (forall x y, kv x = Some y -> y = x) ->
    forall ops m i, law_hist kv vv tgt i m (run kv vv tgt m ops) = [].
  Proof. intros Hid ops m i. apply run_law. apply nonconverting_f6_free. exact Hid. Qed.

  (* every law failure in any history of the model is an instance of F6 *)
  Theorem run_law_upto_f6 : forall ops m i c,
    In c (law_hist kv vv tgt i m (run kv vv tgt m ops)) -> exists j, c = 100 * j + 2 \/ c = 100 * j + 8.
  Proof.
    induction ops as [|o ops IH]; intros m i c Hin; cbn [run law_hist] in Hin; [contradiction|].
    apply in_app_or in Hin. destruct Hin as [Hin|Hin].
    - apply in_map_iff in Hin. destruct Hin as [c0 [<- Hc0]].
      apply step_law_upto_f6 in Hc0. destruct Hc0 as [_ [->| ->]]; exists i; [left | right]; reflexivity.
    - eapply IH. exact Hin.
  Qed.
End Main.

(* ------------------------------------------------------------------ *)
(* Prop readings (what the boolean law means), for the theorems of Props.v *)

Section Readings.
  Variable kv vv : Z -> option Z.
  Variable tgt : target.
  Notation step := (step kv vv tgt).

  Lemma ctor_no_events m a ps :
    o_events (step m (Ctor a ps)) = [] /\ o_oevents (step m (Ctor a ps)) = [].
  Proof.
    cbn [Model.step]. destruct (ctor_loop kv vv (items_of a ps) []); unfold raise, ok, mk; cbn; split; reflexivity.
  Qed.

  Lemma ev_codes_inv m ob :
    ev_codes tgt m ob = [] ->
    (negb (is_raise (o_out ob)) || (mapeq (o_after ob) m && silent ob)) = true /\
    chan 0 m (o_after ob) (o_events ob) = [] /\
    chan 10 m (o_after ob) (o_events2 ob) = [] /\
    ochan m (o_after ob) (o_oevents ob) = [].
  Proof.
    unfold ev_codes. intros H. apply chk_app_nil in H. destruct H as [H3 H].
    apply app_nil_iff in H. destruct H as [Hc0 H]. apply app_nil_iff in H. destruct H as [Hc1 H].
    apply app_nil_iff in H. destruct H as [_ Ho]. repeat split; assumption.
  Qed.

  Lemma chan_inv base b a evs :
    chan base b a evs = [] ->
    Nat.leb (length evs) 1 = true /\ (mapeq b a || negb (is_nil evs)) = true /\
    forallb (ev_ok b a) evs = true /\ forallb ev_nonempty evs = true.
  Proof.
    unfold chan. intros H. apply chk_app_nil in H. destruct H as [H4 H].
    apply chk_app_nil in H. destruct H as [H5 H]. apply chk_app_nil in H. destruct H as [H6 H].
    apply chk_nil in H. repeat split; assumption.
  Qed.

  Lemma ochan_inv b a evs :
    ochan b a evs = [] ->
    Nat.leb (length evs) 1 = true /\ (mapeq b a || negb (is_nil evs)) = true /\
    forallb (oev_ok b a) evs = true /\ forallb oev_nonempty evs = true.
  Proof.
    unfold ochan. intros H. apply chk_app_nil in H. destruct H as [H4 H].
    apply chk_app_nil in H. destruct H as [H5 H]. apply chk_app_nil in H. destruct H as [H6 H].
    apply chk_nil in H. repeat split; assumption.
  Qed.

  (* reconstruction law *)
  Lemma step_reconstruction m o removed added changed :
    In (removed, added, changed) (o_events (step m o)) ->
    let after := o_after (step m o) in
    (forall k, has k added = true -> lookup k m = None /\ lookup k after = lookup k added) /\
    (forall k, has k changed = true -> lookup k m = lookup k changed /\ has k after = true) /\
    (forall k, has k removed = true -> lookup k m = lookup k removed /\ lookup k after = None) /\
    (forall k, lookup k m = lookup k (removed ++ changed ++ minus after (keys added))) /\
    (exists k, has k removed = true \/ has k added = true \/ has k changed = true).
  Proof.
    intros Hin after.
    destruct (is_ctor o) eqn:Ec.
    { destruct o; try discriminate Ec. destruct (ctor_no_events m asmap ps) as [E _]. rewrite E in Hin. contradiction. }
    pose proof (ev_codes_inv m _ (step_ev_codes kv vv tgt m o Ec)) as (_ & Hc & _ & _).
    apply chan_inv in Hc. destruct Hc as (_ & _ & H6 & H7). rewrite forallb_forall in H6, H7.
    specialize (H6 _ Hin). specialize (H7 _ Hin). apply ev_ok_spec in H6. destruct H6 as (H1 & H2 & H3 & H4).
    split; [|split; [|split; [|split]]].
    - intros k Hk. destruct (H1 k Hk) as [Hb Ha]. split; [apply has_false; exact Hb | exact Ha].
    - exact H2.
    - intros k Hk. destruct (H3 k Hk) as [Hb Ha]. split; [exact Hb | apply has_false; exact Ha].
    - exact H4.
    - unfold ev_nonempty in H7. apply negb_true_iff in H7.
      destruct removed as [|[k v] r]; [|exists k; left; unfold has; cbn; rewrite Z.eqb_refl; reflexivity].
      destruct added as [|[k v] r]; [|exists k; right; left; unfold has; cbn; rewrite Z.eqb_refl; reflexivity].
      destruct changed as [|[k v] r]; [discriminate|]. exists k; right; right; unfold has; cbn; rewrite Z.eqb_refl; reflexivity.
  Qed.

  Lemma step_event_count m o :
    is_ctor o = false ->
    (length (o_events (step m o)) <= 1)%nat /\
    ((exists k, lookup k m <> lookup k (o_after (step m o))) -> exists e, o_events (step m o) = [e]) /\
    o_events2 (step m o) = o_events (step m o) /\
    o_oevents (step m o) = map (factory (o_after (step m o))) (o_events (step m o)).
  Proof.
    intros Ec. pose proof (ev_codes_inv m _ (step_ev_codes kv vv tgt m o Ec)) as (_ & Hc & _ & _).
    apply chan_inv in Hc. destruct Hc as (H4 & H5 & _ & _).
    split; [apply Nat.leb_le; exact H4|]. split.
    - intros [k Hk]. destruct (mapeq m (o_after (step m o))) eqn:E.
      + rewrite mapeq_spec in E. specialize (E k). contradiction.
      + cbn in H5. destruct (o_events (step m o)) as [|e [|e2 r]]; try discriminate. exists e. reflexivity.
    - split.
      + destruct o as [k v|k|a ps|a ps|k v|k d| | |ps len|a ps]; cbn [Model.step];
          repeat match goal with
                 | |- context [match ?x with _ => _ end] => destruct x
                 | |- context [if ?x then _ else _] => destruct x
                 end; try reflexivity;
          unfold do_update, store; repeat match goal with
                 | |- context [match ?x with _ => _ end] => destruct x
                 | |- context [if ?x then _ else _] => destruct x
                 end; reflexivity.
      + destruct o as [k v|k|a ps|a ps|k v|k d| | |ps len|a ps]; cbn [Model.step];
          repeat match goal with
                 | |- context [match ?x with _ => _ end] => destruct x
                 | |- context [if ?x then _ else _] => destruct x
                 end; try reflexivity;
          unfold do_update, store; repeat match goal with
                 | |- context [match ?x with _ => _ end] => destruct x
                 | |- context [if ?x then _ else _] => destruct x
                 end; reflexivity.
  Qed.

  (* an event although nothing changed is an identity event: nothing removed,
     nothing added, the changed keys keep their values *)
  Lemma step_unchanged_event m o removed added changed :
    (forall k, lookup k m = lookup k (o_after (step m o))) ->
    In (removed, added, changed) (o_events (step m o)) ->
    removed = [] /\ added = [] /\ forall k, has k changed = true -> lookup k changed = lookup k (o_after (step m o)).
  Proof.
    intros Heq Hin. destruct (step_reconstruction m o _ _ _ Hin) as (H1 & H2 & H3 & _ & _).
    split; [|split].
    - destruct removed as [|[k v] r]; [reflexivity|].
      assert (Hk : has k ((k, v) :: r) = true) by (unfold has; cbn; rewrite Z.eqb_refl; reflexivity).
      destruct (H3 k Hk) as [Hb Ha]. rewrite Heq, Ha in Hb. cbn in Hb. rewrite Z.eqb_refl in Hb. discriminate.
    - destruct added as [|[k v] r]; [reflexivity|].
      assert (Hk : has k ((k, v) :: r) = true) by (unfold has; cbn; rewrite Z.eqb_refl; reflexivity).
      destruct (H1 k Hk) as [Hb Ha]. rewrite Heq, Ha in Hb. cbn in Hb. rewrite Z.eqb_refl in Hb. discriminate.
    - intros k Hk. destruct (H2 k Hk) as [Hb _]. rewrite <- Hb. apply Heq.
  Qed.

  Lemma step_failing_inert m o e :
    o_out (step m o) = Raise e ->
    o_after (step m o) = m /\ o_events (step m o) = [] /\ o_events2 (step m o) = [] /\ o_oevents (step m o) = []
    /\ (o_ievents (step m o) = None \/ o_ievents (step m o) = Some []).
  Proof.
    intros He.
    assert (Hshape : forall ob, ob = step m o -> o_out ob = Raise e -> exists e', ob = raise tgt e' m).
    { intros ob -> Ho. destruct o as [k v|k|a ps|a ps|k v|k d| | |ps len|a ps]; cbn [Model.step] in *;
        unfold do_update, store, ok, mk in *;
        repeat match goal with
               | H : context [match ?x with _ => _ end] |- _ => destruct x; cbn [o_out] in H; try discriminate H
               | H : context [if ?x then _ else _] |- _ => destruct x; cbn [o_out] in H; try discriminate H
               end; eexists; reflexivity. }
    destruct (Hshape _ eq_refl He) as [e' ->]. unfold raise, mk. cbn.
    repeat split. destruct tgt as [|[|]]; auto.
  Qed.

  Lemma step_refines m o :
    f6_trigger kv vv m o = false ->
    let ob := step m o in
    let '(bo, ba, br) := builtin kv vv m o (o_ret ob) in
    o_out ob = bo /\ (forall k, lookup k (o_after ob) = lookup k ba) /\ o_ret ob = br.
  Proof.
    intros Hf. cbn zeta. pose proof (step_ref_codes kv vv tgt m o Hf) as H. unfold ref_codes3 in H.
    destruct (builtin kv vv m o (o_ret (step m o))) as [[bo ba] br].
    apply chk_app_nil in H. destruct H as [H1 H]. apply chk_app_nil in H. destruct H as [H2 H]. apply chk_nil in H.
    split; [|split].
    - destruct (o_out (step m o)) as [|e1], bo as [|e2]; cbn in H1; try discriminate; try reflexivity.
      destruct e1, e2; cbn in H1; try discriminate; reflexivity.
    - apply mapeq_spec. exact H2.
    - destruct (o_ret (step m o)) as [|x|x y], br as [|x'|x' y']; cbn in H; try discriminate; try reflexivity.
      + apply Z.eqb_eq in H. congruence.
      + apply andb_true_iff in H. destruct H as [Ha Hb]. apply Z.eqb_eq in Ha. apply Z.eqb_eq in Hb. congruence.
  Qed.

  (* the merged event of the observer framework *)
  Lemma step_observer_event m o removed added :
    In (removed, added) (o_oevents (step m o)) ->
    let after := o_after (step m o) in
    (forall k, has k removed = true -> lookup k m = lookup k removed) /\
    (forall k, has k added = true -> lookup k after = lookup k added) /\
    (forall k, lookup k after = lookup k (added ++ minus m (keys removed))) /\
    (removed <> [] \/ added <> []).
  Proof.
    intros Hin after.
    destruct (is_ctor o) eqn:Ec.
    { destruct o; try discriminate Ec. destruct (ctor_no_events m asmap ps) as [_ E]. rewrite E in Hin. contradiction. }
    pose proof (ev_codes_inv m _ (step_ev_codes kv vv tgt m o Ec)) as (_ & _ & _ & Hc).
    apply ochan_inv in Hc. destruct Hc as (_ & _ & H6 & H7). rewrite forallb_forall in H6, H7.
    specialize (H6 _ Hin). specialize (H7 _ Hin). apply oev_ok_spec in H6. destruct H6 as (H1 & H2 & H3).
    repeat split; try assumption. unfold oev_nonempty in H7. cbn [fst snd] in H7.
    destruct removed; [|left; discriminate]. destruct added; [discriminate | right; discriminate].
  Qed.

  (* update(): duplicate keys are reported once, with the final value *)
  Lemma update_reports_final_value m a ps added changed removed k v :
    In (removed, added, changed) (o_events (step m (Update a ps))) ->
    lookup k added = Some v -> lookup k (o_after (step m (Update a ps))) = Some v.
  Proof.
    intros Hin Hl. destruct (step_reconstruction m _ _ _ _ Hin) as (H1 & _).
    assert (Hk : has k added = true) by (apply has_true; eauto).
    destruct (H1 k Hk) as [_ Ha]. rewrite Ha. exact Hl.
  Qed.
End Readings.

(* popitem returns the most recently inserted item when the keys are unique *)
Lemma popitem_is_lifo kv vv tgt m k v :
  NoDup (keys m) -> last_item m = Some (k, v) -> o_ret (step kv vv tgt m PopItem) = RItem k v.
Proof.
  intros Hnd Hl. cbn [step]. rewrite Hl. rewrite (last_item_lookup m k v Hl Hnd). reflexivity.
Qed.

(* F6: the full law is false of the faithful model *)
Lemma f6_witness :
  exists kv vv m k v,
    f6_trigger kv vv m (SetDefault k v) = true /\
    law_step kv vv Plain m (SetDefault k v) (step kv vv Plain m (SetDefault k v)) = [2; 8].
Proof.
  exists (vld_of VCInt), (vld_of VCInt), [(1, 10)], 101, 11. split; vm_compute; reflexivity.
Qed.

(* construction: the new dict is exactly dict(validated items), nobody is notified;
   a rejected item leaves the old object in place *)
Lemma ctor_spec kv vv tgt m a ps :
  let ob := step kv vv tgt m (Ctor a ps) in
  match validate_pairs kv vv (items_of a ps) with
  | Some vps => o_out ob = Ok /\ o_after ob = update_all vps []
  | None => o_out ob = Raise TraitError /\ o_after ob = m
  end /\ o_events ob = [] /\ o_events2 ob = [] /\ o_oevents ob = [].
Proof.
  cbn zeta. cbn [step]. rewrite ctor_loop_validated.
  destruct (validate_pairs kv vv (items_of a ps)); unfold raise, ok, mk; cbn; repeat split; reflexivity.
Qed.
