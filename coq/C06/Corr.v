(* C06 — correspondence: one case = key validator kind, value validator kind,
   target, initial contents and the history of (operation, observation recorded
   from the implementation). *)
From Coq Require Import ZArith List Bool.
From TV Require Import Common.LSet Common.LMap Common.Harness C06.Model C06.Law.
Import ListNotations.
Open Scope Z_scope.

Definition case := (vkind * vkind * target * amap * list (op * obs))%type.

Definition ev3_eqb (a b : ev3) : bool :=
  let '(r1, a1, c1) := a in let '(r2, a2, c2) := b in mapeq r1 r2 && mapeq a1 a2 && mapeq c1 c2.
Definition ev2_eqb (a b : ev2) : bool :=
  mapeq (fst a) (fst b) && mapeq (snd a) (snd b).
Definition pair_eqb (a b : Z * Z) : bool := (fst a =? fst b) && (snd a =? snd b).

(* codes: 100*step + 1 outcome, 2 contents, 3 events of notifier 1, 4 return value,
   5 observer events, 6 events of notifier 2, 7 items-trait events, 9 iteration order *)
Definition obs_diff (m i : obs) : list Z :=
  chk 1 (outcome_eqb (o_out m) (o_out i))
  ++ chk 2 (mapeq (o_after m) (o_after i))
  ++ chk 3 (list_eqb ev3_eqb (o_events m) (o_events i))
  ++ chk 4 (retv_eqb (o_ret m) (o_ret i))
  ++ chk 5 (list_eqb ev2_eqb (o_oevents m) (o_oevents i))
  ++ chk 6 (list_eqb ev3_eqb (o_events2 m) (o_events2 i))
  ++ chk 7 (opt_eqb (list_eqb ev3_eqb) (o_ievents m) (o_ievents i))
  ++ chk 9 (list_eqb pair_eqb (o_after m) (o_after i)).

(* The model is re-synchronised on the implementation's contents (in the
   implementation's iteration order) after every step, so one disagreement is
   reported once, at the step where it happens. *)
Fixpoint corr_hist (kk vk : vkind) (t : target) (i : Z) (m : amap) (h : list (op * obs)) : list Z :=
  match h with
  | [] => []
  | (o, ob) :: r =>
      map (fun c => 100 * i + c) (obs_diff (step (vld_of kk) (vld_of vk) t m o) ob)
      ++ corr_hist kk vk t (i + 1) (o_after ob) r
  end.

Definition corr_codes (c : case) : list Z :=
  let '(kk, vk, t, init, h) := c in corr_hist kk vk t 0 init h.
Definition law_codes (c : case) : list Z :=
  let '(kk, vk, t, init, h) := c in law_hist (vld_of kk) (vld_of vk) t 0 init h.
