(* C11 — executable model of deferred traits (DelegatesTo / PrototypedFrom).
   traits/ctraits.c      getattr_delegate (l.2018-2065), setattr_delegate (l.2559-2650, the chain walk
                         with its 100-step limit), delegate_attr_name_* (l.4551-4593, the four name rules)
   traits/trait_types.py Delegate.__init__ (l.1168-1198: prefix classification)
   traits/has_traits.py  get_delegate_pattern (l.252-262), _init_trait_delegate_listener /
                         _remove_trait_delegate_listener / _trait_delegate_name (l.3363-3441)

   Names are token lists (concatenation = list append; the driver joins the tokens' strings).
   A configuration is a list of classes (each: its __prefix__ and its trait table) and a pool of
   objects (class index, instance __dict__).  The forwarding listeners (legacy on_trait_change
   machinery) are modelled at specification level by the table [ltab] of (object, name) pairs whose
   forwarder is attached - the per-object `__listener_traits__` dict entries.
   Definitions only. *)
From Coq Require Import ZArith List Bool Arith.
Import ListNotations.
Open Scope Z_scope.

Definition name := list nat.
Definition oid := nat.

Inductive value := VInt (z : Z) | VBad | VNone | VObj (o : oid).
Inductive vkind := KInt | KRange | KAny.          (* Int, Range(0, 50), Any *)
Inductive rule := RSame | RExplicit (p : name) | RPrefix (p : name) | RClass.
Inductive trait :=
| Normal (k : vkind) (dflt : value)
| Link                                             (* a delegate reference that holds an object: Instance(HasTraits)
                                                      stored in the instance dict, or a Property over private
                                                      storage (where it is stored is not observed; a reference that
                                                      is itself a deferring attribute is simply a [Deleg]) *)
| Deleg (d : name) (r : rule) (modify : bool)      (* modify = DelegatesTo, not modify = PrototypedFrom *)
| PyAttr.                                          (* not declared: HasTraits' wildcard Python attribute
                                                      (never in a class table; only [walk] produces it) *)

(* c_unlisten: the deferring names declared with listenable=False (no forwarding listener, has_traits.py l.494-499) *)
Record cls := mkC { c_prefix : name; c_traits : list (name * trait); c_unlisten : list name }.
Record obj := mkO { o_cls : nat; o_dict : list (name * value) }.
Record state := mkS { classes : list cls; objs : list obj; ltab : list (oid * name) }.

Inductive exn := TraitError | AttributeError | DelegationError | RecursionError | KeyError | OtherError.
Inductive res (A : Type) := Ok (a : A) | Raise (e : exn).
Arguments Ok {A} a.
Arguments Raise {A} e.

(* ----- equalities ----- *)
Fixpoint name_eqb (a b : name) : bool :=
  match a, b with
  | [], [] => true
  | x :: a', y :: b' => Nat.eqb x y && name_eqb a' b'
  | _, _ => false
  end.
Definition value_eqb (a b : value) : bool :=
  match a, b with
  | VInt x, VInt y => x =? y
  | VBad, VBad | VNone, VNone => true
  | VObj x, VObj y => Nat.eqb x y
  | _, _ => false
  end.
Definition node := (oid * name)%type.
Definition node_eqb (a b : node) : bool := Nat.eqb (fst a) (fst b) && name_eqb (snd a) (snd b).

(* ----- association lists keyed by names ----- *)
Fixpoint nassoc {A} (n : name) (l : list (name * A)) : option A :=
  match l with
  | [] => None
  | (k, a) :: r => if name_eqb n k then Some a else nassoc n r
  end.
Fixpoint nset {A} (n : name) (a : A) (l : list (name * A)) : list (name * A) :=
  match l with
  | [] => [(n, a)]
  | (k, a') :: r => if name_eqb n k then (n, a) :: r else (k, a') :: nset n a r
  end.
Fixpoint ndel {A} (n : name) (l : list (name * A)) : list (name * A) :=
  match l with
  | [] => []
  | (k, a') :: r => if name_eqb n k then ndel n r else (k, a') :: ndel n r
  end.

Fixpoint update {A} (i : nat) (f : A -> A) (l : list A) : list A :=
  match l, i with
  | [], _ => []
  | x :: r, O => f x :: r
  | x :: r, S i' => x :: update i' f r
  end.

Definition dummy_cls : cls := mkC [] [] [].
Definition dummy_obj : obj := mkO 0 [].
Definition get_obj (st : state) (o : oid) : obj := nth o (objs st) dummy_obj.
Definition cls_of (st : state) (o : oid) : cls := nth (o_cls (get_obj st o)) (classes st) dummy_cls.
Definition find_trait (st : state) (o : oid) (n : name) : option trait := nassoc n (c_traits (cls_of st o)).
Definition dict_get (st : state) (o : oid) (n : name) : option value := nassoc n (o_dict (get_obj st o)).
Definition dict_set (st : state) (o : oid) (n : name) (v : value) : state :=
  mkS (classes st) (update o (fun ob => mkO (o_cls ob) (nset n v (o_dict ob))) (objs st)) (ltab st).
Definition dict_del (st : state) (o : oid) (n : name) : state :=
  mkS (classes st) (update o (fun ob => mkO (o_cls ob) (ndel n (o_dict ob))) (objs st)) (ltab st).

Definition unlisted (n : name) (c : cls) : bool := existsb (name_eqb n) (c_unlisten c).
Definition listenable (st : state) (o : oid) (n : name) : bool := negb (unlisted n (cls_of st o)).

Definition has_node (x : node) (l : list node) : bool := existsb (node_eqb x) l.
Definition ltab_add (st : state) (x : node) : state :=
  mkS (classes st) (objs st) (if has_node x (ltab st) then ltab st else ltab st ++ [x]).
Definition ltab_del (st : state) (x : node) : state :=
  mkS (classes st) (objs st) (filter (fun y => negb (node_eqb x y)) (ltab st)).

(* ----- the four name rules: delegate_attr_name_{name, prefix, prefix_name, class_name} ----- *)
Definition attr_name (r : rule) (class_prefix : name) (n : name) : name :=
  match r with
  | RSame => n
  | RExplicit p => p
  | RPrefix p => p ++ n
  | RClass => class_prefix ++ n
  end.

Definition validate (k : vkind) (v : value) : option value :=
  match k, v with
  | KInt, VInt z => Some v
  | KRange, VInt z => if (0 <=? z) && (z <=? 50) then Some v else None
  | KAny, _ => Some v
  | _, _ => None
  end.
Definition validate_link (v : value) : option value :=
  match v with VObj _ | VNone => Some v | _ => None end.

(* ----- reading: instance dict first, then the class trait; getattr_delegate recurses through
   ordinary attribute access on the delegate (so each hop uses ITS OWN class prefix) ----- *)
Fixpoint read (fuel : nat) (st : state) (o : oid) (n : name) : res value :=
  match fuel with
  | O => Raise RecursionError
  | S f =>
      match dict_get st o n with
      | Some v => Ok v
      | None =>
          match find_trait st o n with
          | Some (Normal _ d) => Ok d
          | Some Link => Ok VNone
          | Some PyAttr => Raise AttributeError
          | Some (Deleg d r _) =>
              match read f st o d with
              | Ok (VObj p) => read f st p (attr_name r (c_prefix (cls_of st o)) n)
              | Ok _ => Raise AttributeError
              | Raise e => Raise e
              end
          | None => Raise AttributeError
          end
      end
  end.

Definition read_fuel : nat := 12.
Definition rd (st : state) (o : oid) (n : name) : res value := read read_fuel st o n.

(* ----- setattr_delegate's chain walk (ctraits.c l.2577-2660).  delegate_attr_name is called with the
   object that owns the link being followed (l.2624, as getattr_delegate does), so the class-prefix rule
   uses the prefix of the hop's own class at every hop. ----- *)
Fixpoint walk (fuel : nat) (st : state) (cur : oid) (d : name) (r : rule) (daname : name)
  : res (oid * name * trait) :=
  match fuel with
  | O => Raise DelegationError                               (* delegation_recursion_error *)
  | S f =>
      match rd st cur d with
      | Ok (VObj p) =>
          let daname' := attr_name r (c_prefix (cls_of st cur)) daname in
          match find_trait st p daname' with
          | None => Ok (p, daname', PyAttr)                  (* get_prefix_trait: HasTraits' default wildcard
                                                                 trait accepts any attribute *)
          | Some (Deleg d' r' _) => walk f st p d' r' daname'
          | Some t => Ok (p, daname', t)
          end
      | Ok _ => Raise DelegationError                        (* bad_delegate_error2: no traits *)
      | Raise e => Raise e
      end
  end.

(* ----- change notification: handlers of (o, n) are called with the new value; every attached
   forwarder whose current delegate is o and whose target name is n re-fires on its own object
   (trait_property_changed), recursively ----- *)
Definition event := (oid * name * value)%type.

Definition depends_on (st : state) (x : node) (target : node) : bool :=
  let '(o, n) := x in
  match find_trait st o n with
  | Some (Deleg d r _) =>
      match rd st o d with
      | Ok (VObj p) => node_eqb (p, attr_name r (c_prefix (cls_of st o)) n) target
      | _ => false
      end
  | _ => false
  end.

Fixpoint change_at (fuel : nat) (st : state) (x : node) (w : value) : list event :=
  match fuel with
  | O => []
  | S f =>
      (fst x, snd x, w)
      :: flat_map (fun y => if depends_on st y x then change_at f st y w else []) (ltab st)
  end.
Definition notify_fuel : nat := 8.

Inductive outcome := Done | Raised (e : exn).

(* setattr on a non-deferring trait (setattr_trait): validate, store, notify when changed *)
Definition set_plain (st : state) (o : oid) (n : name) (t : trait) (v : value)
  : state * outcome * list event :=
  let checked := match t with
                 | Normal k _ => validate k v
                 | Link => validate_link v
                 | Deleg _ _ _ => None
                 | PyAttr => Some v
                 end in
  match checked with
  | None => (st, Raised TraitError, [])
  | Some w =>
      let old := match dict_get st o n with
                 | Some x => x
                 | None => match t with Normal _ d => d | _ => VNone end
                 end in
      let st' := dict_set st o n w in
      (st', Done, match t with
                  | PyAttr => []                                (* setattr_python: no notification *)
                  | _ => if value_eqb old w then [] else change_at notify_fuel st' (o, n) w
                  end)
  end.

Definition set_attr (st : state) (o : oid) (n : name) (v : value) : state * outcome * list event :=
  match find_trait st o n with
  | None => (st, Raised AttributeError, [])
  | Some (Deleg d r modify) =>
      match walk 100 st o d r n with
      | Raise e => (st, Raised e, [])
      | Ok (p, dn, t) =>
          if modify then set_plain st p dn t v                 (* TRAIT_MODIFY_DELEGATE, l.2623-2626 *)
          else                                                 (* l.2628: validated by the target's trait, *)
            let checked := match t with                        (* stored in the deferring object's dict *)
                           | Normal k _ => validate k v
                           | Link => validate_link v
                           | Deleg _ _ _ => None
                           | PyAttr => Some v
                           end in
            match checked with
            | None => (st, Raised TraitError, [])
            | Some w =>
                match rd st o n with
                | Raise e => (st, Raised e, [])
                | Ok old =>
                    let st1 := dict_set st o n w in
                    let evs := match t with
                               | PyAttr => []
                               | _ => if value_eqb old w then [] else change_at notify_fuel st1 (o, n) w
                               end in
                    (ltab_del st1 (o, n), Done, evs)           (* _remove_trait_delegate_listener(name, 1) *)
                end
            end
      end
  | Some t => set_plain st o n t v
  end.

(* delattr on a PrototypedFrom attribute: drop the local value, re-attach the forwarder *)
Definition del_attr (st : state) (o : oid) (n : name) : state * outcome * list event :=
  match find_trait st o n with
  | Some (Deleg d r false) =>
      match walk 100 st o d r n with
      | Raise e => (st, Raised e, [])
      | Ok (_, _, t) =>
          if listenable st o n then
            match dict_get st o n with
            | None => match t with
                      | PyAttr => (st, Raised AttributeError, [])  (* setattr_python: nothing to delete *)
                      | _ => (ltab_add st (o, n), Done, [])
                      end
            | Some old =>
                let st1 := dict_del st o n in
                let evs := match t, rd st1 o n with
                           | PyAttr, _ => []                      (* setattr_python: no notification *)
                           | _, Ok new => if value_eqb old new then [] else change_at notify_fuel st1 (o, n) new
                           | _, Raise _ => []
                           end in
                (ltab_add st1 (o, n), Done, evs)                 (* _remove_trait_delegate_listener(name, 0) *)
            end
          else
            (* listenable=False: the class has no __listener_traits__ entry for the name, so
               _remove_trait_delegate_listener(name, 0) has no forwarder to restore (l.3406): an
               ordinary delete *)
            match dict_get st o n with
            | None => match t with
                      | PyAttr => (st, Raised AttributeError, [])
                      | _ => (st, Done, [])
                      end
            | Some old =>
                let st1 := dict_del st o n in
                let evs := match t, rd st1 o n with
                           | PyAttr, _ => []
                           | _, Ok new => if value_eqb old new then [] else change_at notify_fuel st1 (o, n) new
                           | _, Raise _ => []
                           end in
                (st1, Done, evs)
            end
      end
  | _ => (st, Raised OtherError, [])                           (* not part of the quantified histories *)
  end.

Inductive op := Set_ (o : oid) (n : name) (v : value) | Del (o : oid) (n : name).

(* ----- observations ----- *)
Inductive rdres := RV (v : value) | RE (e : exn).
Definition to_rdres (r : res value) : rdres := match r with Ok v => RV v | Raise e => RE e end.

Record obs := mkObs {
  ob_out : outcome;
  ob_events : list event;                  (* calls of the recording handlers: (object, name, new) *)
  ob_reads : list (list rdres);            (* per object, per class trait (table order): getattr *)
  ob_local : list (list bool)              (* per object, per class trait: name in __dict__ *)
}.

Definition trait_names (st : state) (o : oid) : list name := map fst (c_traits (cls_of st o)).
Definition snapshot (st : state) : list (list rdres) :=
  map (fun o => map (fun n => to_rdres (rd st o n)) (trait_names st o)) (seq 0 (length (objs st))).
Definition is_deferring (st : state) (o : oid) (n : name) : bool :=
  match find_trait st o n with Some (Deleg _ _ _) => true | _ => false end.
(* locals are reported for deferring names only (reading a plain trait may cache its default) *)
Definition locals (st : state) : list (list bool) :=
  map (fun o => map (fun n => is_deferring st o n && match dict_get st o n with Some _ => true | None => false end)
                    (trait_names st o)) (seq 0 (length (objs st))).
Definition is_link (st : state) (o : oid) (n : name) : bool :=
  match find_trait st o n with Some Link => true | _ => false end.

Definition step (st : state) (o : op) : state * obs :=
  let '(st', out, evs) := match o with
                          | Set_ x n v => set_attr st x n v
                          | Del x n => del_attr st x n
                          end in
  (* the recording handlers sit on every trait except the delegate references *)
  let evs' := filter (fun e => negb (is_link st (fst (fst e)) (snd (fst e)))
                               && match find_trait st (fst (fst e)) (snd (fst e)) with Some _ => true | None => false end) evs in
  (st', mkObs out evs' (snapshot st') (locals st')).

Fixpoint run (st : state) (ops : list op) : list (op * obs) :=
  match ops with
  | [] => []
  | o :: r => let '(st', ob) := step st o in (o, ob) :: run st' r
  end.

(* object creation: _init_trait_listeners attaches the forwarder of every deferring trait *)
Definition init_ltab (cs : list cls) (os : list obj) : list node :=
  flat_map (fun o => let c := nth (o_cls (nth o os dummy_obj)) cs dummy_cls in
                     flat_map (fun nt => match snd nt with
                                         | Deleg _ _ _ => if unlisted (fst nt) c then [] else [(o, fst nt)]
                                         | _ => [] end)
                              (c_traits c))
           (seq 0 (length os)).
Definition init_state (cs : list cls) (os : list obj) : state := mkS cs os (init_ltab cs os).

(* construction with keyword arguments (Obj(parent=p, x=5)): the local value is stored and
   setattr_delegate detaches the forwarder just attached by _init_trait_listeners (ctraits.c l.2628-2640) *)
Definition init_ltab_k (cs : list cls) (os : list obj) : list node :=
  filter (fun x => match nassoc (snd x) (o_dict (nth (fst x) os dummy_obj)) with Some _ => false | None => true end)
         (init_ltab cs os).
Definition init_state_k (cs : list cls) (os : list obj) : state := mkS cs os (init_ltab_k cs os).
