(* C11 — proofs about the model of deferred traits.  stdlib + lia. *)
From Coq Require Import ZArith List Bool Arith Lia.
From TV Require Import Common.Harness C11.Model C11.Law.
Import ListNotations.
Open Scope Z_scope.

(* ---------- equalities ---------- *)
Lemma name_eqb_refl a : name_eqb a a = true.
Proof. induction a; cbn; auto. rewrite Nat.eqb_refl. exact IHa. Qed.
Lemma name_eqb_eq a : forall b, name_eqb a b = true -> a = b.
Proof.
  induction a as [|x a IH]; destruct b as [|y b]; cbn; try discriminate; auto.
  intros H. apply andb_prop in H. destruct H as [H1 H2]. apply Nat.eqb_eq in H1. apply IH in H2. congruence.
Qed.
Lemma node_eqb_refl x : node_eqb x x = true.
Proof. unfold node_eqb. rewrite Nat.eqb_refl, name_eqb_refl. reflexivity. Qed.
Lemma node_eqb_eq x y : node_eqb x y = true -> x = y.
Proof.
  unfold node_eqb. intros H. apply andb_prop in H. destruct H as [H1 H2].
  apply Nat.eqb_eq in H1. apply name_eqb_eq in H2. destruct x, y; cbn in *; congruence.
Qed.

(* ---------- the four name rules ---------- *)
Lemma attr_name_rules (class_prefix p n : name) :
  attr_name RSame class_prefix n = n /\
  attr_name (RExplicit p) class_prefix n = p /\
  attr_name (RPrefix p) class_prefix n = p ++ n /\
  attr_name RClass class_prefix n = class_prefix ++ n.
Proof. repeat split. Qed.

(* ---------- association lists ---------- *)
Lemma nassoc_nset_same {A} n (a : A) l : nassoc n (nset n a l) = Some a.
Proof.
  induction l as [|[k b] l IH]; cbn.
  - rewrite name_eqb_refl. reflexivity.
  - destruct (name_eqb n k) eqn:E; cbn; rewrite ?name_eqb_refl, ?E; auto.
Qed.
Lemma nassoc_nset_other {A} n m (a : A) l : name_eqb m n = false -> nassoc m (nset n a l) = nassoc m l.
Proof.
  intros Hne. induction l as [|[k b] l IH]; cbn.
  - rewrite Hne. reflexivity.
  - destruct (name_eqb n k) eqn:E; cbn.
    + apply name_eqb_eq in E. subst k. rewrite Hne. reflexivity.
    + destruct (name_eqb m k); auto.
Qed.

Lemma nth_update_same {A} (f : A -> A) d : forall l i, (i < length l)%nat -> nth i (update i f l) d = f (nth i l d).
Proof. induction l as [|x l IH]; intros [|i] H; cbn in *; try lia; auto. apply IH. lia. Qed.
Lemma nth_update_other {A} (f : A -> A) d : forall l i j, i <> j -> nth j (update i f l) d = nth j l d.
Proof. induction l as [|x l IH]; intros [|i] [|j] H; cbn; auto; try congruence. Qed.
Lemma update_length {A} (f : A -> A) : forall l i, length (update i f l) = length l.
Proof. induction l as [|x l IH]; intros [|i]; cbn; auto. Qed.

(* ---------- dict_set leaves classes, class membership and other entries alone ---------- *)
Lemma nth_update_map {A} (f : A -> A) d : (forall a, f a = a -> True) -> f d = d ->
  forall l i j, nth j (update i f l) d = if Nat.eqb i j then f (nth j l d) else nth j l d.
Proof.
  intros _ Hd. induction l as [|x l IH]; intros [|i] [|j]; cbn; auto.
  - destruct (Nat.eqb i j); auto.
Qed.
Lemma o_cls_dict_set st p t w o : o_cls (get_obj (dict_set st p t w) o) = o_cls (get_obj st o).
Proof.
  unfold get_obj, dict_set. cbn [objs].
  generalize (objs st). intros l. revert p o. induction l as [|x l IH]; intros [|p] [|o]; cbn; auto.
Qed.
Lemma cls_of_dict_set st p t w o : cls_of (dict_set st p t w) o = cls_of st o.
Proof. unfold cls_of. rewrite o_cls_dict_set. reflexivity. Qed.
Lemma find_trait_dict_set st p t w o n : find_trait (dict_set st p t w) o n = find_trait st o n.
Proof. unfold find_trait. rewrite cls_of_dict_set. reflexivity. Qed.

Lemma dict_get_dict_set_same st p t w :
  (p < length (objs st))%nat -> dict_get (dict_set st p t w) p t = Some w.
Proof.
  intros Hlt. unfold dict_get, get_obj, dict_set. cbn [objs].
  rewrite nth_update_same by exact Hlt. cbn. apply nassoc_nset_same.
Qed.
Lemma dict_get_dict_set_other st p t w o n :
  node_eqb (o, n) (p, t) = false -> dict_get (dict_set st p t w) o n = dict_get st o n.
Proof.
  intros Hne. unfold dict_get, get_obj, dict_set. cbn [objs].
  destruct (Nat.eq_dec p o) as [->|Hpo].
  - destruct (Nat.lt_ge_cases o (length (objs st))) as [Hlt|Hge].
    + rewrite nth_update_same by exact Hlt. cbn. apply nassoc_nset_other.
      unfold node_eqb in Hne. cbn in Hne. rewrite Nat.eqb_refl in Hne. exact Hne.
    + rewrite (nth_overflow (update o _ _)) by (rewrite update_length; lia).
      rewrite (nth_overflow (objs st)) by lia. reflexivity.
  - rewrite nth_update_other by exact Hpo. reflexivity.
Qed.

(* ---------- reading ---------- *)
(* a node that does not defer reads the same with any positive fuel *)
Lemma read_terminal st o n a b :
  (match find_trait st o n with Some (Deleg _ _ _) => False | _ => True end) ->
  read (S a) st o n = read (S b) st o n.
Proof.
  intros H. cbn [read]. destruct (dict_get st o n); [reflexivity|].
  destruct (find_trait st o n) as [[| | |]|]; try reflexivity. contradiction.
Qed.

(* a local value is what is read, whatever else the heap holds *)
Lemma read_local st o n v g : dict_get st o n = Some v -> read (S g) st o n = Ok v.
Proof. intros H. cbn [read]. rewrite H. reflexivity. Qed.

(* well-formedness used by the agreement theorem *)
Definition links_are_links (st : state) : Prop :=
  forall o n d r m, find_trait st o n = Some (Deleg d r m) -> find_trait st o d = Some Link.
(* excludes finding "through-local": no deferring attribute holds a local value *)
Definition no_deferring_locals (st : state) : Prop :=
  forall o n d r m, find_trait st o n = Some (Deleg d r m) -> dict_get st o n = None.

Lemma read_link st o d a b : find_trait st o d = Some Link -> read (S a) st o d = read (S b) st o d.
Proof. intros H. apply read_terminal. rewrite H. exact I. Qed.

(* The node an assignment through (cur, dn) is stored at is the node its value is read from. *)
Theorem walk_read_agree st :
  links_are_links st -> no_deferring_locals st ->
  forall f cur d r m dn p t tr,
    find_trait st cur dn = Some (Deleg d r m) ->
    walk f st cur d r dn = Ok (p, t, tr) ->
    (match find_trait st p t with Some (Deleg _ _ _) => False | _ => True end) /\
    forall g, read (f + S g) st cur dn = read (S g) st p t.
Proof.
  intros Hlinks Hloc. induction f as [|f IH]; intros cur d r m dn p t tr Htr Hw; [discriminate|].
  cbn [walk] in Hw.
  pose proof (Hlinks _ _ _ _ _ Htr) as Hd.
  destruct (rd st cur d) as [[z| | |p1]|e] eqn:Hrd; try discriminate.
  set (dn' := attr_name r (c_prefix (cls_of st cur)) dn) in *.
  assert (forall g, read (S f + S g) st cur dn = read (f + S g) st p1 dn') as Hstep.
  { intros g. change (S f + S g)%nat with (S (f + S g)). cbn [read].
    rewrite (Hloc _ _ _ _ _ Htr), Htr.
    replace (f + S g)%nat with (S (f + g)) by lia.
    rewrite (read_link st cur d (f + g) 11 Hd). fold read_fuel. fold (rd st cur d). rewrite Hrd. reflexivity. }
  destruct (find_trait st p1 dn') as [[k dflt| |d' r' m'|]|] eqn:Hft.
  - injection Hw as <- <- <-. split; [rewrite Hft; exact I|].
    intros g. rewrite Hstep. destruct f; [reflexivity|]. apply read_terminal. rewrite Hft. exact I.
  - injection Hw as <- <- <-. split; [rewrite Hft; exact I|].
    intros g. rewrite Hstep. destruct f; [reflexivity|]. apply read_terminal. rewrite Hft. exact I.
  - destruct (IH _ _ _ _ _ _ _ _ Hft Hw) as [Hterm Hread]. split; [exact Hterm|].
    intros g. rewrite Hstep. apply Hread.
  - injection Hw as <- <- <-. split; [rewrite Hft; exact I|].
    intros g. rewrite Hstep. destruct f; [reflexivity|]. apply read_terminal. rewrite Hft. exact I.
  - injection Hw as <- <- <-. split; [rewrite Hft; exact I|].
    intros g. rewrite Hstep. destruct f; [reflexivity|]. apply read_terminal. rewrite Hft. exact I.
Qed.

(* ---------- the chain walk: fuel ---------- *)
Theorem walk_fuel_mono st : forall f cur d r dn x,
  walk f st cur d r dn = Ok x -> forall k, walk (f + k) st cur d r dn = Ok x.
Proof.
  induction f as [|f IH]; intros cur d r dn x Hw k; [discriminate|].
  cbn [walk plus] in *. destruct (rd st cur d) as [[z| | |p1]|e]; try discriminate.
  destruct (find_trait st p1 _) as [[| | |]|]; try exact Hw. apply IH. exact Hw.
Qed.

(* what the walk returns never defers again: the chain was followed to its end *)
Theorem walk_terminal st : forall f cur d r dn p t tr,
  walk f st cur d r dn = Ok (p, t, tr) -> match tr with Deleg _ _ _ => False | _ => True end.
Proof.
  induction f as [|f IH]; intros cur d r dn p t tr Hw; [discriminate|].
  cbn [walk] in Hw. destruct (rd st cur d) as [[z| | |p1]|e]; try discriminate.
  destruct (find_trait st p1 _) as [[| | |]|] eqn:E; try (injection Hw as <- <- <-; exact I).
  eapply IH. exact Hw.
Qed.

(* ---------- assignments ---------- *)
Definition checked_by (t : trait) (v : value) : option value :=
  match t with
  | Normal k _ => validate k v
  | Link => validate_link v
  | Deleg _ _ _ => None
  | PyAttr => Some v
  end.

(* invalid for the trait at the end of the chain: TraitError, nothing changes, nobody is notified *)
Theorem invalid_rejected st o n d r m p t tr v :
  find_trait st o n = Some (Deleg d r m) ->
  walk 100 st o d r n = Ok (p, t, tr) ->
  checked_by tr v = None ->
  set_attr st o n v = (st, Raised TraitError, []).
Proof.
  intros Htr Hw Hc. unfold set_attr. rewrite Htr, Hw.
  destruct m.
  - unfold set_plain. destruct tr; cbn in Hc; try rewrite Hc; try reflexivity. discriminate.
  - destruct tr; cbn in Hc; try rewrite Hc; try reflexivity. discriminate.
Qed.

(* DelegatesTo: a valid assignment is one dict store at the end of the chain, nothing else *)
Theorem delegatesto_store st o n d r p t tr v w :
  find_trait st o n = Some (Deleg d r true) ->
  walk 100 st o d r n = Ok (p, t, tr) ->
  checked_by tr v = Some w ->
  fst (fst (set_attr st o n v)) = dict_set st p t w /\ snd (fst (set_attr st o n v)) = Done.
Proof.
  intros Htr Hw Hc. unfold set_attr. rewrite Htr, Hw. unfold set_plain.
  pose proof (walk_terminal _ _ _ _ _ _ _ _ _ Hw) as Ht.
  destruct tr; cbn in Hc; try contradiction; rewrite ?Hc; try (injection Hc as ->); split; reflexivity.
Qed.

(* PrototypedFrom: a valid assignment is one dict store in the deferring object itself (the
   prototype's dict is untouched), and the forwarder is detached *)
Theorem prototyped_store st o n d r p t tr v w old :
  find_trait st o n = Some (Deleg d r false) ->
  walk 100 st o d r n = Ok (p, t, tr) ->
  checked_by tr v = Some w ->
  rd st o n = Ok old ->
  fst (fst (set_attr st o n v)) = ltab_del (dict_set st o n w) (o, n) /\ snd (fst (set_attr st o n v)) = Done.
Proof.
  intros Htr Hw Hc Hrd. unfold set_attr. rewrite Htr, Hw.
  pose proof (walk_terminal _ _ _ _ _ _ _ _ _ Hw) as Ht.
  destruct tr; cbn in Hc; try contradiction; rewrite ?Hc; try (injection Hc as ->); rewrite Hrd; split; reflexivity.
Qed.

(* ... after which it reads as the local value, and keeps doing so whatever is stored anywhere else *)
Theorem prototyped_local_independent st o n w :
  dict_get st o n = Some w ->
  forall p t v g, node_eqb (o, n) (p, t) = false ->
    read (S g) (dict_set st p t v) o n = Ok w.
Proof.
  intros Hl p t v g Hne. apply read_local. rewrite dict_get_dict_set_other by exact Hne. exact Hl.
Qed.

Theorem read_after_local_store st o n w g :
  (o < length (objs st))%nat -> read (S g) (ltab_del (dict_set st o n w) (o, n)) o n = Ok w.
Proof.
  intros Hlt. apply read_local.
  change (dict_get (ltab_del (dict_set st o n w) (o, n)) o n) with (dict_get (dict_set st o n w) o n).
  apply dict_get_dict_set_same. exact Hlt.
Qed.

(* ---------- deleting the local value ---------- *)
Lemma nassoc_ndel_same {A} n (l : list (name * A)) : nassoc n (ndel n l) = None.
Proof.
  induction l as [|[k b] l IH]; cbn; [reflexivity|].
  destruct (name_eqb n k) eqn:E; [exact IH|]. cbn. rewrite E. exact IH.
Qed.
Lemma nassoc_ndel_other {A} n m (l : list (name * A)) : name_eqb m n = false -> nassoc m (ndel n l) = nassoc m l.
Proof.
  intros Hne. induction l as [|[k b] l IH]; cbn; [reflexivity|].
  destruct (name_eqb n k) eqn:E.
  - apply name_eqb_eq in E. subst k. rewrite Hne. exact IH.
  - cbn. destruct (name_eqb m k); auto.
Qed.

Lemma has_node_add x l : has_node x (if has_node x l then l else l ++ [x]) = true.
Proof.
  destruct (has_node x l) eqn:E; [exact E|].
  unfold has_node. rewrite existsb_app. cbn. rewrite node_eqb_refl. rewrite orb_true_r. reflexivity.
Qed.

Theorem delete_restores_link st o n d r p t tr old :
  (o < length (objs st))%nat ->
  find_trait st o n = Some (Deleg d r false) ->
  walk 100 st o d r n = Ok (p, t, tr) ->
  dict_get st o n = Some old ->
  let st' := fst (fst (del_attr st o n)) in
  st' = (if listenable st o n then ltab_add (dict_del st o n) (o, n) else dict_del st o n) /\
  dict_get st' o n = None /\
  (listenable st o n = true -> has_node (o, n) (ltab st') = true) /\
  (listenable st o n = false -> ltab st' = ltab st) /\
  snd (fst (del_attr st o n)) = Done.
Proof.
  intros Hlt Htr Hw Hl st'. subst st'. unfold del_attr. rewrite Htr, Hw, Hl.
  assert (dict_get (dict_del st o n) o n = None) as Hnone.
  { unfold dict_get, get_obj, dict_del. cbn [objs]. rewrite nth_update_same by exact Hlt. cbn.
    apply nassoc_ndel_same. }
  destruct (listenable st o n); cbn [fst snd].
  - split; [reflexivity|]. split; [exact Hnone|]. split; [|split; [discriminate|reflexivity]].
    intros _. unfold ltab_add. cbn [ltab]. apply has_node_add.
  - split; [reflexivity|]. split; [exact Hnone|]. split; [discriminate|]. split; reflexivity.
Qed.

(* ---------- forwarding ---------- *)
(* every notified node is the changed node itself or has its forwarder attached *)
Theorem notified_only_if_attached st : forall f x w e,
  In e (change_at f st x w) -> fst e = x \/ has_node (fst e) (ltab st) = true.
Proof.
  induction f as [|f IH]; intros x w e Hin; [contradiction|].
  cbn [change_at] in Hin. destruct Hin as [<-|Hin].
  - left. destruct x. reflexivity.
  - right. apply in_flat_map in Hin. destruct Hin as (y & Hy & Hin).
    destruct (depends_on st y x); [|contradiction].
    destruct (IH _ _ _ Hin) as [->|H]; [|exact H].
    unfold has_node. apply existsb_exists. exists y. split; [exact Hy|apply node_eqb_refl].
Qed.

(* ... and every attached forwarder whose current delegate / target name is the changed node is
   notified, with the new value *)
Theorem attached_dependent_notified st f x y w :
  In y (ltab st) -> depends_on st y x = true ->
  In (fst y, snd y, w) (change_at (S (S f)) st x w).
Proof.
  intros Hy Hd. cbn [change_at]. right. apply in_flat_map. exists y. split; [exact Hy|].
  rewrite Hd. left. reflexivity.
Qed.

(* the notified value is always the new value *)
Theorem notified_with_new_value st : forall f x w e, In e (change_at f st x w) -> snd e = w.
Proof.
  induction f as [|f IH]; intros x w e Hin; [contradiction|].
  cbn [change_at] in Hin. destruct Hin as [<-|Hin]; [reflexivity|].
  apply in_flat_map in Hin. destruct Hin as (y & _ & Hin).
  destruct (depends_on st y x); [|contradiction]. eapply IH. exact Hin.
Qed.
