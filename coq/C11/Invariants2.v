(* C11 — the history invariant WITHOUT the restrictions of Invariants.v: deferring attributes may be
   declared listenable=False (no forwarder, ever), and objects may be constructed with keyword
   arguments that give PrototypedFrom attributes a local value (Model.init_state_k).  Subclasses that
   re-declare a deferring attribute are ordinary class tables (the flattened class_traits of the
   subclass) and a delegate supplied by a default initialiser is an ordinary dict entry of the model,
   so both are covered by "all class tables, all pools".
     inv2: a DelegatesTo attribute never has a local value; the forwarder of a deferring attribute is
           attached  iff  it is listenable and has no local value. *)
From Coq Require Import ZArith List Bool Arith Lia.
From TV Require Import Common.Harness C11.Model C11.Law C11.Proofs C11.Invariants.
Import ListNotations.
Open Scope Z_scope.

Record inv2 (st : state) : Prop := mkInv2 {
  inv2_modify : forall o n d r, find_trait st o n = Some (Deleg d r true) -> dict_get st o n = None;
  inv2_ltab : forall o n, (o < length (objs st))%nat ->
              (has_node (o, n) (ltab st) = true <->
               (deferring st o n /\ dict_get st o n = None /\ listenable st o n = true))
}.

Lemma listenable_dict_set st p t w o n : listenable (dict_set st p t w) o n = listenable st o n.
Proof. unfold listenable. rewrite cls_of_dict_set. reflexivity. Qed.
Lemma listenable_dict_del st p t o n : listenable (dict_del st p t) o n = listenable st o n.
Proof. unfold listenable. rewrite cls_of_dict_del. reflexivity. Qed.
Lemma listenable_relabel st l o n : listenable (mkS (classes st) (objs st) l) o n = listenable st o n.
Proof. reflexivity. Qed.
Lemma deferring_dict_set st p t w o n : deferring (dict_set st p t w) o n <-> deferring st o n.
Proof. unfold deferring. setoid_rewrite find_trait_dict_set. reflexivity. Qed.
Lemma deferring_dict_del st p t o n : deferring (dict_del st p t) o n <-> deferring st o n.
Proof. unfold deferring. setoid_rewrite find_trait_dict_del. reflexivity. Qed.
Lemma deferring_relabel st l o n : deferring (mkS (classes st) (objs st) l) o n <-> deferring st o n.
Proof. reflexivity. Qed.

Lemma length_dict_set st p t w : length (objs (dict_set st p t w)) = length (objs st).
Proof. unfold dict_set. cbn [objs]. apply update_length. Qed.
Lemma length_dict_del st p t : length (objs (dict_del st p t)) = length (objs st).
Proof. unfold dict_del. cbn [objs]. apply update_length. Qed.

(* storing at a node that does not defer *)
Lemma inv2_dict_set_plain st p t w :
  inv2 st -> (forall d r m, find_trait st p t <> Some (Deleg d r m)) -> inv2 (dict_set st p t w).
Proof.
  intros [Hm Hl] Hnd.
  assert (forall o n, deferring st o n -> dict_get (dict_set st p t w) o n = dict_get st o n) as Hkeep.
  { intros o n (d & r & m & Htr). apply dict_get_dict_set_other.
    apply (node_neq_by_trait st). rewrite Htr. intros E. symmetry in E. eapply Hnd. exact E. }
  split.
  - intros o n d r Htr. rewrite find_trait_dict_set in Htr.
    rewrite Hkeep by (exists d, r, true; exact Htr). eauto.
  - intros o n Ho. rewrite length_dict_set in Ho. change (ltab (dict_set st p t w)) with (ltab st).
    rewrite (Hl _ _ Ho), deferring_dict_set, listenable_dict_set.
    split; intros (Hd & Hg & Hli); (split; [exact Hd|split; [|exact Hli]]).
    + rewrite Hkeep by exact Hd. exact Hg.
    + rewrite Hkeep in Hg by exact Hd. exact Hg.
Qed.

(* a local store on a PrototypedFrom node, forwarder detached *)
Lemma inv2_local_store st o n d r w :
  inv2 st -> find_trait st o n = Some (Deleg d r false) -> (o < length (objs st))%nat ->
  inv2 (ltab_del (dict_set st o n w) (o, n)).
Proof.
  intros [Hm Hl] Htr Hlt. unfold ltab_del. split.
  - intros o' n' d' r' Htr'. rewrite find_trait_relabel, find_trait_dict_set in Htr'.
    rewrite dict_get_relabel. rewrite dict_get_dict_set_other; [eauto|].
    apply (node_neq_by_trait st). rewrite Htr', Htr. discriminate.
  - intros o' n' Ho'. cbn [objs] in Ho'. rewrite length_dict_set in Ho'. cbn [ltab].
    change (ltab (dict_set st o n w)) with (ltab st).
    rewrite has_node_filter_neq, deferring_relabel, deferring_dict_set, dict_get_relabel,
            listenable_relabel, listenable_dict_set.
    destruct (node_eqb (o, n) (o', n')) eqn:E.
    + apply node_eqb_eq in E. injection E as <- <-. rewrite andb_false_r.
      rewrite dict_get_dict_set_same by exact Hlt. split; [discriminate|]. intros (_ & H & _). discriminate.
    + rewrite andb_true_r. rewrite (Hl _ _ Ho').
      rewrite dict_get_dict_set_other by (rewrite node_eqb_sym; exact E). reflexivity.
Qed.

(* the local value of a listenable attribute deleted: forwarder re-attached *)
Lemma inv2_local_delete st o n d r :
  inv2 st -> find_trait st o n = Some (Deleg d r false) -> listenable st o n = true ->
  inv2 (ltab_add (dict_del st o n) (o, n)).
Proof.
  intros [Hm Hl] Htr Hli. unfold ltab_add. split.
  - intros o' n' d' r' Htr'. rewrite find_trait_relabel, find_trait_dict_del in Htr'. rewrite dict_get_relabel.
    rewrite dict_get_dict_del_other; [eauto|].
    apply (node_neq_by_trait st). rewrite Htr', Htr. discriminate.
  - intros o' n' Ho'. cbn [objs] in Ho'. rewrite length_dict_del in Ho'. cbn [ltab].
    change (ltab (dict_del st o n)) with (ltab st).
    rewrite deferring_relabel, deferring_dict_del, dict_get_relabel, listenable_relabel, listenable_dict_del.
    destruct (node_eqb (o', n') (o, n)) eqn:E.
    + apply node_eqb_eq in E. injection E as -> ->. rewrite has_node_add.
      rewrite dict_get_dict_del_same. split; [|reflexivity]. intros _.
      split; [exists d, r, false; exact Htr|]. split; [reflexivity|exact Hli].
    + rewrite has_node_add_other by exact E. rewrite (Hl _ _ Ho').
      rewrite dict_get_dict_del_other by exact E. reflexivity.
Qed.

(* the local value of a listenable=False attribute deleted (an ordinary delete since fcaa594):
   no forwarder before, none after *)
Lemma inv2_local_delete_unlistenable st o n d r :
  inv2 st -> find_trait st o n = Some (Deleg d r false) -> listenable st o n = false ->
  inv2 (dict_del st o n).
Proof.
  intros [Hm Hl] Htr Hli. split.
  - intros o' n' d' r' Htr'. rewrite find_trait_dict_del in Htr'.
    rewrite dict_get_dict_del_other; [eauto|].
    apply (node_neq_by_trait st). rewrite Htr', Htr. discriminate.
  - intros o' n' Ho'. rewrite length_dict_del in Ho'. change (ltab (dict_del st o n)) with (ltab st).
    rewrite deferring_dict_del, listenable_dict_del, (Hl _ _ Ho').
    destruct (node_eqb (o', n') (o, n)) eqn:E.
    + apply node_eqb_eq in E. injection E as -> ->. rewrite Hli.
      split; intros (_ & _ & H); discriminate.
    + rewrite dict_get_dict_del_other by exact E. reflexivity.
Qed.

Lemma inv2_ltab_add_linked st o n d r :
  inv2 st -> find_trait st o n = Some (Deleg d r false) -> dict_get st o n = None ->
  listenable st o n = true -> (o < length (objs st))%nat ->
  inv2 (ltab_add st (o, n)).
Proof.
  intros [Hm Hl] Htr Hd Hli Ho. split.
  - exact Hm.
  - intros o' n' Ho'. unfold ltab_add. cbn [ltab].
    assert (has_node (o, n) (ltab st) = true) as Hin
      by (apply (Hl _ _ Ho); split; [exists d, r, false; exact Htr|split; assumption]).
    rewrite Hin. apply Hl. exact Ho'.
Qed.

(* ----- every operation keeps the invariant: no restriction on the classes ----- *)
Theorem step_inv2 st o :
  inv2 st -> (match o with Set_ x _ _ | Del x _ => (x < length (objs st))%nat end) -> inv2 (fst (step st o)).
Proof.
  intros Hi Hx. unfold step. destruct o as [x n v|x n].
  - unfold set_attr. destruct (find_trait st x n) as [[k dflt| |d r m|]|] eqn:Htr; cbn [fst].
    + unfold set_plain. destruct (validate k v); cbn [fst]; [|exact Hi].
      apply inv2_dict_set_plain; [exact Hi|]. intros; rewrite Htr; discriminate.
    + unfold set_plain. destruct (validate_link v); cbn [fst]; [|exact Hi].
      apply inv2_dict_set_plain; [exact Hi|]. intros; rewrite Htr; discriminate.
    + destruct (walk 100 st x d r n) as [[[p t] tr]|e] eqn:Hw; cbn [fst]; [|exact Hi].
      pose proof (walk_result _ _ _ _ _ _ _ _ _ Hw) as Hnd.
      destruct m.
      * unfold set_plain. destruct tr as [k dflt| |d' r' m'|].
        -- destruct (validate k v); cbn [fst]; [apply inv2_dict_set_plain; assumption|exact Hi].
        -- destruct (validate_link v); cbn [fst]; [apply inv2_dict_set_plain; assumption|exact Hi].
        -- exact Hi.
        -- cbn [fst]. apply inv2_dict_set_plain; assumption.
      * destruct tr as [k dflt| |d' r' m'|]; cbn zeta.
        -- destruct (validate k v) as [w|]; [|exact Hi]. destruct (rd st x n); [|exact Hi]. cbn [fst].
           eapply inv2_local_store; eauto.
        -- destruct (validate_link v) as [w|]; [|exact Hi]. destruct (rd st x n); [|exact Hi]. cbn [fst].
           eapply inv2_local_store; eauto.
        -- exact Hi.
        -- destruct (rd st x n); [|exact Hi]. cbn [fst]. eapply inv2_local_store; eauto.
    + unfold set_plain. cbn [fst]. apply inv2_dict_set_plain; [exact Hi|]. intros; rewrite Htr; discriminate.
    + exact Hi.
  - unfold del_attr. destruct (find_trait st x n) as [[k dflt| |d r [|]|]|] eqn:Htr; cbn [fst]; try exact Hi.
    destruct (walk 100 st x d r n) as [[[p t] tr]|e] eqn:Hw; cbn [fst]; [|exact Hi].
    destruct (listenable st x n) eqn:Hli; destruct (dict_get st x n) as [old|] eqn:Hd; cbn [fst].
    + eapply inv2_local_delete; eauto.
    + destruct tr; cbn [fst]; try exact Hi; eapply inv2_ltab_add_linked; eauto.
    + eapply inv2_local_delete_unlistenable; eauto.
    + destruct tr; exact Hi.
Qed.

Theorem history_inv2 : forall ops st,
  inv2 st -> Forall (fun o => match o with Set_ x _ _ | Del x _ => (x < length (objs st))%nat end) ops ->
  inv2 (final st ops).
Proof.
  induction ops as [|o r IH]; intros st Hi Hr; [exact Hi|].
  inversion Hr as [|? ? Ho Hr']; subst. cbn [final]. apply IH.
  - apply step_inv2; assumption.
  - rewrite step_length. exact Hr'.
Qed.

(* ----- the initial pool, with constructor keywords and listenable=False declarations ----- *)
Theorem init_inv2_k cs os :
  wf_classes cs ->
  (forall o n d r, find_trait (init_state_k cs os) o n = Some (Deleg d r true) ->
                   dict_get (init_state_k cs os) o n = None) ->
  inv2 (init_state_k cs os).
Proof.
  intros Hwf Hmod. split; [exact Hmod|].
  intros o n Ho. cbn [init_state_k objs] in Ho. rewrite has_node_In.
  unfold init_state_k at 1. cbn [ltab]. unfold init_ltab_k. rewrite filter_In.
  unfold init_ltab. rewrite in_flat_map.
  assert (forall o', cls_of (init_state_k cs os) o' = nth (o_cls (nth o' os dummy_obj)) cs dummy_cls) as Hcls by reflexivity.
  assert (forall o' n', dict_get (init_state_k cs os) o' n' = nassoc n' (o_dict (nth o' os dummy_obj))) as Hdg by reflexivity.
  split.
  - intros [(o' & Ho' & Hin) Hfilt]. cbn zeta in Hin. apply in_flat_map in Hin.
    destruct Hin as ([n' t'] & Hnt & Hin). cbn [fst snd] in Hin.
    destruct t' as [| |d r m|]; try contradiction.
    destruct (unlisted n' _) eqn:Hu; [contradiction|]. destruct Hin as [[= <- <-]|[]].
    cbn [fst snd] in Hfilt.
    split; [|split].
    + exists d, r, m. unfold find_trait. rewrite Hcls. apply In_nassoc; [|exact Hnt].
      destruct (nth_in_or_default (o_cls (nth o' os dummy_obj)) cs dummy_cls) as [Hc|Hc];
        [apply Hwf; exact Hc|rewrite Hc; constructor].
    + rewrite Hdg. destruct (nassoc n' _); [discriminate|reflexivity].
    + unfold listenable. rewrite Hcls, Hu. reflexivity.
  - intros ((d & r & m & Htr) & Hd & Hli). split.
    + exists o. split; [apply in_seq; lia|]. cbn zeta. apply in_flat_map. exists (n, Deleg d r m).
      split; [apply nassoc_In; exact Htr|]. cbn [fst snd].
      unfold listenable in Hli. rewrite Hcls in Hli. apply negb_true_iff in Hli. rewrite Hli. left. reflexivity.
    + cbn [fst snd]. rewrite Hdg in Hd. rewrite Hd. reflexivity.
Qed.

(* ----- decidable forms of the two hypotheses ----- *)
Fixpoint name_mem (n : name) (l : list name) : bool :=
  match l with [] => false | x :: r => name_eqb n x || name_mem n r end.
Fixpoint nodupb (l : list name) : bool :=
  match l with [] => true | x :: r => negb (name_mem x r) && nodupb r end.
Lemma name_mem_In n l : In n l -> name_mem n l = true.
Proof. induction l as [|x r IH]; cbn; [contradiction|]. intros [->|H]; [rewrite name_eqb_refl; reflexivity|rewrite IH by exact H; apply orb_true_r]. Qed.
Lemma nodupb_sound l : nodupb l = true -> NoDup l.
Proof.
  induction l as [|x r IH]; cbn; [constructor|]. intros H. apply andb_prop in H. destruct H as [H1 H2].
  constructor; [|apply IH; exact H2]. intros Hin. rewrite (name_mem_In _ _ Hin) in H1. discriminate.
Qed.
Definition wf_classesb (cs : list cls) : bool := forallb (fun c => nodupb (map fst (c_traits c))) cs.
Lemma wf_classesb_sound cs : wf_classesb cs = true -> wf_classes cs.
Proof. intros H c Hc. unfold wf_classesb in H. rewrite forallb_forall in H. apply nodupb_sound. apply H. exact Hc. Qed.

Definition modify_no_localb (cs : list cls) (os : list obj) : bool :=
  forallb (fun ob => forallb (fun e => match nassoc (fst e) (c_traits (nth (o_cls ob) cs dummy_cls)) with
                                       | Some (Deleg _ _ true) => false
                                       | _ => true
                                       end) (o_dict ob)) os.
Lemma modify_no_localb_sound cs os :
  modify_no_localb cs os = true ->
  forall o n d r, find_trait (init_state_k cs os) o n = Some (Deleg d r true) ->
                  dict_get (init_state_k cs os) o n = None.
Proof.
  intros H o n d r Htr. unfold modify_no_localb in H. rewrite forallb_forall in H.
  change (dict_get (init_state_k cs os) o n) with (nassoc n (o_dict (nth o os dummy_obj))).
  change (find_trait (init_state_k cs os) o n)
    with (nassoc n (c_traits (nth (o_cls (nth o os dummy_obj)) cs dummy_cls))) in Htr.
  destruct (nassoc n (o_dict (nth o os dummy_obj))) as [v|] eqn:Hd; [|reflexivity].
  exfalso. destruct (Nat.lt_ge_cases o (length os)) as [Hlt|Hge].
  - specialize (H (nth o os dummy_obj) (nth_In _ _ Hlt)). rewrite forallb_forall in H.
    specialize (H (n, v) (nassoc_In _ _ _ Hd)). cbn [fst] in H. rewrite Htr in H. discriminate.
  - rewrite nth_overflow in Hd by exact Hge. discriminate.
Qed.
