(* C11 — property theorems only.  Each is closed by [exact] of a lemma of Proofs.v / Invariants.v
   and followed by Print Assumptions.

   The theorems speak about the model of Model.v for ALL configurations (any number of classes and
   objects, any trait tables, chains of any length below the 100-step limit), all values and all
   histories.  One hypothesis excludes the one remaining recorded finding, whose witness is proved below:
     no_deferring_locals / good_chain  (no deferring attribute on the chain holds a local value;
                                        otherwise a DelegatesTo assignment is stored past it).
   The two findings repaired in /repo (2e526b5: every link of a chain is named from the object that owns
   it; fcaa594: del of a listenable=False attribute is an ordinary delete) no longer need a hypothesis:
   [same_prefix] and the [listenable] premise of delete_restores_link are gone, and the former witnesses
   are now positive examples. *)
From Coq Require Import ZArith List Bool Arith.
From TV Require Import Common.Harness C11.Model C11.Law C11.Proofs C11.Invariants C11.Chain C11.Invariants2.
Import ListNotations.
Open Scope Z_scope.

Theorem attr_name_table :
  forall class_prefix p n : name,
    attr_name RSame class_prefix n = n /\
    attr_name (RExplicit p) class_prefix n = p /\
    attr_name (RPrefix p) class_prefix n = p ++ n /\
    attr_name RClass class_prefix n = class_prefix ++ n.
Proof. exact attr_name_rules. Qed.
Print Assumptions attr_name_table.

(* the chain walk is total (structural recursion on the 100-step budget), returns a node that does
   not defer again, and its answer does not depend on budget left over *)
Theorem chain_terminates_or_errors :
  forall st f cur d r dn,
    (forall x, walk f st cur d r dn = Ok x -> forall k, walk (f + k) st cur d r dn = Ok x) /\
    (forall p t tr, walk f st cur d r dn = Ok (p, t, tr) ->
       (match tr with Deleg _ _ _ => False | _ => True end) /\
       forall d' r' m', find_trait st p t <> Some (Deleg d' r' m')).
Proof.
  intros st f cur d r dn. split.
  - intros x H. exact (walk_fuel_mono st f cur d r dn x H).
  - intros p t tr H. split.
    + exact (walk_terminal st f cur d r dn p t tr H).
    + exact (walk_result st f cur d r dn p t tr H).
Qed.
Print Assumptions chain_terminates_or_errors.

(* a deferring attribute reads as the attribute at the end of its chain: the very node an assignment
   through it addresses *)
Theorem delegatesto_reads_target :
  forall st, links_are_links st -> no_deferring_locals st ->
  forall f cur d r m dn p t tr,
    find_trait st cur dn = Some (Deleg d r m) ->
    walk f st cur d r dn = Ok (p, t, tr) ->
    (match find_trait st p t with Some (Deleg _ _ _) => False | _ => True end) /\
    forall g, read (f + S g) st cur dn = read (S g) st p t.
Proof. exact walk_read_agree. Qed.
Print Assumptions delegatesto_reads_target.

(* DelegatesTo: one dict store, at the end of the chain, in the delegate - and it is read back *)
Theorem delegatesto_writes_delegate_only :
  forall st o n d r p t k dflt v w,
  links_are_links st -> no_deferring_locals st ->
  find_trait st o n = Some (Deleg d r true) ->
  walk 100 st o d r n = Ok (p, t, Normal k dflt) ->
  validate k v = Some w -> (p < length (objs st))%nat ->
  let st' := fst (fst (set_attr st o n v)) in
  st' = dict_set st p t w /\ forall g, read (100 + S g) st' o n = Ok w.
Proof. exact delegatesto_write_then_read. Qed.
Print Assumptions delegatesto_writes_delegate_only.

(* the same two theorems with CHAIN-LOCAL hypotheses ([good_chain]: along the chain of this attribute no
   hop holds a local value); other attributes may hold any local values *)
Theorem delegatesto_reads_target_chain_local :
  forall st f cur d r m dn p t tr,
    good_chain st cur dn ->
    find_trait st cur dn = Some (Deleg d r m) ->
    walk f st cur d r dn = Ok (p, t, tr) ->
    (forall d' r' m', find_trait st p t <> Some (Deleg d' r' m')) /\
    forall g, read (f + S g) st cur dn = read (S g) st p t.
Proof. exact walk_read_agree_local. Qed.
Print Assumptions delegatesto_reads_target_chain_local.

Theorem delegatesto_writes_delegate_only_chain_local :
  forall st o n d r p t k dflt v w,
  good_chain st o n ->
  find_trait st o n = Some (Deleg d r true) ->
  walk 100 st o d r n = Ok (p, t, Normal k dflt) ->
  validate k v = Some w -> (p < length (objs st))%nat ->
  let st' := fst (fst (set_attr st o n v)) in
  st' = dict_set st p t w /\ forall g, read (100 + S g) st' o n = Ok w.
Proof. exact delegatesto_write_then_read_local. Qed.
Print Assumptions delegatesto_writes_delegate_only_chain_local.

(* PrototypedFrom: the assignment is validated by the trait at the end of the chain and stored in the
   deferring object only; it then reads as the local value *)
Theorem prototyped_reads_until_local :
  forall st o n d r p t tr v w old,
  find_trait st o n = Some (Deleg d r false) ->
  walk 100 st o d r n = Ok (p, t, tr) ->
  checked_by tr v = Some w -> rd st o n = Ok old -> (o < length (objs st))%nat ->
  fst (fst (set_attr st o n v)) = ltab_del (dict_set st o n w) (o, n) /\
  snd (fst (set_attr st o n v)) = Done /\
  forall g, read (S g) (fst (fst (set_attr st o n v))) o n = Ok w.
Proof.
  intros st o n d r p t tr v w old Htr Hw Hc Hrd Ho.
  destruct (prototyped_store st o n d r p t tr v w old Htr Hw Hc Hrd) as [H1 H2].
  split; [exact H1|]. split; [exact H2|].
  intros g. rewrite H1. exact (read_after_local_store st o n w g Ho).
Qed.
Print Assumptions prototyped_reads_until_local.

Theorem prototyped_local_independent :
  forall st o n w, dict_get st o n = Some w ->
  forall p t v g, node_eqb (o, n) (p, t) = false -> read (S g) (dict_set st p t v) o n = Ok w.
Proof. exact Proofs.prototyped_local_independent. Qed.
Print Assumptions prototyped_local_independent.

Theorem delete_restores_link :
  forall st o n d r p t tr old,
  (o < length (objs st))%nat ->
  find_trait st o n = Some (Deleg d r false) ->
  walk 100 st o d r n = Ok (p, t, tr) ->
  dict_get st o n = Some old ->
  let st' := fst (fst (del_attr st o n)) in
  st' = (if listenable st o n then ltab_add (dict_del st o n) (o, n) else dict_del st o n) /\
  dict_get st' o n = None /\
  (listenable st o n = true -> has_node (o, n) (ltab st') = true) /\
  (listenable st o n = false -> ltab st' = ltab st) /\
  snd (fst (del_attr st o n)) = Done.
Proof. exact Proofs.delete_restores_link. Qed.
Print Assumptions delete_restores_link.

Theorem invalid_assignment_rejected_by_target_trait :
  forall st o n d r m p t tr v,
  find_trait st o n = Some (Deleg d r m) ->
  walk 100 st o d r n = Ok (p, t, tr) ->
  checked_by tr v = None ->
  set_attr st o n v = (st, Raised TraitError, []).
Proof. exact invalid_rejected. Qed.
Print Assumptions invalid_assignment_rejected_by_target_trait.

(* forwarding: after ANY history from a well-formed initial pool, the forwarder of a deferring
   attribute is attached iff it has no local value (DelegatesTo: always); a change notifies exactly
   the attached forwarders that currently point at the changed attribute, with the new value *)
Theorem forward_iff_linked :
  forall cs os ops,
  wf_classes cs -> all_listenable (init_state cs os) ->
  (forall o n, deferring (init_state cs os) o n -> dict_get (init_state cs os) o n = None) ->
  Forall (fun o => match o with Set_ x _ _ | Del x _ => (x < length os)%nat end) ops ->
  let st := final (init_state cs os) ops in
  (forall o n d r, find_trait st o n = Some (Deleg d r true) -> dict_get st o n = None) /\
  (forall o n, (o < length (objs st))%nat ->
     (has_node (o, n) (ltab st) = true <-> (deferring st o n /\ dict_get st o n = None))) /\
  (forall f x w e, In e (change_at f st x w) ->
     (fst e = x \/ has_node (fst e) (ltab st) = true) /\ snd e = w) /\
  (forall f x y w, In y (ltab st) -> depends_on st y x = true ->
     In (fst y, snd y, w) (change_at (S (S f)) st x w)).
Proof.
  intros cs os ops Hwf Hal Hnl Hr st.
  assert (inv st) as [Hm Hl].
  { apply history_inv; [apply init_inv; [constructor|exact Hwf|exact Hal|exact Hnl]|exact Hal|exact Hr]. }
  split; [exact Hm|]. split; [exact Hl|]. split.
  - intros f x w e Hin. split; [exact (notified_only_if_attached st f x w e Hin)|exact (notified_with_new_value st f x w e Hin)].
  - intros f x y w Hy Hd. exact (attached_dependent_notified st f x y w Hy Hd).
Qed.
Print Assumptions forward_iff_linked.

(* the same for ALL class tables and pools of the correspondence: attributes declared listenable=False,
   objects constructed with keyword arguments that give PrototypedFrom attributes a local value
   (init_state_k), subclasses re-declaring a deferring attribute (= their flattened table), delegates
   from a default initialiser (= a dict entry).  The forwarder is attached iff the attribute is
   listenable and has no local value - after every history. *)
Theorem forward_iff_linked_general :
  forall cs os ops,
  wf_classes cs ->
  (forall o n d r, find_trait (init_state_k cs os) o n = Some (Deleg d r true) ->
                   dict_get (init_state_k cs os) o n = None) ->
  Forall (fun o => match o with Set_ x _ _ | Del x _ => (x < length os)%nat end) ops ->
  let st := final (init_state_k cs os) ops in
  (forall o n d r, find_trait st o n = Some (Deleg d r true) -> dict_get st o n = None) /\
  (forall o n, (o < length (objs st))%nat ->
     (has_node (o, n) (ltab st) = true <->
      (deferring st o n /\ dict_get st o n = None /\ listenable st o n = true))) /\
  (forall f x w e, In e (change_at f st x w) ->
     (fst e = x \/ has_node (fst e) (ltab st) = true) /\ snd e = w) /\
  (forall f x y w, In y (ltab st) -> depends_on st y x = true ->
     In (fst y, snd y, w) (change_at (S (S f)) st x w)).
Proof.
  intros cs os ops Hwf Hmod Hr st.
  assert (inv2 st) as [Hm Hl] by (apply history_inv2; [apply init_inv2_k; assumption|exact Hr]).
  split; [exact Hm|]. split; [exact Hl|]. split.
  - intros f x w e Hin. split; [exact (notified_only_if_attached st f x w e Hin)|exact (notified_with_new_value st f x w e Hin)].
  - intros f x y w Hy Hd. exact (attached_dependent_notified st f x y w Hy Hd).
Qed.
Print Assumptions forward_iff_linked_general.

(* ---------- the remaining finding (the model, which follows the code, violates the law) and the two
   repaired ones (positive examples on the former witnesses) ---------- *)
Definition X := [0%nat]. Definition Y := [1%nat]. Definition A := [2%nat]. Definition B := [3%nat].
Definition R := [4%nat]. Definition PARENT := [20%nat].
Definition par : cls := mkC [12%nat] [(PARENT, Link); (X, Normal KInt (VInt 1)); ([12%nat; 3%nat], Normal KInt (VInt 5));
                                       ([11%nat; 3%nat], Normal KRange (VInt 6)); (R, Normal KRange (VInt 7))] [].
Definition mid : cls := mkC [12%nat] [(PARENT, Link); (B, Deleg PARENT RClass true); (R, Deleg PARENT RSame false)] [].
Definition top : cls := mkC [11%nat] [(PARENT, Link); (A, Deleg PARENT (RExplicit B) true); (Y, Deleg PARENT (RExplicit R) true)] [].
Definition pool : list obj := [mkO 0 []; mkO 1 [(PARENT, VObj 0%nat)]; mkO 2 [(PARENT, VObj 1%nat)]].
Definition st0 := init_state [par; mid; top] pool.

(* REPAIRED (2e526b5), the former witness of "class-prefix-at-later-hop": '*' style at the second hop, classes
   with different __prefix__ - c.a = 44 is stored in p.<prefix of m>b, the attribute c.a reads from, and the
   name built from c's own prefix is left alone.  The chain-local theorem applies in this mixed-prefix pool. *)
Example good_chain_in_mixed_prefix_pool : good_chain st0 2%nat A /\ good_chain st0 2%nat Y.
Proof.
  split.
  - eapply GC_hop with (p := 1%nat); [reflexivity|reflexivity|reflexivity|reflexivity|].
    eapply GC_hop with (p := 0%nat); [reflexivity|reflexivity|reflexivity|reflexivity|].
    apply GC_end. intros d r m. vm_compute. discriminate.
  - eapply GC_hop with (p := 1%nat); [reflexivity|reflexivity|reflexivity|reflexivity|].
    eapply GC_hop with (p := 0%nat); [reflexivity|reflexivity|reflexivity|reflexivity|].
    apply GC_end. intros d r m. vm_compute. discriminate.
Qed.
Theorem class_prefix_at_later_hop_repaired :
  let st1 := fst (fst (set_attr st0 2%nat A (VInt 44))) in
  walk 100 st0 2%nat PARENT (RExplicit B) A = Ok (0%nat, [12%nat; 3%nat], Normal KInt (VInt 5)) /\
  st1 = dict_set st0 0%nat [12%nat; 3%nat] (VInt 44) /\
  (forall g, read (100 + S g) st1 2%nat A = Ok (VInt 44)) /\
  rd st0 2%nat A = Ok (VInt 5) /\ rd st1 0%nat [11%nat; 3%nat] = Ok (VInt 6).
Proof.
  intros st1. split; [vm_compute; reflexivity|].
  destruct (delegatesto_writes_delegate_only_chain_local st0 2%nat A PARENT (RExplicit B) 0%nat [12%nat; 3%nat]
              KInt (VInt 5) (VInt 44) (VInt 44)) as [H1 H2].
  - exact (proj1 good_chain_in_mixed_prefix_pool).
  - reflexivity.
  - vm_compute. reflexivity.
  - reflexivity.
  - vm_compute. repeat constructor.
  - split; [exact H1|]. split; [exact H2|]. vm_compute. split; reflexivity.
Qed.
Print Assumptions class_prefix_at_later_hop_repaired.

(* DelegatesTo over a PrototypedFrom attribute with a local value: c.y = 12 lands in p.r, c.y reads 30 *)
Theorem through_local_witness :
  let st1 := fst (fst (set_attr st0 1%nat R (VInt 30))) in
  let st2 := fst (fst (set_attr st1 2%nat Y (VInt 12))) in
  rd st1 2%nat Y = Ok (VInt 30) /\ rd st2 2%nat Y = Ok (VInt 30) /\ rd st2 0%nat R = Ok (VInt 12).
Proof. vm_compute. repeat split; reflexivity. Qed.
Print Assumptions through_local_witness.

(* REPAIRED (fcaa594), the former witness of "not-listenable": deleting the local value of a
   PrototypedFrom(..., listenable=False) attribute is an ordinary delete - value gone, the inherited value
   notified, no forwarder attached, no exception; without a local value nothing happens. *)
Definition child_nl : cls := mkC [11%nat] [(PARENT, Link); (X, Deleg PARENT RSame false)] [X].
Definition st_nl := init_state [par; child_nl] [mkO 0 []; mkO 1 [(PARENT, VObj 0%nat)]].
Theorem del_not_listenable_repaired :
  listenable st_nl 1%nat X = false /\
  let st1 := fst (fst (set_attr st_nl 1%nat X (VInt 9))) in
  rd st1 1%nat X = Ok (VInt 9) /\
  snd (fst (del_attr st1 1%nat X)) = Done /\
  rd (fst (fst (del_attr st1 1%nat X))) 1%nat X = Ok (VInt 1) /\
  snd (del_attr st1 1%nat X) = [(1%nat, X, VInt 1)] /\
  ltab (fst (fst (del_attr st1 1%nat X))) = [] /\
  del_attr st_nl 1%nat X = (st_nl, Done, []).
Proof. vm_compute. repeat split; reflexivity. Qed.
Print Assumptions del_not_listenable_repaired.

(* Non-vacuity of forward_iff_linked_general: a pool with a listenable=False attribute and an object built
   with a constructor keyword (a = 5); its hypotheses are decided by the sound checkers of Invariants2.v;
   the history deletes both kinds of local value. *)
Definition child_k : cls :=
  mkC [11%nat] [(PARENT, Link); (X, Deleg PARENT RSame false); (A, Deleg PARENT (RExplicit X) false);
                (Y, Deleg PARENT (RExplicit X) true)] [X].
Definition pool_k : list obj := [mkO 0 []; mkO 1 [(PARENT, VObj 0%nat); (A, VInt 5)]].
Example general_invariant_nontrivial :
  let ops := [Set_ 1 X (VInt 9); Set_ 0 X (VInt 2); Del 1 X; Del 1 A; Set_ 1 Y (VInt 4)]%nat in
  let st := final (init_state_k [par; child_k] pool_k) ops in
  wf_classes [par; child_k]
  /\ ltab (init_state_k [par; child_k] pool_k) = [(1%nat, Y)]
  /\ map (fun p => ob_out (snd p)) (run (init_state_k [par; child_k] pool_k) ops)
     = [Done; Done; Done; Done; Done]
  /\ ltab st = [(1%nat, Y); (1%nat, A)]
  /\ (has_node (1%nat, A) (ltab st) = true <->
      (deferring st 1%nat A /\ dict_get st 1%nat A = None /\ listenable st 1%nat A = true)).
Proof.
  intros ops st. split; [apply wf_classesb_sound; vm_compute; reflexivity|].
  split; [vm_compute; reflexivity|]. split; [vm_compute; reflexivity|]. split; [vm_compute; reflexivity|].
  refine (proj1 (proj2 (forward_iff_linked_general [par; child_k] pool_k ops _ _ _)) 1%nat A _).
  - apply wf_classesb_sound. vm_compute. reflexivity.
  - apply modify_no_localb_sound. vm_compute. reflexivity.
  - unfold ops. repeat constructor.
  - vm_compute. repeat constructor.
Qed.

(* Sixth wave: the attribute that REFERENCES the prototype is itself a deferring attribute
   (ref = DelegatesTo('parent') onto an inner object whose ref holds the prototype; x = PrototypedFrom('ref')).
   The model needs nothing new - [read], [walk] and [depends_on] read the reference through [rd], whatever trait
   it is - and the history invariant forward_iff_linked_general covers the shape (no hypothesis asks the
   reference to be a Link): a local assignment detaches the forwarder (the prototype's next change is not forwarded:
   2 events instead of 3), del re-attaches it (exactly one notification of x), a swap through the inner object
   notifies ref and nobody else, and the law holds on the whole history. *)
Definition REF := [22%nat].
Definition inn_r : cls := mkC [10%nat] [(PARENT, Link); (REF, Link)] [].
Definition top_r : cls := mkC [11%nat] [(PARENT, Link); (REF, Deleg PARENT RSame true); (X, Deleg REF RSame false);
                                         (Y, Deleg REF (RExplicit X) true)] [].
Definition pool_r : list obj := [mkO 0 []; mkO 0 []; mkO 1 [(REF, VObj 0%nat)]; mkO 2 [(PARENT, VObj 2%nat)]].
Example deferring_reference_covered :
  let ops := [Set_ 0 X (VInt 5); Set_ 3 X (VInt 9); Set_ 0 X (VInt 6); Del 3 X; Set_ 0 X (VInt 7);
              Set_ 2 REF (VObj 1%nat); Set_ 1 X (VInt 8); Set_ 3 Y (VInt 4)]%nat in
  let st0r := init_state_k [par; inn_r; top_r] pool_r in
  let st := final st0r ops in
  map (fun p => length (ob_events (snd p))) (run st0r ops) = [3; 1; 2; 1; 3; 1; 3; 3]%nat
  /\ nth 2 (map (fun p => ob_events (snd p)) (run st0r ops)) [] = [(0%nat, X, VInt 6); (3%nat, Y, VInt 6)]
  /\ nth 5 (map (fun p => ob_events (snd p)) (run st0r ops)) [] = [(3%nat, REF, VObj 1%nat)]
  /\ law_hist (mkG (classes st0r) (map o_cls (objs st0r))) 0 [] (mkObs Done [] (snapshot st0r) (locals st0r)) (run st0r ops) = []
  /\ (has_node (3%nat, X) (ltab st) = true <->
      (deferring st 3%nat X /\ dict_get st 3%nat X = None /\ listenable st 3%nat X = true)).
Proof.
  intros ops st0r st. split; [vm_compute; reflexivity|]. split; [vm_compute; reflexivity|].
  split; [vm_compute; reflexivity|]. split; [vm_compute; reflexivity|].
  refine (proj1 (proj2 (forward_iff_linked_general [par; inn_r; top_r] pool_r ops _ _ _)) 3%nat X _).
  - apply wf_classesb_sound. vm_compute. reflexivity.
  - apply modify_no_localb_sound. vm_compute. reflexivity.
  - unfold ops. repeat constructor.
  - vm_compute. repeat constructor.
Qed.

(* Non-vacuity: a pool meeting all hypotheses of the theorems above (chain of two deferrals, the '*'
   style included), with a history that stores through the chain, breaks and restores a link, is
   rejected by the target's trait, and forwards notifications up the chain. *)
Definition mid' : cls := mkC [12%nat] [(PARENT, Link); (B, Deleg PARENT RClass true); (R, Deleg PARENT RSame false)] [].
Definition top' : cls := mkC [12%nat] [(PARENT, Link); (A, Deleg PARENT (RExplicit B) true); (Y, Deleg PARENT (RExplicit R) false)] [].
Definition st0' := init_state [par; mid'; top'] pool.
Example history_nontrivial :
  let h := [Set_ 2 A (VInt 44); Set_ 2 Y (VInt 20); Set_ 0 R (VInt 9); Del 2 Y; Set_ 0 R (VInt 10);
            Set_ 2 Y (VInt 99); Set_ 1 R VBad]%nat in
  let tr := run st0' h in
  map (fun p => ob_out (snd p)) tr = [Done; Done; Done; Done; Done; Raised TraitError; Raised TraitError]
  /\ map (fun p => length (ob_events (snd p))) tr = [3; 1; 2; 1; 3; 0; 0]%nat
  /\ law_hist (mkG (classes st0') (map o_cls (objs st0'))) 0 [] (mkObs Done [] (snapshot st0') (locals st0')) tr = []
  /\ walk 100 st0' 2%nat PARENT (RExplicit B) A = Ok (0%nat, [12%nat; 3%nat], Normal KInt (VInt 5)).
Proof. vm_compute. repeat split; reflexivity. Qed.
