From Coq Require Import ZArith List Bool Arith.
From TV Require Import Common.Harness C11.Model C11.Law.
Import ListNotations.
Example placeholder : 1 = 1. Proof. reflexivity. Qed.
