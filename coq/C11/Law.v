(* C11 — the property as a boolean checker on one observed history.  It never mentions
   [Model.read / walk / set_attr / step]: it works on the observations alone (values read through
   every object, `__dict__` membership of deferring names, recorded handler calls) plus the static
   configuration (class tables, class of every object), with its own specification functions:
     spath  : the chain (o,n) -> (delegate(o), target name) -> ... as far as it is LINKED (a
              PrototypedFrom attribute with a local value ends it), each hop named by the rule of
              the deferring trait with the prefix of the class that declares it;
     vtrait : the trait at the end of the whole chain (locals ignored): the validator.
   Clause codes (100*step + clause):
     1 a linked deferring attribute does not read as the target attribute of its current delegate
     2 `__dict__` membership / value of a deferring attribute is not what the assignments and
       deletions say (DelegatesTo: never local; PrototypedFrom: local iff assigned and not deleted,
       then it reads as the assigned value)
     3 an assignment through a DelegatesTo attribute is not readable at its target afterwards
     4 a stored (non-deferring) attribute other than the assigned one changed (delegate only /
       prototype untouched)
     5 outcome: an assignment valid for the target's trait was rejected or an invalid one accepted
       (TraitError expected from the target's trait); deleting the local value of a PrototypedFrom
       attribute raised
     6 a failed operation changed a value, a local or notified
     7 forwarding: a change of the target notifies a deferring attribute iff it is linked to it
       (exactly once, with the new value); an unlinked one is not notified; listenable=False is the
       documented opt-out: such an attribute is not notified and nothing travels beyond it *)
From Coq Require Import ZArith List Bool Arith.
From TV Require Import Common.Harness C11.Model.
Import ListNotations.
Open Scope Z_scope.

Record cfg := mkG { g_classes : list cls; g_objcls : list nat }.

Definition g_cls (g : cfg) (o : oid) : cls := nth (nth o (g_objcls g) 0%nat) (g_classes g) dummy_cls.
Definition g_trait (g : cfg) (o : oid) (n : name) : option trait := nassoc n (c_traits (g_cls g o)).

Fixpoint index_of (n : name) (l : list name) (k : nat) : option nat :=
  match l with
  | [] => None
  | x :: r => if name_eqb n x then Some k else index_of n r (S k)
  end.
Definition g_index (g : cfg) (o : oid) (n : name) : option nat :=
  index_of n (map fst (c_traits (g_cls g o))) 0.

Definition exn_eqb (a b : exn) : bool :=
  match a, b with
  | TraitError, TraitError | AttributeError, AttributeError | DelegationError, DelegationError
  | RecursionError, RecursionError | KeyError, KeyError | OtherError, OtherError => true
  | _, _ => false
  end.
Definition rdres_eqb (a b : rdres) : bool :=
  match a, b with
  | RV x, RV y => value_eqb x y
  | RE x, RE y => exn_eqb x y
  | _, _ => false
  end.
(* [RE OtherError] in the observation BEFORE the first operation marks a value the driver did not read
   (reading it would initialise a default): it constrains nothing *)
Definition rd_keeps (after before : rdres) : bool := rdres_eqb after before || rdres_eqb before (RE OtherError).
Definition outcome_eqb (a b : outcome) : bool :=
  match a, b with Done, Done => true | Raised x, Raised y => exn_eqb x y | _, _ => false end.

(* what an observation says about node (o, n) *)
Definition oread (g : cfg) (reads : list (list rdres)) (x : node) : rdres :=
  match g_index g (fst x) (snd x) with
  | Some k => nth k (nth (fst x) reads []) (RE OtherError)
  | None => RE OtherError
  end.
Definition olocal (g : cfg) (loc : list (list bool)) (x : node) : bool :=
  match g_index g (fst x) (snd x) with
  | Some k => nth k (nth (fst x) loc []) false
  | None => false
  end.

(* the linked chain from x, as the specification names it *)
Fixpoint spath (fuel : nat) (g : cfg) (reads : list (list rdres)) (loc : list (list bool)) (x : node) : list node :=
  match fuel with
  | O => [x]
  | S f =>
      x :: match g_trait g (fst x) (snd x) with
           | Some (Deleg d r _) =>
               if olocal g loc x then []
               else match oread g reads (fst x, d) with
                    | RV (VObj p) => spath f g reads loc (p, attr_name r (c_prefix (g_cls g (fst x))) (snd x))
                    | _ => []
                    end
           | _ => []
           end
  end.
(* the chain as far as notifications travel along it: a deferring attribute declared with
   listenable=False has no forwarder (documented opt-out), so nothing is demanded beyond it *)
Definition g_listenable (g : cfg) (x : node) : bool := negb (unlisted (snd x) (g_cls g (fst x))).
Fixpoint fpath (fuel : nat) (g : cfg) (reads : list (list rdres)) (loc : list (list bool)) (x : node) : list node :=
  match fuel with
  | O => [x]
  | S f =>
      x :: match g_trait g (fst x) (snd x) with
           | Some (Deleg d r _) =>
               if olocal g loc x || negb (g_listenable g x) then []
               else match oread g reads (fst x, d) with
                    | RV (VObj p) => fpath f g reads loc (p, attr_name r (c_prefix (g_cls g (fst x))) (snd x))
                    | _ => []
                    end
           | _ => []
           end
  end.
Definition spath_fuel : nat := 8.
Definition path (g : cfg) (reads : list (list rdres)) (loc : list (list bool)) (x : node) : list node :=
  spath spath_fuel g reads loc x.
Definition target (g : cfg) reads loc (x : node) : node := last (path g reads loc x) x.

(* the trait that validates an assignment to x: end of the whole chain, locals ignored *)
Definition no_locals (loc : list (list bool)) : list (list bool) := map (map (fun _ => false)) loc.
Definition vtrait (g : cfg) reads loc (x : node) : option trait :=
  let t := target g reads (no_locals loc) x in g_trait g (fst t) (snd t).

Definition all_nodes (g : cfg) : list node :=
  flat_map (fun o => map (fun nt => (o, fst nt)) (c_traits (g_cls g o))) (seq 0 (length (g_objcls g))).
Definition is_deleg (g : cfg) (x : node) : bool :=
  match g_trait g (fst x) (snd x) with Some (Deleg _ _ _) => true | _ => false end.
Definition is_modify (g : cfg) (x : node) : bool :=
  match g_trait g (fst x) (snd x) with Some (Deleg _ _ m) => m | _ => false end.

(* the locally assigned values the history so far implies *)
Definition lspec := list (node * value).
Fixpoint lget (x : node) (l : lspec) : option value :=
  match l with [] => None | (y, v) :: r => if node_eqb x y then Some v else lget x r end.
Definition ldel (x : node) (l : lspec) : lspec := filter (fun e => negb (node_eqb x (fst e))) l.
Definition lspec_after (g : cfg) (L : lspec) (o : op) (ob : obs) : lspec :=
  match o with
  | Set_ x n v =>
      if outcome_eqb (ob_out ob) Done && is_deleg g (x, n) && negb (is_modify g (x, n))
      then ((x, n), v) :: ldel (x, n) L else L
  | Del x n =>
      (* a deletion that raised AFTER removing the value is charged once, by clauses 5 / 6, not again
         at every later step *)
      if outcome_eqb (ob_out ob) Done || negb (olocal g (ob_local ob) (x, n)) then ldel (x, n) L else L
  end.

Definition checked (t : option trait) (v : value) : option (option value) :=
  match t with
  | Some (Normal k _) => Some (validate k v)
  | Some Link => Some (validate_link v)
  | _ => None                                    (* unresolved chain: the law does not judge the outcome *)
  end.

Definition count_events (x : node) (evs : list event) : nat :=
  length (filter (fun e => node_eqb x (fst e)) evs).
Definition events_carry (x : node) (w : rdres) (evs : list event) : bool :=
  forallb (fun e => negb (node_eqb x (fst e)) || rdres_eqb (RV (snd e)) w) evs.

Definition law_step (g : cfg) (L : lspec) (before : obs) (o : op) (ob : obs) : list Z :=
  let rb := ob_reads before in let lb := ob_local before in
  let ra := ob_reads ob in let la := ob_local ob in
  let L' := lspec_after g L o ob in
  let nodes := all_nodes g in
  let failed := negb (outcome_eqb (ob_out ob) Done) in
  (* the node whose value the operation is meant to change *)
  let X := match o with
           | Set_ x n _ => if is_modify g (x, n) then target g rb lb (x, n) else (x, n)
           | Del x n => (x, n)
           end in
  let changed := negb (rdres_eqb (oread g rb X) (oread g ra X)) in
  chk 1 (forallb (fun x =>
           match g_trait g (fst x) (snd x) with
           | Some (Deleg d r _) =>
               olocal g la x
               || match oread g ra (fst x, d) with
                  | RV (VObj p) => rdres_eqb (oread g ra x)
                                     (oread g ra (p, attr_name r (c_prefix (g_cls g (fst x))) (snd x)))
                  | _ => true
                  end
           | _ => true
           end) nodes)
  ++ chk 2 (forallb (fun x =>
           negb (is_deleg g x)
           || match lget x L' with
              | Some v => olocal g la x && rdres_eqb (oread g ra x) (RV v)
              | None => negb (olocal g la x)
              end) nodes)
  ++ chk 3 (match o with
            | Set_ x n v => failed || negb (is_modify g (x, n)) || rdres_eqb (oread g ra X) (RV v)
            | _ => true
            end)
  ++ chk 4 (forallb (fun x =>
           is_deleg g x || (negb failed && node_eqb x X && match o with Set_ _ _ _ => true | _ => false end)
           || rd_keeps (oread g ra x) (oread g rb x)) nodes)
  ++ chk 5 (match o with
            | Set_ x n v =>
                match checked (vtrait g rb lb (x, n)) v with
                | Some (Some _) => outcome_eqb (ob_out ob) Done
                | Some None => outcome_eqb (ob_out ob) (Raised TraitError)
                | None => true
                end
            | Del x n =>                               (* deleting a local value restores the link: no exception *)
                negb (is_deleg g (x, n)) || is_modify g (x, n)
                || match vtrait g rb lb (x, n) with
                   | Some (Normal _ _) | Some Link => outcome_eqb (ob_out ob) Done
                   | _ => true
                   end
            end)
  ++ chk 6 (negb failed
            || (list_eqb (list_eqb rd_keeps) ra rb && list_eqb (list_eqb Bool.eqb) la lb
                && Harness.is_nil (ob_events ob)))
  ++ chk 7 (failed
            || forallb (fun y =>
                 negb (is_deleg g y)
                 || (if node_eqb y X then Nat.leb (count_events y (ob_events ob)) 1
                     else if changed && existsb (node_eqb X) (fpath spath_fuel g ra la y)
                          then Nat.eqb (count_events y (ob_events ob)) 1
                               && events_carry y (oread g ra X) (ob_events ob)
                          else Nat.eqb (count_events y (ob_events ob)) 0)) nodes).

Fixpoint law_hist (g : cfg) (i : Z) (L : lspec) (before : obs) (h : list (op * obs)) : list Z :=
  match h with
  | [] => []
  | (o, ob) :: r =>
      map (fun c => 100 * i + c) (law_step g L before o ob)
      ++ law_hist g (i + 1) (lspec_after g L o ob) ob r
  end.
