(* C11 — invariants of every history: a DelegatesTo attribute never acquires a local value, and the
   forwarder of a deferring attribute is attached exactly while it has no local value. *)
From Coq Require Import ZArith List Bool Arith Lia.
From TV Require Import Common.Harness C11.Model C11.Law C11.Proofs.
Import ListNotations.
Open Scope Z_scope.

Definition deferring (st : state) (o : oid) (n : name) : Prop :=
  exists d r m, find_trait st o n = Some (Deleg d r m).

Record inv (st : state) : Prop := mkInv {
  inv_modify : forall o n d r, find_trait st o n = Some (Deleg d r true) -> dict_get st o n = None;
  inv_ltab : forall o n, (o < length (objs st))%nat ->
             (has_node (o, n) (ltab st) = true <-> (deferring st o n /\ dict_get st o n = None))
}.

(* ----- frame lemmas ----- *)
Lemma o_cls_dict_del st p t o : o_cls (get_obj (dict_del st p t) o) = o_cls (get_obj st o).
Proof.
  unfold get_obj, dict_del. cbn [objs].
  generalize (objs st). intros l. revert p o. induction l as [|x l IH]; intros [|p] [|o]; cbn; auto.
Qed.
Lemma find_trait_dict_del st p t o n : find_trait (dict_del st p t) o n = find_trait st o n.
Proof. unfold find_trait, cls_of. rewrite o_cls_dict_del. reflexivity. Qed.

Lemma dict_get_dict_del_same st p t : dict_get (dict_del st p t) p t = None.
Proof.
  unfold dict_get, get_obj, dict_del. cbn [objs].
  destruct (Nat.lt_ge_cases p (length (objs st))) as [Hlt|Hge].
  - rewrite nth_update_same by exact Hlt. cbn. apply nassoc_ndel_same.
  - rewrite nth_overflow by (rewrite update_length; lia). reflexivity.
Qed.
Lemma dict_get_dict_del_other st p t o n :
  node_eqb (o, n) (p, t) = false -> dict_get (dict_del st p t) o n = dict_get st o n.
Proof.
  intros Hne. unfold dict_get, get_obj, dict_del. cbn [objs].
  destruct (Nat.eq_dec p o) as [->|Hpo].
  - destruct (Nat.lt_ge_cases o (length (objs st))) as [Hlt|Hge].
    + rewrite nth_update_same by exact Hlt. cbn. apply nassoc_ndel_other.
      unfold node_eqb in Hne. cbn in Hne. rewrite Nat.eqb_refl in Hne. exact Hne.
    + rewrite (nth_overflow (update o _ _)) by (rewrite update_length; lia).
      rewrite (nth_overflow (objs st)) by lia. reflexivity.
  - rewrite nth_update_other by exact Hpo. reflexivity.
Qed.

Lemma dict_get_dict_set_same' st p t w :
  dict_get (dict_set st p t w) p t = Some w \/ (length (objs st) <= p)%nat.
Proof.
  destruct (Nat.lt_ge_cases p (length (objs st))) as [Hlt|Hge]; [left|right; exact Hge].
  apply dict_get_dict_set_same. exact Hlt.
Qed.

Lemma node_neq_by_trait st o n p t :
  find_trait st o n <> find_trait st p t -> node_eqb (o, n) (p, t) = false.
Proof.
  intros H. destruct (node_eqb (o, n) (p, t)) eqn:E; [|reflexivity].
  apply node_eqb_eq in E. injection E as -> ->. contradiction.
Qed.

(* storing at a node that does not defer keeps the invariant *)
Lemma inv_dict_set_plain st p t w :
  inv st -> (forall d r m, find_trait st p t <> Some (Deleg d r m)) -> inv (dict_set st p t w).
Proof.
  intros [Hm Hl] Hnd. split.
  - intros o n d r Htr. rewrite find_trait_dict_set in Htr.
    rewrite dict_get_dict_set_other; [eauto|].
    apply (node_neq_by_trait st). rewrite Htr. intros E. symmetry in E. eapply Hnd. exact E.
  - intros o n Ho. change (ltab (dict_set st p t w)) with (ltab st).
    unfold dict_set in Ho. cbn [objs] in Ho. rewrite update_length in Ho.
    unfold deferring. setoid_rewrite find_trait_dict_set. rewrite (Hl _ _ Ho). unfold deferring.
    split; intros [(d & r & m & Htr) Hd]; (split; [eauto|]).
    + rewrite dict_get_dict_set_other; [exact Hd|].
      apply (node_neq_by_trait st). rewrite Htr. intros E. symmetry in E. eapply Hnd. exact E.
    + rewrite dict_get_dict_set_other in Hd; [exact Hd|].
      apply (node_neq_by_trait st). rewrite Htr. intros E. symmetry in E. eapply Hnd. exact E.
Qed.

Lemma has_node_cons y z l : has_node y (z :: l) = node_eqb y z || has_node y l.
Proof. reflexivity. Qed.

Lemma node_eqb_sym x y : node_eqb x y = node_eqb y x.
Proof.
  destruct (node_eqb x y) eqn:E.
  - apply node_eqb_eq in E. subst. symmetry. apply node_eqb_refl.
  - destruct (node_eqb y x) eqn:E2; [|reflexivity]. apply node_eqb_eq in E2. subst.
    rewrite node_eqb_refl in E. discriminate.
Qed.

Lemma has_node_filter_neq x y l :
  has_node y (filter (fun z => negb (node_eqb x z)) l) = has_node y l && negb (node_eqb x y).
Proof.
  induction l as [|z l IH]; [reflexivity|].
  cbn [filter]. rewrite has_node_cons.
  destruct (node_eqb x z) eqn:Exz; cbn [negb].
  - rewrite IH. apply node_eqb_eq in Exz. subst z. rewrite (node_eqb_sym y x).
    destruct (node_eqb x y); cbn; [rewrite andb_false_r; reflexivity|reflexivity].
  - rewrite has_node_cons, IH.
    destruct (node_eqb y z) eqn:Eyz; cbn; [|reflexivity].
    apply node_eqb_eq in Eyz. subst z. rewrite Exz. reflexivity.
Qed.

Lemma has_node_add_other x y l :
  node_eqb y x = false -> has_node y (if has_node x l then l else l ++ [x]) = has_node y l.
Proof.
  intros Hne. destruct (has_node x l); [reflexivity|].
  unfold has_node. rewrite existsb_app. cbn. rewrite Hne. rewrite !orb_false_r. reflexivity.
Qed.

(* a local store on a PrototypedFrom node, forwarder detached *)
Lemma inv_local_store st o n d r w :
  inv st -> find_trait st o n = Some (Deleg d r false) -> (o < length (objs st))%nat ->
  inv (ltab_del (dict_set st o n w) (o, n)).
Proof.
  intros [Hm Hl] Htr Hlt. split.
  - intros o' n' d' r' Htr'.
    change (find_trait (ltab_del (dict_set st o n w) (o, n)) o' n') with (find_trait (dict_set st o n w) o' n') in Htr'.
    change (dict_get (ltab_del (dict_set st o n w) (o, n)) o' n') with (dict_get (dict_set st o n w) o' n').
    rewrite find_trait_dict_set in Htr'.
    rewrite dict_get_dict_set_other; [eauto|].
    apply (node_neq_by_trait st). rewrite Htr', Htr. discriminate.
  - intros o' n' Ho'. unfold ltab_del, dict_set in Ho'. cbn [objs] in Ho'. rewrite update_length in Ho'.
    unfold ltab_del. cbn [ltab classes objs].
    change (ltab (dict_set st o n w)) with (ltab st).
    rewrite has_node_filter_neq.
    change (dict_get {| classes := classes (dict_set st o n w); objs := objs (dict_set st o n w);
                        ltab := filter (fun y => negb (node_eqb (o, n) y)) (ltab st) |} o' n')
      with (dict_get (dict_set st o n w) o' n').
    assert (forall a b, deferring {| classes := classes (dict_set st o n w); objs := objs (dict_set st o n w);
                        ltab := filter (fun y => negb (node_eqb (o, n) y)) (ltab st) |} a b <-> deferring st a b) as Hdef.
    { intros a b. unfold deferring.
      change (find_trait {| classes := classes (dict_set st o n w); objs := objs (dict_set st o n w);
                        ltab := filter (fun y => negb (node_eqb (o, n) y)) (ltab st) |} a b)
        with (find_trait (dict_set st o n w) a b). rewrite find_trait_dict_set. reflexivity. }
    rewrite Hdef.
    destruct (node_eqb (o, n) (o', n')) eqn:E.
    + apply node_eqb_eq in E. injection E as <- <-. rewrite andb_false_r.
      rewrite dict_get_dict_set_same by exact Hlt. split; [discriminate|]. intros [_ H]. discriminate.
    + rewrite andb_true_r. rewrite (Hl _ _ Ho').
      rewrite dict_get_dict_set_other by (rewrite node_eqb_sym; exact E). reflexivity.
Qed.

Lemma find_trait_relabel st l o n : find_trait (mkS (classes st) (objs st) l) o n = find_trait st o n.
Proof. reflexivity. Qed.
Lemma dict_get_relabel st l o n : dict_get (mkS (classes st) (objs st) l) o n = dict_get st o n.
Proof. reflexivity. Qed.

(* the local value deleted (or absent), forwarder re-attached *)
Lemma inv_local_delete st o n d r :
  inv st -> find_trait st o n = Some (Deleg d r false) ->
  inv (ltab_add (dict_del st o n) (o, n)).
Proof.
  intros [Hm Hl] Htr. split.
  - intros o' n' d' r' Htr'. unfold ltab_add in *. rewrite find_trait_relabel in Htr'. rewrite dict_get_relabel.
    rewrite find_trait_dict_del in Htr'.
    rewrite dict_get_dict_del_other; [eauto|].
    apply (node_neq_by_trait st). rewrite Htr', Htr. discriminate.
  - intros o' n' Ho'. unfold ltab_add, dict_del in Ho'. cbn [objs] in Ho'. rewrite update_length in Ho'.
    unfold ltab_add, deferring. cbn [ltab].
    setoid_rewrite find_trait_relabel. rewrite dict_get_relabel.
    setoid_rewrite find_trait_dict_del.
    change (ltab (dict_del st o n)) with (ltab st).
    destruct (node_eqb (o', n') (o, n)) eqn:E.
    + apply node_eqb_eq in E. injection E as -> ->. rewrite has_node_add.
      rewrite dict_get_dict_del_same. split; [|reflexivity]. intros _. split; [|reflexivity].
      exists d, r, false. exact Htr.
    + rewrite has_node_add_other by exact E. rewrite (Hl _ _ Ho').
      rewrite dict_get_dict_del_other by exact E. reflexivity.
Qed.

Lemma inv_ltab_add_linked st o n d r :
  inv st -> find_trait st o n = Some (Deleg d r false) -> dict_get st o n = None ->
  (o < length (objs st))%nat ->
  inv (ltab_add st (o, n)).
Proof.
  intros [Hm Hl] Htr Hd Ho. split.
  - exact Hm.
  - intros o' n' Ho'. unfold ltab_add. cbn [ltab].
    assert (has_node (o, n) (ltab st) = true) as Hin by (apply (Hl _ _ Ho); split; [exists d, r, false; exact Htr|exact Hd]).
    rewrite Hin. apply Hl. exact Ho'.
Qed.

(* the node [walk] ends at does not defer *)
Lemma walk_result st : forall f cur d r dn p t tr,
  walk f st cur d r dn = Ok (p, t, tr) ->
  forall d' r' m', find_trait st p t <> Some (Deleg d' r' m').
Proof.
  induction f as [|f IH]; intros cur d r dn p t tr Hw; [discriminate|].
  cbn [walk] in Hw. destruct (rd st cur d) as [[z| | |p1]|e]; try discriminate.
  destruct (find_trait st p1 _) as [[| | |]|] eqn:E;
    try (injection Hw as <- <- <-; intros d' r' m'; rewrite E; discriminate).
  eapply IH. exact Hw.
Qed.

Definition objs_in_range (st : state) : Prop :=
  forall f cur d r dn p t tr, walk f st cur d r dn = Ok (p, t, tr) -> True.

(* the invariant is about attributes with a forwarder: every deferring attribute listenable (the
   default); listenable=False attributes are covered by the general invariant of Invariants2.v *)
Definition all_listenable (st : state) : Prop := forall o n, listenable st o n = true.

(* ----- every operation keeps the invariant ----- *)
Theorem step_inv st o :
  inv st -> all_listenable st ->
  (match o with Set_ x _ _ | Del x _ => (x < length (objs st))%nat end) -> inv (fst (step st o)).
Proof.
  intros Hi Hal Hx. unfold step. destruct o as [x n v|x n].
  - (* set *)
    unfold set_attr. destruct (find_trait st x n) as [[k dflt| |d r m|]|] eqn:Htr; cbn [fst].
    + unfold set_plain. destruct (validate k v); cbn [fst]; [|exact Hi].
      apply inv_dict_set_plain; [exact Hi|]. intros; rewrite Htr; discriminate.
    + unfold set_plain. destruct (validate_link v); cbn [fst]; [|exact Hi].
      apply inv_dict_set_plain; [exact Hi|]. intros; rewrite Htr; discriminate.
    + destruct (walk 100 st x d r n) as [[[p t] tr]|e] eqn:Hw; cbn [fst]; [|exact Hi].
      pose proof (walk_result _ _ _ _ _ _ _ _ _ Hw) as Hnd.
      destruct m.
      * unfold set_plain. destruct tr as [k dflt| |d' r' m'|].
        -- destruct (validate k v); cbn [fst]; [apply inv_dict_set_plain; assumption|exact Hi].
        -- destruct (validate_link v); cbn [fst]; [apply inv_dict_set_plain; assumption|exact Hi].
        -- exact Hi.
        -- cbn [fst]. apply inv_dict_set_plain; assumption.
      * destruct tr as [k dflt| |d' r' m'|]; cbn zeta.
        -- destruct (validate k v) as [w|]; [|exact Hi]. destruct (rd st x n); [|exact Hi]. cbn [fst].
           eapply inv_local_store; eauto.
        -- destruct (validate_link v) as [w|]; [|exact Hi]. destruct (rd st x n); [|exact Hi]. cbn [fst].
           eapply inv_local_store; eauto.
        -- exact Hi.
        -- destruct (rd st x n); [|exact Hi]. cbn [fst]. eapply inv_local_store; eauto.
    + unfold set_plain. cbn [fst]. apply inv_dict_set_plain; [exact Hi|]. intros; rewrite Htr; discriminate.
    + exact Hi.
  - (* del *)
    unfold del_attr. destruct (find_trait st x n) as [[k dflt| |d r [|]|]|] eqn:Htr; cbn [fst]; try exact Hi.
    destruct (walk 100 st x d r n) as [[[p t] tr]|e] eqn:Hw; cbn [fst]; [|exact Hi].
    rewrite (Hal x n).
    destruct (dict_get st x n) as [old|] eqn:Hd; cbn [fst].
    + eapply inv_local_delete; eauto.
    + destruct tr; cbn [fst]; try exact Hi; eapply inv_ltab_add_linked; eauto.
Qed.

(* ----- ... hence every history does ----- *)
Definition op_in_range (st : state) (o : op) : Prop :=
  match o with Set_ x _ _ | Del x _ => (x < length (objs st))%nat end.

Lemma step_length st o : length (objs (fst (step st o))) = length (objs st).
Proof.
  unfold step. destruct o as [x n v|x n].
  - unfold set_attr. destruct (find_trait st x n) as [[k dflt| |d r m|]|]; cbn [fst]; try reflexivity.
    + unfold set_plain. destruct (validate k v); cbn; [apply update_length|reflexivity].
    + unfold set_plain. destruct (validate_link v); cbn; [apply update_length|reflexivity].
    + destruct (walk 100 st x d r n) as [[[p t] tr]|e]; cbn [fst]; [|reflexivity].
      destruct m.
      * unfold set_plain. destruct tr as [k dflt| |d' r' m'|].
        -- destruct (validate k v); cbn; [apply update_length|reflexivity].
        -- destruct (validate_link v); cbn; [apply update_length|reflexivity].
        -- reflexivity.
        -- cbn. apply update_length.
      * destruct tr as [k dflt| |d' r' m'|]; cbn zeta.
        -- destruct (validate k v); [|reflexivity]. destruct (rd st x n); [|reflexivity]. cbn. apply update_length.
        -- destruct (validate_link v); [|reflexivity]. destruct (rd st x n); [|reflexivity]. cbn. apply update_length.
        -- reflexivity.
        -- destruct (rd st x n); [|reflexivity]. cbn. apply update_length.
    + unfold set_plain. cbn. apply update_length.
  - unfold del_attr. destruct (find_trait st x n) as [[k dflt| |d r [|]|]|]; cbn [fst]; try reflexivity.
    destruct (walk 100 st x d r n) as [[[p t] tr]|e]; cbn [fst]; [|reflexivity].
    destruct (listenable st x n); destruct (dict_get st x n); cbn [fst];
      try (cbn; apply update_length); destruct tr; reflexivity.
Qed.

(* an operation never changes the class of an object *)
Lemma cls_of_dict_del st p t o : cls_of (dict_del st p t) o = cls_of st o.
Proof. unfold cls_of. rewrite o_cls_dict_del. reflexivity. Qed.
Lemma cls_of_ltab_add st x o : cls_of (ltab_add st x) o = cls_of st o.
Proof. reflexivity. Qed.
Lemma cls_of_ltab_del st x o : cls_of (ltab_del st x) o = cls_of st o.
Proof. reflexivity. Qed.

Ltac cls_leaf :=
  intros; cbn [fst];
  repeat (first [rewrite cls_of_ltab_add | rewrite cls_of_ltab_del | rewrite cls_of_dict_set | rewrite cls_of_dict_del]);
  reflexivity.

Lemma step_cls_of st o : forall o', cls_of (fst (step st o)) o' = cls_of st o'.
Proof.
  unfold step. destruct o as [x n v|x n].
  - unfold set_attr. destruct (find_trait st x n) as [[k dflt| |d r m|]|]; cbn [fst]; try cls_leaf.
    + unfold set_plain. destruct (validate k v); cls_leaf.
    + unfold set_plain. destruct (validate_link v); cls_leaf.
    + destruct (walk 100 st x d r n) as [[[p t] tr]|e]; cbn [fst]; [|cls_leaf].
      destruct m.
      * unfold set_plain. destruct tr as [k dflt| |d' r' m'|].
        -- destruct (validate k v); cls_leaf.
        -- destruct (validate_link v); cls_leaf.
        -- cls_leaf.
        -- cls_leaf.
      * destruct tr as [k dflt| |d' r' m'|]; cbn zeta.
        -- destruct (validate k v); [|cls_leaf]. destruct (rd st x n); cls_leaf.
        -- destruct (validate_link v); [|cls_leaf]. destruct (rd st x n); cls_leaf.
        -- cls_leaf.
        -- destruct (rd st x n); cls_leaf.
    + unfold set_plain. cls_leaf.
  - unfold del_attr. destruct (find_trait st x n) as [[k dflt| |d r [|]|]|]; cbn [fst]; try cls_leaf.
    destruct (walk 100 st x d r n) as [[[p t] tr]|e]; cbn [fst]; [|cls_leaf].
    destruct (listenable st x n); destruct (dict_get st x n); cbn [fst]; try cls_leaf; destruct tr; cls_leaf.
Qed.

Lemma step_all_listenable st o : all_listenable st -> all_listenable (fst (step st o)).
Proof. intros H o' n. unfold listenable. rewrite step_cls_of. apply H. Qed.

Fixpoint final (st : state) (ops : list op) : state :=
  match ops with [] => st | o :: r => final (fst (step st o)) r end.

Theorem history_inv : forall ops st,
  inv st -> all_listenable st -> Forall (fun o => match o with Set_ x _ _ | Del x _ => (x < length (objs st))%nat end) ops ->
  inv (final st ops).
Proof.
  induction ops as [|o r IH]; intros st Hi Hal Hr; [exact Hi|].
  inversion Hr as [|? ? Ho Hr']; subst. cbn [final]. apply IH.
  - apply step_inv; assumption.
  - apply step_all_listenable. exact Hal.
  - rewrite step_length. exact Hr'.
Qed.

(* ----- the initial pool satisfies the invariant ----- *)
Lemma nassoc_In {A} n (a : A) l : nassoc n l = Some a -> In (n, a) l.
Proof.
  induction l as [|[k b] l IH]; cbn; [discriminate|].
  destruct (name_eqb n k) eqn:E.
  - intros [= <-]. apply name_eqb_eq in E. subst. left. reflexivity.
  - intros H. right. apply IH. exact H.
Qed.
Lemma In_nassoc {A} n (a : A) l : NoDup (map fst l) -> In (n, a) l -> nassoc n l = Some a.
Proof.
  induction l as [|[k b] l IH]; cbn; intros Hnd Hin; [contradiction|].
  inversion Hnd as [|? ? Hnotin Hnd']; subst.
  destruct Hin as [[= -> ->]|Hin].
  - rewrite name_eqb_refl. reflexivity.
  - destruct (name_eqb n k) eqn:E.
    + apply name_eqb_eq in E. subst k. exfalso. apply Hnotin. apply (in_map fst) in Hin. exact Hin.
    + apply IH; assumption.
Qed.

Definition wf_classes (cs : list cls) : Prop := forall c, In c cs -> NoDup (map fst (c_traits c)).

Lemma has_node_In x l : has_node x l = true <-> In x l.
Proof.
  unfold has_node. rewrite existsb_exists. split.
  - intros (y & Hy & E). apply node_eqb_eq in E. subst. exact Hy.
  - intros H. exists x. split; [exact H|apply node_eqb_refl].
Qed.

Theorem init_inv cs os :
  NoDup (map fst (c_traits dummy_cls)) -> wf_classes cs -> all_listenable (init_state cs os) ->
  (forall o n, deferring (init_state cs os) o n -> dict_get (init_state cs os) o n = None) ->
  inv (init_state cs os).
Proof.
  intros _ Hwf Hal Hnl.
  assert (forall o n, unlisted n (nth (o_cls (nth o os dummy_obj)) cs dummy_cls) = false) as Hu.
  { intros o n. specialize (Hal o n). unfold listenable in Hal. apply negb_true_iff in Hal. exact Hal. }
  split.
  - intros o n d r Htr. apply Hnl. exists d, r, true. exact Htr.
  - intros o n Ho. cbn [init_state objs] in Ho. rewrite has_node_In.
    unfold init_state at 1. cbn [ltab]. unfold init_ltab. rewrite in_flat_map.
    split.
    + intros (o' & Ho' & Hin). apply in_flat_map in Hin. destruct Hin as ([n' t'] & Hnt & Hin).
      cbn [fst snd] in Hin. destruct t' as [| |d r m|]; try contradiction.
      rewrite Hu in Hin.
      destruct Hin as [[= <- <-]|[]].
      assert (deferring (init_state cs os) o' n') as Hdef.
      { exists d, r, m. unfold find_trait, cls_of, get_obj, init_state. cbn [objs classes].
        apply In_nassoc; [|exact Hnt].
        destruct (nth_in_or_default (o_cls (nth o' os dummy_obj)) cs dummy_cls) as [Hc|Hc].
        - apply Hwf. exact Hc.
        - rewrite Hc. constructor. }
      split; [exact Hdef|apply Hnl; exact Hdef].
    + intros [(d & r & m & Htr) _]. exists o. split; [apply in_seq; lia|].
      apply in_flat_map. exists (n, Deleg d r m). split; [|cbn [fst snd]; rewrite Hu; left; reflexivity].
      unfold find_trait, cls_of, get_obj, init_state in Htr. cbn [objs classes] in Htr.
      apply nassoc_In. exact Htr.
Qed.

(* ----- DelegatesTo: what was assigned is what is read back ----- *)
Lemma read_unfold f st o n :
  read (S f) st o n =
  match dict_get st o n with
  | Some v => Ok v
  | None =>
      match find_trait st o n with
      | Some (Normal _ d) => Ok d
      | Some Link => Ok VNone
      | Some PyAttr => Raise AttributeError
      | Some (Deleg d r _) =>
          match read f st o d with
          | Ok (VObj p) => read f st p (attr_name r (c_prefix (cls_of st o)) n)
          | Ok _ => Raise AttributeError
          | Raise e => Raise e
          end
      | None => Raise AttributeError
      end
  end.
Proof. reflexivity. Qed.

Lemma rd_dict_set_link st p t k dflt w cur d :
  find_trait st p t = Some (Normal k dflt) -> find_trait st cur d = Some Link ->
  rd (dict_set st p t w) cur d = rd st cur d.
Proof.
  intros Hp Hd. unfold rd, read_fuel. rewrite !read_unfold.
  rewrite dict_get_dict_set_other by (apply (node_neq_by_trait st); rewrite Hp, Hd; discriminate).
  rewrite find_trait_dict_set, Hd. reflexivity.
Qed.

Lemma walk_dict_set st p t k dflt w :
  links_are_links st -> find_trait st p t = Some (Normal k dflt) ->
  forall f cur d r m dn, find_trait st cur dn = Some (Deleg d r m) ->
    walk f (dict_set st p t w) cur d r dn = walk f st cur d r dn.
Proof.
  intros Hlinks Hp. induction f as [|f IH]; intros cur d r m dn Htr; [reflexivity|].
  cbn [walk]. rewrite (rd_dict_set_link st p t k dflt w cur d Hp (Hlinks _ _ _ _ _ Htr)).
  destruct (rd st cur d) as [[z| | |p1]|e]; try reflexivity.
  rewrite cls_of_dict_set, find_trait_dict_set.
  destruct (find_trait st p1 _) as [[| |d' r' m'|]|] eqn:E; try reflexivity.
  eapply IH. exact E.
Qed.

Theorem delegatesto_write_then_read st o n d r p t k dflt v w :
  links_are_links st -> no_deferring_locals st ->
  find_trait st o n = Some (Deleg d r true) ->
  walk 100 st o d r n = Ok (p, t, Normal k dflt) ->
  validate k v = Some w -> (p < length (objs st))%nat ->
  let st' := fst (fst (set_attr st o n v)) in
  st' = dict_set st p t w /\ forall g, read (100 + S g) st' o n = Ok w.
Proof.
  intros Hlinks Hloc Htr Hw Hv Hp st'.
  destruct (delegatesto_store st o n d r p t (Normal k dflt) v w Htr Hw Hv) as [Hst _].
  subst st'. rewrite Hst. split; [reflexivity|].
  destruct (walk_read_agree st Hlinks Hloc _ _ _ _ _ _ _ _ _ Htr Hw) as [Hterm _].
  assert (find_trait st p t = Some (Normal k dflt)) as Hpt.
  { (* the trait returned by the walk is the class trait of the node *)
    clear - Hw. revert Hw. generalize 100%nat as f. generalize o as cur. revert d r n.
    intros d r n cur f. revert cur d r n.
    induction f as [|f IH]; intros cur d r n Hw; [discriminate|].
    cbn [walk] in Hw. destruct (rd st cur d) as [[z| | |p1]|e]; try discriminate.
    destruct (find_trait st p1 _) as [[| | |]|] eqn:E; try discriminate.
    - injection Hw as <- <- <- <-. exact E.
    - eapply IH. exact Hw. }
  set (st1 := dict_set st p t w).
  assert (links_are_links st1) as H1.
  { intros a b c e f Ht. unfold st1 in *. rewrite find_trait_dict_set in *. eapply Hlinks. exact Ht. }
  assert (no_deferring_locals st1) as H3.
  { intros a b c e f Ht. unfold st1 in *. rewrite find_trait_dict_set in Ht.
    rewrite dict_get_dict_set_other; [eapply Hloc; exact Ht|].
    apply (node_neq_by_trait st). rewrite Ht, Hpt. discriminate. }
  assert (walk 100 st1 o d r n = Ok (p, t, Normal k dflt)) as Hw1.
  { unfold st1. erewrite walk_dict_set; eauto. }
  assert (find_trait st1 o n = Some (Deleg d r true)) as Htr1 by (unfold st1; rewrite find_trait_dict_set; exact Htr).
  destruct (walk_read_agree st1 H1 H3 _ _ _ _ _ _ _ _ _ Htr1 Hw1) as [_ Hread].
  intros g. rewrite Hread. apply read_local. apply dict_get_dict_set_same. exact Hp.
Qed.
