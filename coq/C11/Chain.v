(* C11 — the agreement theorems with CHAIN-LOCAL hypotheses: instead of "no deferring attribute of the pool
   has a local value" it suffices that, along the chain of the attribute in question, no hop holds a local
   value.  Classes may have any __prefix__ (since 2e526b5 setattr_delegate names every link from the object
   that owns it, as getattr_delegate does). *)
From Coq Require Import ZArith List Bool Arith Lia.
From TV Require Import Common.Harness C11.Model C11.Law C11.Proofs C11.Invariants.
Import ListNotations.
Open Scope Z_scope.

Inductive good_chain (st : state) : oid -> name -> Prop :=
| GC_end cur dn :
    (forall d r m, find_trait st cur dn <> Some (Deleg d r m)) -> good_chain st cur dn
| GC_hop cur dn d r m p :
    find_trait st cur dn = Some (Deleg d r m) ->
    find_trait st cur d = Some Link ->
    dict_get st cur dn = None ->
    rd st cur d = Ok (VObj p) ->
    good_chain st p (attr_name r (c_prefix (cls_of st cur)) dn) ->
    good_chain st cur dn.

Theorem walk_read_agree_local st : forall f cur d r m dn p t tr,
  good_chain st cur dn ->
  find_trait st cur dn = Some (Deleg d r m) ->
  walk f st cur d r dn = Ok (p, t, tr) ->
  (forall d' r' m', find_trait st p t <> Some (Deleg d' r' m')) /\
  forall g, read (f + S g) st cur dn = read (S g) st p t.
Proof.
  induction f as [|f IH]; intros cur d r m dn p t tr Hg Htr Hw; [discriminate|].
  inversion Hg as [? ? Hend|? ? d0 r0 m0 p1 Htr0 Hd Hloc Hrd Hrest]; subst.
  { exfalso. eapply Hend. exact Htr. }
  rewrite Htr in Htr0. injection Htr0 as <- <- <-.
  cbn [walk] in Hw. rewrite Hrd in Hw.
  set (dn' := attr_name r (c_prefix (cls_of st cur)) dn) in *.
  assert (forall g, read (S f + S g) st cur dn = read (f + S g) st p1 dn') as Hstep.
  { intros g. change (S f + S g)%nat with (S (f + S g)). rewrite read_unfold.
    rewrite Hloc, Htr. replace (f + S g)%nat with (S (f + g)) by lia.
    rewrite (read_link st cur d (f + g) 11 Hd). fold read_fuel. fold (rd st cur d). rewrite Hrd. reflexivity. }
  destruct (find_trait st p1 dn') as [[k dflt| |d' r' m'|]|] eqn:Hft.
  - injection Hw as <- <- <-. split; [intros; rewrite Hft; discriminate|].
    intros g. rewrite Hstep. destruct f; [reflexivity|]. apply read_terminal. rewrite Hft. exact I.
  - injection Hw as <- <- <-. split; [intros; rewrite Hft; discriminate|].
    intros g. rewrite Hstep. destruct f; [reflexivity|]. apply read_terminal. rewrite Hft. exact I.
  - destruct (IH _ _ _ _ _ _ _ _ Hrest Hft Hw) as [Hterm Hread]. split; [exact Hterm|].
    intros g. rewrite Hstep. apply Hread.
  - injection Hw as <- <- <-. split; [intros; rewrite Hft; discriminate|].
    intros g. rewrite Hstep. destruct f; [reflexivity|]. apply read_terminal. rewrite Hft. exact I.
  - injection Hw as <- <- <-. split; [intros; rewrite Hft; discriminate|].
    intros g. rewrite Hstep. destruct f; [reflexivity|]. apply read_terminal. rewrite Hft. exact I.
Qed.

(* a store at a plain node leaves every good chain good *)
Lemma good_chain_dict_set st p t k dflt w :
  find_trait st p t = Some (Normal k dflt) ->
  forall cur dn, good_chain st cur dn -> good_chain (dict_set st p t w) cur dn.
Proof.
  intros Hp cur dn Hg. induction Hg as [cur dn Hend|cur dn d r m p1 Htr Hd Hloc Hrd Hrest IH].
  - apply GC_end. intros d r m. rewrite find_trait_dict_set. apply Hend.
  - eapply GC_hop with (p := p1).
    + rewrite find_trait_dict_set. exact Htr.
    + rewrite find_trait_dict_set. exact Hd.
    + rewrite dict_get_dict_set_other; [exact Hloc|].
      apply (node_neq_by_trait st). rewrite Htr, Hp. discriminate.
    + rewrite (rd_dict_set_link st p t k dflt w cur d Hp Hd). exact Hrd.
    + rewrite cls_of_dict_set. exact IH.
Qed.

Lemma walk_dict_set_local st p t k dflt w :
  find_trait st p t = Some (Normal k dflt) ->
  forall f cur d r m dn, good_chain st cur dn -> find_trait st cur dn = Some (Deleg d r m) ->
    walk f (dict_set st p t w) cur d r dn = walk f st cur d r dn.
Proof.
  intros Hp. induction f as [|f IH]; intros cur d r m dn Hg Htr; [reflexivity|].
  inversion Hg as [? ? Hend|? ? d0 r0 m0 p1 Htr0 Hd Hloc Hrd Hrest]; subst.
  { exfalso. eapply Hend. exact Htr. }
  rewrite Htr in Htr0. injection Htr0 as <- <- <-.
  cbn [walk]. rewrite (rd_dict_set_link st p t k dflt w cur d Hp Hd). rewrite Hrd.
  rewrite cls_of_dict_set, find_trait_dict_set.
  destruct (find_trait st p1 _) as [[| |d' r' m'|]|] eqn:E; try reflexivity.
  eapply IH; [exact Hrest|exact E].
Qed.

Lemma walk_returns_class_trait st : forall f cur d r dn p t k dflt,
  walk f st cur d r dn = Ok (p, t, Normal k dflt) -> find_trait st p t = Some (Normal k dflt).
Proof.
  induction f as [|f IH]; intros cur d r dn p t k dflt Hw; [discriminate|].
  cbn [walk] in Hw. destruct (rd st cur d) as [[z| | |p1]|e]; try discriminate.
  destruct (find_trait st p1 _) as [[| | |]|] eqn:E; try discriminate.
  - injection Hw as <- <- <- <-. exact E.
  - eapply IH. exact Hw.
Qed.

Theorem delegatesto_write_then_read_local st o n d r p t k dflt v w :
  good_chain st o n ->
  find_trait st o n = Some (Deleg d r true) ->
  walk 100 st o d r n = Ok (p, t, Normal k dflt) ->
  validate k v = Some w -> (p < length (objs st))%nat ->
  let st' := fst (fst (set_attr st o n v)) in
  st' = dict_set st p t w /\ forall g, read (100 + S g) st' o n = Ok w.
Proof.
  intros Hg Htr Hw Hv Hp st'.
  destruct (delegatesto_store st o n d r p t (Normal k dflt) v w Htr Hw Hv) as [Hst _].
  subst st'. rewrite Hst. split; [reflexivity|].
  pose proof (walk_returns_class_trait _ _ _ _ _ _ _ _ _ _ Hw) as Hpt.
  set (st1 := dict_set st p t w).
  assert (good_chain st1 o n) as Hg1 by (apply (good_chain_dict_set st p t k dflt w Hpt); exact Hg).
  assert (walk 100 st1 o d r n = Ok (p, t, Normal k dflt)) as Hw1.
  { unfold st1. erewrite walk_dict_set_local; eauto. }
  assert (find_trait st1 o n = Some (Deleg d r true)) as Htr1 by (unfold st1; rewrite find_trait_dict_set; exact Htr).
  destruct (walk_read_agree_local st1 _ _ _ _ _ _ _ _ _ Hg1 Htr1 Hw1) as [_ Hread].
  intros g. rewrite Hread. apply read_local. apply dict_get_dict_set_same. exact Hp.
Qed.
