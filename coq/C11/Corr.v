(* C11 — correspondence: one case = class tables, object pool, the observation before the first
   operation, and the history of (operation, observation recorded from the implementation). *)
From Coq Require Import ZArith List Bool Arith.
From TV Require Import Common.Harness C11.Model C11.Law.
Import ListNotations.
Open Scope Z_scope.

Definition case := (list cls * list obj * obs * list (op * obs))%type.

Definition event_eqb (a b : event) : bool := node_eqb (fst a) (fst b) && value_eqb (snd a) (snd b).
Definition count_ev (e : event) (l : list event) : nat := length (filter (event_eqb e) l).
(* handler calls compared as multisets (the order of notifiers is registration order, not modelled) *)
Definition events_eqb (a b : list event) : bool :=
  Nat.eqb (length a) (length b) && forallb (fun e => Nat.eqb (count_ev e a) (count_ev e b)) a.

(* codes: 100*step + 1 outcome, 2 handler calls, 3 values read, 4 __dict__ membership;
   step 90 = the observation before the first operation *)
Definition obs_diff (m i : obs) : list Z :=
  chk 1 (outcome_eqb (ob_out m) (ob_out i))
  ++ chk 2 (events_eqb (ob_events m) (ob_events i))
  ++ chk 3 (list_eqb (list_eqb rdres_eqb) (ob_reads m) (ob_reads i))
  ++ chk 4 (list_eqb (list_eqb Bool.eqb) (ob_local m) (ob_local i)).

(* the observation before the first operation: values the driver did not read ([RE OtherError]) are not compared *)
Definition obs_diff0 (m i : obs) : list Z :=
  chk 1 (outcome_eqb (ob_out m) (ob_out i))
  ++ chk 2 (events_eqb (ob_events m) (ob_events i))
  ++ chk 3 (list_eqb (list_eqb rd_keeps) (ob_reads m) (ob_reads i))
  ++ chk 4 (list_eqb (list_eqb Bool.eqb) (ob_local m) (ob_local i)).

(* the model state cannot be re-synchronised from observations (dict membership of plain traits is
   not observed), so only the first disagreeing step is reported *)
Fixpoint corr_hist (i : Z) (st : state) (h : list (op * obs)) : list Z :=
  match h with
  | [] => []
  | (o, ob) :: r =>
      let '(st', mob) := step st o in
      match obs_diff mob ob with
      | [] => corr_hist (i + 1) st' r
      | d => map (fun c => 100 * i + c) d
      end
  end.

Definition cfg_of (cs : list cls) (os : list obj) : cfg := mkG cs (map o_cls os).

(* the local values given at construction, as the law's initial specification state *)
Definition initial_locals (g : cfg) (os : list obj) : lspec :=
  flat_map (fun o => flat_map (fun e => if is_deleg g (o, fst e) then [((o, fst e), snd e)] else [])
                              (o_dict (nth o os dummy_obj)))
           (seq 0 (length os)).

Definition corr_codes (c : case) : list Z :=
  let '(cs, os, ob0, h) := c in
  let st := init_state_k cs os in
  match obs_diff0 (mkObs Done [] (snapshot st) (locals st)) ob0 with
  | [] => corr_hist 0 st h
  | d => map (fun c => 9000 + c) d
  end.

Definition law_codes (c : case) : list Z :=
  let '(cs, os, ob0, h) := c in law_hist (cfg_of cs os) 0 (initial_locals (cfg_of cs os) os) ob0 h.
