#!/bin/bash
# Full .vo build of the Coq development (no -vos). Usage: build.sh [jobs] [target.vo ...]
# With targets only those files and what they depend on are (re)built; -k keeps going past a
# broken file so that one property's broken proof does not hide the others.
set -e
cd "$(dirname "$0")"
J=${1:-16}
shift || true
exec 9> .build.lock
flock 9
{ echo "-Q . TV"; echo "-arg -w -arg -notation-overridden,-deprecated-hint-without-locality,-deprecated-instance-without-locality"; find . -name '*.v' | sed 's|^\./||' | LC_ALL=C sort; } > _CoqProject.new
if ! cmp -s _CoqProject.new _CoqProject 2>/dev/null || [ ! -f Makefile ]; then
  mv _CoqProject.new _CoqProject
  coq_makefile -f _CoqProject -o Makefile > /dev/null
else
  rm -f _CoqProject.new
fi
ulimit -s unlimited 2>/dev/null || true
set +e
timeout ${VERIF_MAKE_TIMEOUT:-1500} make -k -j"$J" "$@" > .build.log 2>&1
rc=$?
grep -v -E '^(COQDEP|COQC|CLEAN|make)' .build.log | tail -60
exit $rc
