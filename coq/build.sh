#!/bin/bash
# Full .vo build of the Coq development (no -vos). Usage: build.sh [jobs]
set -e
cd "$(dirname "$0")"
J=${1:-16}
{ echo "-Q . TV"; echo "-arg -w -arg -notation-overridden,-deprecated-hint-without-locality,-deprecated-instance-without-locality"; find . -name '*.v' | sed 's|^\./||' | LC_ALL=C sort; } > _CoqProject.new
if ! cmp -s _CoqProject.new _CoqProject 2>/dev/null || [ ! -f Makefile ]; then
  mv _CoqProject.new _CoqProject
  coq_makefile -f _CoqProject -o Makefile > /dev/null
else
  rm -f _CoqProject.new
fi
ulimit -s unlimited 2>/dev/null || true
set +e
timeout 3000 make -j"$J" > .build.log 2>&1
rc=$?
grep -v -E '^(COQDEP|COQC|CLEAN|make)' .build.log | tail -60
exit $rc
