(* C05 — the property as a boolean checker on one observed history.  It does not
   mention the model's step functions: it is applied verbatim to the observations
   recorded from the implementation, and proved of the model in Proofs.v.
   Clause codes (returned on failure):
     1 outcome class differs from the built-in list on the validated items
     2 contents differ from the built-in list on the validated items
     3 a failing operation changed the contents or notified
     4 more than one notification for one operation
     5 contents changed but no notification
     6 replay law: replacing, in the snapshot taken before, the removed items at
       index by the added items does not yield the contents after (for an operation
       that changes nothing this says: the event replays to the identity)
     7 index not in normal form (non-negative integer, or slice with
       0 <= start < stop <= old length and step >= 2)
     8 removed is not the list of items the index selects in the snapshot
     9 the value returned (pop) differs from the built-in list's *)
From Coq Require Import ZArith List Bool.
From TV Require Import Common.PySlice Common.PyList Common.Harness C05.Model.
Import ListNotations.
Local Open Scope Z_scope.

Definition exn_eqb (a b : exn) : bool :=
  match a, b with
  | IndexError, IndexError | ValueError, ValueError | TraitError, TraitError
  | TypeError, TypeError | OtherError, OtherError | OverflowError, OverflowError => true
  | _, _ => false
  end.
Definition is_raise {A} (o : res A) : bool := match o with Ok _ => false | Raise _ => true end.
Definition zlist_eqb := list_eqb Z.eqb.
Definition is_ok {A} (r : res A) : bool := negb (is_raise r).

Section Law.
  Variable vld : Z -> option Z.

  (* The built-in list after the same operation on the validated items:
     (result, alt) where result = Ok (contents, returned value) or Raise class;
     when an item is rejected the result is Raise TraitError, and [alt] lists the
     class the built-in operation itself raises on that subscript (if it does):
     an operation that is wrong twice may report either error. *)
  Definition spec_result := (res (list Z * option Z) * list exn)%type.
  Definition lift (r : res (list Z)) : res (list Z * option Z) := bind r (fun l => Ok (l, None)).
  Definition err_of {A} (r : res A) : list exn := match r with Raise e => [e] | Ok _ => [] end.

  Definition builtin (l : list Z) (o : op) : spec_result :=
    match o with
    | SetInt i v =>
        match vld v with
        | None => (Raise TraitError, err_of (setitem_int l i v))
        | Some y => (lift (setitem_int l i y), [])
        end
    | SetSlice sl vs =>
        match vld_all vld vs with
        | None => (Raise TraitError, err_of (setitem_slice l sl vs))
        | Some ys => (lift (setitem_slice l sl ys), [])
        end
    | DelInt i => (lift (delitem_int l i), [])
    | DelSlice sl => (lift (delitem_slice l sl), [])
    | Append v =>
        match vld v with None => (Raise TraitError, []) | Some y => (Ok (l ++ [y], None), []) end
    | Extend vs | Iadd vs =>
        match vld_all vld vs with None => (Raise TraitError, []) | Some ys => (Ok (l ++ ys, None), []) end
    | Imul n => if fits n then (Ok (imul l n, None), []) else (Raise OverflowError, [])
    | ImulQ _ _ => (Raise TypeError, [])                 (* can't multiply sequence by non-int *)
    | Insert i v =>                  (* an index beyond a machine word: OverflowError *)
        match vld v with
        | None => (Raise TraitError, if fits i then [] else [OverflowError])
        | Some y => if fits i then (Ok (insert l i y, None), []) else (Raise OverflowError, [])
        end
    | Pop oi =>
        let i := match oi with Some i => i | None => -1 end in
        if fits i then (bind (pop l i) (fun p => Ok (snd p, Some (fst p))), []) else (Raise OverflowError, [])
    | Remove v => (lift (remove py_eq l v), [])          (* the value to remove is not validated (documented) *)
    | Reverse => (Ok (rev l, None), [])
    | Sort m r => (Ok (sort (key_leb m) r l, None), [])
    | Clear => (Ok ([], None), [])
    (* the built-in list takes an object with __index__ for the integer it stands for *)
    | InsertX i v =>
        match vld v with
        | None => (Raise TraitError, if fits i then [] else [OverflowError])
        | Some y => if fits i then (Ok (insert l i y, None), []) else (Raise OverflowError, [])
        end
    | PopX i =>
        let i := match Some i with Some i => i | None => -1 end in
        if fits i then (bind (pop l i) (fun p => Ok (snd p, Some (fst p))), []) else (Raise OverflowError, [])
    | ImulX n => if fits n then (Ok (imul l n, None), []) else (Raise OverflowError, [])
    (* "can only assign an iterable" / "object is not iterable"; a zero step is reported first *)
    | SetSliceN sl => if slice_step sl =? 0 then (Raise ValueError, [TypeError]) else (Raise TypeError, [])
    | ExtendN => (Raise TypeError, [])
    | SortPos => (Raise TypeError, [])                   (* sort() takes no positional arguments *)
    end.

  Definition outcome_ok (out : res unit) (sr : spec_result) : bool :=
    match out, fst sr with
    | Ok _, Ok _ => true
    | Raise e, Raise e' => exn_eqb e e' || existsb (exn_eqb e) (snd sr)
    | _, _ => false
    end.

  (* what a listener does with an event *)
  Definition replay (before : list Z) (ev : event) : option (list Z) :=
    let '(idx, removed, added) := ev in
    match idx with
    | I i => if i <? 0 then None
             else Some (firstn (Z.to_nat i) before ++ added ++ skipn (Z.to_nat i + length removed) before)
    | S3 s e k =>
        let sl := (Some s, Some e, Some k) in
        match (if is_nil added then delitem_slice before sl else setitem_slice before sl added) with
        | Ok l' => Some l'
        | Raise _ => None
        end
    end.

  Definition normal_form (len : Z) (ev : event) : bool :=
    match fst (fst ev) with
    | I i => 0 <=? i
    | S3 s e k => (0 <=? s) && (s <? e) && (e <=? len) && (2 <=? k)
    end.

  Definition removed_selected (before : list Z) (ev : event) : bool :=
    let '(idx, removed, _) := ev in
    match idx with
    | I i => (0 <=? i) && zlist_eqb (firstn (length removed) (skipn (Z.to_nat i) before)) removed
    | S3 s e k =>
        match getitem_slice before (Some s, Some e, Some k) with
        | Ok r => zlist_eqb r removed
        | Raise _ => false
        end
    end.

  Definition replays_to (before after : list Z) (ev : event) : bool :=
    match replay before ev with Some l' => zlist_eqb l' after | None => false end.

  Definition law_step (before : list Z) (o : op) (ob : obs) : list Z :=
    let sr := builtin before o in
    let exp_after := match fst sr with Ok (l', _) => l' | Raise _ => before end in
    let exp_ret := match fst sr with Ok (_, r) => r | Raise _ => None end in
    let changed := negb (zlist_eqb before (o_after ob)) in
    chk 1 (outcome_ok (o_out ob) sr)
    ++ chk 2 (zlist_eqb (o_after ob) exp_after)
    ++ chk 3 (is_ok (o_out ob) || (negb changed && is_nil (o_events ob)))
    ++ chk 4 (Nat.leb (length (o_events ob)) 1)
    ++ chk 5 (negb changed || negb (is_nil (o_events ob)))
    ++ chk 6 (forallb (replays_to before (o_after ob)) (o_events ob))
    ++ chk 7 (forallb (normal_form (zlen before)) (o_events ob))
    ++ chk 8 (forallb (removed_selected before) (o_events ob))
    ++ chk 9 (opt_eqb Z.eqb (o_ret ob) exp_ret).

  (* the built-in list driven through a whole history on the validated items (a failing operation
     leaves it alone): the contents after each step *)
  Fixpoint pylist_run (l : list Z) (ops : list op) : list (list Z) :=
    match ops with
    | [] => []
    | o :: r =>
        let l' := match fst (builtin l o) with Ok (l', _) => l' | Raise _ => l end in
        l' :: pylist_run l' r
    end.

  (* histories on a TraitListObject: the steps refused for length reasons are
     TraitError steps that leave the list alone (see C04); all others obey the law *)
  Definition refused (l : list Z) (ob : obs) : bool :=
    match o_out ob with Raise TraitError => zlist_eqb (o_after ob) l && is_nil (o_events ob) | _ => false end.

  Fixpoint law_hist_tlo (i : Z) (before : list Z) (h : list (op * obs)) : list Z :=
    match h with
    | [] => []
    | (o, ob) :: r =>
        (if refused before ob then [] else map (fun c => 100 * i + c) (law_step before o ob))
        ++ law_hist_tlo (i + 1) (o_after ob) r
    end.

  Fixpoint law_hist (i : Z) (before : list Z) (h : list (op * obs)) : list Z :=
    match h with
    | [] => []
    | (o, ob) :: r => map (fun c => 100 * i + c) (law_step before o ob) ++ law_hist (i + 1) (o_after ob) r
    end.
End Law.
