(* C05 — the arithmetic core: _normalize_slice_or_index returns the direction flag,
   an index/slice in normal form, and selects exactly the positions of the original
   slice (reversed when the flag is set).  The proof script refers to [normalize_gen]
   unqualified: the C05 check replays this very file against the definition that the
   translator regenerates from the source when it differs from C05/Normalize.v. *)
From Coq Require Import ZArith List Lia Bool.
From TV Require Import Common.PySlice Common.PyList C05.Normalize.
(*GEN-IMPORT*)
Import ListNotations.
Local Open Scope Z_scope.

Definition canon {A} (P : list A) (rv : bool) := if rv then rev P else P.

Definition norm_spec (len : Z) (sl : slice) : Prop :=
  let '(a, b, c) := indices len sl in
  let n := slicelen a b c in
  let P := positions a c (Z.to_nat n) in
  let '(rv, r) := normalize_gen len sl in
  rv = (c <? 0) /\
  match r with
  | I s => 0 <= s <= len /\
           (n = 0 \/ ((c = 1 \/ c = -1 \/ n = 1) /\ canon P rv = positions s 1 (Z.to_nat n)))
  | S3 s e k => 0 <= s < e /\ e <= len /\ 2 <= k /\ 2 <= n /\
                canon P rv = positions s k (Z.to_nat n) /\
                slicelen s e k = n /\ e = s + (n - 1) * k + 1
  end.

Ltac red_let := cbv beta iota zeta.

Theorem normalize_gen_spec len sl :
  0 <= len -> slice_step sl <> 0 -> norm_spec len sl.
Proof.
  intros Hlen Hstep. rewrite <- (indices_step len) in Hstep. unfold norm_spec, normalize_gen.
  destruct sl as [[oa ob] oc].
  destruct (indices len (oa, ob, oc)) as [[a b] c] eqn:Hidx. cbn [snd] in Hstep.
  destruct (Z.ltb_spec c 0) as [Hc|Hc].
  - (* reversed *)
    destruct (indices_neg _ _ _ _ _ _ _ Hlen Hidx Hc) as [Ha Hb].
    set (s := - c). assert (0 < s) as Hs by (subst s; lia).
    unfold slicelen. replace (c <? 0) with true by lia.
    destruct (Z.ltb_spec b a) as [Hba|Hba].
    + (* nonempty *)
      change (- c) with s.
      destruct (len_pos_spec (a - b - 1) s ltac:(lia) Hs) as (E & B & N).
      pose proof (neg_mod_spec (a - b) s ltac:(lia) Hs) as M. cbn zeta in M.
      replace (- s) with c in M by (subst s; lia).
      rewrite M. clear M.
      set (n := (a - b - 1) / s + 1) in *.
      set (last := a - s * (n - 1)).
      assert (b - c + (a - b - s * n) = last) as E1 by (subst last s; lia).
      rewrite E1. assert (0 <= last <= a) as Hl by (subst last; nia).
      rewrite Z.min_l by lia.
      assert ((a + 1 - last - 1) mod s = 0) as M2.
      { replace (a + 1 - last - 1) with ((n - 1) * s) by (subst last; lia). apply Z.mod_mul; lia. }
      rewrite M2.
      assert (canon (positions a c (Z.to_nat n)) true = positions last s (Z.to_nat n)) as CP.
      { unfold canon. destruct (Z.to_nat n) as [|m] eqn:En; [lia|].
        rewrite positions_rev. f_equal; subst last s; try reflexivity; nia. }
      destruct (s =? 1) eqn:S1; cbn [orb]; red_let.
      * split; [reflexivity|]. split; [lia|]. right. split; [subst s; lia|]. rewrite CP. f_equal. lia.
      * destruct (a + 1 - 0 - last <=? s) eqn:S2; red_let.
        -- (* single element *)
           assert (n = 1) by (subst last; nia). split; [reflexivity|]. split; [lia|]. right. split; [lia|].
           rewrite CP. replace (Z.to_nat n) with 1%nat by lia. reflexivity.
        -- assert (2 <= n) by (subst last; nia).
           split; [reflexivity|].
           repeat split; try lia; try (subst last; nia).
           ++ rewrite CP. reflexivity.
           ++ replace (s <? 0) with false by lia.
              replace (last <? a + 1 - 0) with true by lia.
              replace (a + 1 - 0 - last - 1) with (s * (n - 1) + 0) by (subst last; lia).
              rewrite div_mul_add_l; lia.
    + (* empty *)
      assert (c < (a - b) mod c <= 0) as MB by (apply Z.mod_neg_bound; lia).
      set (st := Z.min (b - c + (a - b) mod c) len).
      assert (0 <= st <= len) by (subst st s; lia).
      set (sp := a + 1 - (a + 1 - st - 1) mod s).
      pose proof (Z.mod_pos_bound (a + 1 - st - 1) s ltac:(lia)).
      assert (sp - st <= s) by (subst sp; lia).
      destruct (s =? 1); cbn [orb]; red_let; [split; [reflexivity|split; [lia|left; reflexivity]]|].
      replace (sp - st <=? s) with true by lia. red_let.
      split; [reflexivity|split; [lia|left; reflexivity]].
  - (* forward *)
    assert (0 < c) as Hc' by lia. clear Hc Hstep.
    destruct (indices_pos _ _ _ _ _ _ _ Hlen Hidx Hc') as [Ha Hb].
    unfold slicelen. replace (c <? 0) with false by lia.
    destruct (Z.ltb_spec a b) as [Hab|Hab].
    + destruct (len_pos_spec (b - a - 1) c ltac:(lia) Hc') as (E & B & N).
      set (n := (b - a - 1) / c + 1) in *.
      assert (b - (b - a - 1) mod c = a + (n - 1) * c + 1) as E1 by lia.
      rewrite E1.
      destruct (c =? 1) eqn:C1; cbn [orb]; red_let.
      * split; [reflexivity|]. split; [lia|]. right. split; [lia|]. unfold canon. f_equal. lia.
      * destruct (a + (n - 1) * c + 1 - a <=? c) eqn:S2; red_let.
        -- assert (n = 1) by nia. split; [reflexivity|]. split; [lia|]. right. split; [lia|].
           unfold canon. replace (Z.to_nat n) with 1%nat by lia. reflexivity.
        -- assert (2 <= n) by nia.
           split; [reflexivity|].
           repeat split; try lia; try nia.
           replace (c <? 0) with false by lia.
           replace (a <? a + (n - 1) * c + 1) with true by nia.
           replace (a + (n - 1) * c + 1 - a - 1) with (c * (n - 1) + 0) by lia.
           rewrite div_mul_add_l; lia.
    + pose proof (Z.mod_pos_bound (b - a - 1) c Hc').
      destruct (c =? 1); cbn [orb]; red_let; [split; [reflexivity|split; [lia|left; reflexivity]]|].
      replace (b - (b - a - 1) mod c - a <=? c) with true by lia. red_let.
      split; [reflexivity|split; [lia|left; reflexivity]].
Qed.
