(* C05 — property theorems only.  Each is closed by [exact] of a lemma of Proofs.v /
   NormProof.v and followed by Print Assumptions.  [vld] ranges over every item
   validator (accepting, rejecting, converting); lists, integer indices and slices
   (None / negative / oversized start, stop, step) are unbounded. *)
From Coq Require Import ZArith List Bool.
From TV Require Import Common.PySlice Common.PyList Common.Harness C05.Normalize C05.NormProof C05.Model C05.Law C05.Proofs.
Import ListNotations.
Local Open Scope Z_scope.

(* The whole law (all 9 clauses) holds at every step of every history on a TraitList (integer arguments may be index-like
   objects: F26 was repaired by commit 40e8e0f, the hypothesis that excluded them is gone). *)
Theorem law_holds_on_every_history :
  forall (vld : Z -> option Z) (ops : list op) (l : list Z) (i : Z),
    law_hist vld i l (run (tl_step vld) l ops) = [].
Proof. exact run_law. Qed.
Print Assumptions law_holds_on_every_history.

(* TraitListObject (any length bounds): every step either obeys the same law or is
   refused with TraitError, leaving the list alone and notifying nobody. *)
Theorem law_holds_on_every_history_of_a_list_trait :
  forall (vld : Z -> option Z) (minlen : Z) (maxlen : option Z) (ops : list op) (l : list Z) (i : Z),
    law_hist_tlo vld i l (run (tlo_step vld minlen maxlen) l ops) = [].
Proof. exact run_law_tlo. Qed.
Print Assumptions law_holds_on_every_history_of_a_list_trait.

(* The centre piece: replaying the emitted event on the old contents yields the new contents. *)
Theorem replay_law :
  forall (vld : Z -> option Z) (l : list Z) (o : op) (ev : event),
    In ev (o_events (tl_step vld l o)) -> replay l ev = Some (o_after (tl_step vld l o)).
Proof. exact step_replay. Qed.
Print Assumptions replay_law.

Theorem refines_list :
  forall (vld : Z -> option Z) (l : list Z) (o : op),
    let ob := tl_step vld l o in
    let sr := builtin vld l o in
    outcome_ok (o_out ob) sr = true /\
    o_after ob = (match fst sr with Ok (l', _) => l' | Raise _ => l end) /\
    o_ret ob = (match fst sr with Ok (_, r) => r | Raise _ => None end).
Proof. exact step_refines. Qed.
Print Assumptions refines_list.

(* ... and over whole histories: the contents after every step are those of the built-in list *)
Theorem refines_list_on_histories :
  forall (vld : Z -> option Z) (ops : list op) (l : list Z),
    map (fun p => o_after (snd p)) (run (tl_step vld) l ops) = pylist_run vld l ops.
Proof. exact run_refines_pylist. Qed.
Print Assumptions refines_list_on_histories.

Theorem failing_op_untouched :
  forall (vld : Z -> option Z) (l : list Z) (o : op) (e : exn),
    o_out (tl_step vld l o) = Raise e -> o_after (tl_step vld l o) = l /\ o_events (tl_step vld l o) = [].
Proof. exact step_failing_untouched. Qed.
Print Assumptions failing_op_untouched.

Theorem one_event_per_change :
  forall (vld : Z -> option Z) (l : list Z) (o : op),
    (length (o_events (tl_step vld l o)) <= 1)%nat /\
    (o_after (tl_step vld l o) <> l -> exists ev, o_events (tl_step vld l o) = [ev]).
Proof. exact step_one_event. Qed.
Print Assumptions one_event_per_change.

Theorem event_index_normal_form :
  forall (vld : Z -> option Z) (l : list Z) (o : op) idx removed added,
    In (idx, removed, added) (o_events (tl_step vld l o)) ->
    match idx with
    | I i => 0 <= i
    | S3 s e k => 0 <= s /\ s < e /\ e <= zlen l /\ 2 <= k
    end.
Proof. exact step_normal_form. Qed.
Print Assumptions event_index_normal_form.

Theorem removed_are_the_selected_items :
  forall (vld : Z -> option Z) (l : list Z) (o : op) idx removed added,
    In (idx, removed, added) (o_events (tl_step vld l o)) ->
    match idx with
    | I i => firstn (length removed) (skipn (Z.to_nat i) l) = removed
    | S3 s e k => getitem_slice l (Some s, Some e, Some k) = Ok removed
    end.
Proof. exact step_removed_selected. Qed.
Print Assumptions removed_are_the_selected_items.

Theorem noop_event_is_identity :
  forall (vld : Z -> option Z) (l : list Z) (o : op) (ev : event),
    o_after (tl_step vld l o) = l -> In ev (o_events (tl_step vld l o)) -> replay l ev = Some l.
Proof. exact step_noop_identity. Qed.
Print Assumptions noop_event_is_identity.

(* single steps of a TraitListObject *)
Theorem list_trait_step_obeys_or_refuses :
  forall (vld : Z -> option Z) (minlen : Z) (maxlen : option Z) (l : list Z) (o : op),
    law_step vld l o (tlo_step vld minlen maxlen l o) = [] \/ tlo_step vld minlen maxlen l o = raise TraitError l.
Proof. exact tlo_step_law. Qed.
Print Assumptions list_trait_step_obeys_or_refuses.

(* F26 (repaired by 40e8e0f): insert / pop / *= convert an index-like argument with operator.index first, as the built-in
   list does: the operation with the object is the operation with the int (and obeys the whole law, above) *)
Theorem index_like_arguments_behave_as_ints :
  forall (vld : Z -> option Z) (l : list Z) (o : op), tl_step vld l o = tl_step vld l (deX o).
Proof. exact index_like_is_int. Qed.
Print Assumptions index_like_arguments_behave_as_ints.

(* a change made from inside a notifier (re-entrant) is an operation like any other: it too obeys the whole law,
   in particular it is notified *)
Theorem nested_operation_obeys_the_law :
  forall (vld : Z -> option Z) (l : list Z) (o : op),
    let ob := tl_step vld l o in
    law_step vld l o ob = [] /\ law_step vld (o_after ob) (Pop (Some 0)) (tl_step vld (o_after ob) (Pop (Some 0))) = [].
Proof. exact reaction_law. Qed.
Print Assumptions nested_operation_obeys_the_law.

(* copies: copy.copy / copy.deepcopy / pickle of a TraitList: the same values (a pickle round trip creates new
   objects: the same values up to identity, [vpart]) *)
Theorem copy_keeps_contents :
  forall (vld : Z -> option Z) (k : copykind) (l : list Z),
    (forall x y, vld x = Some y -> vld y = Some y) -> Forall (fun y => exists x, vld x = Some y) l ->
    exists l', tl_copy vld k l = Ok l' /\ map vpart l' = map vpart l /\ (k <> CopyPickle -> l' = l).
Proof. exact tl_copy_keeps_contents. Qed.
Print Assumptions copy_keeps_contents.

Theorem law_holds_on_every_history_of_a_copy :
  forall (vld : Z -> option Z) (k : copykind) (l l' : list Z),
    tl_copy vld k l = Ok l' -> forall ops i, law_hist vld i l' (run (tl_step vld) l' ops) = [].
Proof. exact law_on_a_copy. Qed.
Print Assumptions law_holds_on_every_history_of_a_copy.

(* the arithmetic core, about the definition translated from the source (T1) *)
Theorem normalize_spec :
  forall len sl, 0 <= len -> slice_step sl <> 0 -> norm_spec len sl.
Proof. exact normalize_gen_spec. Qed.
Print Assumptions normalize_spec.

(* Identity: two distinct objects that are equal and of the same type (atoms 1301, 2301: two floats 1.0) are two items;
   reversing [a; b] changes the list, is notified, and the event replays *)
Example reverse_of_equal_but_distinct_objects :
  let l := [1301; 2301] in
  let ob := tl_step (vld_of VAll) l Reverse in
  py_eq 1301 2301 = true /\ o_after ob = [2301; 1301] /\ o_events ob = [(I 0, [1301; 2301], [2301; 1301])]
  /\ replay l (I 0, [1301; 2301], [2301; 1301]) = Some (o_after ob)
  /\ o_events (tl_step (vld_of VAll) l (Remove 1)) = [(I 0, [1301], [])].
Proof. vm_compute. repeat split; reflexivity. Qed.

Example index_like_arguments_nontrivial :
  let h := run (tl_step (vld_of VCInt)) [1; 2] [InsertX 0 105; PopX (-1); ImulX 2; InsertX 9 200; PopX 7] in
  map (fun p => o_after (snd p)) h = [[5; 1; 2]; [5; 1]; [5; 1; 5; 1]; [5; 1; 5; 1]; [5; 1; 5; 1]]
  /\ map (fun p => o_out (snd p)) h = [Ok tt; Ok tt; Ok tt; Raise TraitError; Raise IndexError].
Proof. vm_compute. split; reflexivity. Qed.

(* Non-vacuity: a history with a converting validator in which extended and reversed
   slices are assigned and deleted, an operation fails, and a no-op event is emitted. *)
Example history_nontrivial :
  let h := run (tl_step (vld_of VCInt)) [1; 2; 3; 4; 5]
             [SetSlice (None, None, Some (-2)) [7; 108; 9]; DelSlice (Some 4, None, Some (-3));
              SetInt 7 200; Append 200; Sort 0 false; Sort 0 false; SetSlice (Some 1, Some 1, None) []] in
  map (fun p => o_events (snd p)) h =
    [[(S3 0 5 2, [1; 3; 5], [9; 8; 7])]; [(S3 1 5 3, [2; 7], [])]; []; [];
     [(I 0, [9; 8; 4], [4; 8; 9])]; [(I 0, [4; 8; 9], [4; 8; 9])]; []]
  /\ map (fun p => o_out (snd p)) h = [Ok tt; Ok tt; Raise TraitError; Raise TraitError; Ok tt; Ok tt; Ok tt].
Proof. vm_compute. split; reflexivity. Qed.
