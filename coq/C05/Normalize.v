(* C05 — committed reference of what tools/tr_pyfun.py (translator T1) emits for
   trait_list_object._normalize_slice_or_index (l.65-131) and _removed_items (l.134-165).
   On every run of ./check C05 the translator regenerates this file from the current
   source; the run proves generated = this reference (else replays C05/NormProof.v against
   the generated definitions, else searches a counter-example).  Regenerate with
   /venv/bin/python tools/tr_pyfun.py. *)
From Coq Require Import ZArith List Bool.
From TV Require Import Common.PySlice Common.PyList.
Import ListNotations.
Local Open Scope Z_scope.

Definition normalize_int (length index : Z) : bool * ios :=
  (false, (I (if (index <? 0) then (index + length) else index))).

Definition normalize_gen (length : Z) (sl : slice) : bool * ios :=
  let '(start, stop, step) := indices length sl in
  let reversed_ := (step <? 0) in
  let '(start, stop, step) := if reversed_ then ((Z.min ((stop - step) + ((start - stop) mod step)) length), (start + 1), (- step)) else (start, stop, step) in
  let stop := (stop - (((stop - start) - 1) mod step)) in
  if ((step =? 1) || ((stop - start) <=? step)) then (reversed_, (I start))
  else (reversed_, (S3 start stop step)).

Definition removed_items {A : Type} (items : list A) (index : key)
    (return_for_invalid_index : option (list A)) : res (option (list A)) :=
  match index with
  | KSlice sl => bind (getitem_slice items sl) (fun r => Ok (Some r))
  | KInt i => match getitem_int items i with
              | Ok x => Ok (Some [x])
              | Raise IndexError => Ok return_for_invalid_index
              | Raise e => Raise e
              end
  end.


(* the dispatch on the subscript (the isinstance test at l.110) *)
Definition normalize (index : key) (length : Z) : bool * ios :=
  match index with KInt i => normalize_int length i | KSlice sl => normalize_gen length sl end.
