(* C05 — executable model of traits/trait_list_object.py: TraitList (l.169-495)
   and the TraitListObject layer on top of it (l.541-902: the _validate_length
   guards and the early ValueError of extended-slice assignment).
   Items are integer atoms; the item validator is an arbitrary function
   [vld : Z -> option Z] (Some y = accept and convert to y, None = TraitError).
   The built-in list each method delegates to (super().…) is Common/PyList.v;
   _normalize_slice_or_index / _removed_items are C05/Normalize.v (translator T1).
   Executable definitions only; line references are to trait_list_object.py. *)
From Coq Require Import ZArith List Bool.
From TV Require Import Common.PySlice Common.PyList C05.Normalize.
Import ListNotations.
Local Open Scope Z_scope.

Definition event := (ios * list Z * list Z)%type.       (* index, removed, added *)

Inductive op :=
| SetInt (i : Z) (v : Z)                  (* l[i] = v *)
| SetSlice (sl : slice) (vs : list Z)     (* l[a:b:c] = vs *)
| DelInt (i : Z)                          (* del l[i] *)
| DelSlice (sl : slice)                   (* del l[a:b:c] *)
| Append (v : Z)
| Extend (vs : list Z)
| Iadd (vs : list Z)                      (* l += vs *)
| Imul (n : Z)                            (* l *= n *)
| ImulQ (p q : Z)                         (* l *= x for x = p/q given as a float / Fraction / Decimal (q > 0):
                                             a number, but not an integer type *)
| Insert (i : Z) (v : Z)
| Pop (i : option Z)                      (* l.pop() / l.pop(i) *)
| Remove (v : Z)
| Reverse
| Sort (keymod : Z) (reverse : bool)       (* l.sort(key=..., reverse=...); keymod 0: no key, m > 0: key = item mod m *)
| Clear
(* integer-like arguments that are not ints: an object whose only integer behaviour is __index__ (no <, no +).
   The built-in list converts it with __index__ and proceeds, and so do insert / pop / *= since the repair of F26
   (commit 40e8e0f: operator.index first); the ops stay so that a reversal of the repair is caught *)
| InsertX (i : Z) (v : Z)                 (* l.insert(Idx(i), v) *)
| PopX (i : Z)                            (* l.pop(Idx(i)) *)
| ImulX (n : Z)                           (* l *= Idx(n) *)
(* an argument that is not iterable (None, 0, False) where an iterable is required: TypeError in the built-in list *)
| SetSliceN (sl : slice)                  (* l[a:b:c] = None *)
| ExtendN                                 (* l.extend(None) *)
| SortPos.                                (* l.sort(None, True) / l.sort(len): key and reverse are keyword-only *)

(* the operations whose integer argument is such an object ... *)
Definition xkey (o : op) : bool := match o with InsertX _ _ | PopX _ | ImulX _ => true | _ => false end.
(* ... and what `operator.index(argument)` makes of them *)
Definition deX (o : op) : op :=
  match o with InsertX i v => Insert i v | PopX i => Pop (Some i) | ImulX n => Imul n | _ => o end.

(* what one operation shows: outcome class, contents afterwards, the calls a
   recording notifier received, the value returned (pop) *)
Record obs := mkObs {
  o_out : res unit;
  o_after : list Z;
  o_events : list event;
  o_ret : option Z
}.

Definition ok (l : list Z) (evs : list event) : obs := mkObs (Ok tt) l evs None.
Definition raise (e : exn) (l : list Z) : obs := mkObs (Raise e) l [] None.

(* Python equality between items: the atoms 300+i stand for the float i.0, which equals the int i
   (list.index / list.remove compare with ==, so they find an equal item that is not the same value) *)
(* Identity: an atom >= 1000 is 1000*j + v, the j-th distinct OBJECT with the value atom v (two floats 1.0 created
   separately are equal, of the same type, and still two things a list can permute); its value part is v. *)
Definition vpart (a : Z) : Z := if 1000 <=? a then a mod 1000 else a.
Definition canon_atom (a : Z) : Z := let v := vpart a in if (300 <=? v) && (v <? 400) then v - 300 else v.
(* list.index / list.remove / == between lists compare with `x is y or x == y`: the same object always matches, even one
   that is not equal to itself (value atom 500: a float NaN) *)
Definition is_nan (a : Z) : bool := vpart a =? 500.
Definition py_eq (a b : Z) : bool := (a =? b) || (negb (is_nan a) && (canon_atom a =? canon_atom b)).

(* the ordering list.sort uses: the items themselves, or their keys (equal keys keep their order) *)
Definition sort_key (m x : Z) : Z := if m =? 0 then x else x mod m.
Definition key_leb (m a b : Z) : bool := sort_key m a <=? sort_key m b.

Definition nonempty {A} (l : list A) : bool := match l with [] => false | _ => true end.
Definition flip {A} (rv : bool) (l : list A) : list A := if rv then rev l else l.
(* truthiness of `removed`, which is None (invalid integer index) or a list *)
Definition truthy {A} (o : option (list A)) : bool := match o with Some l => nonempty l | None => false end.
Definition olist {A} (o : option (list A)) : list A := match o with Some l => l | None => [] end.

Section WithValidator.
  Variable vld : Z -> option Z.

  (* [self.item_validator(item) for item in value]: the first rejection aborts *)
  Fixpoint vld_all (xs : list Z) : option (list Z) :=
    match xs with
    | [] => Some []
    | x :: r => match vld x with
                | None => None
                | Some y => match vld_all r with None => None | Some ys => Some (y :: ys) end
                end
    end.

  (* ---------------- TraitList ---------------- *)
  Definition tl_core (l : list Z) (o : op) : obs :=
    let len := zlen l in
    match o with
    | SetInt i v =>                                        (* __setitem__, l.315-352, integer key *)
        match removed_items l (KInt i) None with            (* l.336 *)
        | Raise e => raise e l
        | Ok removed =>
            match vld v with                                (* l.341 *)
            | None => raise TraitError l
            | Some value =>
                match setitem_int l i value with            (* l.344 *)
                | Raise e => raise e l
                | Ok l' =>                                  (* added = [value] is never empty, l.346 *)
                    let '(rv, nk) := normalize (KInt i) len in
                    ok l' [(nk, flip rv (olist removed), flip rv [value])]
                end
            end
        end
    | SetSlice sl vs =>                                    (* __setitem__, slice key *)
        match removed_items l (KSlice sl) None with         (* l.336: items[index], ValueError if step = 0 *)
        | Raise e => raise e l
        | Ok removed =>
            match vld_all vs with                           (* l.338 *)
            | None => raise TraitError l
            | Some value =>
                match setitem_slice l sl value with         (* l.344 *)
                | Raise e => raise e l
                | Ok l' =>
                    if nonempty value || truthy removed then   (* l.346 *)
                      let '(rv, nk) := normalize (KSlice sl) len in
                      ok l' [(nk, flip rv (olist removed), flip rv value)]
                    else ok l' []
                end
            end
        end
    | DelInt i =>                                          (* __delitem__, l.241-265 *)
        match removed_items l (KInt i) None with
        | Raise e => raise e l
        | Ok removed =>
            match delitem_int l i with
            | Raise e => raise e l
            | Ok l' =>
                if truthy removed then
                  let '(rv, nk) := normalize (KInt i) len in
                  ok l' [(nk, flip rv (olist removed), [])]
                else ok l' []
            end
        end
    | DelSlice sl =>
        match removed_items l (KSlice sl) None with
        | Raise e => raise e l
        | Ok removed =>
            match delitem_slice l sl with
            | Raise e => raise e l
            | Ok l' =>
                if truthy removed then
                  let '(rv, nk) := normalize (KSlice sl) len in
                  ok l' [(nk, flip rv (olist removed), [])]
                else ok l' []
            end
        end
    | Append v =>                                          (* l.354-365: always notifies *)
        match vld v with
        | None => raise TraitError l
        | Some y => let l' := l ++ [y] in ok l' [(I len, [], skipn (length l) l')]
        end
    | Extend vs | Iadd vs =>                               (* l.375-388 / l.267-286 *)
        match vld_all vs with
        | None => raise TraitError l
        | Some added => ok (l ++ added) (if nonempty added then [(I len, [], added)] else [])
        end
    | Imul n =>                                            (* l.288-313 *)
        if negb (fits n) then raise OverflowError l        (* super().__imul__(value), both branches *)
        else
        if n <? 1 then ok (imul l n) (if nonempty l then [(I 0, l, [])] else [])
        else let l' := imul l n in
             let added := skipn (length l) l' in
             ok l' (if nonempty added then [(I len, [], added)] else [])
    | ImulQ p q =>                                         (* l.288-313: `value < 1` is decided, then super().__imul__
                                                              raises TypeError in either branch; nothing was changed *)
        raise TypeError l
    | Insert i v =>                                        (* l.390-408 *)
        let nidx := if i <? 0 then Z.max (i + len) 0 else Z.min i len in
        match vld v with
        | None => raise TraitError l
        | Some y => if fits i then ok (insert l i y) [(I nidx, [], [y])]
                    else raise OverflowError l             (* l.410 super().insert(index, ...): index beyond a machine word *)
        end
    | Pop oi =>                                            (* l.410-435 *)
        let i := match oi with Some i => i | None => -1 end in
        let nidx := if i <? 0 then i + len else i in
        if negb (fits i) then raise OverflowError l       (* l.436 super().pop(index) *)
        else
        match pop l i with
        | Raise e => raise e l
        | Ok (item, l') => mkObs (Ok tt) l' [(I nidx, [item], [])] (Some item)
        end
    | Remove v =>                                          (* l.437-464: the raw value is searched *)
        match index_of py_eq v l with
        | None => raise ValueError l                        (* super().remove raises *)
        | Some n =>
            match nth_error l n, remove py_eq l v with
            | Some x, Ok l' => ok l' [(I (Z.of_nat n), [x], [])]
            | _, Raise e => raise e l
            | None, Ok _ => raise OtherError l             (* unreachable *)
            end
        end
    | Reverse =>                                           (* l.466-471 *)
        let l' := rev l in ok l' (if nonempty l then [(I 0, l, l')] else [])
    | Sort m r =>                                          (* l.473-495: key and reverse are passed through *)
        let l' := sort (key_leb m) r l in ok l' (if nonempty l then [(I 0, l, l')] else [])
    | Clear =>                                             (* l.367-373 *)
        ok [] (if nonempty l then [(I 0, l, [])] else [])
    | InsertX _ _ | PopX _ | ImulX _ => raise OtherError l (* never reached: see tl_step *)
    | SetSliceN sl =>                                      (* l.336 removed items first (ValueError for step 0), then
                                                              l.338 iterating the value raises TypeError *)
        match getitem_slice l sl with Raise e => raise e l | Ok _ => raise TypeError l end
    | ExtendN => raise TypeError l                         (* l.385 *)
    | SortPos => raise TypeError l                         (* l.476 `def sort(self, *, key=None, reverse=False)` *)
    end.

  (* insert / pop / *= begin with operator.index(argument) (l.302, l.403, l.434 after the repair of F26) *)
  Definition tl_step (l : list Z) (o : op) : obs := tl_core l (deX o).

  (* ---------------- TraitListObject ---------------- *)
  (* _validate_length, l.872-902; maxlen = None stands for the default maxlen = sys.maxsize *)
  Definition len_ok (minlen : Z) (maxlen : option Z) (n : Z) : bool :=
    (minlen <=? n) && match maxlen with Some m => n <=? m | None => n <=? 9223372036854775807 end.

  (* `key.step is None or key.step == 1`, l.703 *)
  Definition is_step1 (sl : slice) : bool := match snd sl with None => true | Some k => k =? 1 end.

  (* the new length each override announces before delegating (l.627-806) *)
  Definition announced (l : list Z) (o : op) : res (option Z) :=
    let len := zlen l in
    match o with
    | SetInt _ _ => Ok None
    | SetSlice sl vs =>                                    (* l.701-716; len(self[key]) raises for step 0 *)
        bind (getitem_slice l sl) (fun r =>
          if is_step1 sl then Ok (Some (len - zlen r + zlen vs))
          else if zlen vs =? zlen r then Ok None else Raise ValueError)
    | DelInt _ => Ok (Some (Z.max (len - 1) 0))            (* l.641-642 *)
    | DelSlice sl => bind (getitem_slice l sl) (fun r => Ok (Some (Z.max (len - zlen r) 0)))
    | Append _ | Insert _ _ => Ok (Some (len + 1))
    | Extend vs | Iadd vs => Ok (Some (len + zlen vs))
    | Imul n => Ok (Some (Z.max 0 (len * n)))
    | ImulQ _ _ => Ok None                                  (* operator.index(value) raises before the guard *)
    | Pop _ | Remove _ => Ok (Some (Z.max (len - 1) 0))
    | Clear => Ok (Some 0)
    | Reverse | Sort _ _ => Ok None                          (* not overridden *)
    | InsertX _ _ => Ok (Some (len + 1))                    (* l.761: the length is checked first *)
    | PopX _ => Ok (Some (Z.max (len - 1) 0))               (* l.784 *)
    | ImulX n => Ok (Some (Z.max 0 (len * n)))              (* operator.index(value) first, then as for an int *)
    | SetSliceN _ | ExtendN => Raise TypeError              (* l.702 / l.746: list(value) fails first *)
    | SortPos => Ok None                                    (* sort is not overridden *)
    end.

  Definition tlo_step0 (minlen : Z) (maxlen : option Z) (l : list Z) (o : op) : obs :=
    match announced l o with
    | Raise e => raise e l
    | Ok (Some n) => if len_ok minlen maxlen n then tl_step l o else raise TraitError l
    | Ok None => tl_step l o
    end.

  (* `*=` by a float / Fraction / Decimal: operator.index(value) raises TypeError before the length is looked at *)
  Definition tlo_step (minlen : Z) (maxlen : option Z) (l : list Z) (o : op) : obs :=
    match o with
    | ImulQ p q => raise TypeError l
    | _ => tlo_step0 minlen maxlen l o
    end.

  Fixpoint run (step : list Z -> op -> obs) (l : list Z) (ops : list op) : list (op * obs) :=
    match ops with
    | [] => []
    | o :: r => let ob := step l o in (o, ob) :: run step (o_after ob) r
    end.
End WithValidator.

(* copies of a TraitList (l.499-524), see C05/Corr.v *)
Inductive copykind := CopyCopy | CopyDeep | CopyPickle.

Definition tl_copy (vld : Z -> option Z) (k : copykind) (l : list Z) : res (list Z) :=
  match k with
  | CopyPickle => Ok (map vpart l)          (* unpickling creates new objects: equal values, other identities *)
  | CopyCopy | CopyDeep => match vld_all vld l with Some ys => Ok ys | None => Raise TraitError end
  end.

(* The validators of the correspondence harness (atoms: 0..99 the ints, 100+i the
   string "i", 200.. objects that no Int/CInt validator accepts, 300+i the float i.0,
   1000*j + v the j-th distinct object with value v). *)
Inductive vkind := VAll | VInt | VCInt | VInc     (* VInc: a non-idempotent conversion, x -> x + 1 on 0..89 *)
                | VInst.                           (* Instance("Cell"), a forward reference: None (200) or a Cell (203) *)
Definition vld_of (k : vkind) (x : Z) : option Z :=
  match k with
  | VAll => Some x
  | VInt => if (0 <=? x) && (x <? 100) then Some x else None
  | VCInt => let v := vpart x in
             if (0 <=? v) && (v <? 100) then Some v
             else if (100 <=? v) && (v <? 200) then Some (v - 100)
             else if (300 <=? v) && (v <? 400) then Some (v - 300) else None
  | VInc => if (0 <=? x) && (x <? 90) then Some (x + 1) else None
  | VInst => if (x =? 200) || (x =? 203) then Some x else None
  end.
