(* C05 — correspondence: one case = target (stand-alone TraitList, or the
   TraitListObject of a List trait with its length bounds), validator kind, initial
   contents and the history of (operation, observation recorded from the implementation). *)
From Coq Require Import ZArith List Bool.
From TV Require Import Common.PySlice Common.PyList Common.Harness C05.Normalize C05.Model C05.Law.
Import ListNotations.
Local Open Scope Z_scope.

Inductive target := TPlain | TObj (minlen : Z) (maxlen : option Z).

Definition case := (target * vkind * list Z * list (op * obs))%type.

Definition ios_eqb (x y : ios) : bool :=
  match x, y with
  | I a, I b => a =? b
  | S3 a b c, S3 a' b' c' => (a =? a') && (b =? b') && (c =? c')
  | _, _ => false
  end.
Definition event_eqb (a b : event) : bool :=
  let '(i, r, d) := a in let '(i', r', d') := b in
  ios_eqb i i' && zlist_eqb r r' && zlist_eqb d d'.
Definition out_eqb (a b : res unit) : bool :=
  match a, b with Ok _, Ok _ => true | Raise x, Raise y => exn_eqb x y | _, _ => false end.

(* codes: 100*step + 1 outcome, 2 contents, 3 events, 4 return value *)
Definition obs_diff (m i : obs) : list Z :=
  chk 1 (out_eqb (o_out m) (o_out i))
  ++ chk 2 (zlist_eqb (o_after m) (o_after i))
  ++ chk 3 (list_eqb event_eqb (o_events m) (o_events i))
  ++ chk 4 (opt_eqb Z.eqb (o_ret m) (o_ret i)).

Definition step_of (t : target) (vk : vkind) : list Z -> op -> obs :=
  match t with
  | TPlain => tl_step (vld_of vk)
  | TObj mn mx => tlo_step (vld_of vk) mn mx
  end.

(* The model is re-synchronised on the implementation's contents after every
   step, so one disagreement is reported once, at the step where it happens. *)
Fixpoint corr_hist (f : list Z -> op -> obs) (i : Z) (s : list Z) (h : list (op * obs)) : list Z :=
  match h with
  | [] => []
  | (o, ob) :: r =>
      map (fun c => 100 * i + c) (obs_diff (f s o) ob) ++ corr_hist f (i + 1) (o_after ob) r
  end.

Definition corr_codes (c : case) : list Z :=
  let '(t, vk, init, h) := c in corr_hist (step_of t vk) 0 init h.
(* a List trait value may refuse an operation for length reasons (TraitError, list untouched, nobody notified; also the
   default maxlen = sys.maxsize, e.g. `*= 2**100` on a non-empty list): such steps are C04's business *)
Definition law_codes (c : case) : list Z :=
  let '(t, vk, init, h) := c in
  match t with
  | TPlain => law_hist (vld_of vk) 0 init h
  | TObj _ _ => law_hist_tlo (vld_of vk) 0 init h
  end.

(* ---- single-operation grids generated inside Coq (thorough tier) ---- *)
(* canonical integer encoding of an observation; the driver computes the same *)
Definition enc_list (l : list Z) : list Z := Z.of_nat (length l) :: l.
Definition enc_exn (e : exn) : Z :=
  match e with IndexError => 1 | ValueError => 2 | TraitError => 3 | TypeError => 4 | OtherError => 5 | OverflowError => 6 end.
Definition enc_event (ev : event) : list Z :=
  let '(i, r, a) := ev in
  (match i with I n => [0; n] | S3 s e k => [1; s; e; k] end) ++ enc_list r ++ enc_list a.
Definition enc_obs (ob : obs) : list Z :=
  (match o_out ob with Ok _ => 0 | Raise e => enc_exn e end)
  :: enc_list (o_after ob) ++ Z.of_nat (length (o_events ob)) :: flat_map enc_event (o_events ob)
  ++ (match o_ret ob with Some x => [1; x] | None => [0] end).

Definition oz (lo hi : Z) : list (option Z) :=
  None :: map (fun n => Some (lo + Z.of_nat n)) (seq 0 (Z.to_nat (hi - lo + 1))).
Definition zr (lo hi : Z) : list Z := map (fun n => lo + Z.of_nat n) (seq 0 (Z.to_nat (hi - lo + 1))).
Definition steps : list (option Z) := None :: map Some [1; 2; 3; 4; -1; -2; -3; -4; 0].
Definition slices (b : Z) : list slice :=
  flat_map (fun a => flat_map (fun e => map (fun c => (a, e, c)) steps) (oz (- b) b)) (oz (- b) b).
(* replacement values for slice assignment: 0..4 fresh valid items, one convertible, one invalid *)
Definition values : list (list Z) :=
  [[]; [90]; [90; 91]; [90; 91; 92]; [90; 91; 92; 93]; [90; 91; 92; 93; 94]; [190]; [90; 200]; [190; 91]].

Definition grid_ops (b : Z) : list op :=
  flat_map (fun i => [DelInt i; SetInt i 99; SetInt i 199; SetInt i 200; Insert i 99; Insert i 200;
                      Pop (Some i); Imul i; Remove (10 + i); InsertX i 99; PopX i; ImulX i]) (zr (- b) b)
  ++ [Pop None; Append 5; Append 105; Append 200; Extend [5; 6]; Extend []; Extend [5; 200]; Iadd [5; 106];
      Iadd []; Insert 1267650600228229401496703205376 99; Insert (-1267650600228229401496703205376) 200;
      Insert 9223372036854775807 99; Insert (-9223372036854775808) 99; Insert 9223372036854775808 99;
      Pop (Some 1267650600228229401496703205376); Pop (Some (-9223372036854775809)); Imul 1267650600228229401496703205376;
      Imul (-1267650600228229401496703205376); InsertX 9223372036854775808 99; PopX (-9223372036854775809);
      SortPos; ExtendN; SetSliceN (None, None, None); SetSliceN (Some 1, Some 3, None); SetSliceN (None, None, Some 2);
      SetSliceN (None, None, Some 0); ImulQ 1 2; ImulQ 5 2; ImulQ 2 1; ImulQ (-1) 2; Clear; Reverse; Sort 0 false; Sort 0 true; Sort 3 false; Sort 3 true; Sort 2 true]
  ++ flat_map (fun sl => DelSlice sl :: map (SetSlice sl) values) (slices b).

(* list of length n: atoms 10 + (a permutation so that sort/reverse change it) *)
Definition grid_init (n : Z) : list Z := map (fun i => 10 + ((i * 3) mod 7)) (zr 0 (n - 1)).

(* cheap rolling digest (Bernstein, modulo 2^61); Harness.digest's division is too slow for 10^6 cases *)
Definition fd_step (h c : Z) : Z := Z.land (Z.shiftl h 5 + h + c + 7) 2305843009213693951.
Definition fdigest (l : list Z) : Z := fold_left fd_step l 0.

Fixpoint digest_blocks {A} (f : A -> list Z) (bs : nat) (fuel : nat) (l : list A) : list Z :=
  match fuel with
  | O => []
  | S fuel' =>
      match l with
      | [] => []
      | _ => fdigest (flat_map f (firstn bs l)) :: digest_blocks f bs fuel' (skipn bs l)
      end
  end.

Definition grid_digests (t : target) (vk : vkind) (n b : Z) (bs : nat) : list Z :=
  let ops := grid_ops b in
  digest_blocks (fun o => enc_obs (step_of t vk (grid_init n) o)) bs (S (length ops)) ops.

(* the same grid as embedded cases, for the blocks whose digests differ *)
Definition grid_op_at (b : Z) (k : nat) : option op := nth_error (grid_ops b) k.

(* slice.indices itself against the interpreter, same enumeration *)
Definition indices_digests (n b : Z) (bs : nat) : list Z :=
  let sls := filter (fun sl => negb (slice_step sl =? 0)) (slices b) in
  digest_blocks (fun sl => let '(x, y, z) := indices n sl in [x; y; z]) bs (S (length sls)) sls.

(* the statement of C05/NormProof.norm_spec as a boolean checker of an arbitrary
   normalisation function (used to search a witness when the function translated
   from the current source no longer satisfies the proved specification) *)
Definition norm_spec_b (f : Z -> slice -> bool * ios) (len : Z) (sl : slice) : bool :=
  let '(a, b, c) := indices len sl in
  let n := slicelen a b c in
  let P := positions a c (Z.to_nat n) in
  let '(rv, r) := f len sl in
  Bool.eqb rv (c <? 0) &&
  match r with
  | I s => (0 <=? s) && (s <=? len) &&
           ((n =? 0) || (((c =? 1) || (c =? -1) || (n =? 1)) && zlist_eqb (flip rv P) (positions s 1 (Z.to_nat n))))
  | S3 s e k => (0 <=? s) && (s <? e) && (e <=? len) && (2 <=? k) && (2 <=? n)
                && zlist_eqb (flip rv P) (positions s k (Z.to_nat n))
                && (slicelen s e k =? n) && (e =? s + (n - 1) * k + 1)
  end.

(* ---------- copies (copy.copy, copy.deepcopy, pickle round trip) ---------- *)
(* TraitList (trait_list_object.py l.499-524): __deepcopy__ rebuilds the list through the constructor (every item goes
   through the validator again); copy.copy restores the state (validator) first and then appends the items (validated
   again); a pickle round trip appends the items to the bare object first (default validator) and restores the state
   afterwards.  Notifiers are dropped in all three.  The history then continues on the copy: it is a TraitList with the
   same validator.
   TraitListObject (l.810-850): deepcopy gives an object of the same trait without owner: items are no longer validated,
   the length bounds still are; after a pickle round trip neither (trait = None). *)
(* contents of the copy and the (target, validator) configuration the history continues with *)
Definition copy_result (t : target) (vk : vkind) (k : copykind) (l : list Z) : res (list Z) * (target * vkind) :=
  match t with
  | TPlain => (tl_copy (vld_of vk) k l, (TPlain, vk))
  | TObj mn mx =>
      match k with
      | CopyDeep => (Ok l, (TObj mn mx, VAll))
      (* pickle (copy.copy of a TraitListObject is not generated): trait = None, no length check at all -- not even the
         default maxlen = sys.maxsize that [None] stands for *)
      | _ => (Ok (map vpart l), (TObj 0 (Some (2 ^ 200)), VAll))
      end
  end.

(* case: target, validator, kind, contents before; observed: outcome/contents of the copy, "the old notifiers are gone",
   the history continued on the copy *)
Definition ccase := (target * vkind * copykind * list Z * res (list Z) * bool * list (op * obs))%type.

Definition corr_copy (c : ccase) : list Z :=
  let '(t, vk, k, l, ob, fresh, h) := c in
  let '(m, (t', vk')) := copy_result t vk k l in
  match m, ob with
  | Ok a, Ok b => chk 2 (zlist_eqb a b) ++ corr_hist (step_of t' vk') 1 b h
  | Raise x, Raise y => chk 1 (exn_eqb x y)
  | _, _ => [1]
  end.

(* 10: the copy still calls the original's notifiers; 11: the copy does not hold the validated items of the original;
   then the list law on everything done to a TraitList copy *)
Definition law_copy (c : ccase) : list Z :=
  let '(t, vk, k, l, ob, fresh, h) := c in
  chk 10 fresh ++
  match ob with
  | Ok b =>
      match t with
      | TPlain =>
          chk 11 (match k with
                  | CopyPickle => zlist_eqb b (map vpart l)
                  | _ => match vld_all (vld_of vk) l with Some ys => zlist_eqb b ys | None => false end
                  end)
          ++ law_hist (vld_of vk) 1 b h
      | TObj _ _ => chk 11 (zlist_eqb (map vpart b) (map vpart l))
      end
  | Raise _ => []
  end.

(* ---------- re-entrant notifiers ---------- *)
(* A notifier that keeps the list bounded: when it is told about added items and the list is longer than K it pops the
   oldest item -- a second, nested operation on the list it is being notified about, with its own notification (to the
   notifiers registered before it, here the recorder, in chronological order).  One top-level operation is then two
   steps: the operation itself (contents as of its notification) and the reaction `pop(0)`. *)
Definition reacts (K : Z) (ob : obs) : bool :=
  match o_events ob with
  | (_, _, added) :: _ => nonempty added && (K <? zlen (o_after ob))
  | [] => false
  end.

Definition rcase := (target * vkind * Z * list Z * list (op * obs * option obs))%type.

Definition at_step (i : Z) (shift : Z) (cs : list Z) : list Z := map (fun c => 100 * i + shift + c) cs.

(* codes: 100*step + clause for the operation, + 20 for the reaction; 20 = a reaction was expected / not expected *)
Fixpoint corr_react_hist (f : list Z -> op -> obs) (K : Z) (i : Z) (s : list Z) (h : list (op * obs * option obs)) : list Z :=
  match h with
  | [] => []
  | (o, ob1, r) :: t =>
      let m1 := f s o in
      at_step i 0 (obs_diff m1 ob1)
      ++ (match reacts K m1, r with
          | true, Some ob2 => at_step i 20 (obs_diff (f (o_after ob1) (Pop (Some 0))) ob2)
          | false, None => []
          | _, _ => [100 * i + 20]
          end)
      ++ corr_react_hist f K (i + 1) (match r with Some ob2 => o_after ob2 | None => o_after ob1 end) t
  end.
Definition corr_react (c : rcase) : list Z :=
  let '(t, vk, K, init, h) := c in corr_react_hist (step_of t vk) K 0 init h.

Fixpoint law_react_hist (vld : Z -> option Z) (i : Z) (s : list Z) (h : list (op * obs * option obs)) : list Z :=
  match h with
  | [] => []
  | (o, ob1, r) :: t =>
      (if refused s ob1 then [] else at_step i 0 (law_step vld s o ob1))
      ++ (match r with Some ob2 => at_step i 20 (law_step vld (o_after ob1) (Pop (Some 0)) ob2) | None => [] end)
      ++ law_react_hist vld (i + 1) (match r with Some ob2 => o_after ob2 | None => o_after ob1 end) t
  end.
Definition law_react (c : rcase) : list Z :=
  let '(t, vk, K, init, h) := c in law_react_hist (vld_of vk) 0 init h.
