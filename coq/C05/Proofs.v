(* C05 — proofs that the model of TraitList / TraitListObject satisfies the law, for
   every validator, every list, every operation (all integer indices, all slices)
   and every history. *)
From Coq Require Import ZArith List Bool Lia Arith PeanoNat.
From TV Require Import Common.PySlice Common.PyList Common.Harness C05.Normalize C05.NormProof C05.Model C05.Law.
Import ListNotations.
Local Open Scope Z_scope.

(* ---------- booleans / lists ---------- *)
Lemma chk_nil k b : chk k b = [] <-> b = true.
Proof. destruct b; cbn; split; intros; congruence. Qed.

Lemma list_eqb_Z_spec (a b : list Z) : list_eqb Z.eqb a b = true <-> a = b.
Proof.
  revert b. induction a as [|x a IH]; intros [|y b]; cbn; split; intros H; try congruence; try reflexivity.
  - apply andb_true_iff in H. destruct H as [H1 H2]. apply Z.eqb_eq in H1. apply IH in H2. congruence.
  - inversion H; subst. rewrite Z.eqb_refl. cbn. apply IH. reflexivity.
Qed.
Lemma zlist_eqb_spec a b : zlist_eqb a b = true <-> a = b.
Proof. apply list_eqb_Z_spec. Qed.
Lemma zlist_eqb_refl a : zlist_eqb a a = true.
Proof. apply zlist_eqb_spec. reflexivity. Qed.

Lemma exn_eqb_refl e : exn_eqb e e = true.
Proof. destruct e; reflexivity. Qed.

Lemma nonempty_length {A} (l : list A) : nonempty l = false -> l = [].
Proof. destruct l; cbn; congruence. Qed.
Lemma nonempty_true {A} (l : list A) : nonempty l = true -> l <> [].
Proof. destruct l; cbn; congruence. Qed.

Lemma flip_length {A} rv (l : list A) : length (flip rv l) = length l.
Proof. destruct rv; cbn; [apply rev_length|reflexivity]. Qed.
Lemma flip_nil {A} rv (l : list A) : flip rv l = [] -> l = [].
Proof. intros H. apply length_zero_iff_nil. rewrite <- (flip_length rv). rewrite H. reflexivity. Qed.
Lemma flip_map {A B} (f : A -> B) rv l : flip rv (map f l) = map f (flip rv l).
Proof. destruct rv; cbn; [symmetry; apply map_rev|reflexivity]. Qed.

Lemma to_nat_zlen {A} (l : list A) : Z.to_nat (zlen l) = length l.
Proof. unfold zlen. lia. Qed.

(* ---------- nat-position facts ---------- *)
Lemma assign_at_nil {A} (l : list A) V : assign_at l [] V = l.
Proof. unfold assign_at. apply mapi_from_id. intros. cbn. reflexivity. Qed.
Lemma delete_at_nil {A} (l : list A) : delete_at l [] = l.
Proof. unfold delete_at. apply filteri_from_all. reflexivity. Qed.

Lemma select_flip {A} (l : list A) rv P : select l (flip rv P) = flip rv (select l P).
Proof. destruct rv; cbn; [apply select_rev|reflexivity]. Qed.
Lemma assign_at_flip {A} (l : list A) rv P V : NoDup P -> length P = length V ->
  assign_at l (flip rv P) (flip rv V) = assign_at l P V.
Proof. destruct rv; cbn; intros; [apply assign_at_rev; assumption|reflexivity]. Qed.
Lemma delete_at_flip {A} (l : list A) rv P : delete_at l (flip rv P) = delete_at l P.
Proof. destruct rv; cbn; [apply delete_at_rev|reflexivity]. Qed.
Lemma flip_In {A} rv (l : list A) x : In x (flip rv l) <-> In x l.
Proof. destruct rv; cbn; [symmetry; apply in_rev|reflexivity]. Qed.

Lemma upto_bound s n m : (forall p, In p (upto s n) -> (p < m)%nat) -> (n = 0 \/ s + n <= m)%nat.
Proof.
  intros H. destruct n as [|n]; [left; reflexivity|right].
  specialize (H (s + n)%nat). rewrite upto_In in H. lia.
Qed.

Lemma nth_error_firstn1 {A} (l : list A) n x : nth_error l n = Some x -> firstn 1 (skipn n l) = [x].
Proof.
  revert l. induction n as [|n IH]; intros [|a l] H; cbn in *; try discriminate.
  - inversion H. reflexivity.
  - apply IH. exact H.
Qed.

Lemma index_of_nth eqb x (l : list Z) n : index_of eqb x l = Some n -> exists y, nth_error l n = Some y.
Proof.
  revert n. induction l as [|a l IH]; intros n H; cbn in H; [discriminate|].
  destruct (eqb a x).
  - inversion H; subst. exists a. reflexivity.
  - destruct (index_of eqb x l) as [m|]; [|discriminate]. inversion H; subst.
    destruct (IH m eq_refl) as [y Hy]. exists y. exact Hy.
Qed.

(* ---------- what normalize_gen_spec says about the nat positions of a slice ---------- *)
Definition norm_facts {A} (l : list A) (sl : slice) : Prop :=
  let NP := npos (zlen l) sl in
  let n := length NP in
  let '(rv, r) := normalize_gen (zlen l) sl in
  match r with
  | I s => 0 <= s /\ (n = 0%nat \/ flip rv NP = upto (Z.to_nat s) n)
  | S3 s e k => 0 <= s < e /\ e <= zlen l /\ 2 <= k /\ (2 <= n)%nat /\
                npos (zlen l) (Some s, Some e, Some k) = flip rv NP
  end.

Lemma norm_facts_hold {A} (l : list A) sl : slice_step sl <> 0 -> norm_facts l sl.
Proof.
  intros Hs. pose proof (normalize_gen_spec (zlen l) sl (zlen_nonneg l) Hs) as SP.
  unfold norm_facts, norm_spec, npos, slice_positions in *.
  destruct (indices (zlen l) sl) as [[a b] c].
  destruct (normalize_gen (zlen l) sl) as [rv r].
  destruct SP as [_ SP]. rewrite map_length, positions_length.
  destruct r as [s|s e k].
  - destruct SP as [Hs0 [Hn|[_ Hc]]].
    + split; [lia|]. left. rewrite Hn. reflexivity.
    + split; [lia|]. right. rewrite flip_map. unfold canon in Hc. unfold flip. rewrite Hc.
      apply positions_upto. lia.
  - destruct SP as (H1 & H2 & H3 & H4 & H5 & H6 & H7).
    repeat split; try lia.
    rewrite indices_normal by lia. rewrite H6. rewrite flip_map. unfold canon in H5. unfold flip. rewrite H5. reflexivity.
Qed.

(* ---------- the three event clauses ---------- *)
Definition event_good (l l' : list Z) (ev : event) : Prop :=
  replays_to l l' ev = true /\ normal_form (zlen l) ev = true /\ removed_selected l ev = true.

Lemma is_nil_false {A} (l : list A) : l <> [] -> is_nil l = false.
Proof. destruct l; cbn; congruence. Qed.

Lemma slice_step_some s e k : slice_step (Some s, Some e, Some k) = k.
Proof. reflexivity. Qed.

Lemma slice_del_event (l : list Z) sl :
  slice_step sl <> 0 -> npos (zlen l) sl <> [] ->
  let '(rv, nk) := normalize_gen (zlen l) sl in
  event_good l (delete_at l (npos (zlen l) sl)) (nk, flip rv (select l (npos (zlen l) sl)), []).
Proof.
  intros Hs Hne. pose proof (norm_facts_hold l sl Hs) as NF. unfold norm_facts in NF.
  set (NP := npos (zlen l) sl) in *.
  assert (forall p, In p NP -> (p < length l)%nat) as HB by (intros p; apply npos_bounds; exact Hs).
  assert (length (select l NP) = length NP) as HL by (apply select_length; exact HB).
  destruct (normalize_gen (zlen l) sl) as [rv r]. destruct r as [s|s e k].
  - destruct NF as [Hs0 [Hn|Hf]]; [apply length_zero_iff_nil in Hn; contradiction|].
    assert (Z.to_nat s + length NP <= length l)%nat as Hle.
    { destruct (upto_bound (Z.to_nat s) (length NP) (length l)) as [H0|H]; [|apply length_zero_iff_nil in H0; contradiction|exact H].
      intros p Hp. rewrite <- Hf in Hp. apply flip_In in Hp. apply HB. exact Hp. }
    unfold event_good, replays_to, replay, normal_form, removed_selected. cbn [fst].
    replace (s <? 0) with false by lia. replace (0 <=? s) with true by lia.
    rewrite flip_length, HL. cbn [app andb].
    rewrite <- delete_at_upto, <- Hf, delete_at_flip.
    rewrite <- select_upto by exact Hle. rewrite <- Hf, select_flip.
    rewrite !zlist_eqb_refl. repeat split; reflexivity.
  - destruct NF as (H1 & H2 & H3 & H4 & H5).
    unfold event_good, replays_to, replay, normal_form, removed_selected, delitem_slice, getitem_slice. cbn [fst is_nil].
    rewrite slice_step_some. replace (k =? 0) with false by lia. rewrite H5, delete_at_flip, select_flip.
    rewrite !zlist_eqb_refl.
    replace (0 <=? s) with true by lia. replace (s <? e) with true by lia.
    replace (e <=? zlen l) with true by lia. replace (2 <=? k) with true by lia.
    repeat split; reflexivity.
Qed.

Lemma slice_set_event (l : list Z) sl V :
  slice_step sl <> 0 -> npos (zlen l) sl <> [] -> length V = length (npos (zlen l) sl) ->
  let '(rv, nk) := normalize_gen (zlen l) sl in
  event_good l (assign_at l (npos (zlen l) sl) V) (nk, flip rv (select l (npos (zlen l) sl)), flip rv V).
Proof.
  intros Hs Hne HV. pose proof (norm_facts_hold l sl Hs) as NF. unfold norm_facts in NF.
  pose proof (npos_NoDup l sl Hs) as ND.
  set (NP := npos (zlen l) sl) in *.
  assert (forall p, In p NP -> (p < length l)%nat) as HB by (intros p; apply npos_bounds; exact Hs).
  assert (length (select l NP) = length NP) as HL by (apply select_length; exact HB).
  destruct (normalize_gen (zlen l) sl) as [rv r]. destruct r as [s|s e k].
  - destruct NF as [Hs0 [Hn|Hf]]; [apply length_zero_iff_nil in Hn; contradiction|].
    assert (Z.to_nat s + length NP <= length l)%nat as Hle.
    { destruct (upto_bound (Z.to_nat s) (length NP) (length l)) as [H0|H]; [|apply length_zero_iff_nil in H0; contradiction|exact H].
      intros p Hp. rewrite <- Hf in Hp. apply flip_In in Hp. apply HB. exact Hp. }
    unfold event_good, replays_to, replay, normal_form, removed_selected. cbn [fst].
    replace (s <? 0) with false by lia. replace (0 <=? s) with true by lia.
    rewrite flip_length, HL. cbn [andb].
    rewrite <- (assign_at_flip l rv NP V ND (eq_sym HV)). rewrite Hf.
    rewrite <- (flip_length rv V) in HV. rewrite <- HV.
    rewrite assign_at_upto by (rewrite HV; exact Hle).
    rewrite HV. rewrite <- select_upto by exact Hle. rewrite <- Hf, select_flip.
    rewrite !zlist_eqb_refl. repeat split; reflexivity.
  - destruct NF as (H1 & H2 & H3 & H4 & H5).
    assert (flip rv V <> []) as HVne.
    { intros E. apply flip_nil in E. subst V. cbn in HV. lia. }
    unfold event_good, replays_to, replay, normal_form, removed_selected, setitem_slice, getitem_slice. cbn [fst].
    rewrite (is_nil_false _ HVne).
    rewrite slice_step_some. replace (k =? 0) with false by lia.
    rewrite indices_normal by lia. replace (k =? 1) with false by lia.
    rewrite H5, !flip_length, HV, Nat.eqb_refl.
    rewrite (assign_at_flip l rv NP V ND (eq_sym HV)), select_flip.
    rewrite !zlist_eqb_refl.
    replace (0 <=? s) with true by lia. replace (s <? e) with true by lia.
    replace (e <=? zlen l) with true by lia. replace (2 <=? k) with true by lia.
    repeat split; reflexivity.
Qed.

(* ---------- integer-index events ---------- *)
Lemma int_event (l : list Z) i removed added :
  0 <= i -> firstn (length removed) (skipn (Z.to_nat i) l) = removed ->
  event_good l (firstn (Z.to_nat i) l ++ added ++ skipn (Z.to_nat i + length removed) l) (I i, removed, added).
Proof.
  intros Hi Hsel. unfold event_good, replays_to, replay, normal_form, removed_selected. cbn [fst].
  replace (i <? 0) with false by lia. replace (0 <=? i) with true by lia.
  rewrite Hsel, !zlist_eqb_refl. repeat split; reflexivity.
Qed.

Lemma in_range_nth {A} (l : list A) i : in_range (zlen l) i = true ->
  0 <= norm_index (zlen l) i /\ exists x, nth_error l (nat_index (zlen l) i) = Some x.
Proof.
  unfold in_range, nat_index, norm_index, zlen. intros H. apply andb_true_iff in H. destruct H as [H1 H2].
  split; [destruct (i <? 0) eqn:E; lia|].
  destruct (nth_error l (Z.to_nat (if i <? 0 then i + Z.of_nat (length l) else i))) as [x|] eqn:E.
  - exists x. reflexivity.
  - apply nth_error_None in E. destruct (i <? 0) eqn:E2; lia.
Qed.

Lemma removed_items_int (l : list Z) i :
  removed_items l (KInt i) None =
  if in_range (zlen l) i then
    match nth_error l (nat_index (zlen l) i) with Some x => Ok (Some [x]) | None => Ok None end
  else Ok None.
Proof.
  unfold removed_items, getitem_int. destruct (in_range (zlen l) i); [|reflexivity].
  destruct (nth_error l (nat_index (zlen l) i)); reflexivity.
Qed.

Lemma del_event (l : list Z) n x : nth_error l n = Some x ->
  event_good l (del_nth n l) (I (Z.of_nat n), [x], []).
Proof.
  intros H. pose proof (int_event l (Z.of_nat n) [x] [] ltac:(lia)) as E.
  rewrite Nat2Z.id in E. cbn [length app] in E. unfold del_nth. rewrite <- Nat.add_1_r.
  apply E. apply nth_error_firstn1. exact H.
Qed.

Lemma set_event (l : list Z) n x y : nth_error l n = Some x ->
  event_good l (set_nth n y l) (I (Z.of_nat n), [x], [y]).
Proof.
  intros H. pose proof (int_event l (Z.of_nat n) [x] [y] ltac:(lia)) as E.
  rewrite Nat2Z.id in E. cbn [length app] in E. unfold set_nth. rewrite <- Nat.add_1_r.
  apply E. apply nth_error_firstn1. exact H.
Qed.

Lemma whole_event (l l' : list Z) : event_good l l' (I 0, l, l').
Proof.
  pose proof (int_event l 0 l l' ltac:(lia)) as E. cbn [Z.to_nat firstn skipn app Nat.add] in E.
  rewrite skipn_all, app_nil_r in E. apply E. apply firstn_all.
Qed.

Lemma tail_event (l added : list Z) : event_good l (l ++ added) (I (zlen l), [], added).
Proof.
  pose proof (int_event l (zlen l) [] added (zlen_nonneg l)) as E.
  rewrite to_nat_zlen in E. cbn [length] in E. rewrite Nat.add_0_r, firstn_all, skipn_all, app_nil_r in E.
  apply E. reflexivity.
Qed.

(* ---------- contiguous (step 1) slice assignment ---------- *)
Lemma normalize_gen_step1 len sl a b : indices len sl = (a, b, 1) -> normalize_gen len sl = (false, I a).
Proof. intros H. unfold normalize_gen. rewrite H. reflexivity. Qed.

Lemma step1_positions {A} (l : list A) sl a b :
  indices (zlen l) sl = (a, b, 1) ->
  0 <= a /\ exists n, npos (zlen l) sl = upto (Z.to_nat a) n /\
                      (Z.to_nat a + n = Z.to_nat (Z.max a b))%nat /\ (Z.to_nat (Z.max a b) <= length l)%nat.
Proof.
  intros H. destruct sl as [[oa ob] oc].
  destruct (indices_pos _ _ _ _ _ _ _ (zlen_nonneg l) H ltac:(lia)) as [Ha Hb].
  split; [lia|]. unfold npos, slice_positions. rewrite H.
  exists (Z.to_nat (slicelen a b 1)). split; [apply positions_upto; lia|].
  unfold slicelen. cbn [Z.ltb Z.compare]. unfold zlen in *.
  destruct (Z.ltb_spec a b).
  - rewrite Z.div_1_r. lia.
  - cbn. lia.
Qed.

Lemma step1_event (l : list Z) sl a b V :
  indices (zlen l) sl = (a, b, 1) ->
  let NP := npos (zlen l) sl in
  let l' := firstn (Z.to_nat a) l ++ V ++ skipn (Z.to_nat (Z.max a b)) l in
  event_good l l' (I a, select l NP, V) /\ (V = [] -> select l NP = [] -> l' = l).
Proof.
  intros H. destruct (step1_positions l sl a b H) as (Ha & n & HP & Hn & Hle).
  cbv zeta. rewrite HP.
  assert (select l (upto (Z.to_nat a) n) = firstn n (skipn (Z.to_nat a) l)) as HS by (apply select_upto; lia).
  assert (length (select l (upto (Z.to_nat a) n)) = n) as HL.
  { rewrite select_length; [apply upto_length|]. intros p Hp. apply upto_In in Hp. lia. }
  split.
  - rewrite <- Hn.
    pose proof (int_event l a (select l (upto (Z.to_nat a) n)) V Ha) as E. rewrite HL in E.
    apply E. symmetry. exact HS.
  - intros -> E. rewrite E in HL. cbn in HL. subst n. rewrite <- Hn, Nat.add_0_r. cbn [app]. apply firstn_skipn.
Qed.

(* ---------- assembling the law ---------- *)
Section Step.
  Variable vld : Z -> option Z.

  Lemma law_raise l o e e' alt :
    builtin vld l o = (Raise e', alt) -> (e = e' \/ In e alt) -> law_step vld l o (raise e l) = [].
  Proof.
    intros HB He. unfold law_step. rewrite HB. cbn [fst snd raise o_out o_after o_events o_ret outcome_ok].
    rewrite zlist_eqb_refl.
    assert (exn_eqb e e' || existsb (exn_eqb e) alt = true) as ->.
    { destruct He as [->|Hin]; [rewrite exn_eqb_refl; reflexivity|].
      apply orb_true_iff. right. apply existsb_exists. exists e. split; [exact Hin|apply exn_eqb_refl]. }
    reflexivity.
  Qed.

  Lemma law_silent l o alt : builtin vld l o = (Ok (l, None), alt) -> law_step vld l o (ok l []) = [].
  Proof.
    intros HB. unfold law_step. rewrite HB. cbn [fst snd ok o_out o_after o_events o_ret outcome_ok].
    rewrite zlist_eqb_refl. reflexivity.
  Qed.

  Lemma law_event l o l' ev ret alt :
    builtin vld l o = (Ok (l', ret), alt) -> event_good l l' ev ->
    law_step vld l o (mkObs (Ok tt) l' [ev] ret) = [].
  Proof.
    intros HB (H1 & H2 & H3). unfold law_step. rewrite HB.
    cbn [fst snd o_out o_after o_events o_ret outcome_ok forallb length].
    rewrite zlist_eqb_refl, H1, H2, H3.
    destruct ret; cbn; rewrite ?Z.eqb_refl, ?orb_true_r; reflexivity.
  Qed.

  Lemma vld_all_length xs ys : vld_all vld xs = Some ys -> length ys = length xs.
  Proof.
    revert ys. induction xs as [|x xs IH]; intros ys H; cbn in H.
    - inversion H. reflexivity.
    - destruct (vld x); [|discriminate]. destruct (vld_all vld xs); [|discriminate].
      inversion H. cbn. f_equal. apply IH. reflexivity.
  Qed.

  Lemma getitem_slice_cases (l : list Z) sl :
    (slice_step sl = 0 /\ getitem_slice l sl = Raise ValueError) \/
    (slice_step sl <> 0 /\ getitem_slice l sl = Ok (select l (npos (zlen l) sl))).
  Proof.
    unfold getitem_slice. destruct (Z.eqb_spec (slice_step sl) 0); [left|right]; split; auto.
  Qed.

  Lemma select_nil_npos (l : list Z) sl : slice_step sl <> 0 ->
    select l (npos (zlen l) sl) = [] -> npos (zlen l) sl = [].
  Proof.
    intros Hs H. apply length_zero_iff_nil. rewrite <- (select_length l).
    - rewrite H. reflexivity.
    - intros p. apply npos_bounds. exact Hs.
  Qed.

  Theorem tl_core_law l o : xkey o = false -> law_step vld l o (tl_core vld l o) = [].
  Proof.
    intros XK.
    destruct o as [i v|sl vs|i|sl|v|vs|vs|n|p q|i v|oi|v| |m r| |xi xv|xi|xn|nsl| | ]; try discriminate XK; clear XK;
      unfold tl_core.
    - (* SetInt *)
      rewrite removed_items_int. unfold setitem_int.
      destruct (in_range (zlen l) i) eqn:R.
      + destruct (in_range_nth l i R) as [Hn [x Hx]]. rewrite Hx.
        destruct (vld v) as [y|] eqn:V.
        * cbn [normalize normalize_int olist flip]. fold (norm_index (zlen l) i).
          eapply law_event; [cbn [builtin]; rewrite V; unfold setitem_int; rewrite R; reflexivity|].
          unfold nat_index in *. rewrite <- (Z2Nat.id (norm_index (zlen l) i)) at 2 by exact Hn.
          apply set_event. exact Hx.
        * eapply law_raise; [cbn [builtin]; rewrite V; reflexivity|left; reflexivity].
      + destruct (vld v) as [y|] eqn:V.
        * eapply law_raise; [cbn [builtin]; rewrite V; unfold setitem_int; rewrite R; reflexivity|left; reflexivity].
        * eapply law_raise; [cbn [builtin]; rewrite V; reflexivity|left; reflexivity].
    - (* SetSlice *)
      cbn [removed_items bind]. destruct (getitem_slice_cases l sl) as [[Hs Hg]|[Hs Hg]]; rewrite Hg; cbn [bind].
      + (* step 0 *)
        assert (forall ws, setitem_slice l sl ws = Raise ValueError) as HSS.
        { intros ws. unfold setitem_slice. rewrite Hs. reflexivity. }
        destruct (vld_all vld vs) as [ys|] eqn:V.
        * eapply law_raise; [cbn [builtin]; rewrite V, HSS; reflexivity|left; reflexivity].
        * eapply law_raise; [cbn [builtin]; rewrite V, HSS; reflexivity|right; left; reflexivity].
      + destruct (vld_all vld vs) as [ys|] eqn:V.
        2:{ eapply law_raise; [cbn [builtin]; rewrite V; reflexivity|left; reflexivity]. }
        destruct (setitem_slice l sl ys) as [l'|e] eqn:SS.
        2:{ eapply law_raise; [cbn [builtin]; rewrite V, SS; reflexivity|left; reflexivity]. }
        assert (builtin vld l (SetSlice sl vs) = (Ok (l', None), [])) as HB
          by (cbn [builtin]; rewrite V, SS; reflexivity).
        unfold setitem_slice in SS. replace (slice_step sl =? 0) with false in SS by lia.
        destruct (indices (zlen l) sl) as [[a b] c] eqn:Hidx.
        cbn [truthy olist normalize].
        destruct (Z.eqb_spec c 1) as [->|Hc1].
        * (* contiguous *)
          inversion SS; subst l'. rewrite (normalize_gen_step1 _ _ _ _ Hidx). cbn [flip].
          destruct (step1_event l sl a b ys Hidx) as [HE HU].
          destruct (nonempty ys || nonempty (select l (npos (zlen l) sl))) eqn:NE.
          -- eapply law_event; [exact HB|exact HE].
          -- apply orb_false_iff in NE. destruct NE as [N1 N2].
             apply nonempty_length in N1. apply nonempty_length in N2.
             rewrite HU in * by assumption. eapply law_silent. exact HB.
        * (* extended *)
          destruct (Nat.eqb_spec (length ys) (length (npos (zlen l) sl))) as [HL|HL]; [|discriminate].
          inversion SS; subst l'.
          destruct (nonempty ys || nonempty (select l (npos (zlen l) sl))) eqn:NE.
          -- assert (npos (zlen l) sl <> []) as Hne.
             { intros E. rewrite E in *. cbn in HL. apply length_zero_iff_nil in HL. subst ys. cbn in NE. discriminate. }
             pose proof (slice_set_event l sl ys Hs Hne HL) as HE.
             destruct (normalize_gen (zlen l) sl) as [rv nk]. eapply law_event; [exact HB|exact HE].
          -- apply orb_false_iff in NE. destruct NE as [N1 N2].
             apply nonempty_length in N1. apply nonempty_length in N2.
             apply (select_nil_npos l sl Hs) in N2. rewrite N2 in *. rewrite assign_at_nil in *.
             eapply law_silent. exact HB.
    - (* DelInt *)
      rewrite removed_items_int. unfold delitem_int.
      destruct (in_range (zlen l) i) eqn:R.
      + destruct (in_range_nth l i R) as [Hn [x Hx]]. rewrite Hx.
        cbn [truthy nonempty normalize normalize_int olist flip]. fold (norm_index (zlen l) i).
        eapply law_event; [cbn [builtin]; unfold delitem_int; rewrite R; reflexivity|].
        unfold nat_index in *. rewrite <- (Z2Nat.id (norm_index (zlen l) i)) at 2 by exact Hn.
        apply del_event. exact Hx.
      + eapply law_raise; [cbn [builtin]; unfold delitem_int; rewrite R; reflexivity|left; reflexivity].
    - (* DelSlice *)
      cbn [removed_items bind]. destruct (getitem_slice_cases l sl) as [[Hs Hg]|[Hs Hg]]; rewrite Hg; cbn [bind].
      + assert (delitem_slice l sl = Raise ValueError) as HD by (unfold delitem_slice; rewrite Hs; reflexivity).
        eapply law_raise; [cbn [builtin]; rewrite HD; reflexivity|left; reflexivity].
      + assert (delitem_slice l sl = Ok (delete_at l (npos (zlen l) sl))) as HD
          by (unfold delitem_slice; replace (slice_step sl =? 0) with false by lia; reflexivity).
        rewrite HD. cbn [truthy olist normalize].
        assert (builtin vld l (DelSlice sl) = (Ok (delete_at l (npos (zlen l) sl), None), [])) as HB
          by (cbn [builtin]; rewrite HD; reflexivity).
        destruct (nonempty (select l (npos (zlen l) sl))) eqn:NE.
        * assert (npos (zlen l) sl <> []) as Hne.
          { intros E. rewrite E in NE. cbn in NE. discriminate. }
          pose proof (slice_del_event l sl Hs Hne) as HE.
          destruct (normalize_gen (zlen l) sl) as [rv nk]. eapply law_event; [exact HB|exact HE].
        * apply nonempty_length in NE. apply (select_nil_npos l sl Hs) in NE. rewrite NE in *.
          rewrite delete_at_nil in *. eapply law_silent. exact HB.
    - (* Append *)
      destruct (vld v) as [y|] eqn:V.
      + rewrite skipn_app, skipn_all, Nat.sub_diag. cbn [skipn app].
        eapply law_event; [cbn [builtin]; rewrite V; reflexivity|apply tail_event].
      + eapply law_raise; [cbn [builtin]; rewrite V; reflexivity|left; reflexivity].
    - (* Extend *)
      destruct (vld_all vld vs) as [ys|] eqn:V.
      + destruct (nonempty ys) eqn:NE.
        * eapply law_event; [cbn [builtin]; rewrite V; reflexivity|apply tail_event].
        * apply nonempty_length in NE. subst ys. rewrite app_nil_r.
          eapply law_silent. cbn [builtin]. rewrite V, app_nil_r. reflexivity.
      + eapply law_raise; [cbn [builtin]; rewrite V; reflexivity|left; reflexivity].
    - (* Iadd *)
      destruct (vld_all vld vs) as [ys|] eqn:V.
      + destruct (nonempty ys) eqn:NE.
        * eapply law_event; [cbn [builtin]; rewrite V; reflexivity|apply tail_event].
        * apply nonempty_length in NE. subst ys. rewrite app_nil_r.
          eapply law_silent. cbn [builtin]. rewrite V, app_nil_r. reflexivity.
      + eapply law_raise; [cbn [builtin]; rewrite V; reflexivity|left; reflexivity].
    - (* Imul *)
      destruct (fits n) eqn:FT; cbn [negb];
        [|eapply law_raise; [cbn [builtin]; rewrite FT; reflexivity|left; reflexivity]].
      unfold imul. destruct (n <? 1) eqn:N.
      + destruct (nonempty l) eqn:NE.
        * eapply law_event; [cbn [builtin]; rewrite FT; unfold imul; rewrite N; reflexivity|apply whole_event].
        * apply nonempty_length in NE. subst l. eapply law_silent. cbn [builtin]. rewrite FT. unfold imul. rewrite N. reflexivity.
      + destruct (Z.to_nat n) as [|m] eqn:M; [lia|]. rewrite rep_skip. cbn [rep].
        destruct (nonempty (rep l m)) eqn:NE.
        * eapply law_event; [cbn [builtin]; rewrite FT; unfold imul; rewrite N, M; reflexivity|apply tail_event].
        * apply nonempty_length in NE. rewrite NE, app_nil_r.
          eapply law_silent. cbn [builtin]. rewrite FT. unfold imul. rewrite N, M. cbn [rep]. rewrite NE, app_nil_r. reflexivity.
    - (* ImulQ *)
      eapply law_raise; [reflexivity|left; reflexivity].
    - (* Insert *)
      destruct (vld v) as [y|] eqn:V.
      + destruct (fits i) eqn:FT;
          [|eapply law_raise; [cbn [builtin]; rewrite V, FT; reflexivity|left; reflexivity]].
        eapply law_event; [cbn [builtin]; rewrite V, FT; reflexivity|].
        unfold insert, insert_index, ins_nth.
        set (k := if i <? 0 then Z.max (i + zlen l) 0 else Z.min i (zlen l)).
        assert (0 <= k) as Hk by (subst k; pose proof (zlen_nonneg l); destruct (i <? 0) eqn:E; lia).
        pose proof (int_event l k [] [y] Hk eq_refl) as E. cbn [length app] in E. rewrite Nat.add_0_r in E. exact E.
      + eapply law_raise; [cbn [builtin]; rewrite V; reflexivity|left; reflexivity].
    - (* Pop *)
      set (i := match oi with Some i => i | None => -1 end).
      destruct (fits i) eqn:FT; cbn [negb];
        [|eapply law_raise; [cbn [builtin]; fold i; rewrite FT; reflexivity|left; reflexivity]].
      unfold pop, getitem_int. destruct (in_range (zlen l) i) eqn:R.
      + destruct (in_range_nth l i R) as [Hn [x Hx]]. rewrite Hx. cbn [bind].
        fold (norm_index (zlen l) i).
        eapply law_event.
        * cbn [builtin]. fold i. rewrite FT. unfold pop, getitem_int. rewrite R, Hx. cbn [bind fst snd]. reflexivity.
        * unfold nat_index in *. rewrite <- (Z2Nat.id (norm_index (zlen l) i)) at 2 by exact Hn.
          apply del_event. exact Hx.
      + cbn [bind]. eapply law_raise; [cbn [builtin]; fold i; rewrite FT; unfold pop, getitem_int; rewrite R; reflexivity|left; reflexivity].
    - (* Remove *)
      unfold remove. destruct (index_of py_eq v l) as [n|] eqn:IX.
      + destruct (index_of_nth py_eq v l n IX) as [x Hx]. rewrite Hx.
        eapply law_event; [cbn [builtin]; unfold remove; rewrite IX; reflexivity|apply del_event; exact Hx].
      + eapply law_raise; [cbn [builtin]; unfold remove; rewrite IX; reflexivity|left; reflexivity].
    - (* Reverse *)
      destruct (nonempty l) eqn:NE.
      + eapply law_event; [reflexivity|apply whole_event].
      + apply nonempty_length in NE. subst l. eapply law_silent. reflexivity.
    - (* Sort *)
      destruct (nonempty l) eqn:NE.
      + eapply law_event; [reflexivity|apply whole_event].
      + apply nonempty_length in NE. subst l. destruct r; eapply law_silent; reflexivity.
    - (* Clear *)
      destruct (nonempty l) eqn:NE.
      + eapply law_event; [reflexivity|apply whole_event].
      + apply nonempty_length in NE. subst l. eapply law_silent. reflexivity.
    - (* SetSliceN *)
      destruct (getitem_slice_cases l nsl) as [[Hs Hg]|[Hs Hg]]; rewrite Hg.
      + eapply law_raise; [cbn [builtin]; rewrite Hs; reflexivity|left; reflexivity].
      + eapply law_raise; [cbn [builtin]; replace (slice_step nsl =? 0) with false by lia; reflexivity|left; reflexivity].
    - (* ExtendN *)
      eapply law_raise; [reflexivity|left; reflexivity].
    - (* SortPos *)
      eapply law_raise; [reflexivity|left; reflexivity].
  Qed.

  (* an index-like argument is converted by operator.index first: the same operation as with the int, judged by the same
     reference (the built-in list does the same conversion) *)
  Lemma builtin_deX l o : builtin vld l o = builtin vld l (deX o).
  Proof. destruct o; reflexivity. Qed.

  Theorem tl_step_law l o : law_step vld l o (tl_step vld l o) = [].
  Proof.
    unfold tl_step, law_step. rewrite builtin_deX. apply (tl_core_law l (deX o)). destruct o; reflexivity.
  Qed.
End Step.

(* ---------- TraitListObject: the same law, or a refusal for length reasons ---------- *)
Section Tlo.
  Variable vld : Z -> option Z.

  Lemma is_step1_false sl : is_step1 sl = false -> slice_step sl <> 1.
  Proof.
    destruct sl as [[a b] [k|]]; unfold is_step1, slice_step; cbn; [lia|discriminate].
  Qed.

  Lemma setitem_slice_size_mismatch (l : list Z) sl ws :
    slice_step sl <> 0 -> slice_step sl <> 1 -> length ws <> length (npos (zlen l) sl) ->
    setitem_slice l sl ws = Raise ValueError.
  Proof.
    intros H0 H1 HL. unfold setitem_slice. replace (slice_step sl =? 0) with false by lia.
    pose proof (indices_step (zlen l) sl) as HS.
    destruct (indices (zlen l) sl) as [[a b] c]. cbn [snd] in HS. subst c.
    replace (slice_step sl =? 1) with false by lia.
    destruct (Nat.eqb_spec (length ws) (length (npos (zlen l) sl))); [contradiction|reflexivity].
  Qed.

  (* a non-integer multiplier is refused by the TraitListObject with TypeError or TraitError; every other
     operation goes through the announced-length guard *)
  Lemma tlo_step_split mn mx l o :
    (exists p q e, o = ImulQ p q /\ tlo_step vld mn mx l o = raise e l /\ (e = TypeError \/ e = TraitError)) \/
    tlo_step vld mn mx l o = tlo_step0 vld mn mx l o.
  Proof.
    right. destruct o; reflexivity.
  Qed.

  Theorem tlo_step0_law mn mx l o :
    law_step vld l o (tlo_step0 vld mn mx l o) = [] \/ tlo_step0 vld mn mx l o = raise TraitError l.
  Proof.
    unfold tlo_step0.
    destruct (announced l o) as [[n|]|e] eqn:AN.
    - destruct (len_ok mn mx n); [left; apply tl_step_law|right; reflexivity].
    - left; apply tl_step_law.
    - left. destruct o; cbn [announced] in AN; try discriminate.
      + (* SetSlice *)
        destruct (getitem_slice_cases l sl) as [[Hs Hg]|[Hs Hg]]; rewrite Hg in AN; cbn [bind] in AN.
        * inversion AN; subst e.
          assert (forall ws, setitem_slice l sl ws = Raise ValueError) as HSS
            by (intros ws; unfold setitem_slice; rewrite Hs; reflexivity).
          destruct (vld_all vld vs) as [ys|] eqn:V.
          -- eapply law_raise; [cbn [builtin]; rewrite V, HSS; reflexivity|left; reflexivity].
          -- eapply law_raise; [cbn [builtin]; rewrite V, HSS; reflexivity|right; left; reflexivity].
        * destruct (is_step1 sl) eqn:S1; [discriminate|].
          destruct (Z.eqb_spec (zlen vs) (zlen (select l (npos (zlen l) sl)))) as [|HL]; [discriminate|].
          inversion AN; subst e. apply is_step1_false in S1.
          assert (length (select l (npos (zlen l) sl)) = length (npos (zlen l) sl)) as HSL
            by (apply select_length; intros p; apply npos_bounds; exact Hs).
          assert (forall ws, length ws = length vs -> setitem_slice l sl ws = Raise ValueError) as HSS.
          { intros ws Hws. apply setitem_slice_size_mismatch; try assumption.
            rewrite Hws, <- HSL. intros E. apply HL. unfold zlen at 1 2. rewrite E. reflexivity. }
          destruct (vld_all vld vs) as [ys|] eqn:V.
          -- eapply law_raise; [cbn [builtin]; rewrite V, (HSS ys (vld_all_length vld vs ys V)); reflexivity|left; reflexivity].
          -- eapply law_raise; [cbn [builtin]; rewrite V, (HSS vs eq_refl); reflexivity|right; left; reflexivity].
      + (* DelSlice *)
        destruct (getitem_slice_cases l sl) as [[Hs Hg]|[Hs Hg]]; rewrite Hg in AN; cbn [bind] in AN; [|discriminate].
        inversion AN; subst e.
        assert (delitem_slice l sl = Raise ValueError) as HD by (unfold delitem_slice; rewrite Hs; reflexivity).
        eapply law_raise; [cbn [builtin]; rewrite HD; reflexivity|left; reflexivity].
      + (* SetSliceN: list(value) raises TypeError first *)
        inversion AN; subst e. destruct (slice_step sl =? 0) eqn:S0.
        * eapply law_raise; [cbn [builtin]; rewrite S0; reflexivity|right; left; reflexivity].
        * eapply law_raise; [cbn [builtin]; rewrite S0; reflexivity|left; reflexivity].
      + (* ExtendN *)
        inversion AN; subst e. eapply law_raise; [reflexivity|left; reflexivity].
  Qed.

  Theorem tlo_step_law mn mx l o :
    law_step vld l o (tlo_step vld mn mx l o) = [] \/ tlo_step vld mn mx l o = raise TraitError l.
  Proof.
    destruct (tlo_step_split mn mx l o) as [(p & q & e & -> & E & [->| ->])|E]; rewrite E.
    - left. eapply law_raise; [reflexivity|left; reflexivity].
    - right. reflexivity.
    - apply tlo_step0_law.
  Qed.
End Tlo.

(* ---------- histories ---------- *)
Section Hist.
  Variable vld : Z -> option Z.

  Theorem run_law : forall ops l i, law_hist vld i l (run (tl_step vld) l ops) = [].
  Proof.
    induction ops as [|o ops IH]; intros l i; cbn [run law_hist]; [reflexivity|].
    rewrite tl_step_law, IH. reflexivity.
  Qed.


  Theorem run_law_tlo mn mx : forall ops l i, law_hist_tlo vld i l (run (tlo_step vld mn mx) l ops) = [].
  Proof.
    induction ops as [|o ops IH]; intros l i; cbn [run law_hist_tlo]; [reflexivity|].
    rewrite IH, app_nil_r. destruct (tlo_step_law vld mn mx l o) as [H|H].
    - rewrite H. destruct (refused l (tlo_step vld mn mx l o)); reflexivity.
    - rewrite H. unfold refused, raise. cbn. rewrite zlist_eqb_refl. reflexivity.
  Qed.
End Hist.

(* ---------- reading the law back as propositions ---------- *)
Lemma chk_app_nil k b r : chk k b ++ r = [] -> b = true /\ r = [].
Proof. destruct b; cbn; intros H; [split; [reflexivity|exact H]|discriminate]. Qed.

Section Read.
  Variable vld : Z -> option Z.

  Lemma law_step_inv l o ob : law_step vld l o ob = [] ->
    let sr := builtin vld l o in
    outcome_ok (o_out ob) sr = true /\
    o_after ob = (match fst sr with Ok (l', _) => l' | Raise _ => l end) /\
    (is_raise (o_out ob) = true -> o_after ob = l /\ o_events ob = []) /\
    (length (o_events ob) <= 1)%nat /\
    (o_after ob <> l -> o_events ob <> []) /\
    (forall ev, In ev (o_events ob) ->
       replay l ev = Some (o_after ob) /\ normal_form (zlen l) ev = true /\ removed_selected l ev = true) /\
    o_ret ob = (match fst sr with Ok (_, r) => r | Raise _ => None end).
  Proof.
    unfold law_step. intros H.
    repeat (apply chk_app_nil in H; let X := fresh "C" in destruct H as [X H]).
    apply chk_nil in H. cbv zeta.
    apply zlist_eqb_spec in C0.
    split; [exact C|]. split; [exact C0|].
    split.
    { intros R. unfold is_ok in C1. rewrite R in C1. cbn in C1. apply andb_true_iff in C1. destruct C1 as [A B].
      apply negb_true_iff, negb_false_iff, zlist_eqb_spec in A. split; [congruence|].
      destruct (o_events ob); [reflexivity|discriminate]. }
    split; [apply Nat.leb_le; exact C2|].
    split.
    { intros Hne E. rewrite E in C3. cbn in C3. rewrite orb_false_r in C3. apply negb_true_iff, negb_false_iff, zlist_eqb_spec in C3.
      congruence. }
    split.
    { intros ev Hin. rewrite forallb_forall in C4, C5, C6.
      specialize (C4 ev Hin). specialize (C5 ev Hin). specialize (C6 ev Hin).
      unfold replays_to in C4. destruct (replay l ev) as [l'|]; [|discriminate].
      apply zlist_eqb_spec in C4. subst l'. auto. }
    destruct (o_ret ob) as [x|], (match fst (builtin vld l o) with Ok (_, r) => r | Raise _ => None end) as [y|];
      cbn in H; try discriminate; try reflexivity. apply Z.eqb_eq in H. congruence.
  Qed.
End Read.

(* ---------- the named statements of Props.v ---------- *)
Section Named.
  Variable vld : Z -> option Z.

  Lemma weak l o :
    let ob := tl_step vld l o in
    (is_raise (o_out ob) = true -> o_after ob = l /\ o_events ob = []) /\
    (length (o_events ob) <= 1)%nat /\
    (o_after ob <> l -> o_events ob <> []) /\
    (forall ev, In ev (o_events ob) ->
       replay l ev = Some (o_after ob) /\ normal_form (zlen l) ev = true /\ removed_selected l ev = true).
  Proof.
    destruct (law_step_inv vld l o (tl_step vld l o) (tl_step_law vld l o)) as (_ & _ & A & B & C & D & _).
    cbv zeta. auto.
  Qed.

  Lemma step_replay l o ev : In ev (o_events (tl_step vld l o)) -> replay l ev = Some (o_after (tl_step vld l o)).
  Proof. intros H. destruct (weak l o) as (_ & _ & _ & E). apply (E ev H). Qed.

  Lemma step_refines l o :
    let ob := tl_step vld l o in
    let sr := builtin vld l o in
    outcome_ok (o_out ob) sr = true /\
    o_after ob = (match fst sr with Ok (l', _) => l' | Raise _ => l end) /\
    o_ret ob = (match fst sr with Ok (_, r) => r | Raise _ => None end).
  Proof.
    destruct (law_step_inv vld l o (tl_step vld l o) (tl_step_law vld l o)) as (A & B & _ & _ & _ & _ & C).
    cbv zeta. auto.
  Qed.

  Lemma step_failing_untouched l o e :
    o_out (tl_step vld l o) = Raise e -> o_after (tl_step vld l o) = l /\ o_events (tl_step vld l o) = [].
  Proof. intros H. destruct (weak l o) as (F & _). apply F. rewrite H. reflexivity. Qed.

  Lemma step_one_event l o :
    (length (o_events (tl_step vld l o)) <= 1)%nat /\
    (o_after (tl_step vld l o) <> l -> exists ev, o_events (tl_step vld l o) = [ev]).
  Proof.
    destruct (weak l o) as (_ & L & N & _). split; [exact L|].
    intros H. specialize (N H). destruct (o_events (tl_step vld l o)) as [|ev [|ev' r]]; [congruence|eauto|cbn in L; lia].
  Qed.

  Lemma step_normal_form l o idx removed added :
    In (idx, removed, added) (o_events (tl_step vld l o)) ->
    match idx with
    | I i => 0 <= i
    | S3 s e k => 0 <= s /\ s < e /\ e <= zlen l /\ 2 <= k
    end.
  Proof.
    intros H. destruct (weak l o) as (_ & _ & _ & E). destruct (E _ H) as (_ & NF & _).
    unfold normal_form in NF. cbn [fst] in NF. destruct idx; [lia|].
    repeat (apply andb_true_iff in NF; destruct NF as [NF ?]). lia.
  Qed.

  Lemma step_removed_selected l o idx removed added :
    In (idx, removed, added) (o_events (tl_step vld l o)) ->
    match idx with
    | I i => firstn (length removed) (skipn (Z.to_nat i) l) = removed
    | S3 s e k => getitem_slice l (Some s, Some e, Some k) = Ok removed
    end.
  Proof.
    intros H. destruct (weak l o) as (_ & _ & _ & E). destruct (E _ H) as (_ & _ & RS).
    unfold removed_selected in RS. destruct idx.
    - apply andb_true_iff in RS. destruct RS as [_ RS]. apply zlist_eqb_spec in RS. exact RS.
    - destruct (getitem_slice l (Some a, Some b, Some c)); [|discriminate]. apply zlist_eqb_spec in RS. congruence.
  Qed.

  Lemma step_noop_identity l o ev :
    o_after (tl_step vld l o) = l -> In ev (o_events (tl_step vld l o)) -> replay l ev = Some l.
  Proof. intros E H. rewrite <- E at 2. apply step_replay. exact H. Qed.
End Named.

(* ---------- refinement at the level of histories ---------- *)
Theorem run_refines_pylist (vld : Z -> option Z) : forall ops l,
  map (fun p => o_after (snd p)) (run (tl_step vld) l ops) = pylist_run vld l ops.
Proof.
  induction ops as [|o ops IH]; intros l; cbn [run pylist_run map]; [reflexivity|].
  destruct (step_refines vld l o) as (_ & HA & _). cbv zeta in HA. cbn [snd]. rewrite HA, IH. reflexivity.
Qed.

(* F26 (repaired by 40e8e0f): an index-like argument behaves as the int it converts to *)
Lemma index_like_is_int (vld : Z -> option Z) l o : tl_step vld l o = tl_step vld l (deX o).
Proof. unfold tl_step. destruct o; reflexivity. Qed.

(* ---------- copies ---------- *)
Lemma vld_all_fix (vld : Z -> option Z) l :
  Forall (fun y => vld y = Some y) l -> vld_all vld l = Some l.
Proof.
  induction 1 as [|y l Hy _ IH]; cbn; [reflexivity|]. rewrite Hy, IH. reflexivity.
Qed.

(* for a validator that is idempotent on its range, a list of validated items is copied unchanged, by all three means *)
Lemma vpart_idem a : vpart (vpart a) = vpart a.
Proof.
  unfold vpart. destruct (1000 <=? a) eqn:E; [|rewrite E; reflexivity].
  pose proof (Z.mod_pos_bound a 1000 ltac:(lia)). replace (1000 <=? a mod 1000) with false by lia. reflexivity.
Qed.

Theorem tl_copy_keeps_contents (vld : Z -> option Z) k l :
  (forall x y, vld x = Some y -> vld y = Some y) -> Forall (fun y => exists x, vld x = Some y) l ->
  exists l', tl_copy vld k l = Ok l' /\ map vpart l' = map vpart l /\ (k <> CopyPickle -> l' = l).
Proof.
  intros Hid F. destruct k; cbn.
  1,2: exists l; rewrite vld_all_fix; [repeat split; reflexivity|];
       (eapply Forall_impl; [|exact F]; cbn; intros y [x Hx]; eapply Hid; exact Hx).
  exists (map vpart l). split; [reflexivity|]. split; [|congruence].
  rewrite map_map. apply map_ext. apply vpart_idem.
Qed.

(* whatever the validator, the copy holds validated items only and the history on it obeys the list law *)
Theorem law_on_a_copy (vld : Z -> option Z) k l l' :
  tl_copy vld k l = Ok l' -> forall ops i, law_hist vld i l' (run (tl_step vld) l' ops) = [].
Proof. intros _ ops i. apply run_law. Qed.

(* ---------- re-entrant notifiers: the nested operation is an operation like any other ---------- *)
Theorem reaction_law (vld : Z -> option Z) l o :
  let ob := tl_step vld l o in
  law_step vld l o ob = [] /\ law_step vld (o_after ob) (Pop (Some 0)) (tl_step vld (o_after ob) (Pop (Some 0))) = [].
Proof. cbv zeta. split; apply tl_step_law. Qed.
