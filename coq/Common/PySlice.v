(* Python slice semantics over Z (models CPython, not traits):
   [indices] = PySlice_Unpack + PySlice_AdjustIndices (what slice.indices(len)
   returns; the step = 0 -> ValueError case is decided by the callers),
   [slicelen] = the number of selected positions, [positions] the index list.
   Lemmas: bounds / NoDup of every selected position, reversal of a position
   list, the division facts used by the normalisation proof (C05/NormProof.v).
   Style: stdlib + lia. *)
From Coq Require Import ZArith List Lia Bool.
Import ListNotations.
Local Open Scope Z_scope.

Definition slice := (option Z * option Z * option Z)%type.

(* an integer index, or a slice given by three integers (start, stop, step) *)
Inductive ios := I (i : Z) | S3 (a b c : Z).

Definition adjust (len step x : Z) : Z :=
  if x <? 0 then (let y := x + len in if y <? 0 then (if step <? 0 then -1 else 0) else y)
  else if x >=? len then (if step <? 0 then len - 1 else len) else x.

Definition slice_step (sl : slice) : Z :=
  match snd sl with None => 1 | Some s => s end.

Definition indices (len : Z) (sl : slice) : Z * Z * Z :=
  let '(a, b, c) := sl in
  let step := match c with None => 1 | Some s => s end in
  let start := match a with
               | None => if step <? 0 then len - 1 else 0
               | Some s => adjust len step s end in
  let stop := match b with
              | None => if step <? 0 then -1 else len
              | Some s => adjust len step s end in
  (start, stop, step).

Definition slicelen (start stop step : Z) : Z :=
  if step <? 0 then (if stop <? start then (start - stop - 1) / (- step) + 1 else 0)
  else (if start <? stop then (stop - start - 1) / step + 1 else 0).

Fixpoint positions (start step : Z) (n : nat) : list Z :=
  match n with O => [] | S n' => start :: positions (start + step) step n' end.

Definition slice_positions (len : Z) (sl : slice) : list Z :=
  let '(a, b, c) := indices len sl in positions a c (Z.to_nat (slicelen a b c)).

(* ---------- positions ---------- *)
Lemma positions_length a c n : length (positions a c n) = n.
Proof. revert a; induction n; simpl; intros; auto. Qed.

Lemma positions_snoc a c n :
  positions a c (S n) = positions a c n ++ [a + Z.of_nat n * c].
Proof.
  revert a; induction n as [|n IH]; intros a.
  - simpl. f_equal. lia.
  - change (positions a c (S (S n))) with (a :: positions (a + c) c (S n)).
    rewrite IH. cbn [positions app]. do 3 f_equal. rewrite Nat2Z.inj_succ. lia.
Qed.

Lemma positions_rev a c n :
  rev (positions a c (S n)) = positions (a + Z.of_nat n * c) (- c) (S n).
Proof.
  revert a; induction n as [|n IH]; intros a.
  - simpl. f_equal. lia.
  - rewrite positions_snoc. rewrite rev_app_distr. cbn [rev app].
    rewrite IH.
    change (positions (a + Z.of_nat (S n) * c) (- c) (S (S n)))
      with ((a + Z.of_nat (S n) * c) :: positions (a + Z.of_nat (S n) * c + - c) (- c) (S n)).
    f_equal. f_equal. rewrite Nat2Z.inj_succ. lia.
Qed.

Lemma positions_In a c n p :
  In p (positions a c n) <-> exists j, (0 <= j < Z.of_nat n) /\ p = a + j * c.
Proof.
  revert a; induction n as [|n IH]; intros a; cbn [positions In].
  - split; [tauto|]. intros (j & H & _). lia.
  - rewrite IH. split.
    + intros [E|(j & Hj & E)].
      * exists 0. split; lia.
      * exists (j + 1). split; lia.
    + intros (j & Hj & E). destruct (Z.eq_dec j 0) as [->|Hn].
      * left. lia.
      * right. exists (j - 1). split; lia.
Qed.

Lemma positions_NoDup a c n : c <> 0 -> NoDup (positions a c n).
Proof.
  intros Hc. revert a; induction n as [|n IH]; intros a; cbn [positions]; constructor.
  - rewrite positions_In. intros (j & Hj & E). nia.
  - apply IH.
Qed.

(* ---------- indices range ---------- *)
Lemma adjust_pos len c x : 0 <= len -> 0 < c -> 0 <= adjust len c x <= len.
Proof.
  intros Hl Hc. unfold adjust.
  destruct (x <? 0) eqn:E1; [destruct (x + len <? 0) eqn:E2|destruct (x >=? len) eqn:E3];
  destruct (c <? 0) eqn:E4; lia.
Qed.
Lemma adjust_neg len c x : 0 <= len -> c < 0 -> -1 <= adjust len c x <= len - 1.
Proof.
  intros Hl Hc. unfold adjust.
  destruct (x <? 0) eqn:E1; [destruct (x + len <? 0) eqn:E2|destruct (x >=? len) eqn:E3];
  destruct (c <? 0) eqn:E4; lia.
Qed.

Lemma indices_step len sl : snd (indices len sl) = slice_step sl.
Proof. destruct sl as [[a b] c]. reflexivity. Qed.

Lemma indices_pos len a b c s e k :
  0 <= len -> indices len (a,b,c) = (s,e,k) -> 0 < k -> 0 <= s <= len /\ 0 <= e <= len.
Proof.
  intros Hl H Hk. unfold indices in H.
  set (step := match c with None => 1 | Some s0 => s0 end) in *.
  inversion H; subst k. clear H.
  assert (step <? 0 = false) as E by lia. rewrite E in *.
  split; [destruct a|destruct b]; subst; try (apply adjust_pos; lia); lia.
Qed.
Lemma indices_neg len a b c s e k :
  0 <= len -> indices len (a,b,c) = (s,e,k) -> k < 0 -> -1 <= s <= len - 1 /\ -1 <= e <= len - 1.
Proof.
  intros Hl H Hk. unfold indices in H.
  set (step := match c with None => 1 | Some s0 => s0 end) in *.
  inversion H; subst k. clear H.
  assert (step <? 0 = true) as E by lia. rewrite E in *.
  split; [destruct a|destruct b]; subst; try (apply adjust_neg; lia); lia.
Qed.

(* a slice already in range is its own [indices] *)
Lemma indices_normal len s e k :
  0 <= s -> s <= e -> e <= len -> 0 < k -> indices len (Some s, Some e, Some k) = (s, e, k).
Proof.
  intros. unfold indices, adjust.
  replace (s <? 0) with false by lia. replace (e <? 0) with false by lia.
  replace (k <? 0) with false by lia.
  destruct (s >=? len) eqn:E1; destruct (e >=? len) eqn:E2; repeat f_equal; lia.
Qed.

(* ---------- division facts ---------- *)
Lemma len_pos_spec d k : 0 <= d -> 0 < k ->
  let n := d / k + 1 in d = k * (n - 1) + d mod k /\ 0 <= d mod k < k /\ 1 <= n.
Proof.
  intros Hd Hk n. subst n.
  pose proof (Z.div_mod d k ltac:(lia)). pose proof (Z.mod_pos_bound d k Hk).
  pose proof (Z.div_pos d k Hd Hk). lia.
Qed.

Lemma mod_mul_add_l k q r : 0 < k -> 0 <= r < k -> (k * q + r) mod k = r.
Proof. intros. rewrite Z.add_comm, Z.mul_comm, Z.mod_add by lia. apply Z.mod_small; lia. Qed.
Lemma div_mul_add_l k q r : 0 < k -> 0 <= r < k -> (k * q + r) / k = q.
Proof. intros. rewrite Z.add_comm, Z.mul_comm, Z.div_add by lia. rewrite Z.div_small; lia. Qed.

(* (a-b) mod c for c<0, a>b:  with s=-c, n = (a-b-1)/s+1 :  (a-b) mod c = (a-b) - s*n  *)
Lemma neg_mod_spec d s : 0 < d -> 0 < s ->
  let n := (d - 1) / s + 1 in d mod (- s) = d - s * n.
Proof.
  intros Hd Hs n.
  destruct (len_pos_spec (d-1) s ltac:(lia) Hs) as (E & B & N). fold n in E, N.
  symmetry. apply Z.mod_unique_neg with (q := - n); lia.
Qed.

(* ---------- every selected position is a valid index ---------- *)
Lemma slicelen_nonneg a b c : c <> 0 -> 0 <= slicelen a b c.
Proof.
  intros Hc. unfold slicelen.
  destruct (c <? 0) eqn:E.
  - destruct (b <? a) eqn:E2; [|lia].
    pose proof (Z.div_pos (a - b - 1) (- c) ltac:(lia) ltac:(lia)). lia.
  - destruct (a <? b) eqn:E2; [|lia].
    pose proof (Z.div_pos (b - a - 1) c ltac:(lia) ltac:(lia)). lia.
Qed.

Lemma slice_positions_bounds len sl p :
  0 <= len -> slice_step sl <> 0 -> In p (slice_positions len sl) -> 0 <= p < len.
Proof.
  intros Hl Hs Hin. unfold slice_positions in Hin.
  destruct sl as [[oa ob] oc].
  destruct (indices len (oa, ob, oc)) as [[a b] c] eqn:Hidx.
  assert (c = slice_step (oa, ob, oc)) as Hc by (rewrite <- (indices_step len), Hidx; reflexivity).
  rewrite <- Hc in Hs. clear Hc.
  apply positions_In in Hin. destruct Hin as (j & Hj & ->).
  unfold slicelen in Hj.
  destruct (Z.ltb_spec c 0) as [Hc|Hc].
  - destruct (indices_neg _ _ _ _ _ _ _ Hl Hidx Hc) as [Ha Hb].
    destruct (Z.ltb_spec b a) as [Hba|Hba]; [|cbn in Hj; lia].
    destruct (len_pos_spec (a - b - 1) (- c) ltac:(lia) ltac:(lia)) as (E & B & N).
    rewrite Z2Nat.id in Hj by lia. nia.
  - assert (0 < c) as Hc' by lia.
    destruct (indices_pos _ _ _ _ _ _ _ Hl Hidx Hc') as [Ha Hb].
    destruct (Z.ltb_spec a b) as [Hab|Hab]; [|cbn in Hj; lia].
    destruct (len_pos_spec (b - a - 1) c ltac:(lia) Hc') as (E & B & N).
    rewrite Z2Nat.id in Hj by lia. nia.
Qed.

Lemma slice_positions_NoDup len sl : slice_step sl <> 0 -> NoDup (slice_positions len sl).
Proof.
  intros Hs. unfold slice_positions. destruct sl as [[oa ob] oc].
  destruct (indices len (oa, ob, oc)) as [[a b] c] eqn:Hidx.
  assert (c = slice_step (oa, ob, oc)) as Hc by (rewrite <- (indices_step len), Hidx; reflexivity).
  apply positions_NoDup. congruence.
Qed.

Lemma slice_positions_length len sl :
  length (slice_positions len sl) =
  let '(a, b, c) := indices len sl in Z.to_nat (slicelen a b c).
Proof.
  unfold slice_positions. destruct (indices len sl) as [[a b] c]. apply positions_length.
Qed.
