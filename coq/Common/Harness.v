(* Reporting functions used by every generated cases file. *)
From Coq Require Import ZArith List.
Import ListNotations.
Open Scope Z_scope.

Fixpoint report_from {A} (i : Z) (f : A -> list Z) (cs : list A) : list (Z * Z) :=
  match cs with
  | [] => []
  | c :: cs' => map (fun code => (i, code)) (f c) ++ report_from (i + 1) f cs'
  end.

Definition report {A} (f : A -> list Z) (cs : list A) : list (Z * Z) := report_from 0 f cs.

(* code k if b is false *)
Definition chk (k : Z) (b : bool) : list Z := if b then [] else [k].

(* 61-bit rolling digest of an observation encoded as a list of integers *)
Definition digest_step (h c : Z) : Z := (h * 1000003 + c + 7) mod 2305843009213693951.
Definition digest (l : list Z) : Z := fold_left digest_step l 0.

Definition is_nil {A} (l : list A) : bool := match l with [] => true | _ => false end.
Definition opt_eqb {A} (eqb : A -> A -> bool) (a b : option A) : bool :=
  match a, b with Some x, Some y => eqb x y | None, None => true | _, _ => false end.
Fixpoint list_eqb {A} (eqb : A -> A -> bool) (a b : list A) : bool :=
  match a, b with
  | [], [] => true
  | x :: a', y :: b' => eqb x y && list_eqb eqb a' b'
  | _, _ => false
  end.
