(* Common/CTables.v — translator T3 (DESIGN section 4): the dispatch tables of ctraits.c as data,
   and the general lemmas that turn ONE boolean check on that data into the obligations
   assigned_in_table / guards_in_bounds / getstate_setstate_roundtrip / ctrait_roundtrip.

   tools/vlib/tr_ctables.py regenerates, on every run, a value [gen : ctables] from the text of
   ctraits.c under VERIF_REPO; the generated obligation file proves [tables_ok gen = true] by
   [vm_compute] and instantiates the lemmas below.  Function pointers are integers (0 = NULL).

   Code modelled (ctraits.c): func_index 4843-4852 (linear search WITHOUT an end test: running
   off the table is the out-of-bounds read, modelled as [None]); _trait_getstate 4858-4901;
   _trait_setstate 4907-4960 (the table lookups and the tuple layout; the reference counting of
   the object slots is C18's ledger, not here); the assignment sites trait_new 2954-2979,
   _trait_set_validate 4312-4483, _trait_delegate 4605-4637, _trait_set_property 4728-4767,
   set_trait_post_setattr 5028-5046, trait_clone 4774-4795 (copies field to same field: closed). *)
From Coq Require Import ZArith List Bool Lia Arith.
Import ListNotations.

Inductive field := Fd_getattr | Fd_setattr | Fd_post_setattr | Fd_validate | Fd_delegate_attr_name.
Definition all_fields : list field := [Fd_getattr; Fd_setattr; Fd_post_setattr; Fd_validate; Fd_delegate_attr_name].
Definition field_code (f : field) : Z :=
  match f with Fd_getattr => 0 | Fd_setattr => 1 | Fd_post_setattr => 2 | Fd_validate => 3 | Fd_delegate_attr_name => 4 end%Z.
Definition field_eqb (a b : field) : bool := Z.eqb (field_code a) (field_code b).

(* a right-hand side assigned to a dispatch field *)
Inductive site :=
| Direct (f : Z)                              (* trait->setattr = setattr_validate_property; *)
| Indexed (t : list Z) (lo hi : nat)          (* table[idx] under the guard lo <= idx <= hi *)
| Picked (t : list Z) (idx : list nat).       (* table[kind], kind one of the switch labels reaching done: *)

(* the 15-slot state tuple: which field's index / which object slot sits at each position *)
Inductive entry := LIdx (f : field) | LObj (slot : nat) | LNone.

Record ctables := {
  ct_search : field -> list Z;     (* table __getstate__ searches for the field's function *)
  ct_restore : field -> list Z;    (* table __setstate__ indexes for the field *)
  ct_sites : list (field * site);
  ct_get_layout : list entry;
  ct_set_layout : list entry }.

(* func_index (ctraits.c:4843): for (i = 0; function != function_table[i]; i++);  — no bound. *)
Fixpoint func_index (f : Z) (t : list Z) : option nat :=
  match t with
  | [] => None                       (* ran off the table: out-of-bounds read *)
  | x :: r => if Z.eqb f x then Some O else option_map S (func_index f r)
  end.

Definition memz (f : Z) (t : list Z) : bool := existsb (Z.eqb f) t.

Definition site_values (s : site) : list Z :=
  match s with
  | Direct f => [f]
  | Indexed t lo hi => firstn (hi - lo + 1) (skipn lo t)
  | Picked t idx => map (fun i => nth i t 0%Z) idx
  end.

Definition site_in_bounds (s : site) : bool :=
  match s with
  | Direct _ => true
  | Indexed t lo hi => (lo <=? hi) && (hi <? length t)
  | Picked t idx => forallb (fun i => i <? length t) idx
  end.

(* what a field of a CTrait can ever contain *)
Inductive can_hold (T : ctables) (fld : field) : Z -> Prop :=
| CH_null : can_hold T fld 0%Z                      (* PyType_GenericNew zero-initialises *)
| CH_site : forall s f, In (fld, s) (ct_sites T) -> In f (site_values s) -> can_hold T fld f
| CH_restored : forall i, i < length (ct_restore T fld) ->
    can_hold T fld (nth i (ct_restore T fld) 0%Z).  (* __setstate__ with an index __getstate__ produced *)

Fixpoint zlist_eqb (a b : list Z) : bool :=
  match a, b with
  | [], [] => true
  | x :: a', y :: b' => Z.eqb x y && zlist_eqb a' b'
  | _, _ => false
  end.

Definition entry_eqb (a b : entry) : bool :=
  match a, b with
  | LIdx f, LIdx g => field_eqb f g
  | LObj s, LObj t => Nat.eqb s t
  | LNone, LNone => true
  | _, _ => false
  end.

Fixpoint elist_eqb (a b : list entry) : bool :=
  match a, b with
  | [], [] => true
  | x :: a', y :: b' => entry_eqb x y && elist_eqb a' b'
  | _, _ => false
  end.

Definition field_ok (T : ctables) (fld : field) : bool :=
  zlist_eqb (ct_restore T fld) (ct_search T fld) && memz 0%Z (ct_search T fld)
  && existsb (entry_eqb (LIdx fld)) (ct_get_layout T).

Definition site_ok (T : ctables) (p : field * site) : bool :=
  site_in_bounds (snd p) && forallb (fun f => memz f (ct_search T (fst p))) (site_values (snd p)).

Definition tables_ok (T : ctables) : bool :=
  forallb (field_ok T) all_fields && forallb (site_ok T) (ct_sites T)
  && elist_eqb (ct_get_layout T) (ct_set_layout T).

(* counter-example search when tables_ok is false: (field, function) pairs a site can assign that
   the searched table does not contain; (field, -1) out-of-bounds guard; (field, -2) restore table
   differs / NULL missing / field not in the layout; (9, -3) the two tuple layouts differ *)
Definition offenders (T : ctables) : list (Z * Z) :=
  flat_map (fun p => (if site_in_bounds (snd p) then [] else [(field_code (fst p), (-1)%Z)])
                     ++ map (fun f => (field_code (fst p), f))
                            (filter (fun f => negb (memz f (ct_search T (fst p)))) (site_values (snd p))))
           (ct_sites T)
  ++ flat_map (fun fld => if field_ok T fld then [] else [(field_code fld, (-2)%Z)]) all_fields
  ++ (if elist_eqb (ct_get_layout T) (ct_set_layout T) then [] else [(9, (-3))%Z]).

(* ----- the trait definition object, as far as pickling is concerned ----- *)
Record ctrait := { c_fn : field -> Z; c_slot : nat -> Z }.
Definition wf_ctrait (T : ctables) (tr : ctrait) : Prop := forall fld, can_hold T fld (c_fn tr fld).

Definition entry_value (T : ctables) (tr : ctrait) (e : entry) : option Z :=
  match e with
  | LIdx f => option_map Z.of_nat (func_index (c_fn tr f) (ct_search T f))
  | LObj s => Some (c_slot tr s)
  | LNone => Some 0%Z
  end.

Fixpoint getstate_go (T : ctables) (L : list entry) (tr : ctrait) : option (list Z) :=
  match L with
  | [] => Some []
  | e :: L' => match entry_value T tr e, getstate_go T L' tr with
               | Some v, Some r => Some (v :: r)
               | _, _ => None
               end
  end.
Definition getstate (T : ctables) (tr : ctrait) : option (list Z) := getstate_go T (ct_get_layout T) tr.

Definition upd_fn (tr : ctrait) (f : field) (v : Z) : ctrait :=
  {| c_fn := fun g => if field_eqb g f then v else c_fn tr g; c_slot := c_slot tr |}.
Definition upd_slot (tr : ctrait) (s : nat) (v : Z) : ctrait :=
  {| c_fn := c_fn tr; c_slot := fun t => if Nat.eqb t s then v else c_slot tr t |}.

Definition apply_entry (T : ctables) (tr : ctrait) (e : entry) (v : Z) : ctrait :=
  match e with
  | LIdx f => upd_fn tr f (nth (Z.to_nat v) (ct_restore T f) 0%Z)
  | LObj s => upd_slot tr s v
  | LNone => tr
  end.

Fixpoint setstate_go (T : ctables) (L : list entry) (st : list Z) (tr : ctrait) : ctrait :=
  match L, st with
  | e :: L', v :: st' => setstate_go T L' st' (apply_entry T tr e v)
  | _, _ => tr
  end.
Definition setstate (T : ctables) (st : list Z) (tr0 : ctrait) : ctrait := setstate_go T (ct_set_layout T) st tr0.

Definition ctrait_agree (T : ctables) (a b : ctrait) : Prop :=
  (forall fld, c_fn a fld = c_fn b fld) /\
  (forall s, In (LObj s) (ct_get_layout T) -> c_slot a s = c_slot b s).

Definition restored_fn (T : ctables) (fld : field) (f : Z) : option Z :=
  match func_index f (ct_search T fld) with
  | Some i => Some (nth i (ct_restore T fld) 0%Z)
  | None => None
  end.

(* ======================= lemmas ======================= *)

Lemma field_eqb_eq : forall a b, field_eqb a b = true <-> a = b.
Proof. intros a b; split; [destruct a, b; simpl; intro H; try reflexivity; discriminate | intros ->; destruct b; reflexivity]. Qed.

Lemma zlist_eqb_eq : forall a b, zlist_eqb a b = true -> a = b.
Proof.
  induction a as [|x a IH]; destruct b as [|y b]; simpl; intro H; try reflexivity; try discriminate.
  apply andb_true_iff in H. destruct H as [H1 H2]. apply Z.eqb_eq in H1. f_equal; auto.
Qed.

Lemma entry_eqb_eq : forall a b, entry_eqb a b = true -> a = b.
Proof.
  destruct a, b; simpl; intro H; try reflexivity; try discriminate.
  - apply field_eqb_eq in H. congruence.
  - apply Nat.eqb_eq in H. congruence.
Qed.

Lemma elist_eqb_eq : forall a b, elist_eqb a b = true -> a = b.
Proof.
  induction a as [|x a IH]; destruct b as [|y b]; simpl; intro H; try reflexivity; try discriminate.
  apply andb_true_iff in H. destruct H as [H1 H2]. apply entry_eqb_eq in H1. f_equal; auto.
Qed.

Lemma memz_in : forall f t, memz f t = true <-> In f t.
Proof.
  intros f t. unfold memz. rewrite existsb_exists. split.
  - intros [x [Hin He]]. apply Z.eqb_eq in He. subst. exact Hin.
  - intro Hin. exists f. split; [exact Hin | apply Z.eqb_refl].
Qed.

(* the search of a function that IS in the table stops inside the table, at an entry equal to it *)
Lemma func_index_in : forall f t, In f t ->
  exists i, func_index f t = Some i /\ i < length t /\ nth i t 0%Z = f.
Proof.
  intros f t. induction t as [|x r IH]; simpl; intro Hin; [contradiction|].
  destruct (Z.eqb f x) eqn:E.
  - apply Z.eqb_eq in E. exists 0. repeat split; [lia | congruence].
  - destruct Hin as [Hx | Hr]; [subst; rewrite Z.eqb_refl in E; discriminate|].
    destruct (IH Hr) as [i [H1 [H2 H3]]]. exists (S i). rewrite H1. simpl. repeat split; [lia | exact H3].
Qed.

(* and conversely: a search that stops found the function (so None = ran off the end iff absent) *)
Lemma func_index_none : forall f t, func_index f t = None <-> ~ In f t.
Proof.
  intros f t. induction t as [|x r IH]; simpl.
  - split; auto.
  - destruct (Z.eqb f x) eqn:E.
    + apply Z.eqb_eq in E. split; [discriminate | intro H; exfalso; apply H; left; congruence].
    + apply Z.eqb_neq in E. destruct (func_index f r); simpl; split; intro H; try discriminate.
      * exfalso. apply H. right. assert (Hn : ~ (None = None :> option nat) -> False) by tauto.
        destruct (proj1 (not_iff_compat IH)) as []; [discriminate|].
        intro Hin. apply H. right. exact Hin.
      * intros [Hx | Hr]; [congruence | apply (proj1 IH); auto].
      * reflexivity.
Qed.

Lemma nth_in_bounds : forall (t : list Z) i, i < length t -> In (nth i t 0%Z) t.
Proof. intros. apply nth_In. assumption. Qed.

Section General.
Variable T : ctables.
Hypothesis OK : tables_ok T = true.

Lemma ok_parts :
  (forall fld, field_ok T fld = true) /\ (forall p, In p (ct_sites T) -> site_ok T p = true)
  /\ ct_get_layout T = ct_set_layout T.
Proof.
  unfold tables_ok in OK. apply andb_true_iff in OK. destruct OK as [H12 H3].
  apply andb_true_iff in H12. destruct H12 as [H1 H2].
  split; [|split].
  - intro fld. rewrite forallb_forall in H1. apply H1. destruct fld; simpl; tauto.
  - intros p Hp. rewrite forallb_forall in H2. apply H2. exact Hp.
  - apply elist_eqb_eq. exact H3.
Qed.

Lemma restore_is_search : forall fld, ct_restore T fld = ct_search T fld.
Proof.
  intro fld. destruct ok_parts as [H _]. specialize (H fld). unfold field_ok in H.
  apply andb_true_iff in H. destruct H as [H _]. apply andb_true_iff in H. destruct H as [H _].
  apply zlist_eqb_eq. exact H.
Qed.

Lemma can_hold_in_search : forall fld f, can_hold T fld f -> In f (ct_search T fld).
Proof.
  intros fld f H. destruct ok_parts as [Hf [Hs _]]. destruct H as [| s f Hin Hv | i Hi].
  - specialize (Hf fld). unfold field_ok in Hf. apply andb_true_iff in Hf. destruct Hf as [Hf _].
    apply andb_true_iff in Hf. destruct Hf as [_ Hf]. apply memz_in. exact Hf.
  - specialize (Hs _ Hin). unfold site_ok in Hs. simpl in Hs. apply andb_true_iff in Hs.
    destruct Hs as [_ Hs]. rewrite forallb_forall in Hs. apply memz_in. apply Hs. exact Hv.
  - rewrite restore_is_search in *. apply nth_in_bounds. exact Hi.
Qed.

Lemma assigned_in_table : forall fld f, can_hold T fld f ->
  exists i, func_index f (ct_search T fld) = Some i /\ i < length (ct_search T fld).
Proof.
  intros fld f H. destruct (func_index_in f _ (can_hold_in_search _ _ H)) as [i [H1 [H2 _]]].
  exists i. split; assumption.
Qed.

Lemma guards_in_bounds : forall fld s, In (fld, s) (ct_sites T) -> site_in_bounds s = true.
Proof.
  intros fld s Hin. destruct ok_parts as [_ [Hs _]]. specialize (Hs _ Hin). unfold site_ok in Hs.
  simpl in Hs. apply andb_true_iff in Hs. tauto.
Qed.

Lemma getstate_setstate_roundtrip : forall fld f, can_hold T fld f -> restored_fn T fld f = Some f.
Proof.
  intros fld f H. unfold restored_fn.
  destruct (func_index_in f _ (can_hold_in_search _ _ H)) as [i [H1 [_ H3]]].
  rewrite H1, restore_is_search, H3. reflexivity.
Qed.

Lemma getstate_total : forall tr, wf_ctrait T tr -> forall L, exists st, getstate_go T L tr = Some st.
Proof.
  intros tr WF L. induction L as [|e L IH]; simpl; [eexists; reflexivity|].
  destruct IH as [r Hr]. rewrite Hr.
  destruct e as [f| s |]; simpl.
  - destruct (assigned_in_table f _ (WF f)) as [i [Hi _]]. rewrite Hi. simpl. eexists; reflexivity.
  - eexists; reflexivity.
  - eexists; reflexivity.
Qed.

Lemma setstate_go_fn : forall tr, wf_ctrait T tr -> forall L st tr0 fld,
  getstate_go T L tr = Some st ->
  (In (LIdx fld) L \/ c_fn tr0 fld = c_fn tr fld) ->
  c_fn (setstate_go T L st tr0) fld = c_fn tr fld.
Proof.
  intros tr WF L. induction L as [|e L IH]; intros st tr0 fld Hg Hor; simpl in *.
  - destruct Hor as [[] | H]. destruct st; exact H.
  - destruct (entry_value T tr e) as [v|] eqn:Ev; [|discriminate].
    destruct (getstate_go T L tr) as [r|] eqn:Er; [|discriminate].
    injection Hg as <-. apply IH; [reflexivity|].
    destruct e as [f | s |]; simpl in *.
    + destruct (field_eqb fld f) eqn:Ef.
      * right. apply field_eqb_eq in Ef. subst f.
        pose proof (getstate_setstate_roundtrip _ _ (WF fld)) as R. unfold restored_fn in R.
        destruct (func_index (c_fn tr fld) (ct_search T fld)) as [i|]; [|discriminate].
        simpl in Ev. injection Ev as <-. rewrite Nat2Z.id. injection R as R. exact R.
      * destruct Hor as [[Hh | Ht] | H].
        -- injection Hh as ->. rewrite (proj2 (field_eqb_eq fld fld) eq_refl) in Ef. discriminate.
        -- left. exact Ht.
        -- right. exact H.
    + destruct Hor as [[Hh | Ht] | H]; [discriminate | left; exact Ht | right; exact H].
    + destruct Hor as [[Hh | Ht] | H]; [discriminate | left; exact Ht | right; exact H].
Qed.

Lemma setstate_go_slot : forall tr L st tr0 s,
  getstate_go T L tr = Some st ->
  (In (LObj s) L \/ c_slot tr0 s = c_slot tr s) ->
  c_slot (setstate_go T L st tr0) s = c_slot tr s.
Proof.
  intros tr L. induction L as [|e L IH]; intros st tr0 s Hg Hor; simpl in *.
  - destruct Hor as [[] | H]. destruct st; exact H.
  - destruct (entry_value T tr e) as [v|] eqn:Ev; [|discriminate].
    destruct (getstate_go T L tr) as [r|] eqn:Er; [|discriminate].
    injection Hg as <-. apply IH; [reflexivity|].
    destruct e as [f | s' |]; simpl in *.
    + destruct Hor as [[Hh | Ht] | H]; [discriminate | left; exact Ht | right; exact H].
    + injection Ev as <-. destruct (Nat.eqb s s') eqn:Es.
      * right. apply Nat.eqb_eq in Es. subst. reflexivity.
      * destruct Hor as [[Hh | Ht] | H].
        -- injection Hh as ->. rewrite Nat.eqb_refl in Es. discriminate.
        -- left. exact Ht.
        -- right. exact H.
    + destruct Hor as [[Hh | Ht] | H]; [discriminate | left; exact Ht | right; exact H].
Qed.

Lemma layout_has_field : forall fld, In (LIdx fld) (ct_get_layout T).
Proof.
  intro fld. destruct ok_parts as [H _]. specialize (H fld). unfold field_ok in H.
  apply andb_true_iff in H. destruct H as [_ H]. rewrite existsb_exists in H.
  destruct H as [e [Hin He]]. apply entry_eqb_eq in He. subst e. exact Hin.
Qed.

(* A trait definition object whose fields hold only what the code can put there pickles
   (no out-of-bounds search) and is restored, from ANY previous content tr0, to the same five
   functions and the same object slots. *)
Lemma ctrait_roundtrip : forall tr tr0, wf_ctrait T tr ->
  exists st, getstate T tr = Some st /\ ctrait_agree T (setstate T st tr0) tr.
Proof.
  intros tr tr0 WF. unfold getstate, setstate.
  destruct (getstate_total tr WF (ct_get_layout T)) as [st Hst]. exists st. split; [exact Hst|].
  destruct ok_parts as [_ [_ HL]]. rewrite <- HL. split.
  - intro fld. apply setstate_go_fn; [exact WF | exact Hst | left; apply layout_has_field].
  - intros s Hs. apply setstate_go_slot with (tr := tr); [exact Hst | left; exact Hs].
Qed.

End General.

(* converse used for reporting: a function a site can assign but the searched table lacks makes
   the search run off the table *)
Lemma missing_runs_off : forall f t, ~ In f t -> func_index f t = None.
Proof. intros. apply func_index_none. assumption. Qed.

(* ----- evaluation of observed trait-definition round trips (C14 / C18 run-time stream) -----
   one case = (function indices __getstate__ returned, in [all_fields] order;
               indices __getstate__ returned on the restored/copied trait;
               restored trait behaved identically on the probe lattice; the subprocess crashed;
               the reference counts of the state's objects are what the traits holding them explain) *)
Definition ctrait_case := (list Z * list Z * bool * bool * bool)%type.

Fixpoint forallb2 {A B} (f : A -> B -> bool) (a : list A) (b : list B) : bool :=
  match a, b with
  | [], [] => true
  | x :: a', y :: b' => f x y && forallb2 f a' b'
  | _, _ => false
  end.

Definition idx_in_bounds (T : ctables) (fld : field) (i : Z) : bool :=
  (0 <=? i)%Z && (Z.to_nat i <? length (ct_search T fld)).

(* consistency with the model of func_index: a linear search returns the FIRST occurrence *)
Definition idx_first (T : ctables) (fld : field) (i : Z) : bool :=
  match func_index (nth (Z.to_nat i) (ct_search T fld) 0%Z) (ct_search T fld) with
  | Some j => Nat.eqb j (Z.to_nat i)
  | None => false
  end.

(* law: 1 crash, 2 an index outside its table, 3 the copy pickles to different functions, 4 behaviour differs,
   6 reference counts of the state's objects not neutral *)
Definition ctrait_law_codes (T : ctables) (c : ctrait_case) : list Z :=
  let '(idx, idx2, same, crashed, rc_ok) := c in
  if crashed then [1%Z] else
  (if forallb2 (idx_in_bounds T) all_fields idx && forallb2 (idx_in_bounds T) all_fields idx2 then [] else [2%Z])
  ++ (if zlist_eqb idx idx2 then [] else [3%Z])
  ++ (if same then [] else [4%Z])
  ++ (if rc_ok then [] else [6%Z]).

Definition ctrait_corr_codes (T : ctables) (c : ctrait_case) : list Z :=
  let '(idx, idx2, same, crashed, rc_ok) := c in
  if crashed then [] else
  if forallb2 (idx_in_bounds T) all_fields idx then
    (if forallb2 (idx_first T) all_fields idx then [] else [5%Z])
  else [].
