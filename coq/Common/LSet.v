(* Finite sets of integer atoms as lists, compared extensionally.
   All operations are boolean/computable so that the same definitions serve the
   executable models, the laws evaluated on implementation observations, and
   the proofs (via [mem] rewriting and the [lset] tactic). *)
From Coq Require Import ZArith List Bool Lia.
Import ListNotations.
Open Scope Z_scope.

Definition mem (x : Z) (s : list Z) : bool := existsb (Z.eqb x) s.
Definition diff (a b : list Z) : list Z := filter (fun x => negb (mem x b)) a.
Definition inter (a b : list Z) : list Z := filter (fun x => mem x b) a.
Definition union (a b : list Z) : list Z := a ++ b.
Definition subset (a b : list Z) : bool := forallb (fun x => mem x b) a.
Definition seteq (a b : list Z) : bool := subset a b && subset b a.
Definition disjoint (a b : list Z) : bool := forallb (fun x => negb (mem x b)) a.
Definition is_empty (a : list Z) : bool := match a with [] => true | _ => false end.
Definition remove1 (x : Z) (s : list Z) : list Z := filter (fun y => negb (Z.eqb x y)) s.

Fixpoint dedup (l : list Z) : list Z :=
  match l with [] => [] | x :: r => if mem x r then dedup r else x :: dedup r end.

Lemma mem_In x s : mem x s = true <-> In x s.
Proof.
  unfold mem. rewrite existsb_exists. split.
  - intros [y [Hy E]]. apply Z.eqb_eq in E. subst. exact Hy.
  - intros H. exists x. split; [exact H | apply Z.eqb_refl].
Qed.

Lemma mem_nil x : mem x [] = false. Proof. reflexivity. Qed.
Lemma mem_cons x y s : mem x (y :: s) = (x =? y) || mem x s. Proof. reflexivity. Qed.
Lemma mem_app x a b : mem x (a ++ b) = mem x a || mem x b.
Proof. unfold mem. apply existsb_app. Qed.
Lemma mem_union x a b : mem x (union a b) = mem x a || mem x b.
Proof. apply mem_app. Qed.

Lemma mem_filter x f s : mem x (filter f s) = mem x s && f x.
Proof.
  induction s as [|y s IH]; [reflexivity|]. cbn [filter].
  destruct (f y) eqn:Fy; rewrite ?mem_cons, IH; destruct (Z.eqb_spec x y) as [E|E]; cbn.
  - subst y. rewrite Fy. destruct (mem x s); reflexivity.
  - reflexivity.
  - subst y. rewrite Fy. destruct (mem x s); reflexivity.
  - reflexivity.
Qed.

Lemma mem_diff x a b : mem x (diff a b) = mem x a && negb (mem x b).
Proof. apply mem_filter. Qed.
Lemma mem_inter x a b : mem x (inter a b) = mem x a && mem x b.
Proof. apply mem_filter. Qed.
Lemma mem_remove1 x y s : mem x (remove1 y s) = mem x s && negb (y =? x).
Proof. apply mem_filter. Qed.
Lemma mem_dedup x l : mem x (dedup l) = mem x l.
Proof.
  induction l as [|y l IH]; [reflexivity|]. cbn [dedup].
  destruct (mem y l) eqn:E; rewrite ?mem_cons, IH; [|reflexivity].
  destruct (Z.eqb_spec x y) as [->|]; [rewrite E|]; reflexivity.
Qed.

Lemma subset_spec a b : subset a b = true <-> (forall x, mem x a = true -> mem x b = true).
Proof.
  unfold subset. rewrite forallb_forall. split; intros H x Hx.
  - apply H. apply mem_In. exact Hx.
  - apply H. apply mem_In. exact Hx.
Qed.

Lemma seteq_spec a b : seteq a b = true <-> (forall x, mem x a = mem x b).
Proof.
  unfold seteq. rewrite andb_true_iff, !subset_spec. split.
  - intros [H1 H2] x. destruct (mem x a) eqn:Ea, (mem x b) eqn:Eb; try reflexivity.
    + rewrite (H1 x Ea) in Eb. discriminate.
    + rewrite (H2 x Eb) in Ea. discriminate.
  - intros H. split; intros x Hx; [rewrite <- H | rewrite H]; exact Hx.
Qed.

Lemma disjoint_spec a b : disjoint a b = true <-> (forall x, mem x a = true -> mem x b = false).
Proof.
  unfold disjoint. rewrite forallb_forall. split; intros H x Hx.
  - apply negb_true_iff. apply H. apply mem_In. exact Hx.
  - apply negb_true_iff. apply H. apply mem_In. exact Hx.
Qed.

Lemma is_empty_spec a : is_empty a = true <-> (forall x, mem x a = false).
Proof.
  destruct a as [|y a]; split; intros H.
  - reflexivity.
  - reflexivity.
  - discriminate.
  - specialize (H y). rewrite mem_cons, Z.eqb_refl in H. discriminate.
Qed.

Lemma is_empty_false a : is_empty a = false <-> exists x, mem x a = true.
Proof.
  destruct a as [|y a]; split; intros H.
  - discriminate.
  - destruct H as [x Hx]. discriminate.
  - exists y. rewrite mem_cons, Z.eqb_refl. reflexivity.
  - reflexivity.
Qed.

Lemma seteq_refl a : seteq a a = true.
Proof. apply seteq_spec. reflexivity. Qed.

Lemma seteq_sym a b : seteq a b = seteq b a.
Proof. unfold seteq. apply andb_comm. Qed.

Lemma seteq_trans a b c : seteq a b = true -> seteq b c = true -> seteq a c = true.
Proof. rewrite !seteq_spec. intros H1 H2 x. rewrite H1. apply H2. Qed.

(* Rewrite all membership facts to propositional boolean algebra. *)
Ltac mem_norm :=
  repeat (rewrite ?mem_union, ?mem_app, ?mem_diff, ?mem_inter, ?mem_remove1, ?mem_dedup,
                  ?mem_cons, ?mem_nil, ?mem_filter in *).

(* Decide a goal about seteq/subset/disjoint after pointwise reduction:
   every fact about membership of [x] is moved into the goal, equalities
   between atoms are decided first, then each [mem _ _] is case-split. *)
Ltac lset_point x :=
  mem_norm;
  repeat match goal with
         | H : forall y, mem y _ = _ |- _ => specialize (H x)
         | H : forall y, mem y _ = true -> _ |- _ => specialize (H x)
         end;
  mem_norm;
  repeat match goal with
         | H : context [mem _ _] |- _ => revert H
         | H : context [Z.eqb _ _] |- _ => revert H
         end;
  repeat match goal with
         | |- context [Z.eqb ?a ?b] =>
             let E := fresh "E" in
             destruct (Z.eqb_spec a b) as [E|E]; [first [subst a | subst b | idtac] | ]
         end;
  repeat match goal with |- context [mem ?y ?s] => destruct (mem y s) end;
  cbn; intros; try congruence; try tauto; try lia; auto.
