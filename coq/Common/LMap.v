(* Finite maps from integer key atoms to integer value atoms as association
   lists in insertion order, read through [lookup] (first binding wins) and
   compared extensionally.  Companion of Common/LSet.v (keys are LSet sets).
   [set] follows the built-in dict: an existing key keeps its position, a new
   key is appended, so the last element is the one popitem() returns. *)
From Coq Require Import ZArith List Bool Lia.
From TV Require Import Common.LSet.
Import ListNotations.
Open Scope Z_scope.

Definition amap := list (Z * Z).

Fixpoint lookup (k : Z) (m : amap) : option Z :=
  match m with
  | [] => None
  | (k', v) :: r => if k =? k' then Some v else lookup k r
  end.
Definition has (k : Z) (m : amap) : bool := match lookup k m with Some _ => true | None => false end.
Definition keys (m : amap) : list Z := map fst m.
Definition mremove (k : Z) (m : amap) : amap := filter (fun p => negb (k =? fst p)) m.
Fixpoint mset (k v : Z) (m : amap) : amap :=
  match m with
  | [] => [(k, v)]
  | (k', v') :: r => if k =? k' then (k, v) :: r else (k', v') :: mset k v r
  end.
(* dict.update(pairs): later pairs win, new keys appended in order *)
Definition update_all (ps m : amap) : amap := fold_left (fun acc p => mset (fst p) (snd p) acc) ps m.
(* drop all keys of [ks] *)
Definition minus (m : amap) (ks : list Z) : amap := filter (fun p => negb (mem (fst p) ks)) m.
Definition oz_eqb (a b : option Z) : bool :=
  match a, b with Some x, Some y => x =? y | None, None => true | _, _ => false end.
Definition mapeq (a b : amap) : bool :=
  forallb (fun k => oz_eqb (lookup k a) (lookup k b)) (keys a ++ keys b).
Definition mempty (m : amap) : bool := match m with [] => true | _ => false end.
(* last binding in insertion order *)
Definition last_item (m : amap) : option (Z * Z) :=
  match rev m with [] => None | p :: _ => Some p end.

Lemma oz_eqb_eq a b : oz_eqb a b = true <-> a = b.
Proof.
  destruct a as [x|], b as [y|]; cbn; split; intros H; try congruence; try discriminate.
  - apply Z.eqb_eq in H. congruence.
  - injection H as ->. apply Z.eqb_refl.
Qed.

Lemma lookup_keys k m : mem k (keys m) = has k m.
Proof.
  unfold has. induction m as [|[k' v] r IH]; [reflexivity|]. cbn [keys map fst lookup].
  rewrite mem_cons. destruct (k =? k'); [reflexivity|]. exact IH.
Qed.

Lemma lookup_none_keys k m : lookup k m = None <-> mem k (keys m) = false.
Proof. rewrite lookup_keys. unfold has. destruct (lookup k m); split; congruence. Qed.

Lemma lookup_app k a b :
  lookup k (a ++ b) = match lookup k a with Some v => Some v | None => lookup k b end.
Proof.
  induction a as [|[k' v] r IH]; [reflexivity|]. cbn [app lookup]. destruct (k =? k'); [reflexivity | exact IH].
Qed.

Lemma lookup_filter_key k (f : Z -> bool) m :
  lookup k (filter (fun p => f (fst p)) m) = if f k then lookup k m else None.
Proof.
  induction m as [|[k' v] r IH]; [destruct (f k); reflexivity|]. cbn [filter fst].
  destruct (f k') eqn:Fk'; cbn [lookup]; destruct (Z.eqb_spec k k') as [->|Hne].
  - rewrite Fk'. reflexivity.
  - exact IH.
  - rewrite IH, Fk'. reflexivity.
  - exact IH.
Qed.

Lemma lookup_mremove k k' m : lookup k (mremove k' m) = if k =? k' then None else lookup k m.
Proof.
  unfold mremove. rewrite (lookup_filter_key k (fun x => negb (k' =? x)) m).
  rewrite (Z.eqb_sym k' k). destruct (k =? k'); reflexivity.
Qed.

Lemma lookup_minus k m ks : lookup k (minus m ks) = if mem k ks then None else lookup k m.
Proof.
  unfold minus. rewrite (lookup_filter_key k (fun x => negb (mem x ks)) m). destruct (mem k ks); reflexivity.
Qed.

Lemma lookup_mset k k' v m : lookup k (mset k' v m) = if k =? k' then Some v else lookup k m.
Proof.
  induction m as [|[k2 v2] r IH]; cbn [mset lookup].
  - destruct (k =? k'); reflexivity.
  - destruct (Z.eqb_spec k' k2) as [->|Hne]; cbn [lookup].
    + destruct (k =? k2); reflexivity.
    + destruct (Z.eqb_spec k k2) as [->|Hne2].
      * destruct (Z.eqb_spec k2 k') as [E|_]; [congruence | reflexivity].
      * exact IH.
Qed.

Lemma has_mset k k' v m : has k (mset k' v m) = (k =? k') || has k m.
Proof. unfold has. rewrite lookup_mset. destruct (k =? k'); reflexivity. Qed.

Lemma mapeq_spec a b : mapeq a b = true <-> (forall k, lookup k a = lookup k b).
Proof.
  unfold mapeq. rewrite forallb_forall. split.
  - intros H k. destruct (mem k (keys a ++ keys b)) eqn:E.
    + apply oz_eqb_eq, H, mem_In, E.
    + rewrite mem_app in E. apply orb_false_iff in E. destruct E as [Ea Eb].
      apply lookup_none_keys in Ea. apply lookup_none_keys in Eb. congruence.
  - intros H k _. apply oz_eqb_eq, H.
Qed.

Lemma mapeq_refl a : mapeq a a = true.
Proof. apply mapeq_spec. reflexivity. Qed.
Lemma mapeq_sym a b : mapeq a b = mapeq b a.
Proof.
  destruct (mapeq a b) eqn:E1, (mapeq b a) eqn:E2; try reflexivity.
  - rewrite mapeq_spec in E1. rewrite <- E2. symmetry. apply mapeq_spec. intro k. symmetry. apply E1.
  - rewrite mapeq_spec in E2. rewrite <- E1. apply mapeq_spec. intro k. symmetry. apply E2.
Qed.
Lemma mapeq_false a b : mapeq a b = false -> exists k, lookup k a <> lookup k b.
Proof.
  unfold mapeq. intros H.
  assert (E : existsb (fun k => negb (oz_eqb (lookup k a) (lookup k b))) (keys a ++ keys b) = true).
  { revert H. generalize (keys a ++ keys b). induction l as [|x l IH]; cbn; [discriminate|].
    destruct (oz_eqb (lookup x a) (lookup x b)); cbn; [exact IH | reflexivity]. }
  apply existsb_exists in E. destruct E as [k [_ Hk]]. exists k. intros Heq.
  apply oz_eqb_eq in Heq. rewrite Heq in Hk. discriminate.
Qed.

Lemma mempty_spec m : mempty m = true <-> m = [].
Proof. destruct m; cbn; split; congruence. Qed.
Lemma mempty_lookup m : mempty m = true -> forall k, lookup k m = None.
Proof. intros H k. apply mempty_spec in H. subst. reflexivity. Qed.
Lemma mempty_false m : mempty m = false -> exists k v, lookup k m = Some v.
Proof.
  destruct m as [|[k v] r]; [discriminate|]. intros _. exists k, v. cbn. rewrite Z.eqb_refl. reflexivity.
Qed.

(* keys of a map built by [mset] stay duplicate-free *)
Lemma keys_mset_in k v m x : In x (keys (mset k v m)) <-> x = k \/ In x (keys m).
Proof.
  induction m as [|[k2 v2] r IH]; cbn [mset keys map fst In].
  - intuition.
  - destruct (Z.eqb_spec k k2) as [->|Hne]; cbn [keys map fst In].
    + intuition.
    + unfold keys in IH. rewrite IH. intuition.
Qed.

Lemma nodup_mset k v m : NoDup (keys m) -> NoDup (keys (mset k v m)).
Proof.
  induction m as [|[k2 v2] r IH]; cbn [mset keys map fst]; intros H.
  - constructor; [intros [] | constructor].
  - inversion H as [|? ? Hnin Hr]; subst. destruct (Z.eqb_spec k k2) as [->|Hne]; cbn [keys map fst].
    + constructor; assumption.
    + constructor; [|apply IH; exact Hr]. intros Hin. apply keys_mset_in in Hin.
      destruct Hin as [->|Hin]; [congruence | exact (Hnin Hin)].
Qed.

Lemma nodup_update_all ps : forall m, NoDup (keys m) -> NoDup (keys (update_all ps m)).
Proof.
  induction ps as [|p ps IH]; intros m H; [exact H|]. cbn. apply IH, nodup_mset, H.
Qed.

(* lookup after dict.update *)
Lemma lookup_update_all k ps : forall m,
  lookup k (update_all ps m)
  = match lookup k (update_all ps []) with Some v => Some v | None => lookup k m end.
Proof.
  induction ps as [|[k' v'] ps IH]; intros m; [reflexivity|]. cbn [update_all fold_left fst snd].
  change (fold_left (fun acc p => mset (fst p) (snd p) acc) ps ?x) with (update_all ps x).
  rewrite (IH (mset k' v' m)), (IH (mset k' v' [])). rewrite !lookup_mset. cbn [lookup].
  destruct (lookup k (update_all ps [])); [reflexivity|]. destruct (k =? k'); reflexivity.
Qed.

Lemma lookup_update_all_nodup k ps : NoDup (keys ps) -> forall m,
  lookup k (update_all ps m) = match lookup k ps with Some v => Some v | None => lookup k m end.
Proof.
  induction ps as [|[k' v'] ps IH]; intros Hnd m; [reflexivity|]. cbn [update_all fold_left fst snd].
  change (fold_left (fun acc p => mset (fst p) (snd p) acc) ps ?x) with (update_all ps x).
  inversion Hnd as [|? ? Hnin Hr]; subst. rewrite (IH Hr). cbn [lookup]. rewrite lookup_mset.
  destruct (Z.eqb_spec k k') as [->|Hne]; [|reflexivity].
  assert (E : lookup k' ps = None).
  { apply lookup_none_keys. destruct (mem k' (keys ps)) eqn:Em; [|reflexivity].
    apply mem_In in Em. contradiction. }
  rewrite E. reflexivity.
Qed.

Lemma update_all_app a b m : update_all (a ++ b) m = update_all b (update_all a m).
Proof. unfold update_all. apply fold_left_app. Qed.

Lemma last_item_lookup m k v :
  last_item m = Some (k, v) -> NoDup (keys m) -> lookup k m = Some v.
Proof.
  unfold last_item. intros H Hnd. destruct (rev m) as [|p r] eqn:E; [discriminate|]. injection H as ->.
  assert (Hm : m = rev r ++ [(k, v)]).
  { rewrite <- (rev_involutive m), E. reflexivity. }
  subst m. rewrite lookup_app. destruct (lookup k (rev r)) eqn:El.
  - exfalso. unfold keys in Hnd. rewrite map_app in Hnd. cbn in Hnd.
    apply NoDup_remove_2 in Hnd. rewrite app_nil_r in Hnd. apply Hnd.
    assert (Hh : has k (rev r) = true) by (unfold has; rewrite El; reflexivity).
    rewrite <- lookup_keys in Hh. apply mem_In in Hh. exact Hh.
  - cbn. rewrite Z.eqb_refl. reflexivity.
Qed.
