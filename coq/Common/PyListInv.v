(* Invariant-style facts about the list operations of Common/PyList.v, for an
   arbitrary item type: every operation only keeps old items and inserts the given
   new ones ([Forall P] is preserved), and the exact length of each result.
   Used by C04 (containers never hold an invalid element / illegal length). *)
From Coq Require Import ZArith List Arith Lia Bool PeanoNat Permutation.
From TV Require Import Common.PySlice Common.PyList.
Import ListNotations.

Section F.
Context {A : Type}.
Variable P : A -> Prop.

Lemma In_firstn (l : list A) n x : In x (firstn n l) -> In x l.
Proof. revert l; induction n as [|n IH]; intros [|a l] H; cbn in *; try tauto. destruct H; auto. Qed.
Lemma In_skipn (l : list A) n x : In x (skipn n l) -> In x l.
Proof. revert l; induction n as [|n IH]; intros [|a l] H; cbn in *; try tauto. right. auto. Qed.

Lemma Forall_sub (l l' : list A) : (forall x, In x l' -> In x l) -> Forall P l -> Forall P l'.
Proof. intros H F. apply Forall_forall. intros x Hx. rewrite Forall_forall in F. auto. Qed.

Lemma Forall_firstn_ (l : list A) n : Forall P l -> Forall P (firstn n l).
Proof. apply Forall_sub. intros x. apply In_firstn. Qed.
Lemma Forall_skipn_ (l : list A) n : Forall P l -> Forall P (skipn n l).
Proof. apply Forall_sub. intros x. apply In_skipn. Qed.

Lemma Forall_set_nth n v (l : list A) : P v -> Forall P l -> Forall P (set_nth n v l).
Proof.
  intros Hv F. unfold set_nth. apply Forall_app. split; [apply Forall_firstn_; exact F|].
  constructor; [exact Hv|apply Forall_skipn_; exact F].
Qed.
Lemma Forall_del_nth n (l : list A) : Forall P l -> Forall P (del_nth n l).
Proof.
  intros F. unfold del_nth. apply Forall_app. split; [apply Forall_firstn_|apply Forall_skipn_]; exact F.
Qed.
Lemma Forall_ins_nth n v (l : list A) : P v -> Forall P l -> Forall P (ins_nth n v l).
Proof.
  intros Hv F. unfold ins_nth. apply Forall_app. split; [apply Forall_firstn_; exact F|].
  constructor; [exact Hv|apply Forall_skipn_; exact F].
Qed.

Lemma assoc_In Ps (V : list A) i v : assoc Ps V i = Some v -> In v V.
Proof.
  revert V. induction Ps as [|p Ps IH]; intros [|w V] H; cbn in H; try discriminate.
  destruct (Nat.eqb p i); [inversion H; left; reflexivity|right; eapply IH; exact H].
Qed.

Lemma Forall_mapi_from k (f : nat -> A -> A) (l : list A) :
  (forall i x, P x -> P (f i x)) -> Forall P l -> Forall P (mapi_from k f l).
Proof.
  intros Hf. revert k. induction l as [|a l IH]; intros k F; cbn; [constructor|].
  inversion F; subst. constructor; [apply Hf; assumption|apply IH; assumption].
Qed.

Lemma Forall_assign_at (l : list A) Ps V : Forall P l -> Forall P V -> Forall P (assign_at l Ps V).
Proof.
  intros Fl FV. unfold assign_at. apply Forall_mapi_from; [|exact Fl].
  intros i x Hx. destruct (assoc Ps V i) as [v|] eqn:E; [|exact Hx].
  rewrite Forall_forall in FV. apply FV. eapply assoc_In. exact E.
Qed.

Lemma Forall_filteri_from k f (l : list A) : Forall P l -> Forall P (filteri_from k f l).
Proof.
  revert k. induction l as [|a l IH]; intros k F; cbn; [constructor|].
  inversion F; subst. destruct (f k); [constructor; auto|auto].
Qed.
Lemma Forall_delete_at (l : list A) Ps : Forall P l -> Forall P (delete_at l Ps).
Proof. apply Forall_filteri_from. Qed.

Lemma Forall_rep (l : list A) n : Forall P l -> Forall P (rep l n).
Proof. intros F. induction n; cbn; [constructor|apply Forall_app; split; assumption]. Qed.

Lemma Forall_ins_sorted leb x (l : list A) : P x -> Forall P l -> Forall P (ins_sorted leb x l).
Proof.
  intros Hx F. induction l as [|y l IH]; cbn; [constructor; [exact Hx|constructor]|].
  inversion F; subst. destruct (leb x y); constructor; auto.
Qed.
Lemma Forall_isort leb (l : list A) : Forall P l -> Forall P (isort leb l).
Proof.
  intros F. induction l as [|x l IH]; cbn; [constructor|]. inversion F; subst.
  apply Forall_ins_sorted; auto.
Qed.
Lemma Forall_sort leb r (l : list A) : Forall P l -> Forall P (sort leb r l).
Proof.
  intros F. unfold sort. destruct r; [|apply Forall_isort; exact F].
  apply Forall_rev, Forall_isort, Forall_rev. exact F.
Qed.
End F.

Section Len.
Context {A : Type}.

Lemma ins_sorted_length leb x (l : list A) : length (ins_sorted leb x l) = S (length l).
Proof. induction l as [|y l IH]; cbn; [reflexivity|]. destruct (leb x y); cbn; auto. Qed.
Lemma isort_length leb (l : list A) : length (isort leb l) = length l.
Proof.
  induction l as [|x l IH]; [reflexivity|].
  change (isort leb (x :: l)) with (ins_sorted leb x (isort leb l)).
  rewrite ins_sorted_length, IH. reflexivity.
Qed.
Lemma sort_length leb r (l : list A) : length (sort leb r l) = length l.
Proof. unfold sort. destruct r; rewrite ?rev_length, isort_length, ?rev_length; reflexivity. Qed.

Lemma rep_length (l : list A) n : length (rep l n) = (n * length l)%nat.
Proof. induction n; cbn; [reflexivity|]. rewrite app_length, IHn. reflexivity. Qed.

Lemma set_nth_length n v (l : list A) : (n < length l)%nat -> length (set_nth n v l) = length l.
Proof.
  intros H. unfold set_nth. rewrite app_length, firstn_length. cbn [length]. rewrite skipn_length. lia.
Qed.
Lemma del_nth_length n (l : list A) : (n < length l)%nat -> S (length (del_nth n l)) = length l.
Proof. intros H. unfold del_nth. rewrite app_length, firstn_length, skipn_length. lia. Qed.
Lemma ins_nth_length n v (l : list A) : length (ins_nth n v l) = S (length l).
Proof.
  unfold ins_nth. rewrite app_length, firstn_length. cbn [length]. rewrite skipn_length. lia.
Qed.

(* deleting a duplicate-free set of valid positions removes exactly that many items *)
Lemma filteri_from_filter_seq k f (l : list A) :
  length (filteri_from k f l) = length (filter f (seq k (length l))).
Proof.
  revert k. induction l as [|a l IH]; intros k; cbn; [reflexivity|].
  destruct (f k); cbn; rewrite IH; reflexivity.
Qed.

Lemma filter_split_length {B} (f : B -> bool) (s : list B) :
  (length (filter f s) + length (filter (fun x => negb (f x)) s) = length s)%nat.
Proof. induction s as [|x s IH]; cbn; [reflexivity|]. destruct (f x); cbn; lia. Qed.

Lemma delete_at_length (l : list A) Ps :
  NoDup Ps -> (forall p, In p Ps -> (p < length l)%nat) ->
  (length (delete_at l Ps) + length Ps = length l)%nat.
Proof.
  intros ND HB. unfold delete_at. rewrite filteri_from_filter_seq.
  set (g := fun i => existsb (Nat.eqb i) Ps).
  pose proof (filter_split_length g (seq 0 (length l))) as S. rewrite seq_length in S.
  assert (length (filter g (seq 0 (length l))) = length Ps) as E.
  { apply Permutation_length. apply NoDup_Permutation.
    - apply NoDup_filter, seq_NoDup.
    - exact ND.
    - intros x. rewrite filter_In, in_seq. subst g. cbn beta. rewrite existsb_exists. split.
      + intros [_ (y & Hy & E)]. apply Nat.eqb_eq in E. subst. exact Hy.
      + intros Hx. split; [specialize (HB x Hx); lia|]. exists x. split; [exact Hx|apply Nat.eqb_refl]. }
  change (fun i => negb (existsb (Nat.eqb i) Ps)) with (fun i => negb (g i)). lia.
Qed.
End Len.

(* ---------- exact lengths of the subscript operations (Z level) ---------- *)
Local Open Scope Z_scope.
Section ZLen.
Context {A : Type}.

Lemma in_range_lt (l : list A) i : in_range (zlen l) i = true -> (nat_index (zlen l) i < length l)%nat.
Proof.
  unfold in_range, nat_index, norm_index, zlen. intros H. apply andb_true_iff in H. destruct H as [H1 H2].
  destruct (i <? 0) eqn:E; lia.
Qed.

Lemma setitem_int_length (l l' : list A) i v : setitem_int l i v = Ok l' -> zlen l' = zlen l.
Proof.
  unfold setitem_int. destruct (in_range (zlen l) i) eqn:R; [|discriminate]. intros H. inversion H.
  unfold zlen. rewrite set_nth_length by (apply in_range_lt; exact R). reflexivity.
Qed.

Lemma delitem_int_length (l l' : list A) i : delitem_int l i = Ok l' -> zlen l' = zlen l - 1.
Proof.
  unfold delitem_int. destruct (in_range (zlen l) i) eqn:R; [|discriminate]. intros H. inversion H.
  pose proof (del_nth_length _ l (in_range_lt l i R)) as E. unfold zlen in *. lia.
Qed.

Lemma pop_length (l l' : list A) i x : pop l i = Ok (x, l') -> zlen l' = zlen l - 1.
Proof.
  unfold pop, getitem_int. destruct (in_range (zlen l) i) eqn:R; [|discriminate].
  destruct (nth_error l (nat_index (zlen l) i)); [|discriminate]. cbn. intros H. inversion H.
  pose proof (del_nth_length _ l (in_range_lt l i R)) as E. unfold zlen in *. lia.
Qed.

Lemma insert_length (l : list A) i v : zlen (insert l i v) = zlen l + 1.
Proof. unfold insert, zlen. rewrite ins_nth_length. lia. Qed.

Lemma imul_length (l : list A) n : zlen (imul l n) = Z.max 0 (zlen l * n).
Proof.
  unfold imul, zlen. destruct (n <? 1) eqn:E.
  - cbn. destruct (Z.eq_dec n 0) as [->|]; [lia|]. nia.
  - rewrite rep_length. nia.
Qed.

Lemma select_npos_length (l : list A) sl : slice_step sl <> 0 ->
  length (select l (npos (zlen l) sl)) = length (npos (zlen l) sl).
Proof. intros Hs. apply select_length. intros p. apply npos_bounds. exact Hs. Qed.

Lemma delitem_slice_length (l l' r : list A) sl :
  delitem_slice l sl = Ok l' -> getitem_slice l sl = Ok r -> zlen l' = zlen l - zlen r /\ 0 <= zlen l - zlen r.
Proof.
  unfold delitem_slice, getitem_slice. destruct (Z.eqb_spec (slice_step sl) 0) as [|Hs]; [discriminate|].
  intros H1 H2. inversion H1. inversion H2. subst.
  pose proof (delete_at_length l (npos (zlen l) sl) (npos_NoDup l sl Hs) (fun p => npos_bounds l sl p Hs)) as E.
  pose proof (select_npos_length l sl Hs) as E2.
  set (NP := npos (zlen l) sl) in *. unfold zlen. lia.
Qed.

Lemma setitem_slice_length (l l' r vs : list A) sl :
  setitem_slice l sl vs = Ok l' -> getitem_slice l sl = Ok r ->
  zlen l' = (if slice_step sl =? 1 then zlen l - zlen r + zlen vs else zlen l) /\ 0 <= zlen l - zlen r.
Proof.
  unfold setitem_slice, getitem_slice. destruct (Z.eqb_spec (slice_step sl) 0) as [|Hs]; [discriminate|].
  pose proof (indices_step (zlen l) sl) as HS.
  destruct (indices (zlen l) sl) as [[a b] c] eqn:Hidx. cbn [snd] in HS. subst c.
  pose proof (select_npos_length l sl Hs) as E2.
  intros H1 H2. inversion H2. subst r. clear H2.
  assert (length (npos (zlen l) sl) <= length l)%nat as Hle.
  { pose proof (delete_at_length l (npos (zlen l) sl) (npos_NoDup l sl Hs) (fun p => npos_bounds l sl p Hs)). lia. }
  destruct (Z.eqb_spec (slice_step sl) 1) as [H1'|H1'].
  - inversion H1. subst l'. rewrite H1' in Hidx.
    destruct sl as [[oa ob] oc].
    destruct (indices_pos _ _ _ _ _ _ _ (zlen_nonneg l) Hidx ltac:(lia)) as [Ha Hb].
    assert (length (npos (zlen l) (oa, ob, oc)) = Z.to_nat (Z.max a b) - Z.to_nat a)%nat as EN.
    { unfold npos, slice_positions. rewrite Hidx, map_length, positions_length.
      unfold slicelen. cbn [Z.ltb Z.compare]. destruct (Z.ltb_spec a b); [rewrite Z.div_1_r|]; lia. }
    unfold zlen in *. rewrite !app_length, firstn_length, skipn_length. rewrite E2, EN.
    rewrite Nat.min_l by lia. clear H1 E2 EN Hle Hidx Hs H1'. split; lia.
  - destruct (Nat.eqb_spec (length vs) (length (npos (zlen l) sl))); [|discriminate].
    inversion H1. unfold zlen at 1 2. rewrite assign_at_length. split; [reflexivity|unfold zlen in *; lia].
Qed.

Lemma set_nth_same (l : list A) j x : nth_error l j = Some x -> set_nth j x l = l.
Proof.
  revert l. induction j as [|j IH]; intros [|a l] H; cbn in H; try discriminate.
  - inversion H. reflexivity.
  - unfold set_nth in *. cbn. f_equal. apply IH. exact H.
Qed.
End ZLen.

(* ---------- [Forall P] through the list methods ---------- *)
Section FZ.
Context {A : Type}.
Variable P : A -> Prop.

Lemma Forall_setitem_int (l l' : list A) i v : P v -> Forall P l -> setitem_int l i v = Ok l' -> Forall P l'.
Proof.
  unfold setitem_int. destruct (in_range (zlen l) i); [|discriminate]. intros Hv F H. inversion H.
  apply Forall_set_nth; assumption.
Qed.
Lemma Forall_delitem_int (l l' : list A) i : Forall P l -> delitem_int l i = Ok l' -> Forall P l'.
Proof.
  unfold delitem_int. destruct (in_range (zlen l) i); [|discriminate]. intros F H. inversion H.
  apply Forall_del_nth; assumption.
Qed.
Lemma Forall_setitem_slice (l l' vs : list A) sl :
  Forall P l -> Forall P vs -> setitem_slice l sl vs = Ok l' -> Forall P l'.
Proof.
  unfold setitem_slice. destruct (slice_step sl =? 0); [discriminate|].
  destruct (indices (zlen l) sl) as [[a b] c]. intros F FV H.
  destruct (c =? 1).
  - inversion H. apply Forall_app. split; [apply Forall_firstn_; exact F|].
    apply Forall_app. split; [exact FV|apply Forall_skipn_; exact F].
  - destruct (Nat.eqb (length vs) (length (npos (zlen l) sl))); [|discriminate].
    inversion H. apply Forall_assign_at; assumption.
Qed.
Lemma Forall_delitem_slice (l l' : list A) sl : Forall P l -> delitem_slice l sl = Ok l' -> Forall P l'.
Proof.
  unfold delitem_slice. destruct (slice_step sl =? 0); [discriminate|]. intros F H. inversion H.
  apply Forall_delete_at; assumption.
Qed.
Lemma Forall_insert (l : list A) i v : P v -> Forall P l -> Forall P (insert l i v).
Proof. intros. unfold insert. apply Forall_ins_nth; assumption. Qed.
Lemma Forall_pop (l l' : list A) i x : Forall P l -> pop l i = Ok (x, l') -> Forall P l'.
Proof.
  unfold pop. destruct (getitem_int l i); [|discriminate]. cbn. intros F H. inversion H.
  apply Forall_del_nth; assumption.
Qed.
Lemma Forall_imul (l : list A) n : Forall P l -> Forall P (imul l n).
Proof. intros F. unfold imul. destruct (n <? 1); [constructor|apply Forall_rep; exact F]. Qed.
Lemma Forall_remove eqb (l l' : list A) x : Forall P l -> remove eqb l x = Ok l' -> Forall P l'.
Proof.
  unfold remove. destruct (index_of eqb x l); [|discriminate]. intros F H. inversion H.
  apply Forall_del_nth; assumption.
Qed.

Lemma index_of_lt eqb (x : A) l n : index_of eqb x l = Some n -> (n < length l)%nat.
Proof.
  revert n. induction l as [|a l IH]; intros n H; cbn in H; [discriminate|].
  destruct (eqb a x); [inversion H; cbn; lia|].
  destruct (index_of eqb x l) as [m|]; [|discriminate]. inversion H. specialize (IH m eq_refl). cbn. lia.
Qed.
Lemma remove_length eqb (l l' : list A) x : remove eqb l x = Ok l' -> zlen l' = zlen l - 1.
Proof.
  unfold remove. destruct (index_of eqb x l) as [n|] eqn:E; [|discriminate]. intros H. inversion H.
  pose proof (del_nth_length n l (index_of_lt eqb x l n E)). unfold zlen. lia.
Qed.
End FZ.
