(* Common/PyVal.v — the abstract Python value universe of the validation
   properties (C01, C03): values with their exact type tag, symbolic IEEE
   doubles, the numeric conversion protocols (__index__/__float__/__complex__
   that return or raise), Python equality, hashability, class table.
   Executable definitions only (stdlib style); lemmas are in the property
   directories.  DESIGN §3. *)
From Coq Require Import ZArith List Bool.
Import ListNotations.
Open Scope Z_scope.

(* ---------- symbolic doubles: only order and equality matter ---------- *)
(* A finite double x is the integer x*SCALE (the harness only uses doubles for
   which this is exact); -0.0 is FFin true 0. *)
Inductive fl := FNaN | FNegInf | FFin (negzero : bool) (z : Z) | FPosInf.

Definition fl_lt (a b : fl) : bool :=
  match a, b with
  | FNaN, _ | _, FNaN => false
  | FNegInf, FNegInf => false | FNegInf, _ => true
  | _, FNegInf => false
  | FPosInf, _ => false
  | FFin _ x, FFin _ y => x <? y
  | FFin _ _, FPosInf => true
  end.
Definition fl_eq (a b : fl) : bool :=
  match a, b with
  | FNaN, _ | _, FNaN => false
  | FNegInf, FNegInf | FPosInf, FPosInf => true
  | FFin _ x, FFin _ y => x =? y
  | _, _ => false
  end.
Definition fl_le a b := fl_lt a b || fl_eq a b.
Definition fl_gt a b := fl_lt b a.
Definition fl_ge a b := fl_le b a.

(* structural identity of the representation (NaN = NaN, -0.0 <> 0.0) *)
Definition fl_same (a b : fl) : bool :=
  match a, b with
  | FNaN, FNaN | FNegInf, FNegInf | FPosInf, FPosInf => true
  | FFin n x, FFin m y => Bool.eqb n m && (x =? y)
  | _, _ => false
  end.

Definition SCALE : Z := 1000.
Definition fl_zero : fl := FFin false 0.
Definition fl_is_nan (f : fl) : bool := match f with FNaN => true | _ => false end.

(* ---------- exceptions and conversion outcomes ---------- *)
Inductive exn := ETraitError | ETypeError | EValueError | EOverflowError | EOtherError.
Definition exn_eqb (a b : exn) : bool :=
  match a, b with
  | ETraitError, ETraitError | ETypeError, ETypeError | EValueError, EValueError
  | EOverflowError, EOverflowError | EOtherError, EOtherError => true
  | _, _ => false
  end.

Inductive conv (A : Type) := Returns (a : A) | Raises (e : exn).
Arguments Returns {A} a.
Arguments Raises {A} e.
Definition conv_map {A B} (f : A -> B) (c : conv A) : conv B :=
  match c with Returns a => Returns (f a) | Raises e => Raises e end.
Definition conv_bind {A B} (c : conv A) (f : A -> conv B) : conv B :=
  match c with Returns a => f a | Raises e => Raises e end.

(* ---------- class identifiers (the harness uses the same numbers) ---------- *)
Definition cOBJECT := 0.   Definition cNONE := 1.    Definition cBOOL := 2.
Definition cINT := 3.      Definition cFLOAT := 4.   Definition cCOMPLEX := 5.
Definition cSTR := 6.      Definition cBYTES := 7.   Definition cTUPLE := 8.
Definition cLIST := 9.     Definition cINTSUB := 10. Definition cFLOATSUB := 11.
Definition cSTRSUB := 12.  Definition cTUPSUB := 13.
(* numpy scalar classes 14..19 are carried by the value: 14 int32, 15 int64,
   16 uint8, 17 float32, 18 float64 (a subclass of float), 19 bool_ *)
Definition cNPBOOL := 19.  Definition cIDXOBJ := 20. Definition cFLTOBJ := 21.
Definition cCPXOBJ := 22.  Definition cFUNCTION := 23. Definition cTYPE := 24.
Definition cMODULE := 25.  Definition cOTHER := 26.  Definition cBUILTINFN := 28.
Definition cNDARRAY := 29. Definition cPROXY := 30. Definition cUNDEFINED := 31. Definition cDICT := 32.
(* user classes: >= 100 *)

(* ---------- values ---------- *)
Inductive pv :=
| PNone
| PBool (b : bool)
| PInt (z : Z)                       (* exact int *)
| PIntSub (z : Z)                    (* instance of a subclass of int *)
| PFloat (f : fl)                    (* exact float *)
| PFloatSub (f : fl)
| PComplex (re im : fl)              (* exact complex *)
| PStr (s : list Z)                  (* exact str: code points *)
| PStrSub (s : list Z)
| PBytes (s : list Z)
| PTuple (l : list pv)               (* exact tuple *)
| PTupleSub (l : list pv)            (* instance of a tuple subclass (namedtuple ...) *)
| PList (l : list pv)
| PNpInt (k : Z) (z : Z)             (* numpy integer scalar of class k *)
| PNpFloat (k : Z) (f : fl)          (* numpy float scalar of class k *)
| PNpBool (b : bool)
| PIndexObj (c : conv Z)             (* object whose only protocol is __index__ *)
| PFloatObj (c : conv fl)            (* ... __float__ *)
| PComplexObj (c : conv (fl * fl))   (* ... __complex__ *)
| PObj (cls : Z) (id : Z)            (* instance `id` of user class `cls` *)
| PType (cls : Z)                    (* a class object *)
| PCallable (n : Z)                  (* 0: Python function, otherwise built-in function *)
| PModule (n : Z)
| POther (n : Z)                     (* dict / set / object(): unhashable iff n < 0 *)
| PArray (dt : Z) (shape : list Z) (cid : Z)   (* numpy.ndarray: dtype id, shape, content id *)
| PProxy (cls : Z) (id : Z)          (* transparent proxy: its type is Proxy, its __class__ reports class cls *)
| PUndefined                         (* traits.api.Undefined: the "no value yet" singleton *)
| PDict (l : list (pv * pv)).        (* dict (and TraitDictObject): items in insertion order *)

Definition class_of (v : pv) : Z :=
  match v with
  | PNone => cNONE | PBool _ => cBOOL | PInt _ => cINT | PIntSub _ => cINTSUB
  | PFloat _ => cFLOAT | PFloatSub _ => cFLOATSUB | PComplex _ _ => cCOMPLEX
  | PStr _ => cSTR | PStrSub _ => cSTRSUB | PBytes _ => cBYTES
  | PTuple _ => cTUPLE | PTupleSub _ => cTUPSUB | PList _ => cLIST
  | PNpInt k _ => if (14 <=? k) && (k <=? 16) then k else cOTHER
  | PNpFloat k _ => if (17 <=? k) && (k <=? 18) then k else cOTHER
  | PNpBool _ => cNPBOOL
  | PIndexObj _ => cIDXOBJ | PFloatObj _ => cFLTOBJ | PComplexObj _ => cCPXOBJ
  | PObj c _ => if 100 <=? c then c else cOTHER      (* user classes only *)
  | PType _ => cTYPE
  | PCallable n => if n =? 0 then cFUNCTION else cBUILTINFN
  | PModule _ => cMODULE | POther _ => cOTHER
  | PArray _ _ _ => cNDARRAY
  | PProxy _ _ => cPROXY
  | PUndefined => cUNDEFINED
  | PDict _ => cDICT
  end.

(* ---------- structural equality (same type tag, same atom) ---------- *)
Definition zlist_eqb (a b : list Z) : bool :=
  (fix go a b := match a, b with
                 | [], [] => true
                 | x :: a', y :: b' => (x =? y) && go a' b'
                 | _, _ => false end) a b.
Definition conv_eqb {A} (eqb : A -> A -> bool) (a b : conv A) : bool :=
  match a, b with
  | Returns x, Returns y => eqb x y
  | Raises e, Raises f => exn_eqb e f
  | _, _ => false
  end.

Fixpoint pv_eqb (a b : pv) : bool :=
  let fix go (l m : list pv) : bool :=
    match l, m with
    | [], [] => true
    | x :: l', y :: m' => pv_eqb x y && go l' m'
    | _, _ => false
    end in
  let fix gop (l m : list (pv * pv)) : bool :=
    match l, m with
    | [], [] => true
    | (k, x) :: l', (k', y) :: m' => pv_eqb k k' && pv_eqb x y && gop l' m'
    | _, _ => false
    end in
  match a, b with
  | PNone, PNone => true
  | PBool x, PBool y => Bool.eqb x y
  | PInt x, PInt y | PIntSub x, PIntSub y => x =? y
  | PFloat x, PFloat y | PFloatSub x, PFloatSub y => fl_same x y
  | PComplex r i, PComplex r' i' => fl_same r r' && fl_same i i'
  | PStr x, PStr y | PStrSub x, PStrSub y | PBytes x, PBytes y => zlist_eqb x y
  | PTuple l, PTuple m | PTupleSub l, PTupleSub m | PList l, PList m => go l m
  | PNpInt k x, PNpInt k' y => (k =? k') && (x =? y)
  | PNpFloat k x, PNpFloat k' y => (k =? k') && fl_same x y
  | PNpBool x, PNpBool y => Bool.eqb x y
  | PIndexObj c, PIndexObj c' => conv_eqb Z.eqb c c'
  | PFloatObj c, PFloatObj c' => conv_eqb fl_same c c'
  | PComplexObj c, PComplexObj c' =>
      conv_eqb (fun p q => fl_same (fst p) (fst q) && fl_same (snd p) (snd q)) c c'
  | PObj c i, PObj c' i' => (c =? c') && (i =? i')
  | PType c, PType c' => c =? c'
  | PCallable n, PCallable m | PModule n, PModule m | POther n, POther m => n =? m
  | PArray k s c, PArray k' s' c' => (k =? k') && zlist_eqb s s' && (c =? c')
  | PProxy c i, PProxy c' i' => (c =? c') && (i =? i')
  | PUndefined, PUndefined => true
  | PDict l, PDict m => gop l m
  | _, _ => false
  end.

Fixpoint pvs_eqb (l m : list pv) : bool :=
  match l, m with
  | [], [] => true
  | x :: l', y :: m' => pv_eqb x y && pvs_eqb l' m'
  | _, _ => false
  end.

(* ---------- Python == (as used by `in` for Enum / dict keys) ---------- *)
(* numeric tower: bool, int, float, complex and the numpy scalars compare by value *)
Definition fl_of_int (n : Z) : fl := FFin false (n * SCALE).
Definition b2z (b : bool) : Z := if b then 1 else 0.
Definition num_of (v : pv) : option (fl * fl) :=
  match v with
  | PBool b | PNpBool b => Some (fl_of_int (b2z b), fl_zero)
  | PInt z | PIntSub z | PNpInt _ z => Some (fl_of_int z, fl_zero)
  | PFloat f | PFloatSub f | PNpFloat _ f => Some (f, fl_zero)
  | PComplex r i => Some (r, i)
  | _ => None
  end.

Fixpoint py_eq (a b : pv) : bool :=
  let fix go (l m : list pv) : bool :=
    match l, m with
    | [], [] => true
    | x :: l', y :: m' => py_eq x y && go l' m'
    | _, _ => false
    end in
  match num_of a, num_of b with
  | Some (r, i), Some (r', i') => fl_eq r r' && fl_eq i i'
  | Some _, None | None, Some _ => false
  | None, None =>
      match a, b with
      | PNone, PNone => true
      | (PStr x | PStrSub x), (PStr y | PStrSub y) => zlist_eqb x y
      | PBytes x, PBytes y => zlist_eqb x y
      | (PTuple l | PTupleSub l), (PTuple m | PTupleSub m) => go l m
      | PList l, PList m => go l m
      | _, _ => pv_eqb a b        (* identity for everything else *)
      end
  end.

Definition py_in (v : pv) (l : list pv) : bool := existsb (py_eq v) l.

Fixpoint hashable (v : pv) : bool :=
  match v with
  | PList _ | PArray _ _ _ | PDict _ => false
  | POther n => 0 <=? n
  | PTuple l | PTupleSub l => forallb hashable l
  | _ => true
  end.

(* dict lookup: TypeError for unhashable keys *)
Fixpoint dict_get (m : list (pv * pv)) (k : pv) : option pv :=
  match m with
  | [] => None
  | (k', x) :: r => if py_eq k k' then Some x else dict_get r k
  end.

(* ---------- conversion protocols ---------- *)
Definition MAXF : Z := 2 ^ 1024.
Definition int_to_fl (n : Z) : conv fl :=
  if (Z.abs n <? MAXF) then Returns (fl_of_int n) else Raises EOverflowError.

(* PyNumber_Index *)
Definition as_index (v : pv) : conv Z :=
  match v with
  | PBool b => Returns (b2z b)
  | PInt z | PIntSub z | PNpInt _ z => Returns z
  | PIndexObj c => c
  | _ => Raises ETypeError
  end.

(* ctraits.c:3335 as_integer == trait_types._validate_int: int(operator.index(v)) *)
Definition as_integer (v : pv) : conv pv :=
  match v with
  | PInt _ => Returns v
  | _ => conv_map PInt (as_index v)
  end.

(* PyFloat_AsDouble *)
Definition float_as_double (v : pv) : conv fl :=
  match v with
  | PFloat f | PFloatSub f | PNpFloat _ f => Returns f
  | PFloatObj c => c
  | PBool b | PNpBool b => Returns (fl_of_int (b2z b))
  | PInt z | PIntSub z | PNpInt _ z => int_to_fl z
  | PIndexObj c => conv_bind c int_to_fl
  | _ => Raises ETypeError
  end.

(* ctraits.c:3401 validate_float *)
Definition as_float (v : pv) : conv pv :=
  match v with
  | PFloat _ => Returns v
  | _ => conv_map PFloat (float_as_double v)
  end.

(* ctraits.c:3471 validate_complex_number (PyComplex_AsCComplex) *)
Definition as_complex (v : pv) : conv pv :=
  match v with
  | PComplex _ _ => Returns v
  | PComplexObj c => conv_map (fun p => PComplex (fst p) (snd p)) c
  | _ => conv_map (fun f => PComplex f fl_zero) (float_as_double v)
  end.

(* ---------- the built-in constructors used by the cast types ---------- *)
Definition is_digit (c : Z) : bool := (48 <=? c) && (c <=? 57).
Fixpoint digits_val (acc : Z) (s : list Z) : option Z :=
  match s with
  | [] => Some acc
  | c :: r => if is_digit c then digits_val (acc * 10 + (c - 48)) r else None
  end.
(* int("12"), int("-3"): the harness only uses strings without blanks, underscores, non-ASCII digits *)
Definition parse_int (s : list Z) : option Z :=
  match s with
  | [] => None
  | c :: r =>
      if c =? 45 then match r with [] => None | _ => option_map Z.opp (digits_val 0 r) end
      else if c =? 43 then match r with [] => None | _ => digits_val 0 r end
      else digits_val 0 s
  end.

Definition fl_trunc (f : fl) : conv Z :=
  match f with
  | FNaN => Raises EValueError
  | FNegInf | FPosInf => Raises EOverflowError
  | FFin _ z => Returns (Z.quot z SCALE)
  end.

(* int(v) *)
Definition cast_int (v : pv) : conv pv :=
  match v with
  | PInt z | PIntSub z | PNpInt _ z => Returns (PInt z)
  | PBool b | PNpBool b => Returns (PInt (b2z b))
  | PFloat f | PFloatSub f | PNpFloat _ f => conv_map PInt (fl_trunc f)
  | PStr s | PStrSub s | PBytes s =>
      match parse_int s with Some z => Returns (PInt z) | None => Raises EValueError end
  | PIndexObj c => conv_map PInt c
  | _ => Raises ETypeError
  end.

(* float(v): strings only in the integer-literal form (and never generated otherwise) *)
Definition cast_float (v : pv) : conv pv :=
  match v with
  | PStr s | PStrSub s | PBytes s =>
      match parse_int s with
      | Some z => conv_map PFloat (int_to_fl z)
      | None => Raises EValueError
      end
  | _ => conv_map PFloat (float_as_double v)
  end.

(* complex(v) *)
Definition cast_complex (v : pv) : conv pv :=
  match v with
  | PStr s | PStrSub s =>
      match parse_int s with
      | Some z => conv_map (fun f => PComplex f fl_zero) (int_to_fl z)
      | None => Raises EValueError
      end
  | PBytes _ => Raises ETypeError
  | PComplex r i => Returns (PComplex r i)
  | PComplexObj c => conv_map (fun p => PComplex (fst p) (snd p)) c
  | _ => conv_map (fun f => PComplex f fl_zero) (float_as_double v)
  end.

(* bool(v): truthiness of the universe's values (never raises here) *)
Definition fl_truthy (f : fl) : bool := match f with FFin _ z => negb (z =? 0) | _ => true end.
Definition is_nil_pv {A} (l : list A) : bool := match l with [] => true | _ => false end.
Definition truthy (v : pv) : bool :=
  match v with
  | PNone => false
  | PBool b | PNpBool b => b
  | PInt z | PIntSub z | PNpInt _ z => negb (z =? 0)
  | PFloat f | PFloatSub f | PNpFloat _ f => fl_truthy f
  | PComplex r i => fl_truthy r || fl_truthy i
  | PStr s | PStrSub s | PBytes s => negb (is_nil_pv s)
  | PTuple l | PTupleSub l | PList l => negb (is_nil_pv l)
  | POther n => negb (n =? -1)
  | PDict l => negb (is_nil_pv l)
  | _ => true
  end.

Definition is_undefined (v : pv) : bool := match v with PUndefined => true | _ => false end.
Definition is_proxy (v : pv) : bool := match v with PProxy _ _ => true | _ => false end.

Definition is_callable (v : pv) : bool :=
  match v with PCallable _ | PType _ => true | _ => false end.

(* no tuple-subclass instance anywhere inside the value (excludes finding F4) *)
Fixpoint no_tuplesub (v : pv) : bool :=
  match v with
  | PTupleSub _ => false
  | PTuple l | PList l => forallb no_tuplesub l
  | _ => true
  end.

Fixpoint is_prefix (p s : list Z) : bool :=
  match p, s with
  | [], _ => true
  | x :: p', y :: s' => (x =? y) && is_prefix p' s'
  | _ :: _, [] => false
  end.

(* the string content of str and str-subclass values *)
Definition str_of (v : pv) : option (list Z) :=
  match v with PStr s | PStrSub s => Some s | _ => None end.
