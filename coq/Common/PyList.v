(* Built-in Python [list] semantics over an arbitrary item type (models CPython,
   not traits; validated against the interpreter by the C05 correspondence,
   relation "pylist").  Index arithmetic is Common/PySlice.v.
   Part 1: position-list level (nat positions): assign_at / delete_at / select,
           order independence and the contiguous (splice) forms.
   Part 2: the list methods with their CPython exception class.
   Style: stdlib + lia. *)
From Coq Require Import ZArith List Arith Lia Bool PeanoNat.
From TV Require Import Common.PySlice.
Import ListNotations.

Inductive exn := IndexError | ValueError | TraitError | TypeError | OtherError | OverflowError.

(* integers that fit Py_ssize_t: list.insert / list.pop / list *= convert their argument to a machine word and raise
   OverflowError otherwise (item access and slices clamp or raise IndexError instead) *)
Definition fits (i : BinNums.Z) : bool := BinInt.Z.leb (BinInt.Z.opp 9223372036854775808) i && BinInt.Z.ltb i 9223372036854775808.
Inductive res (A : Type) := Ok (a : A) | Raise (e : exn).
Arguments Ok {A} a.
Arguments Raise {A} e.

(* a subscript: integer or slice *)
Inductive key := KInt (i : Z) | KSlice (sl : slice).

Section L.
Context {A : Type}.

(* value assigned to index i by "for j: l[P_j] = V_j" *)
Fixpoint assoc (P : list nat) (V : list A) (i : nat) : option A :=
  match P, V with
  | p :: P', v :: V' => if Nat.eqb p i then Some v else assoc P' V' i
  | _, _ => None
  end.

Fixpoint mapi_from (k : nat) (f : nat -> A -> A) (l : list A) : list A :=
  match l with [] => [] | x :: l' => f k x :: mapi_from (S k) f l' end.
Definition assign_at (l : list A) (P : list nat) (V : list A) : list A :=
  mapi_from 0 (fun i x => match assoc P V i with Some v => v | None => x end) l.

Fixpoint filteri_from (k : nat) (keep : nat -> bool) (l : list A) : list A :=
  match l with [] => [] | x :: l' => if keep k then x :: filteri_from (S k) keep l' else filteri_from (S k) keep l' end.
Definition delete_at (l : list A) (P : list nat) : list A :=
  filteri_from 0 (fun i => negb (existsb (Nat.eqb i) P)) l.

Definition pick (l : list A) (p : nat) : list A :=
  match nth_error l p with Some x => [x] | None => [] end.
Definition select (l : list A) (P : list nat) : list A := flat_map (pick l) P.

Fixpoint upto (s n : nat) : list nat := match n with O => [] | S n' => s :: upto (S s) n' end.

(* ---- order independence (the reversed-slice half of the replay law) ---- *)
Lemma assoc_app P1 V1 P2 V2 i : length P1 = length V1 ->
  assoc (P1 ++ P2) (V1 ++ V2) i = match assoc P1 V1 i with Some v => Some v | None => assoc P2 V2 i end.
Proof.
  revert V1. induction P1 as [|p P1 IH]; intros [|v V1] H; try discriminate; cbn; [reflexivity|].
  destruct (Nat.eqb p i); [reflexivity|]. apply IH. cbn in H. lia.
Qed.

Lemma assoc_none_notin P V i : ~ In i P -> assoc P V i = None.
Proof.
  revert V. induction P as [|p P IH]; intros [|v V] H; cbn; try reflexivity.
  destruct (Nat.eqb_spec p i); [subst; exfalso; apply H; left; reflexivity|].
  apply IH. intros Hin. apply H. right. exact Hin.
Qed.

Lemma assoc_rev P V i : NoDup P -> length P = length V ->
  assoc (rev P) (rev V) i = assoc P V i.
Proof.
  revert V. induction P as [|p P IH]; intros [|v V] ND HL; try discriminate; [reflexivity|].
  cbn [rev]. inversion ND as [|? ? Hnotin ND']; subst. cbn in HL.
  rewrite assoc_app by (rewrite !rev_length; lia).
  rewrite IH by (auto; lia). cbn [assoc].
  destruct (Nat.eqb_spec p i) as [->|Hne].
  - rewrite (assoc_none_notin P V i Hnotin). reflexivity.
  - destruct (assoc P V i); reflexivity.
Qed.

Lemma mapi_from_ext k f g l : (forall i x, f i x = g i x) -> mapi_from k f l = mapi_from k g l.
Proof. intros H. revert k. induction l; intros k; cbn; [reflexivity|]. rewrite H, IHl. reflexivity. Qed.

Lemma mapi_from_length k f l : length (mapi_from k f l) = length l.
Proof. revert k. induction l; intros k; cbn; [reflexivity|]. rewrite IHl. reflexivity. Qed.

Lemma assign_at_length l P V : length (assign_at l P V) = length l.
Proof. apply mapi_from_length. Qed.

Theorem assign_at_rev l P V : NoDup P -> length P = length V ->
  assign_at l (rev P) (rev V) = assign_at l P V.
Proof.
  intros ND HL. unfold assign_at. apply mapi_from_ext. intros i x.
  rewrite assoc_rev by assumption. reflexivity.
Qed.

Lemma existsb_rev (f : nat -> bool) P : existsb f (rev P) = existsb f P.
Proof.
  induction P; cbn; [reflexivity|]. rewrite existsb_app, IHP. cbn. rewrite orb_false_r. apply orb_comm.
Qed.
Lemma filteri_from_ext k f g l : (forall i, f i = g i) -> filteri_from k f l = filteri_from k g l.
Proof. intros H. revert k. induction l; intros k; cbn; [reflexivity|]. rewrite H, IHl. reflexivity. Qed.
Theorem delete_at_rev l P : delete_at l (rev P) = delete_at l P.
Proof. unfold delete_at. apply filteri_from_ext. intros i. rewrite existsb_rev. reflexivity. Qed.

Lemma select_app l P Q : select l (P ++ Q) = select l P ++ select l Q.
Proof. unfold select. apply flat_map_app. Qed.

Lemma pick_rev l p : rev (pick l p) = pick l p.
Proof. unfold pick. destruct (nth_error l p); reflexivity. Qed.

Theorem select_rev l P : select l (rev P) = rev (select l P).
Proof.
  induction P as [|p P IH]; [reflexivity|].
  cbn [rev]. rewrite select_app, IH. cbn [select flat_map]. rewrite app_nil_r.
  rewrite rev_app_distr, pick_rev. reflexivity.
Qed.

Lemma select_length l P : (forall p, In p P -> p < length l) -> length (select l P) = length P.
Proof.
  induction P as [|p P IH]; intros H; [reflexivity|].
  cbn [select flat_map]. rewrite app_length. fold (select l P). rewrite IH by (intros; apply H; right; assumption).
  unfold pick. destruct (nth_error l p) eqn:E; [reflexivity|].
  apply nth_error_None in E. specialize (H p (or_introl eq_refl)). lia.
Qed.

(* ---- contiguous positions = splice (the step +-1 / single element half) ---- *)
Lemma upto_length s n : length (upto s n) = n.
Proof. revert s; induction n; intros; cbn; auto. Qed.

Lemma upto_In s n p : In p (upto s n) <-> s <= p < s + n.
Proof.
  revert s; induction n as [|n IH]; intros s; cbn [upto In]; [lia|]. rewrite IH. lia.
Qed.

Lemma assoc_upto_lt s n V i : i < s -> assoc (upto s n) V i = None.
Proof.
  revert s V. induction n as [|n IH]; intros s [|v V] H; cbn; try reflexivity.
  destruct (Nat.eqb_spec s i); [lia|]. apply IH. lia.
Qed.

Lemma mapi_from_id k (f : nat -> A -> A) l : (forall i x, k <= i -> f i x = x) -> mapi_from k f l = l.
Proof.
  revert k. induction l as [|a l IH]; intros k H; cbn; [reflexivity|].
  rewrite H by lia. rewrite IH; [reflexivity|]. intros; apply H; lia.
Qed.

Lemma mapi_from_ext_ge k f g l : (forall i x, k <= i -> f i x = g i x) -> mapi_from k f l = mapi_from k g l.
Proof.
  revert k. induction l as [|a l IH]; intros k H; cbn; [reflexivity|].
  rewrite H by lia. rewrite IH; [reflexivity|]. intros; apply H; lia.
Qed.

Definition Fset (p : nat) (V : list A) (i : nat) (x : A) : A :=
  match assoc (upto p (length V)) V i with Some v => v | None => x end.

Lemma splice_gen V : forall s k l, s + length V <= length l ->
  mapi_from k (Fset (k + s) V) l = firstn s l ++ V ++ skipn (s + length V) l.
Proof.
  induction s as [|s IH]; intros k l H.
  - rewrite Nat.add_0_r. cbn [firstn app Nat.add]. revert k l H.
    induction V as [|v V IHV]; intros k l H.
    + cbn. apply mapi_from_id. reflexivity.
    + destruct l as [|a l]; [cbn in H; lia|]. cbn [length skipn app mapi_from].
      unfold Fset at 1. cbn [length upto assoc]. rewrite Nat.eqb_refl. f_equal.
      rewrite <- (IHV (S k) l) by (cbn in H; lia).
      apply mapi_from_ext_ge. intros i x Hi. unfold Fset. cbn [length upto assoc].
      destruct (Nat.eqb_spec k i); [lia|reflexivity].
  - destruct l as [|a l]; [cbn in H; lia|]. cbn [firstn app mapi_from Nat.add skipn].
    unfold Fset at 1. rewrite assoc_upto_lt by lia. f_equal.
    replace (k + S s) with (S k + s) by lia. apply IH. cbn in H. lia.
Qed.

Theorem assign_at_upto l s V : s + length V <= length l ->
  assign_at l (upto s (length V)) V = firstn s l ++ V ++ skipn (s + length V) l.
Proof. intros H. unfold assign_at. exact (splice_gen V s 0 l H). Qed.

Lemma filteri_from_ext_ge k f g l : (forall i, k <= i -> f i = g i) -> filteri_from k f l = filteri_from k g l.
Proof.
  revert k. induction l as [|a l IH]; intros k H; cbn; [reflexivity|].
  rewrite H by lia. rewrite (IH (S k)); [reflexivity|]. intros; apply H; lia.
Qed.

Lemma filteri_from_all k (f : nat -> bool) l : (forall i, k <= i -> f i = true) -> filteri_from k f l = l.
Proof.
  revert k. induction l as [|a l IH]; intros k H; cbn; [reflexivity|].
  rewrite H by lia. rewrite IH; [reflexivity|]. intros; apply H; lia.
Qed.

Lemma filteri_from_upto n : forall s k l,
  filteri_from k (fun i => negb (existsb (Nat.eqb i) (upto (k + s) n))) l
  = firstn s l ++ skipn (s + n) l.
Proof.
  induction s as [|s IH]; intros k l.
  - rewrite Nat.add_0_r. cbn [firstn app Nat.add]. revert k l.
    induction n as [|n IHn]; intros k l.
    + cbn [upto existsb negb skipn]. apply filteri_from_all. reflexivity.
    + destruct l as [|a l]; [reflexivity|]. cbn [filteri_from upto existsb skipn].
      rewrite Nat.eqb_refl. cbn [orb negb]. rewrite <- (IHn (S k) l).
      apply filteri_from_ext_ge. intros i Hi.
      destruct (Nat.eqb_spec i k); [lia|]. reflexivity.
  - destruct l as [|a l]; [reflexivity|]. cbn [filteri_from firstn app Nat.add skipn].
    replace (existsb (Nat.eqb k) (upto (k + S s) n)) with false.
    + cbn [negb]. f_equal. replace (k + S s) with (S k + s) by lia. apply IH.
    + symmetry. apply not_true_is_false. intros E. apply existsb_exists in E.
      destruct E as (x & Hx & E). apply upto_In in Hx. apply Nat.eqb_eq in E. lia.
Qed.

Theorem delete_at_upto l s n : delete_at l (upto s n) = firstn s l ++ skipn (s + n) l.
Proof. unfold delete_at. exact (filteri_from_upto n s 0 l). Qed.

Theorem select_upto l s n : s + n <= length l -> select l (upto s n) = firstn n (skipn s l).
Proof.
  revert s l. induction n as [|n IH]; intros s l H; [reflexivity|].
  cbn [upto select flat_map]. fold (select l (upto (S s) n)). rewrite IH by lia.
  unfold pick. destruct (nth_error l s) as [x|] eqn:E.
  - apply nth_error_split in E. destruct E as (l1 & l2 & -> & <-).
    assert (forall (m : list A) r, skipn (length m) (m ++ r) = r) as K.
    { intros m r. rewrite skipn_app, skipn_all, Nat.sub_diag. reflexivity. }
    rewrite K. replace (S (length l1)) with (length (l1 ++ [x])) by (rewrite app_length; cbn; lia).
    replace (l1 ++ x :: l2) with ((l1 ++ [x]) ++ l2) by (rewrite <- app_assoc; reflexivity).
    rewrite K. reflexivity.
  - apply nth_error_None in E. lia.
Qed.

Lemma delete_at_length_le l P : length (delete_at l P) <= length l.
Proof.
  unfold delete_at. generalize 0 as k. generalize (fun i => negb (existsb (Nat.eqb i) P)) as f.
  intros f. induction l as [|a l IH]; intros k; cbn; [lia|]. destruct (f k); cbn; specialize (IH (S k)); lia.
Qed.
End L.

(* ------------------------------------------------------------------ *)
(* Part 2: the list methods (CPython Objects/listobject.c), Z indices. *)
Local Open Scope Z_scope.

Definition bind {A B} (r : res A) (f : A -> res B) : res B :=
  match r with Ok a => f a | Raise e => Raise e end.

Section M.
Context {A : Type}.

Definition zlen (l : list A) : Z := Z.of_nat (length l).

(* valid integer subscripts are -len <= i < len; negative ones count from the end *)
Definition in_range (len i : Z) : bool := (- len <=? i) && (i <? len).
Definition norm_index (len i : Z) : Z := if i <? 0 then i + len else i.
Definition nat_index (len i : Z) : nat := Z.to_nat (norm_index len i).

Definition set_nth (n : nat) (v : A) (l : list A) : list A := firstn n l ++ v :: skipn (S n) l.
Definition del_nth (n : nat) (l : list A) : list A := firstn n l ++ skipn (S n) l.
Definition ins_nth (n : nat) (v : A) (l : list A) : list A := firstn n l ++ v :: skipn n l.

(* the nat positions a slice selects in a list of length len *)
Definition npos (len : Z) (sl : slice) : list nat := map Z.to_nat (slice_positions len sl).

Definition getitem_int (l : list A) (i : Z) : res A :=
  if in_range (zlen l) i then
    match nth_error l (nat_index (zlen l) i) with Some x => Ok x | None => Raise IndexError end
  else Raise IndexError.

Definition getitem_slice (l : list A) (sl : slice) : res (list A) :=
  if slice_step sl =? 0 then Raise ValueError else Ok (select l (npos (zlen l) sl)).

Definition setitem_int (l : list A) (i : Z) (v : A) : res (list A) :=
  if in_range (zlen l) i then Ok (set_nth (nat_index (zlen l) i) v l) else Raise IndexError.

Definition delitem_int (l : list A) (i : Z) : res (list A) :=
  if in_range (zlen l) i then Ok (del_nth (nat_index (zlen l) i) l) else Raise IndexError.

(* list_ass_subscript: step 1 -> list_ass_slice (any length, stop clamped up to start);
   otherwise the sizes must agree (ValueError) and the items are assigned one by one *)
Definition setitem_slice (l : list A) (sl : slice) (vs : list A) : res (list A) :=
  if slice_step sl =? 0 then Raise ValueError else
  let '(a, b, c) := indices (zlen l) sl in
  if c =? 1 then Ok (firstn (Z.to_nat a) l ++ vs ++ skipn (Z.to_nat (Z.max a b)) l)
  else
    let P := npos (zlen l) sl in
    if Nat.eqb (length vs) (length P) then Ok (assign_at l P vs) else Raise ValueError.

Definition delitem_slice (l : list A) (sl : slice) : res (list A) :=
  if slice_step sl =? 0 then Raise ValueError else Ok (delete_at l (npos (zlen l) sl)).

(* list.insert: the index is clamped, never an error *)
Definition insert_index (len i : Z) : Z := if i <? 0 then Z.max (i + len) 0 else Z.min i len.
Definition insert (l : list A) (i : Z) (v : A) : list A := ins_nth (Z.to_nat (insert_index (zlen l) i)) v l.

(* list.pop(i): IndexError on an empty list or an index out of range *)
Definition pop (l : list A) (i : Z) : res (A * list A) :=
  bind (getitem_int l i) (fun x => Ok (x, del_nth (nat_index (zlen l) i) l)).

Fixpoint rep (l : list A) (n : nat) : list A := match n with O => [] | S n' => l ++ rep l n' end.
Definition imul (l : list A) (n : Z) : list A := if n <? 1 then [] else rep l (Z.to_nat n).

Section Eq.
  Variable eqb : A -> A -> bool.
  Fixpoint index_of (x : A) (l : list A) : option nat :=
    match l with
    | [] => None
    | y :: r => if eqb y x then Some O else match index_of x r with Some n => Some (S n) | None => None end
    end.
  (* list.remove(x): first item equal to x, ValueError if there is none *)
  Definition remove (l : list A) (x : A) : res (list A) :=
    match index_of x l with Some n => Ok (del_nth n l) | None => Raise ValueError end.
End Eq.

Section Ord.
  Variable leb : A -> A -> bool.
  Fixpoint ins_sorted (x : A) (l : list A) : list A :=
    match l with
    | [] => [x]
    | y :: r => if leb x y then x :: l else y :: ins_sorted x r
    end.
  (* stable: an item is inserted before the first strictly larger one, scanning from the right *)
  Definition isort (l : list A) : list A := fold_right ins_sorted [] l.
  (* sort(reverse=True) is reverse; sort; reverse (keeps the order of equal items) *)
  Definition sort (reverse : bool) (l : list A) : list A :=
    if reverse then rev (isort (rev l)) else isort l.
End Ord.

(* ---- facts ---- *)
Lemma zlen_nonneg (l : list A) : 0 <= zlen l.
Proof. unfold zlen. lia. Qed.

Lemma rep_skip (l : list A) n : skipn (length l) (rep l (S n)) = rep l n.
Proof. cbn [rep]. rewrite skipn_app, skipn_all, Nat.sub_diag. reflexivity. Qed.

Lemma rep_first (l : list A) n : firstn (length l) (rep l (S n)) = l.
Proof. cbn [rep]. rewrite firstn_app, firstn_all, Nat.sub_diag. cbn. apply app_nil_r. Qed.

Lemma npos_bounds (l : list A) sl p : slice_step sl <> 0 -> In p (npos (zlen l) sl) -> (p < length l)%nat.
Proof.
  intros Hs Hin. unfold npos in Hin. apply in_map_iff in Hin. destruct Hin as (z & <- & Hz).
  apply slice_positions_bounds in Hz; [|apply zlen_nonneg|assumption]. unfold zlen in Hz. lia.
Qed.

Lemma map_to_nat_NoDup (P : list Z) : (forall p, In p P -> 0 <= p) -> NoDup P -> NoDup (map Z.to_nat P).
Proof.
  induction P as [|p P IH]; intros Hp ND; cbn; constructor.
  - inversion ND as [|? ? Hn ND']; subst. intros Hin. apply in_map_iff in Hin.
    destruct Hin as (q & E & Hq). apply Hn.
    assert (q = p) as -> by (pose proof (Hp q (or_intror Hq)); pose proof (Hp p (or_introl eq_refl)); lia).
    exact Hq.
  - inversion ND; subst. apply IH; [intros; apply Hp; right; assumption|assumption].
Qed.

Lemma npos_NoDup (l : list A) sl : slice_step sl <> 0 -> NoDup (npos (zlen l) sl).
Proof.
  intros Hs. unfold npos. apply map_to_nat_NoDup.
  - intros p Hp. apply slice_positions_bounds in Hp; [lia|apply zlen_nonneg|assumption].
  - apply slice_positions_NoDup. assumption.
Qed.

Lemma positions_upto s n : 0 <= s -> map Z.to_nat (positions s 1 n) = upto (Z.to_nat s) n.
Proof.
  revert s. induction n as [|n IH]; intros s Hs; [reflexivity|].
  cbn [positions map upto]. f_equal. rewrite IH by lia. f_equal. lia.
Qed.
End M.
