(* Common/ObsCore.v — the observer-graph core shared by C08 / C16 (and usable by C09 / C12).

   Objects are [oid]s; a slot [(x, f)] of the heap holds the LIST of next objects:
   0/1 object for an Instance trait, the container object for a List/Dict/Set trait,
   and the items for the pseudo-field of a container object.  [traits] says which traits an
   object has (instance traits can be added with add_trait).

   An observer graph node is given, exactly as the IObserver interface, by the observables
   and next objects it yields on an object x:
       G fs notify extra optional children
   observes the slots (x, f) for f in fs such that x has trait f (iter_observables), and yields
   their content as next objects (iter_objects).  A NamedTraitObserver is fs = [name]
   (optional=True: skipped on objects without the trait), a List/Dict/SetItemObserver is
   fs = [items pseudo-field], a FilteredTraitObserver (match / metadata / anytrait) is fs = the
   trait names matching the filter.  [extra] = the node contributes the trait_added extra graph
   (iter_extra_graphs of named and filtered observers): a TraitAddedObserver maintainer
   [KAdded key g] on (x, trait_added), present whether or not x has the trait yet.  [optional] is the
   observer's optional flag: on an object without the trait an optional node is skipped, a non-optional
   one makes the walk fail (C08/Model.walkable); [expected] describes the hooks of walks that do not fail.

   A notifier is identified by the key (handler, target) — TraitEventNotifier.equals /
   ObserverChangeNotifier.equals.  The hook state is a flat list of [(x, f, kind)]: the notifier
   list of observable (x, f) is the sub-list of entries with that slot (same relative order); the
   reference count of a user notifier is the number of its [KUser] entries.

   Contents: expected / visits / occ / matched, frame and substitution theorems for a heap
   change, the trait-addition theorem, the maintainers found on a slot, invariant preservation
   for one change ([inv_preserved_all]), the executable hook list ([remove1], [remove_all]) with
   soundness and completeness.  Grown from notes/feasibility/ObsList.v, ObsInv.v, ObsExec.v. *)
From Coq Require Import List Arith Lia Bool PeanoNat Permutation.
Import ListNotations.

Definition oid := nat.
Definition fname := nat.
Definition hkey := (nat * oid)%type.          (* (handler id, target object) *)
Inductive graph := G (fs : list fname) (notify extra optional : bool) (children : list graph).
Definition heap := oid -> fname -> list oid.
Definition traits := oid -> fname -> bool.
Definition TA : fname := 10.                   (* the trait_added event trait *)
Definition slot_eqb (x : oid) (f : fname) (o : oid) (fo : fname) := (Nat.eqb x o && Nat.eqb f fo)%bool.
Definition upd (h : heap) (o : oid) (f : fname) (v : list oid) : heap :=
  fun o' f' => if slot_eqb o' f' o f then v else h o' f'.
Definition add_trait (t : traits) (o : oid) (f : fname) : traits :=
  fun o' f' => if slot_eqb o' f' o f then true else t o' f'.
Inductive kind := KUser (k : hkey) | KMaint (k : hkey) (c : graph) | KAdded (k : hkey) (g : graph).
Notation hook := (oid * fname * kind)%type (only parsing).
Definition reg := (hkey * graph)%type.        (* observe(handler, graph) on root = target = snd key *)

Lemma slot_eqb_true x f o fo : slot_eqb x f o fo = true <-> x = o /\ f = fo.
Proof. unfold slot_eqb. rewrite andb_true_iff, !Nat.eqb_eq. tauto. Qed.
Lemma slot_eqb_refl o fo : slot_eqb o fo o fo = true.
Proof. apply slot_eqb_true. split; reflexivity. Qed.
Lemma upd_same h o f v : upd h o f v o f = v.
Proof. unfold upd. rewrite slot_eqb_refl. reflexivity. Qed.

(* the hooks of one observable of a node, and what hangs below it *)
Definition own (k : hkey) (n : bool) (cs : list graph) (x : oid) (f : fname) : list hook :=
  (if n then [(x, f, KUser k)] else []) ++ map (fun c => (x, f, KMaint k c)) cs.

(* The hooks that must be present for (key k, graph g) applied to object x. *)
Fixpoint expected (t : traits) (h : heap) (k : hkey) (g : graph) (x : oid) {struct g} : list hook :=
  match g with
  | G fs n e p cs =>
      (if e then [(x, TA, KAdded k g)] else []) ++
      flat_map (fun f =>
        if t x f then
          own k n cs x f ++ flat_map (fun y => flat_map (fun c => expected t h k c y) cs) (h x f)
        else []) fs
  end.

(* does the walk of g from x pass through slot (o, fo)? *)
Fixpoint visits (t : traits) (h : heap) (g : graph) (x o : oid) (fo : fname) {struct g} : bool :=
  match g with
  | G fs _ _ _ cs =>
      existsb (fun f => t x f &&
        (slot_eqb x f o fo || existsb (fun y => existsb (fun c => visits t h c y o fo) cs) (h x f))) fs
  end.

(* the child graphs hanging below each visit of slot (o, fo) *)
Fixpoint occ (t : traits) (h : heap) (g : graph) (x o : oid) (fo : fname) {struct g} : list graph :=
  match g with
  | G fs _ _ _ cs =>
      flat_map (fun f =>
        if t x f then
          (if slot_eqb x f o fo then cs else []) ++
          flat_map (fun y => flat_map (fun c => occ t h c y o fo) cs) (h x f)
        else []) fs
  end.

(* is slot (o, fo) matched by a NOTIFYING node of g from x?  (the from-scratch
   reachability semantics of an expression; what the law recomputes) *)
Fixpoint matched (t : traits) (h : heap) (g : graph) (x o : oid) (fo : fname) {struct g} : bool :=
  match g with
  | G fs n _ _ cs =>
      existsb (fun f => t x f &&
        ((n && slot_eqb x f o fo) || existsb (fun y => existsb (fun c => matched t h c y o fo) cs) (h x f))) fs
  end.

Lemma graph_ind' (P : graph -> Prop) :
  (forall fs n e p cs, Forall P cs -> P (G fs n e p cs)) -> forall g, P g.
Proof.
  intros H. fix IH 1. intros [fs n e p cs]. apply H.
  induction cs as [|c cs IHcs]; constructor; [apply IH|apply IHcs].
Qed.

(* ---- list lemmas ---- *)
Lemma flat_map_ext_In {A B} (f g : A -> list B) l :
  (forall a, In a l -> f a = g a) -> flat_map f l = flat_map g l.
Proof. induction l; simpl; intros H; [reflexivity|]. rewrite H, IHl; auto. Qed.
Lemma flat_map_nil_In {A B} (f : A -> list B) l : (forall a, In a l -> f a = []) -> flat_map f l = [].
Proof. induction l; simpl; intros H; [reflexivity|]. rewrite H, IHl; auto. Qed.
Lemma existsb_false_In {A} (p : A -> bool) l : existsb p l = false -> forall a, In a l -> p a = false.
Proof.
  intros H a Ha. destruct (p a) eqn:E; [|reflexivity].
  assert (existsb p l = true) by (apply existsb_exists; eauto). congruence.
Qed.
Lemma existsb_ext_In {A} (p q : A -> bool) l : (forall a, In a l -> p a = q a) -> existsb p l = existsb q l.
Proof. induction l; cbn; intros H; [reflexivity|]. rewrite H, IHl; auto. Qed.
Lemma interleave {A B C} (P : A -> list B) (O : A -> list C) (F : C -> list B) cs :
  Permutation (flat_map P cs ++ flat_map F (flat_map O cs))
              (flat_map (fun c => P c ++ flat_map F (O c)) cs).
Proof.
  induction cs as [|c cs IH]; [reflexivity|]. cbn [flat_map].
  rewrite flat_map_app. rewrite <- !app_assoc. apply Permutation_app_head.
  rewrite app_assoc. rewrite (Permutation_app_comm (flat_map P cs)).
  rewrite <- app_assoc. apply Permutation_app_head. exact IH.
Qed.
Lemma flat_map_plus {A B} (P Q : A -> list B) l :
  Permutation (flat_map P l ++ flat_map Q l) (flat_map (fun a => P a ++ Q a) l).
Proof.
  induction l; cbn [flat_map]; [reflexivity|]. rewrite <- IHl. rewrite <- !app_assoc. apply Permutation_app_head.
  rewrite !app_assoc. apply Permutation_app_tail. apply Permutation_app_comm.
Qed.
Lemma Permutation_flat_map_In {A B} (P Q : A -> list B) cs :
  (forall c, In c cs -> Permutation (P c) (Q c)) -> Permutation (flat_map P cs) (flat_map Q cs).
Proof.
  induction cs as [|c cs IH]; intros H; [reflexivity|]. cbn [flat_map].
  apply Permutation_app; [apply H; left; reflexivity|apply IH; intros; apply H; right; assumption].
Qed.
Lemma flat_map_swap {A B C} (e : A -> B -> list C) (xs : list A) (ys : list B) :
  Permutation (flat_map (fun x => flat_map (fun y => e x y) ys) xs)
              (flat_map (fun y => flat_map (fun x => e x y) xs) ys).
Proof.
  induction xs as [|x xs IH]; cbn [flat_map].
  - symmetry. rewrite flat_map_nil_In; auto.
  - rewrite IH. clear IH. induction ys as [|y ys IHy]; cbn [flat_map]; [reflexivity|].
    rewrite <- !app_assoc. apply Permutation_app_head.
    rewrite <- IHy. rewrite !app_assoc. apply Permutation_app_tail. apply Permutation_app_comm.
Qed.
Lemma flat_map_perm {A B} (f : A -> list B) l l' :
  Permutation l l' -> Permutation (flat_map f l) (flat_map f l').
Proof.
  induction 1; cbn [flat_map]; auto.
  - apply Permutation_app_head; assumption.
  - rewrite !app_assoc. apply Permutation_app_tail. apply Permutation_app_comm.
  - etransitivity; eassumption.
Qed.
Lemma ffm {A B C} (f : B -> list C) (g : A -> list B) l :
  flat_map f (flat_map g l) = flat_map (fun x => flat_map f (g x)) l.
Proof. induction l; cbn [flat_map]; [reflexivity|]. rewrite flat_map_app, IHl. reflexivity. Qed.
Lemma flat_map_map {A B C} (f : B -> list C) (g : A -> B) l :
  flat_map f (map g l) = flat_map (fun x => f (g x)) l.
Proof. induction l; cbn; [reflexivity|]. rewrite IHl. reflexivity. Qed.
Lemma map_flat_map {A B C} (f : B -> C) (g : A -> list B) l :
  map f (flat_map g l) = flat_map (fun y => map f (g y)) l.
Proof. induction l; cbn; [reflexivity|]. rewrite map_app, IHl. reflexivity. Qed.

(* ---- frame ---- *)
Lemma visits_node_false t h fs n e p cs x o fo :
  visits t h (G fs n e p cs) x o fo = false ->
  forall f, In f fs -> t x f = true ->
    slot_eqb x f o fo = false /\
    forall y, In y (h x f) -> forall c, In c cs -> visits t h c y o fo = false.
Proof.
  cbn [visits]. intros V f Hf Tf. pose proof (existsb_false_In _ _ V f Hf) as E. cbv beta in E.
  rewrite Tf in E. cbn [andb] in E. apply orb_false_iff in E. destruct E as [E1 E2]. split; [exact E1|].
  intros y Hy c Hc. pose proof (existsb_false_In _ _ E2 y Hy) as E3. cbv beta in E3.
  exact (existsb_false_In _ _ E3 c Hc).
Qed.

Lemma expected_frame t h k g : forall x o fo v,
  visits t h g x o fo = false -> expected t (upd h o fo v) k g x = expected t h k g x.
Proof.
  induction g as [fs n e p cs IH] using graph_ind'. intros x o fo v Hv.
  rewrite Forall_forall in IH. cbn [expected]. f_equal.
  apply flat_map_ext_In. intros f Hf. destruct (t x f) eqn:Tf; [|reflexivity].
  destruct (visits_node_false _ _ _ _ _ _ _ _ _ _ Hv f Hf Tf) as [Hslot Hrest]. f_equal.
  change (upd h o fo v x f) with (if slot_eqb x f o fo then v else h x f). rewrite Hslot.
  apply flat_map_ext_In. intros y Hy. apply flat_map_ext_In. intros c Hc.
  apply IH; [exact Hc|]. apply Hrest; assumption.
Qed.

Lemma matched_frame t h g : forall x o fo v a fa,
  visits t h g x o fo = false -> matched t (upd h o fo v) g x a fa = matched t h g x a fa.
Proof.
  induction g as [fs n e p cs IH] using graph_ind'. intros x o fo v a fa Hv.
  rewrite Forall_forall in IH. cbn [matched].
  apply existsb_ext_In. intros f Hf. destruct (t x f) eqn:Tf; [|reflexivity]. cbn [andb].
  destruct (visits_node_false _ _ _ _ _ _ _ _ _ _ Hv f Hf Tf) as [Hslot Hrest]. f_equal.
  change (upd h o fo v x f) with (if slot_eqb x f o fo then v else h x f). rewrite Hslot.
  apply existsb_ext_In. intros y Hy. apply existsb_ext_In. intros c Hc.
  apply IH; [exact Hc|]. apply Hrest; assumption.
Qed.

Lemma visits_frame t h g o fo v : forall x,
  visits t h g x o fo = false -> visits t (upd h o fo v) g x o fo = false.
Proof.
  induction g as [fs n e p cs IH] using graph_ind'. intros x V. rewrite Forall_forall in IH.
  assert (visits t (upd h o fo v) (G fs n e p cs) x o fo = visits t h (G fs n e p cs) x o fo) as E; [|congruence].
  cbn [visits]. apply existsb_ext_In. intros f Hf. destruct (t x f) eqn:Tf; [|reflexivity]. cbn [andb].
  destruct (visits_node_false _ _ _ _ _ _ _ _ _ _ V f Hf Tf) as [Hslot Hrest]. f_equal.
  change (upd h o fo v x f) with (if slot_eqb x f o fo then v else h x f). rewrite Hslot.
  apply existsb_ext_In. intros y Hy. apply existsb_ext_In. intros c Hc.
  rewrite (IH c Hc y (Hrest y Hy c Hc)). symmetry. apply Hrest; assumption.
Qed.

Lemma occ_nil_of_not_visits t h o fo g : forall x, visits t h g x o fo = false -> occ t h g x o fo = [].
Proof.
  induction g as [fs n e p cs IH] using graph_ind'. intros x V. rewrite Forall_forall in IH. cbn [occ].
  apply flat_map_nil_In. intros f Hf. destruct (t x f) eqn:Tf; [|reflexivity].
  destruct (visits_node_false _ _ _ _ _ _ _ _ _ _ V f Hf Tf) as [Hslot Hrest]. rewrite Hslot. cbn [app].
  apply flat_map_nil_In. intros y Hy. apply flat_map_nil_In. intros c Hc.
  apply IH; [exact Hc|]. apply Hrest; assumption.
Qed.

(* ---- heaps with a rank (DAGs): walks only go up ---- *)
Definition ranked (rank : oid -> nat) (h : heap) : Prop :=
  forall x f y, In y (h x f) -> rank x < rank y.

Lemma visits_rank t rank h o fo g : ranked rank h -> forall x, visits t h g x o fo = true -> rank x <= rank o.
Proof.
  intros R. induction g as [fs n e p cs IH] using graph_ind'. intros x. cbn [visits]. rewrite Forall_forall in IH.
  intros A. apply existsb_exists in A. destruct A as [f [Hf A]]. apply andb_true_iff in A. destruct A as [_ A].
  apply orb_true_iff in A. destruct A as [A|A].
  - apply slot_eqb_true in A. destruct A as [-> _]. lia.
  - apply existsb_exists in A. destruct A as [y [Hy A]]. apply existsb_exists in A. destruct A as [c [Hc A]].
    apply (IH c Hc y) in A. pose proof (R x f y Hy). lia.
Qed.

(* Σ_{y ∈ ys} Σ_{c ∈ cs} expected t h k c y *)
Definition sumexp (t : traits) (h : heap) (k : hkey) (cs : list graph) (ys : list oid) : list hook :=
  flat_map (fun y => flat_map (fun c => expected t h k c y) cs) ys.

Lemma sumexp_app t h k cs ys zs : sumexp t h k cs (ys ++ zs) = sumexp t h k cs ys ++ sumexp t h k cs zs.
Proof. unfold sumexp. apply flat_map_app. Qed.

Lemma sumexp_singletons t h k cs ys :
  Permutation (flat_map (fun c => sumexp t h k [c] ys) cs) (sumexp t h k cs ys).
Proof.
  unfold sumexp.
  rewrite (flat_map_swap (fun c y => flat_map (fun c0 => expected t h k c0 y) [c]) cs ys).
  apply Permutation_flat_map_In. intros y _.
  erewrite flat_map_ext_In; [reflexivity|]. intros c _. cbn [flat_map]. apply app_nil_r.
Qed.

(* ---- the substitution theorem (change of one heap slot) ---- *)
Section Subst.
  Variables (t : traits) (h : heap) (k : hkey) (o : oid) (fo : fname) (news : list oid).
  Let olds := h o fo.
  Let h' := upd h o fo news.

  (* edge-acyclicity relative to the graph walked: below the old and new content of the
     slot, the residual graphs found at the slot do not come back to the slot *)
  Definition acyc_on (g : graph) (x : oid) : Prop :=
    forall c, In c (occ t h g x o fo) -> forall y, In y olds \/ In y news -> visits t h c y o fo = false.

  Theorem expected_subst g : forall x, acyc_on g x ->
    Permutation
      (expected t h' k g x ++ flat_map (fun c => sumexp t h k [c] olds) (occ t h g x o fo))
      (expected t h  k g x ++ flat_map (fun c => sumexp t h k [c] news) (occ t h g x o fo)).
  Proof.
    induction g as [fs n e p cs IH] using graph_ind'. intros x acyc.
    unfold acyc_on in acyc. cbn [expected occ] in *. rewrite Forall_forall in IH.
    rewrite <- !app_assoc. apply Permutation_app_head.
    rewrite !interleave. apply Permutation_flat_map_In. intros f Hf.
    assert (forall c, In c (if t x f then (if slot_eqb x f o fo then cs else []) ++
                              flat_map (fun y => flat_map (fun c => occ t h c y o fo) cs) (h x f) else []) ->
            forall y, In y olds \/ In y news -> visits t h c y o fo = false) as acycf.
    { intros c Hc. apply acyc. apply in_flat_map. exists f. split; assumption. }
    clear acyc. destruct (t x f) eqn:Tf; [|reflexivity].
    destruct (slot_eqb x f o fo) eqn:Hs.
    - apply slot_eqb_true in Hs. destruct Hs as [-> ->].
      assert (forall c, In c cs -> forall y, In y olds \/ In y news -> visits t h c y o fo = false) as acyc'.
      { intros c Hc. apply acycf. apply in_or_app. left. exact Hc. }
      assert (h' o fo = news) as Hn by (unfold h'; apply upd_same).
      rewrite Hn. fold olds.
      assert (flat_map (fun y => flat_map (fun c => occ t h c y o fo) cs) olds = []) as Hbelow.
      { apply flat_map_nil_In. intros y Hy. apply flat_map_nil_In. intros c Hc.
        apply occ_nil_of_not_visits. apply acyc'; [exact Hc|left; exact Hy]. }
      rewrite Hbelow, app_nil_r.
      assert (flat_map (fun y => flat_map (fun c => expected t h' k c y) cs) news = sumexp t h k cs news) as Hfr.
      { unfold sumexp. apply flat_map_ext_In. intros y Hy. apply flat_map_ext_In. intros c Hc.
        apply expected_frame. apply acyc'; [exact Hc|right; exact Hy]. }
      rewrite Hfr.
      change (flat_map (fun y => flat_map (fun c => expected t h k c y) cs) olds) with (sumexp t h k cs olds).
      rewrite <- !app_assoc. apply Permutation_app_head.
      rewrite !sumexp_singletons. apply Permutation_app_comm.
    - assert (h' x f = h x f) as Hsame by (unfold h', upd; rewrite Hs; reflexivity).
      rewrite Hsame. cbn [app] in *.
      rewrite <- !app_assoc. apply Permutation_app_head.
      rewrite !interleave.
      apply Permutation_flat_map_In. intros y Hy.
      rewrite !interleave.
      apply Permutation_flat_map_In. intros c Hc. apply IH; [exact Hc|].
      intros c0 Hc0. apply acycf.
      apply in_flat_map. exists y. split; [exact Hy|]. apply in_flat_map. exists c. split; assumption.
  Qed.
End Subst.

(* ---- the trait-addition theorem (add_trait on one object) ---- *)
(* the graphs whose node would observe the new trait f0 of x0, one per visit of x0 *)
Fixpoint added_occ (t : traits) (h : heap) (g : graph) (x x0 : oid) (f0 : fname) {struct g} : list graph :=
  match g with
  | G fs _ _ _ cs =>
      flat_map (fun f => if slot_eqb x f x0 f0 then [g] else []) fs ++
      flat_map (fun f =>
        if t x f then flat_map (fun y => flat_map (fun c => added_occ t h c y x0 f0) cs) (h x f) else []) fs
  end.

Definition own_of (k : hkey) (x0 : oid) (f0 : fname) (g : graph) : list hook :=
  match g with G _ n _ _ cs => own k n cs x0 f0 end.

Section AddTrait.
  Variables (t : traits) (h : heap) (k : hkey) (x0 : oid) (f0 : fname).
  Hypothesis fresh_trait : t x0 f0 = false.
  Hypothesis no_value : h x0 f0 = [].
  Let t' := add_trait t x0 f0.

  Theorem expected_add_trait g : forall x,
    Permutation (expected t' h k g x)
                (expected t h k g x ++ flat_map (own_of k x0 f0) (added_occ t h g x x0 f0)).
  Proof.
    induction g as [fs n e p cs IH] using graph_ind'. intros x. rewrite Forall_forall in IH.
    cbn [expected added_occ]. rewrite <- app_assoc. apply Permutation_app_head.
    rewrite flat_map_app, !ffm. rewrite !flat_map_plus.
    apply Permutation_flat_map_In. intros f Hf.
    unfold t', add_trait. destruct (slot_eqb x f x0 f0) eqn:Hs.
    - apply slot_eqb_true in Hs. destruct Hs as [-> ->]. rewrite fresh_trait, no_value.
      cbn [flat_map app own_of]. rewrite !app_nil_r. reflexivity.
    - destruct (t x f); [|reflexivity]. cbn [flat_map app]. rewrite <- app_assoc. apply Permutation_app_head.
      rewrite interleave. apply Permutation_flat_map_In. intros y Hy.
      rewrite interleave. apply Permutation_flat_map_In. intros c Hc. apply IH. exact Hc.
  Qed.
End AddTrait.

(* ---- notifiers found on a slot ---- *)
Definition maint_of (o : oid) (fo : fname) (hk : hook) : list (hkey * graph) :=
  let '(x, f, kd) := hk in
  if slot_eqb x f o fo then match kd with KMaint k c => [(k, c)] | _ => [] end else [].
Definition maint_on (H : list hook) o fo : list (hkey * graph) := flat_map (maint_of o fo) H.
Definition user_of (o : oid) (fo : fname) (hk : hook) : list hkey :=
  let '(x, f, kd) := hk in
  if slot_eqb x f o fo then match kd with KUser k => [k] | _ => [] end else [].
Definition users_on (H : list hook) o fo : list hkey := flat_map (user_of o fo) H.
(* the trait_added maintainers of object x0 *)
Definition added_of (x0 : oid) (hk : hook) : list (hkey * graph) :=
  let '(x, f, kd) := hk in
  if slot_eqb x f x0 TA then match kd with KAdded k g => [(k, g)] | _ => [] end else [].
Definition added_on (H : list hook) x0 : list (hkey * graph) := flat_map (added_of x0) H.

Lemma maint_on_app A B o fo : maint_on (A ++ B) o fo = maint_on A o fo ++ maint_on B o fo.
Proof. apply flat_map_app. Qed.
Lemma users_on_app A B o fo : users_on (A ++ B) o fo = users_on A o fo ++ users_on B o fo.
Proof. apply flat_map_app. Qed.
Lemma added_on_app A B x0 : added_on (A ++ B) x0 = added_on A x0 ++ added_on B x0.
Proof. apply flat_map_app. Qed.

Lemma added_on_flat_map {A} (g : A -> list (oid * fname * kind)) l x0 :
  added_on (flat_map g l) x0 = flat_map (fun a => added_on (g a) x0) l.
Proof. unfold added_on. apply ffm. Qed.

Lemma maint_on_own k n cs x f o fo :
  maint_on (own k n cs x f) o fo = map (pair k) (if slot_eqb x f o fo then cs else []).
Proof.
  unfold own. rewrite maint_on_app.
  assert (maint_on (if n then [(x, f, KUser k)] else []) o fo = []) as U.
  { destruct n; cbn; [|reflexivity]. destruct (slot_eqb x f o fo); reflexivity. }
  rewrite U. cbn [app]. unfold maint_on.
  destruct (slot_eqb x f o fo) eqn:Hs; induction cs as [|c cs IH]; cbn; rewrite ?Hs; cbn;
    try reflexivity; try (f_equal; exact IH); exact IH.
Qed.
Lemma users_on_own k n cs x f o fo :
  users_on (own k n cs x f) o fo = if n && slot_eqb x f o fo then [k] else [].
Proof.
  unfold own. rewrite users_on_app.
  assert (users_on (map (fun c => (x, f, KMaint k c)) cs) o fo = []) as M.
  { unfold users_on. apply flat_map_nil_In. intros a Ha. apply in_map_iff in Ha. destruct Ha as [c [<- _]].
    cbn. destruct (slot_eqb x f o fo); reflexivity. }
  rewrite M, app_nil_r. destruct n; cbn; [|reflexivity]. destruct (slot_eqb x f o fo); reflexivity.
Qed.
Lemma added_on_own k n cs x f x0 : added_on (own k n cs x f) x0 = [].
Proof.
  unfold added_on. apply flat_map_nil_In. intros [[z fz] kd] I. unfold own in I. apply in_app_or in I.
  destruct I as [I|I].
  - destruct n; [|destruct I]. destruct I as [E|[]]. inversion E. cbn. destruct (slot_eqb _ _ _ _); reflexivity.
  - apply in_map_iff in I. destruct I as [c [E _]]. inversion E. cbn. destruct (slot_eqb _ _ _ _); reflexivity.
Qed.

Lemma maint_on_expected t h k o fo g : forall x,
  Permutation (maint_on (expected t h k g x) o fo) (map (pair k) (occ t h g x o fo)).
Proof.
  induction g as [fs n e p cs IH] using graph_ind'. intros x. rewrite Forall_forall in IH.
  cbn [expected occ]. rewrite maint_on_app.
  assert (maint_on (if e then [(x, TA, KAdded k (G fs n e p cs))] else []) o fo = []) as A.
  { destruct e; cbn; [|reflexivity]. destruct (slot_eqb x TA o fo); reflexivity. }
  rewrite A. cbn [app]. unfold maint_on at 1. rewrite ffm, map_flat_map.
  apply Permutation_flat_map_In. intros f Hf. destruct (t x f); [|reflexivity].
  change (flat_map (maint_of o fo) ?l) with (maint_on l o fo). rewrite maint_on_app, maint_on_own, map_app.
  apply Permutation_app_head. unfold maint_on. rewrite ffm, map_flat_map.
  apply Permutation_flat_map_In. intros y _. rewrite ffm, map_flat_map.
  apply Permutation_flat_map_In. intros c Hc. apply IH. exact Hc.
Qed.

Lemma users_on_expected t h k o fo g : forall x,
  (exists u, In u (users_on (expected t h k g x) o fo)) <-> matched t h g x o fo = true.
Proof.
  induction g as [fs n e p cs IH] using graph_ind'. intros x. rewrite Forall_forall in IH.
  cbn [expected matched]. rewrite users_on_app.
  assert (users_on (if e then [(x, TA, KAdded k (G fs n e p cs))] else []) o fo = []) as A.
  { destruct e; cbn; [|reflexivity]. destruct (slot_eqb x TA o fo); reflexivity. }
  rewrite A. cbn [app]. unfold users_on at 1. split.
  - intros [u Hu]. apply in_flat_map in Hu. destruct Hu as [hk [Hhk Hu]].
    apply in_flat_map in Hhk. destruct Hhk as [f [Hf Hhk]].
    apply existsb_exists. exists f. split; [exact Hf|]. destruct (t x f); [|destruct Hhk]. cbn [andb].
    apply in_app_or in Hhk. destruct Hhk as [Hhk|Hhk].
    + assert (In u (users_on (own k n cs x f) o fo)) as I by (unfold users_on; apply in_flat_map; eauto).
      rewrite users_on_own in I. destruct (n && slot_eqb x f o fo); [reflexivity|destruct I].
    + apply orb_true_iff. right.
      apply in_flat_map in Hhk. destruct Hhk as [y [Hy Hhk]].
      apply in_flat_map in Hhk. destruct Hhk as [c [Hc Hhk]].
      apply existsb_exists. exists y. split; [exact Hy|]. apply existsb_exists. exists c. split; [exact Hc|].
      apply IH; [exact Hc|]. exists u. unfold users_on. apply in_flat_map. exists hk. split; assumption.
  - intros M. apply existsb_exists in M. destruct M as [f [Hf M]]. destruct (t x f) eqn:Tf; [|discriminate].
    cbn [andb] in M. apply orb_true_iff in M. destruct M as [M|M].
    + exists k.
      assert (In k (users_on (own k n cs x f) o fo)) as I by (rewrite users_on_own, M; left; reflexivity).
      unfold users_on in I. apply in_flat_map in I. destruct I as [hk [Hhk Hu]].
      apply in_flat_map. exists hk. split; [|exact Hu]. apply in_flat_map. exists f. split; [exact Hf|].
      rewrite Tf. apply in_or_app. left. exact Hhk.
    + apply existsb_exists in M. destruct M as [y [Hy M]]. apply existsb_exists in M.
      destruct M as [c [Hc M]]. apply (IH c Hc y) in M. destruct M as [u Hu].
      exists u. unfold users_on in Hu. apply in_flat_map in Hu. destruct Hu as [hk [Hhk Hu]].
      apply in_flat_map. exists hk. split; [|exact Hu]. apply in_flat_map. exists f. split; [exact Hf|].
      rewrite Tf. apply in_or_app. right.
      apply in_flat_map. exists y. split; [exact Hy|]. apply in_flat_map. exists c. split; assumption.
Qed.

Lemma expected_user_key t h k g : forall x z fz k', In (z, fz, KUser k') (expected t h k g x) -> k' = k.
Proof.
  induction g as [fs n e p cs IH] using graph_ind'. intros x z fz k' I. rewrite Forall_forall in IH.
  cbn [expected] in I. apply in_app_or in I. destruct I as [I|I].
  - destruct e; [|destruct I]. destruct I as [E|[]]. discriminate.
  - apply in_flat_map in I. destruct I as [f [Hf I]]. destruct (t x f); [|destruct I].
    apply in_app_or in I. destruct I as [I|I].
    + unfold own in I. apply in_app_or in I. destruct I as [I|I].
      * destruct n; [|destruct I]. destruct I as [E|[]]. inversion E. reflexivity.
      * apply in_map_iff in I. destruct I as [c [E _]]. discriminate.
    + apply in_flat_map in I. destruct I as [y [Hy I]]. apply in_flat_map in I. destruct I as [c [Hc I]].
      apply (IH c Hc y z fz k' I).
Qed.

Lemma users_on_expected_key t h k o fo g x u : In u (users_on (expected t h k g x) o fo) -> u = k.
Proof.
  unfold users_on. intros I. apply in_flat_map in I. destruct I as [[[z fz] kd] [Hhk Hu]].
  cbn in Hu. destruct (slot_eqb z fz o fo); [|destruct Hu]. destruct kd as [k'|k' c|k' c]; [|destruct Hu|destruct Hu].
  destruct Hu as [<-|[]]. eapply expected_user_key. exact Hhk.
Qed.

(* ---- several registrations ---- *)
Definition expected_reg (t : traits) (h : heap) (r : reg) : list hook := expected t h (fst r) (snd r) (snd (fst r)).
Definition expected_all (t : traits) (h : heap) (rs : list reg) : list hook := flat_map (expected_reg t h) rs.
Definition occ_reg (t : traits) (h : heap) (o : oid) (fo : fname) (r : reg) : list (hkey * graph) :=
  map (pair (fst r)) (occ t h (snd r) (snd (fst r)) o fo).
Definition occ_all (t : traits) (h : heap) (rs : list reg) (o : oid) (fo : fname) : list (hkey * graph) :=
  flat_map (occ_reg t h o fo) rs.

Definition S_of (t : traits) (h : heap) (M : list (hkey * graph)) (ys : list oid) : list hook :=
  flat_map (fun kc => sumexp t h (fst kc) [snd kc] ys) M.

Lemma S_of_app t h M ys zs : Permutation (S_of t h M (ys ++ zs)) (S_of t h M ys ++ S_of t h M zs).
Proof.
  unfold S_of. induction M as [|c M IH]; cbn [flat_map]; [reflexivity|].
  rewrite sumexp_app, IH. rewrite <- !app_assoc. apply Permutation_app_head.
  rewrite !app_assoc. apply Permutation_app_tail. apply Permutation_app_comm.
Qed.
Lemma S_of_perm_ys t h M ys zs : Permutation ys zs -> Permutation (S_of t h M ys) (S_of t h M zs).
Proof.
  intros P. unfold S_of. apply Permutation_flat_map_In. intros c _.
  unfold sumexp. apply flat_map_perm. exact P.
Qed.
Lemma S_of_perm_M t h M M' ys : Permutation M M' -> Permutation (S_of t h M ys) (S_of t h M' ys).
Proof. intros P. unfold S_of. apply flat_map_perm. exact P. Qed.

Lemma maint_on_expected_all t h rs o fo :
  Permutation (maint_on (expected_all t h rs) o fo) (occ_all t h rs o fo).
Proof.
  unfold maint_on, expected_all, occ_all. rewrite ffm.
  apply Permutation_flat_map_In. intros [k g] _. apply maint_on_expected.
Qed.

Section Step.
  Variables (t : traits) (h : heap) (rs : list reg) (o : oid) (fo : fname).
  Variables (news removed added : list oid).
  Let olds := h o fo.
  Let h' := upd h o fo news.
  (* the change event is a faithful delta (C05/C06/C07 guarantee this for containers) *)
  Hypothesis delta : Permutation (news ++ removed) (olds ++ added).
  Hypothesis removed_old : incl removed olds.
  Hypothesis added_new : incl added news.
  (* edge-acyclicity: the residual graphs at the slot do not lead back to the slot from
     its old or new content *)
  Hypothesis acyc : forall kc, In kc (occ_all t h rs o fo) ->
      forall y, In y olds \/ In y news -> visits t h (snd kc) y o fo = false.

  Variables (H H' : list hook).
  Hypothesis inv : Permutation H (expected_all t h rs).
  (* what the maintainers on the slot do, reading the heap AFTER the change *)
  Hypothesis step :
    Permutation (H' ++ S_of t h' (maint_on H o fo) removed) (H ++ S_of t h' (maint_on H o fo) added).

  Lemma S_of_frame M ys :
    (forall kc, In kc M -> In kc (occ_all t h rs o fo)) ->
    (forall y, In y ys -> In y olds \/ In y news) -> S_of t h' M ys = S_of t h M ys.
  Proof.
    intros HM Hy. unfold S_of. apply flat_map_ext_In. intros kc Hkc. unfold sumexp.
    apply flat_map_ext_In. intros y Iy. cbn [flat_map]. f_equal.
    apply expected_frame. apply acyc; [apply HM; exact Hkc|apply Hy; exact Iy].
  Qed.

  Lemma subst_all :
    Permutation (expected_all t h' rs ++ S_of t h (occ_all t h rs o fo) olds)
                (expected_all t h rs ++ S_of t h (occ_all t h rs o fo) news).
  Proof.
    unfold expected_all, occ_all, S_of. rewrite !interleave.
    apply Permutation_flat_map_In. intros [k g] Hr. unfold expected_reg, occ_reg. cbn [fst snd].
    rewrite !flat_map_map. cbn [fst snd].
    apply (expected_subst t h k o fo news g (snd k)).
    intros c Hc y Hy. apply (acyc (k, c)); [|exact Hy].
    apply in_flat_map. exists (k, g). split; [exact Hr|]. unfold occ_reg. cbn [fst snd].
    apply in_map. exact Hc.
  Qed.

  Theorem inv_preserved_all : Permutation H' (expected_all t h' rs).
  Proof.
    set (M := maint_on H o fo) in *.
    set (O := occ_all t h rs o fo) in *.
    assert (Permutation M O) as MO.
    { subst M O. rewrite <- maint_on_expected_all. unfold maint_on. apply flat_map_perm. exact inv. }
    assert (forall kc, In kc M -> In kc O) as MinO by (intros kc; apply Permutation_in; exact MO).
    rewrite (S_of_frame M removed MinO) in step by (intros y Iy; left; apply removed_old; exact Iy).
    rewrite (S_of_frame M added MinO) in step by (intros y Iy; right; apply added_new; exact Iy).
    pose proof subst_all as SUB. fold O in SUB.
    assert (Permutation (expected_all t h' rs ++ S_of t h O removed) (expected_all t h rs ++ S_of t h O added)) as KEY.
    { apply (Permutation_app_inv_r (S_of t h O olds)).
      rewrite <- !app_assoc.
      rewrite (Permutation_app_comm (S_of t h O removed)), (Permutation_app_comm (S_of t h O added)).
      rewrite !app_assoc. rewrite SUB. rewrite <- !app_assoc.
      apply Permutation_app_head.
      rewrite <- !S_of_app. apply S_of_perm_ys. exact delta. }
    apply (Permutation_app_inv_r (S_of t h O removed)).
    rewrite KEY. rewrite <- inv.
    rewrite <- (S_of_perm_M t h M O removed MO), <- (S_of_perm_M t h M O added MO).
    exact step.
  Qed.
End Step.

(* ---- add_trait on the hook level ---- *)
(* what one trait_added maintainer (graph g) adds for the new trait f0 of x0: the restricted
   named observer's notifier and maintainers (_trait_added_observer.py observer_change_handler) *)
Definition own_for (k : hkey) (x0 : oid) (f0 : fname) (g : graph) : list hook :=
  match g with
  | G fs n _ _ cs => flat_map (fun f => if Nat.eqb f f0 then own k n cs x0 f0 else []) fs
  end.
(* every node that names the dynamic trait f0 carries the trait_added extra graph *)
Fixpoint wf_dyn (f0 : fname) (g : graph) {struct g} : bool :=
  match g with
  | G fs _ e _ cs => (e || negb (existsb (Nat.eqb f0) fs)) && forallb (wf_dyn f0) cs
  end.

Lemma own_for_nil k x0 f0 fs n e p cs : existsb (Nat.eqb f0) fs = false -> own_for k x0 f0 (G fs n e p cs) = [].
Proof.
  intros E. cbn [own_for]. apply flat_map_nil_In. intros f Hf.
  destruct (Nat.eqb f f0) eqn:Q; [|reflexivity]. apply Nat.eqb_eq in Q. subst f.
  pose proof (existsb_false_In _ _ E f0 Hf) as X. rewrite Nat.eqb_refl in X. discriminate.
Qed.

Lemma added_bridge t h k x0 f0 g : forall x, wf_dyn f0 g = true ->
  Permutation (flat_map (own_of k x0 f0) (added_occ t h g x x0 f0))
              (flat_map (fun kg => own_for (fst kg) x0 f0 (snd kg)) (added_on (expected t h k g x) x0)).
Proof.
  induction g as [fs n e p cs IH] using graph_ind'. intros x W. rewrite Forall_forall in IH.
  cbn [wf_dyn] in W. apply andb_true_iff in W. destruct W as [W1 W2]. rewrite forallb_forall in W2.
  cbn [expected added_occ]. rewrite added_on_app, !flat_map_app. apply Permutation_app.
  - (* this node *)
    rewrite ffm.
    assert (flat_map (fun f => flat_map (own_of k x0 f0) (if slot_eqb x f x0 f0 then [G fs n e p cs] else [])) fs
            = if Nat.eqb x x0 then own_for k x0 f0 (G fs n e p cs) else []) as L.
    { unfold slot_eqb. destruct (Nat.eqb x x0); cbn [andb own_for].
      - apply flat_map_ext_In. intros f _. destruct (Nat.eqb f f0); cbn; rewrite ?app_nil_r; reflexivity.
      - apply flat_map_nil_In. reflexivity. }
    rewrite L. clear L.
    destruct e; cbn [orb] in W1.
    + cbn. unfold slot_eqb. rewrite Nat.eqb_refl, andb_true_r. destruct (Nat.eqb x x0); cbn; rewrite ?app_nil_r; reflexivity.
    + apply negb_true_iff in W1. rewrite (own_for_nil k x0 f0 fs n false p cs W1). cbn. destruct (Nat.eqb x x0); reflexivity.
  - (* below *)
    rewrite ffm. rewrite added_on_flat_map, ffm.
    apply Permutation_flat_map_In. intros f Hf. destruct (t x f); [|reflexivity].
    rewrite added_on_app, added_on_own. cbn [app].
    rewrite added_on_flat_map, !ffm. apply Permutation_flat_map_In. intros y _.
    rewrite added_on_flat_map, !ffm. apply Permutation_flat_map_In. intros c Hc.
    apply IH; [exact Hc|]. apply W2. exact Hc.
Qed.

Theorem inv_add_trait_all t h rs x0 f0 H :
  t x0 f0 = false -> h x0 f0 = [] -> forallb (fun r : reg => wf_dyn f0 (snd r)) rs = true ->
  Permutation H (expected_all t h rs) ->
  Permutation (H ++ flat_map (fun kg => own_for (fst kg) x0 f0 (snd kg)) (added_on H x0))
              (expected_all (add_trait t x0 f0) h rs).
Proof.
  intros Ft Nv W I. rewrite forallb_forall in W.
  assert (Permutation (added_on H x0) (added_on (expected_all t h rs) x0)) as A
    by (unfold added_on; apply flat_map_perm; exact I).
  rewrite (flat_map_perm _ _ _ A). rewrite I. clear A I.
  unfold expected_all, added_on. rewrite !ffm. rewrite flat_map_plus. symmetry.
  apply Permutation_flat_map_In. intros [k g] Hr. unfold expected_reg. cbn [fst snd].
  rewrite (expected_add_trait t h k x0 f0 Ft Nv g (snd k)). apply Permutation_app_head.
  rewrite <- ffm. apply added_bridge. apply (W (k, g) Hr).
Qed.

(* ---- decidable equality; the executable hook list ---- *)
Fixpoint list_nat_eqb (a b : list nat) : bool :=
  match a, b with
  | [], [] => true
  | x :: a', y :: b' => Nat.eqb x y && list_nat_eqb a' b'
  | _, _ => false
  end.
Lemma list_nat_eqb_spec a : forall b, list_nat_eqb a b = true <-> a = b.
Proof.
  induction a as [|x a IH]; intros [|y b]; cbn; try (split; [discriminate|discriminate]).
  - tauto.
  - rewrite andb_true_iff, Nat.eqb_eq, IH. split; [intros [-> ->]; reflexivity|intros [= -> ->]; tauto].
Qed.

Fixpoint graph_eqb (g1 g2 : graph) {struct g1} : bool :=
  match g1, g2 with
  | G f1 n1 e1 p1 cs1, G f2 n2 e2 p2 cs2 =>
      list_nat_eqb f1 f2 && Bool.eqb n1 n2 && Bool.eqb e1 e2 && Bool.eqb p1 p2 &&
      (fix go (l1 l2 : list graph) : bool :=
         match l1, l2 with
         | [], [] => true
         | a :: l1', b :: l2' => graph_eqb a b && go l1' l2'
         | _, _ => false
         end) cs1 cs2
  end.

Lemma graph_eqb_spec g1 : forall g2, graph_eqb g1 g2 = true <-> g1 = g2.
Proof.
  induction g1 as [f1 n1 e1 p1 cs1 IH] using graph_ind'. intros [f2 n2 e2 p2 cs2]. cbn [graph_eqb].
  rewrite !andb_true_iff, list_nat_eqb_spec, !eqb_true_iff.
  assert ((fix go (l1 l2 : list graph) : bool :=
             match l1, l2 with
             | [], [] => true
             | a :: l1', b :: l2' => graph_eqb a b && go l1' l2'
             | _, _ => false
             end) cs1 cs2 = true <-> cs1 = cs2) as L.
  { revert cs2. induction cs1 as [|a cs1 IHcs]; intros [|b cs2]; try (split; [discriminate|discriminate]).
    - split; reflexivity.
    - inversion IH as [|? ? Ha Hcs]; subst. rewrite andb_true_iff, (Ha b), (IHcs Hcs cs2).
      split; [intros [-> ->]; reflexivity|intros [= -> ->]; split; reflexivity]. }
  rewrite L. split; [intros [[[[-> ->] ->] ->] ->]; reflexivity|intros [= -> -> -> -> ->]; repeat split].
Qed.

Definition hkey_eqb (a b : hkey) : bool := Nat.eqb (fst a) (fst b) && Nat.eqb (snd a) (snd b).
Lemma hkey_eqb_spec a b : hkey_eqb a b = true <-> a = b.
Proof.
  destruct a, b. unfold hkey_eqb. cbn. rewrite andb_true_iff, !Nat.eqb_eq.
  split; [intros [-> ->]; reflexivity|intros [= -> ->]; split; reflexivity].
Qed.
Definition kind_eqb (a b : kind) : bool :=
  match a, b with
  | KUser k, KUser k' => hkey_eqb k k'
  | KMaint k c, KMaint k' d => hkey_eqb k k' && graph_eqb c d
  | KAdded k c, KAdded k' d => hkey_eqb k k' && graph_eqb c d
  | _, _ => false
  end.
Definition hook_eqb (a b : hook) : bool :=
  let '(x, f, k) := a in let '(y, g, k') := b in Nat.eqb x y && Nat.eqb f g && kind_eqb k k'.
Lemma hook_eqb_spec a b : hook_eqb a b = true <-> a = b.
Proof.
  destruct a as [[x f] k], b as [[y g] k']. cbn.
  rewrite !andb_true_iff, !Nat.eqb_eq.
  assert (kind_eqb k k' = true <-> k = k') as K.
  { destruct k, k'; cbn; try (split; [discriminate|discriminate]).
    - rewrite hkey_eqb_spec. split; [intros ->; reflexivity|intros [= ->]; reflexivity].
    - rewrite andb_true_iff, hkey_eqb_spec, graph_eqb_spec.
      split; [intros [-> ->]; reflexivity|intros [= -> ->]; split; reflexivity].
    - rewrite andb_true_iff, hkey_eqb_spec, graph_eqb_spec.
      split; [intros [-> ->]; reflexivity|intros [= -> ->]; split; reflexivity]. }
  rewrite K. split; [intros [[-> ->] ->]; reflexivity|intros [= -> -> ->]; repeat split].
Qed.

(* notifier.remove_from: remove the first equal notifier, NotifierNotFound (None) if absent *)
Fixpoint remove1 (x : hook) (H : list hook) : option (list hook) :=
  match H with
  | [] => None
  | y :: H' => if hook_eqb x y then Some H' else option_map (cons y) (remove1 x H')
  end.
Fixpoint remove_all (R H : list hook) : option (list hook) :=
  match R with
  | [] => Some H
  | x :: R' => match remove1 x H with Some H' => remove_all R' H' | None => None end
  end.

Lemma remove1_perm x H H' : remove1 x H = Some H' -> Permutation (x :: H') H.
Proof.
  revert H'. induction H as [|y H IH]; intros H' E; [discriminate|]. cbn in E.
  destruct (hook_eqb x y) eqn:Q.
  - apply hook_eqb_spec in Q. subst. inversion E; subst. reflexivity.
  - destruct (remove1 x H) as [H0|]; [|discriminate]. inversion E; subst.
    rewrite perm_swap. apply perm_skip. apply IH. reflexivity.
Qed.
Lemma remove_all_perm R : forall H H', remove_all R H = Some H' -> Permutation (H' ++ R) H.
Proof.
  induction R as [|x R IH]; intros H H' E; cbn in E.
  - inversion E; subst. rewrite app_nil_r. reflexivity.
  - destruct (remove1 x H) as [H0|] eqn:E1; [|discriminate].
    rewrite <- (remove1_perm _ _ _ E1). rewrite <- Permutation_middle. apply perm_skip. apply IH. exact E.
Qed.
Lemma remove1_complete x H : In x H -> exists H', remove1 x H = Some H'.
Proof.
  induction H as [|y H IH]; intros I; [destruct I|]. cbn.
  destruct (hook_eqb x y) eqn:Q; [eexists; reflexivity|].
  destruct I as [->|I].
  - assert (hook_eqb x x = true) by (apply hook_eqb_spec; reflexivity). congruence.
  - destruct (IH I) as [H' ->]. eexists. reflexivity.
Qed.
(* removal cannot fail when everything to be removed is present (as a multiset) *)
Lemma remove_all_complete R : forall H K, Permutation H (K ++ R) ->
  exists H', remove_all R H = Some H' /\ Permutation H' K.
Proof.
  induction R as [|x R IH]; intros H K P; cbn.
  - exists H. split; [reflexivity|]. rewrite app_nil_r in P. exact P.
  - assert (In x H) as I.
    { apply (Permutation_in x (Permutation_sym P)). apply in_or_app. right. left. reflexivity. }
    destruct (remove1_complete x H I) as [H1 E1]. rewrite E1.
    apply IH. apply remove1_perm in E1.
    apply (Permutation_cons_inv (a := x)). rewrite E1, P. symmetry. apply Permutation_middle.
Qed.
